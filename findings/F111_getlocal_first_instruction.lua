local seen = {}
local function names(level)
  local out, i = {}, 1
  while true do local n = debug.getlocal(level, i); if not n or n:sub(1,1) == "(" then break end; out[#out+1] = n; i = i + 1 end
  return table.concat(out, ",")
end
local obj = setmetatable({}, {__index = function(t, k) seen[#seen+1] = names(3); return 1 end})
local function f(a) return a.x end
f(obj)
local function g(a) local b = 7; local c = a.x; return c end
g(obj)
local function h(a) local b = a.x; local c = a.y; return b + c end
h(obj)
assert(seen[1] == "a", seen[1])
assert(seen[2] == "a,b", seen[2])
assert(seen[3] == "a", seen[3])           -- b is not yet in scope while its initialiser runs
assert(seen[4] == "a,b", seen[4])
print "ok"
