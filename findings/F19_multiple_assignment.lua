local function chk(name, got, want) if got ~= want then print("FAIL " .. name .. ": got " .. tostring(got) .. " want " .. tostring(want)) else print("ok   " .. name) end end
local a, b = 1, 2; a, b = b, a; chk("swap", a .. "," .. b, "2,1")
local x, y, z = 1, 2, 3; x, y, z = z, x, y; chk("rot", x .. y .. z, "312")
do local f, t, d = 1, {}, 'e'; f, t.d = f, d; chk("#315", f .. "," .. t.d, "1,e") end
do local f, t, d = 1, {}, 'e'; t.d, f = d, f + 1; chk("tbl,local", f .. "," .. t.d, "2,e") end
do local p, q = 1, 2; local t = {}; t.a, p, t.b, q = p, q, q, p; chk("mixed", t.a .. p .. t.b .. q, "1221") end
do local p, q = 1, 2; g1, p, g2 = p, q, q; chk("globals", g1 .. p .. g2, "122") end
do local p, q = 5, 6; local function up() p, q = q, p end; up(); chk("upvalue swap", p .. q, "65") end
do local t = {1, 2}; t[1], t[2] = t[2], t[1]; chk("table swap", t[1] .. t[2], "21") end
do local i = 1; local t = {}; i, t[i] = i + 1, 20; chk("eval order i", tostring(i) .. "," .. tostring(t[1]) .. "," .. tostring(t[2]), "2,20,nil") end
do local a1, a2, a3 = 1, 2, 3; a1, a2 = a2; chk("fewer rhs", tostring(a1) .. tostring(a2), "2nil") end
do local a1, a2 = 1, 2; a1, a2 = a2, a1, 99; chk("extra rhs", a1 .. a2, "21") end
do local function mr() return 7, 8, 9 end; local a1, a2, a3 = 0, 0, 0; a1, a2, a3 = a3, mr(); chk("multret", a1 .. a2 .. a3, "078") end
do local function mr() return 7, 8 end; local t = {}; local l = 1; l, t.x, t.y = l + 1, mr(); chk("multret tbl", l .. t.x .. t.y, "278") end
do local s = "v"; local k = nil; s = k and "n" or "still " .. s; chk("#issue", s, "still v") end
do local a1, b1 = 1, 2; a1, b1 = b1 + 0, a1 + 0; chk("swap expr", a1 .. b1, "21") end
do local a1, b1 = 1, 2; a1, b1 = (b1), (a1); chk("swap paren", a1 .. b1, "21") end
do local a1 = 1; a1 = a1 + 1; chk("single", a1, 2) end
do local a1, b1 = 1, 2; b1, a1 = a1, b1; chk("swap rev", a1 .. b1, "21") end
do local t = {}; local k = "k"; t[k], k = 1, "z"; chk("key local", tostring(t.k) .. k, "1z") end
do local a1, b1, c1 = 1, 2, 3; a1, b1, c1 = c1, c1, c1; chk("same", a1 .. b1 .. c1, "333") end
do local a1, b1 = {}, {}; a1.x, b1.x = 1, 2; a1.x, b1.x = b1.x, a1.x; chk("field swap", a1.x .. b1.x, "21") end
do local t = {}; local ok = pcall(function() t.x, t = 1, nil end); chk("conflict obj", tostring(ok), "true") end
do local t = {}; local u = t; t.x, t = 1, nil; chk("conflict obj2", tostring(u.x) .. tostring(t), "1nil") end
do local t = {}; local i = 1; t[i], i = "v", 2; chk("conflict key", tostring(t[1]) .. i, "v2") end
do local t = {}; local v = 1; t.a, v, t.b = v, 2, v; chk("conflict val", t.a .. v .. t.b, "121") end
do local a1, t = 1, {}; t.x, t.y, a1 = a1, a1 + 1, 5; chk("three", t.x .. t.y .. a1, "125") end
do local s = 0; local t = setmetatable({}, {__newindex = function(_, k, v) s = s * 10 + v end}); t.a, t.b, t.c = 1, 2, 3; chk("order rtl", s, 321) end
