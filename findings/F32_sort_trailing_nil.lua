local t = {3, 2, 1}
t[3] = nil
print(pcall(table.sort, t))
print(t[1], t[2], t[3])
local u = {5, 1, 4}
table.sort(u, function(a, b) return a > b end)
print(u[1], u[2], u[3])
table.sort({})
