local parts = {}
local body = ""
for i = 1, 25551 do parts[#parts+1] = "1"; if #parts == 1000 then body = body .. table.concat(parts, ",") .. ","; parts = {} end end
body = body .. table.concat(parts, ",")
local f = assert(loadstring("n = #{" .. body .. "} return n"))
print(type(f()), n)
local g = assert(loadstring("local t = {" .. body .. "} return #t"))
print(g())
