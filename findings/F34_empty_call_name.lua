local t = {[""] = function() error("x") end}
print(pcall(function() t[""]() end))
t[""]()
