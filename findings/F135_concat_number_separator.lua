assert(table.concat({1, 2, 3}, 0) == "10203")
assert(table.concat({1, 2, 3}) == "123")
assert(table.concat({1, 2, 3}, nil) == "123")
assert(not pcall(table.concat, {1, 2}, {}))
assert(not pcall(table.concat, {1, 2}, true))
print "ok"
