local f = string.format
assert(f("%+x", 255) == "ff" and f("% x", 255) == "ff" and f("%+o", 8) == "10" and f("%+u", 5) == "5")
assert(f("%#x", 0) == "0" and f("%#X", 0) == "0" and f("%#x", 255) == "0xff" and f("%#o", 8) == "010" and f("%#o", 0) == "0")
assert(f("%.0c", 65) == "A" and f("%3c|", 65) == "  A|" and f("%-3c|", 65) == "A  |")
assert(f("%+d", 5) == "+5" and f("% d", 5) == " 5" and f("%x", -1) == "ffffffffffffffff")
assert(("abc"):sub(-2^63) == "abc" and ("abc"):sub(-math.huge) == "abc" and ("abc"):sub(-2^63, -2^63) == "")
assert(("abc"):sub(-2) == "bc" and ("abc"):sub(0) == "abc" and ("abc"):sub(2, -2) == "b" and ("abc"):sub(-100, 100) == "abc" and ("abc"):sub(4) == "")
assert(("abc"):byte(-2^63) == nil)
for i = 1, 100 do local r = math.random(-2^62, 2^62); assert(r >= -2^62 and r <= 2^62) end
for i = 1, 100 do local r = math.random(-2^63, 2^63 - 1024); assert(r >= -2^63 and r <= 2^63) end
for i = 1, 100 do local r = math.random(3, 5); assert(r >= 3 and r <= 5 and r == math.floor(r)) end
assert(math.deg(2e306) < math.huge and math.rad(1e308) < math.huge)
assert(math.deg(math.pi) == 180 and math.rad(180) == math.pi and math.deg(0) == 0)
print "ok"
