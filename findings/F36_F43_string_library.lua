local function show(...) local t = {} for i = 1, select('#', ...) do t[i] = tostring((select(i, ...))) end return select('#', ...) .. ":" .. table.concat(t, ",") end
local checks = {
 {"byte()", show(("abc"):byte()), "1:97"},
 {"byte(2,nil)", show(("abc"):byte(2, nil)), "1:98"},
 {"byte(0,2)", show(("abc"):byte(0, 2)), "2:97,98"},
 {"byte(-1)", show(("abc"):byte(-1)), "1:99"},
 {"byte(1,-1)", show(("abc"):byte(1, -1)), "3:97,98,99"},
 {"byte(10)", show(("abc"):byte(10)), "0:"},
 {"byte(2,10)", show(("abc"):byte(2, 10)), "2:98,99"},
 {"byte(-10,2)", show(("abc"):byte(-10, 2)), "2:97,98"},
 {"byte(3,2)", show(("abc"):byte(3, 2)), "0:"},
 {"byte empty", show((""):byte()), "0:"},
 {"find plain past end", show(("abc"):find("b", 10, true)), "1:nil"},
 {"find empty at 10", show(("abc"):find("", 10)), "2:4,3"},
 {"find empty at 3", show(("abc"):find("", 3)), "2:3,2"},
 {"find empty", show(("abc"):find("")), "2:1,0"},
 {"find x* at 10", show(("abc"):find("x*", 10)), "2:4,3"},
 {"find b", show(("abc"):find("b")), "2:2,2"},
 {"find b plain init -1", show(("abcb"):find("b", -1, true)), "2:4,4"},
 {"match empty at 10", show(("abc"):match("", 10)), "1:"},
 {"match none", show(("a"):match("b")), "1:nil"},
 {"match cap", show(("key=val"):match("(%w+)=(%w+)")), "2:key,val"},
 {"format 100%%", string.format("100%%", 5), "100%"},
 {"format %d%%", string.format("%d%%", 5), "5%"},
 {"format %%%d", string.format("%%%d", 5), "%5"},
 {"format %+d str", string.format("%+d", "10"), "+10"},
 {"format %d str", string.format("%d", "42"), "42"},
 {"format %5.1f str", string.format("%5.1f", "2.25"), "  2.2"},
 {"gsub limit 0", show(("aaa"):gsub("a", "b", 0)), "2:aaa,0"},
 {"gsub limit 2", show(("aaa"):gsub("a", "b", 2)), "2:bba,2"},
 {"gsub all", show(("aaa"):gsub("a", "b")), "2:bbb,3"},
 {"backref ok", show(("abab"):find("(ab)%1")), "3:1,4,ab"},
 {"backref poscap", show(pcall(string.find, "a", "a()%1")), "2:true,nil"},
 {"sub beyond", ("abc"):sub(10), ""},
 {"sub 2,10", ("abc"):sub(2, 10), "bc"},
 {"sub -2", ("abc"):sub(-2), "bc"},
 {"sub 0", ("abc"):sub(0), "abc"},
}
local bad = 0
for _, c in ipairs(checks) do
  if c[2] ~= c[3] then bad = bad + 1; print("FAIL", c[1], "got", c[2], "want", c[3]) end
end
-- open capture back-reference: a Lua error, not a Go panic
local ok, msg = pcall(string.find, "xab", "(a(b)%1)")
if ok or not tostring(msg):find("invalid capture index") then bad = bad + 1; print("FAIL open backref", ok, msg) end
-- gmatch: self-contained iterator, safe after exhaustion
local f = string.gmatch("abc", ".")
local got = f() .. f() .. f()
if got ~= "abc" or f() ~= nil or f() ~= nil then bad = bad + 1; print("FAIL gmatch closure", got) end
local n = 0
for k, v in string.gmatch("a=1, b=2", "(%w+)=(%w+)") do n = n + 1 end
if n ~= 2 then bad = bad + 1; print("FAIL gmatch for", n) end
for w in ("x y"):gfind("%a") do n = n + 1 end
if n ~= 4 then bad = bad + 1; print("FAIL gfind", n) end
print(bad == 0 and "ALL OK" or (bad .. " failures"))
