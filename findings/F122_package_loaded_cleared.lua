for k in pairs(package.loaded) do package.loaded[k] = nil end
package.preload.m = function() return 1 end
assert(require "m" == 1)
local pk = package
package = nil
pk.preload.n = function() return 2 end
assert(require "n" == 2)
package = pk
print "ok"
