local a, b = unpack({[0]="z","a"}, 0, 1)
print("F8 expect z a:", a, b)
local t = {}
t[0] = "zero"; t[-1] = "neg"
print("F8 concat-ish expect zero:", (select(1, unpack(t, 0, 0))))
