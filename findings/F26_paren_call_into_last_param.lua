local function g(x) return x * 2 end
local function f(a) a = (g(a)) return a end
print(pcall(f, 21))
local function f2(a) a = g(a) return a end
print(pcall(f2, 21))
local function f3(p, a) a = (g(a)) return a end
print(pcall(f3, 0, 21))
