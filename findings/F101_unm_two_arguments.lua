local t = setmetatable({}, {__unm = function(a, b) return select("#", a, b) == 2 and rawequal(a, b) and b end})
assert(-t == t)
local n = 0
local u = setmetatable({}, {__unm = function(...) n = select("#", ...) return 1 end})
local _ = -u
assert(n == 2)
print "ok"
