local function names(level)
  local t = {}
  local i = 1
  while true do
    local n = debug.getlocal(level, i)
    if not n then break end
    if n ~= "(*temporary)" then t[#t + 1] = n end
    i = i + 1
  end
  return table.concat(t, ",")
end
local seen = {}
local function it(s, c)
  seen[#seen + 1] = names(3)
  if c < 2 then return c + 1 end
end
local function run()
  local a = 1
  for v in it, nil, 0 do local q = v end
end
run()
assert(seen[1] == "a,(for generator),(for state),(for control)", seen[1])
assert(seen[2] == seen[1] and seen[3] == seen[1], seen[2])
-- behaviour: closures capture a fresh variable per iteration, break works, values right
local fs = {}
for i, v in ipairs({10, 20, 30}) do fs[i] = function() return v end if i == 2 then break end end
assert(fs[1]() == 10 and fs[2]() == 20 and fs[3] == nil)
local s = 0
for k, v in pairs({a = 1, b = 2}) do s = s + v end
assert(s == 3)
for i, v in ipairs({1, 2, 3}) do
  if v == 2 then goto continue end
  s = s + v
  ::continue::
end
assert(s == 7)
print "ok"
