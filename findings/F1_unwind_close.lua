-- F1a: pcall(error) detaches callers' closures
local x = 1
local g = function() return x end
pcall(error, "e")
x = 2
print("F1a expect 2:", g())
-- F1b: xpcall leaves upvalues open over reclaimed registers
local function mk()
  local f
  xpcall(function() local v = 42; f = function() return v end; error("x") end, function(m) return m end)
  return f
end
local f = mk()
local a, b, c, d = 1, 2, 3, 4
local function clobber(p, q, r, s) local t = {p, q, r, s}; return #t end
clobber(7, 8, 9, 10)
print("F1b expect 42:", f())
-- F1c: go panic
local function mk2()
  local f
  pcall(function() local v = 42; f = function() return v end; gopanic() end)
  return f
end
local f2 = mk2()
clobber(7, 8, 9, 10)
print("F1c expect 42:", f2())
-- coroutine error: closure escapes from dying coroutine
local esc
local co = coroutine.create(function() local v = 99; esc = function() return v end; error("dead") end)
coroutine.resume(co)
print("F1d expect 99:", esc())
local w = coroutine.wrap(function() local v = 77; esc = function() return v end; error("dead") end)
pcall(w)
print("F1e expect 77:", esc())
