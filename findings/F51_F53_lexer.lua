local function try(src) local f, err = loadstring(src); if not f then return "ERR:" .. tostring(err):gsub("\n", " ") end; return tostring((f())) end
local cases = {
 {"--[= note\nreturn 1", "1"},
 {"--[==\nreturn 2", "2"},
 {"--[=[ long\n ]=] return 3", "3"},
 {"--[[ x ]] return 4", "4"},
 {"--[==[ a ]] b ]==] return 5", "5"},
 {"--[ just a bracket\nreturn 6", "6"},
 {"--[=", "nil"},
 {"return --[=[c]=] 7", "7"},
 {"return\f8", "8"},
 {"return\v9", "9"},
 {"return '\\065\\10\\255'", "A\n\255"},
 {"return [==[\nx]]y]==]", "x]]y"},
 {"return [[a]]", "a"},
}
local bad = 0
for _, c in ipairs(cases) do local got = try(c[1]); if got ~= c[2] then bad = bad + 1; print("FAIL", (c[1]:gsub("\n", "\\n")), "got", got, "want", c[2]) end end
for _, src in ipairs{"return '\\256'", "return '\\300'", "return '\\999'", "--[==[ never closed", "return [=[ never closed"} do
  local f, err = loadstring(src); if f then bad = bad + 1; print("FAIL accepted", src) end
end
print(bad == 0 and "ALL OK" or bad .. " failures")
