local t, u, s = {}, {}, "pad"
print(pcall(function() ("abc").x = 1 end))
print(t.x, u.x)
local function f() local a, b = {}, {}; (5).y = 2; return a.y, b.y end
print(pcall(f))
