function g
(a)
end
assert(debug.getinfo(g, "S").linedefined == 1, debug.getinfo(g, "S").linedefined)
local t = {}
function t.
  m
  (a)
  return a
end
assert(debug.getinfo(t.m, "S").linedefined == 6 and debug.getinfo(t.m, "S").lastlinedefined == 10)
function t:n() end
assert(debug.getinfo(t.n, "S").linedefined == 12)
local h = function
()
end
assert(debug.getinfo(h, "S").linedefined == 14)
print "ok"
