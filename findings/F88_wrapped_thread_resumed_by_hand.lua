local co
local f = coroutine.wrap(function(a) co = coroutine.running(); local x = coroutine.yield(1); local y = coroutine.yield(x); error("boom") end)
assert(f() == 1)
local r = {coroutine.resume(co, "v")}
assert(r[1] == true and r[2] == "v" and #r == 2, tostring(r[1]))
-- ... and back through the wrapper: plain values again
local ok, err = pcall(f, "w")
assert(ok == false and tostring(err):find("boom"))
-- a coroutine made by create, driven by hand only
local c2 = coroutine.create(function() coroutine.yield(1) error("e2") end)
assert(select("#", coroutine.resume(c2)) == 2)
local r2 = {coroutine.resume(c2)}
assert(r2[1] == false and tostring(r2[2]):find("e2"))
-- a wrapped coroutine that resumes itself by hand while running: false, msg; its wrapper still yields plain values
local self
local g = coroutine.wrap(function() self = coroutine.running(); local a, b = coroutine.resume(self); coroutine.yield(a, b); return "done" end)
local a, b = g()
assert(a == false and tostring(b):find("running"))
assert(g() == "done")
print "ok"
