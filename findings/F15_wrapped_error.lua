local co
local w = coroutine.wrap(function() co = coroutine.running(); error("boom") end)
print("pcall(w):", pcall(w))
print("F15a status expect dead:", coroutine.status(co))
print("F15b running() in main expect nil:", coroutine.running())
print("F15c resume dead expect false cannot resume dead:", pcall(coroutine.resume, co))
-- nested: wrapped coroutine failing inside another coroutine
local outer = coroutine.create(function()
  local inner
  local w2 = coroutine.wrap(function() inner = coroutine.running(); error("in") end)
  local ok = pcall(w2)
  return coroutine.status(inner), coroutine.running() ~= inner
end)
print("F15d expect true dead true:", coroutine.resume(outer))
