local function near(a, b) return math.abs(a - b) <= 1e-13 * math.abs(b) end
local ln2, ln10 = 0.6931471805599453, 2.302585092994046
assert(near(math.log(2^-1074), -1074 * ln2), tostring(math.log(2^-1074)))
assert(near(math.log(5e-324), -744.4400719213812))
assert(near(math.log10(5e-324), -323.3062153431158), tostring(math.log10(5e-324)))
assert(near(math.log(1e-310), -310 * ln10), tostring(math.log(1e-310)))
assert(near(math.log10(1e-310), -310), tostring(math.log10(1e-310)))
assert(math.abs(math.log10(1e-320) + 320) < 1e-5)
assert(math.log(1) == 0 and math.log10(1000) == 3 and math.log10(1e-300) == -300)
assert(math.log(0) == -math.huge and math.log(-1) ~= math.log(-1))
assert(near(math.log(2^-1022), -1022 * ln2))
assert(near(math.log(2^-1023), -1023 * ln2))
print "ok"
