local function g() return 1 end
local function n() return nil end
local x = 5; x = (g() or 2) and x; print(x, "expect 5")
local y = 5; y = (n() and 2) or y; print(y, "expect 5")
local z = 5; z = n() and 1; print(z, "expect nil")
local w = 5; w = g() and n(); print(w, "expect nil")
local u = 5; u = n() or n(); print(u, "expect nil")
local v = 5; v = g() and g() and n() and 3; print(v, "expect nil")
local a = 5; a = (n() or g()) and (n() and 2); print(a, "expect nil")
local b = 5; local t = {}; b = t.q and t.q.r; print(b, "expect nil")
local c = 5; c = not g() and 1; print(c, "expect false")
local d = 5; d = (g() == 2) and 1; print(d, "expect false")
local e = 5; e = false and 1; print(e, "expect false")
local f = 5; f = nil and 1; print(f, "expect nil")
