-- every single byte and some pairs round-trip through %q
for b = 0, 255 do
  local s = string.char(b)
  local back = loadstring("return " .. string.format("%q", s))()
  assert(back == s, "byte " .. b)
  local s2 = "x" .. s .. "1" .. s
  assert(loadstring("return " .. string.format("%q", s2))() == s2, "byte pair " .. b)
end
print("F12 all 256 bytes round trip ok")
