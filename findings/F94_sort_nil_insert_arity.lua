local t = {3, 1, 2}
table.sort(t, nil)
assert(t[1] == 1 and t[2] == 2 and t[3] == 3)
assert(not pcall(table.sort, t, 1))
assert(not pcall(table.insert, {1, 2, 3}, 1, 2, 3))
assert(not pcall(table.insert, {1, 2, 3}))
local u = {1, 2}
table.insert(u, 1, "x") ; table.insert(u, "y")
assert(u[1] == "x" and u[4] == "y" and #u == 4)
print "ok"
