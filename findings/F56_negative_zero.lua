local z = 0
print(1/(z * -1), 1/(-z), 1/(0 * -1), 1/z, 1/(z*1))
local t = {}; t[z * -1] = "neg"; print(t[0])
print((z * -1) == 0, tostring(z * -1) == "-0" or tostring(z * -1))
