local function show(...) local t = {} for i = 1, select('#', ...) do t[i] = tostring((select(i, ...))) end return select('#', ...) .. ":" .. table.concat(t, ",") end
local bad = 0
local function eq(name, got, want) if got ~= want then bad = bad + 1; print("FAIL", name, "got", got, "want", want) end end
eq("concat 4,3", table.concat({"a","b","c"}, ",", 4, 3), "")
eq("concat 2,3", table.concat({"a","b","c"}, ",", 2, 3), "b,c")
eq("concat default", table.concat({"a","b","c"}, ","), "a,b,c")
eq("concat i=4", table.concat({"a","b","c"}, ",", 4), "")
eq("concat nums", table.concat({1, 2.5, "x"}), "12.5x")
eq("concat empty", table.concat({}), "")
eq("concat 0,2 errors", tostring(pcall(table.concat, {"a","b"}, ",", 0, 2)), "false")
eq("concat hole errors", tostring(pcall(table.concat, {"a", nil, "c"}, ",", 1, 3)), "false")
local big = {} for i = 1, 50000 do big[i] = "x" end
eq("concat big", #table.concat(big, ","), 99999)
local t = {1, 2, 3}; t[3] = nil
eq("remove after trailing nil", show(table.remove(t)), "1:2"); eq("left", show(#t, t[1], t[2]), "3:1,1,nil")
eq("remove empty", show(table.remove({})), "0:")
t = {1, 2, 3}
eq("remove 0", show(table.remove(t, 0)), "0:"); eq("remove 5", show(table.remove(t, 5)), "0:"); eq("still", #t, 3)
eq("remove 1", show(table.remove(t, 1)), "1:1"); eq("after", show(t[1], t[2], t[3]), "3:2,3,nil")
eq("remove last", show(table.remove(t)), "1:3")
eq("maxn hash", table.maxn({[1e9] = 1}), 1e9)
eq("maxn mixed", table.maxn({1, 2, [10] = 1, [2.5] = 1, x = 1}), 10)
eq("maxn frac", table.maxn({[2.5] = 1}), 2.5)
eq("maxn empty", table.maxn({}), 0)
-- remove during a list traversal by index still consistent
t = {} for i = 1, 10 do t[i] = i end
for i = 10, 1, -1 do if i % 2 == 0 then table.remove(t, i) end end
eq("evens removed", table.concat(t, ","), "1,3,5,7,9")
print(bad == 0 and "ALL OK" or bad .. " failures")
