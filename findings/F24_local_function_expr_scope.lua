f = "global"
local f = function() return f end
print(type(f()))   -- Lua 5.1: string
local function r(n) if n == 0 then return "done" end return r(n-1) end
print(r(3))
local print2 = print
local print = function(...) print2("wrapped", ...) end
print("x")
local fib = function(n) return n end
local function fib2(n) if n < 2 then return n end return fib2(n-1) + fib2(n-2) end
print(fib2(10))
local outer = function() return "outer" end
do
  local outer = function() return outer() .. "+inner" end
  print(outer())
end
