local f = assert(io.open("/tmp/t5.lua", nil))
assert(f:read(5) == "local"); f:close()
f = assert(io.open("/tmp/zz_out.txt", "w+b")); f:write("xyz"); f:seek("set", 0); assert(f:read("*a") == "xyz"); f:close()
f = assert(io.open("/tmp/zz_out.txt", "r+b")); f:write("A"); f:seek("set", 0); assert(f:read("*a") == "Ayz"); f:close()
f = assert(io.open("/tmp/zz_out.txt", "a+b")); f:write("!"); f:seek("set", 0); assert(f:read("*a") == "Ayz!"); f:close()
print(pcall(io.open, "/tmp/zz_out.txt", "x"))
print "ok"
