local f = (
function() end)
assert(debug.getinfo(f, "S").linedefined == 2)
local g = (function() end)
assert(debug.getinfo(g, "S").linedefined == 4)
local h = ((

  function()
  end))
assert(debug.getinfo(h, "S").linedefined == 8 and debug.getinfo(h, "S").lastlinedefined == 9)
-- other parenthesised expressions keep reporting the line of the opening parenthesis
local ok, e = pcall(function()
  local t
  return (t
    .x)
end)
assert(e:find(":14:") or e:find(":15:"), e)
print "ok"
