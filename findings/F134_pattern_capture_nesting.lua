local ok, e = pcall(string.find, "abc", string.rep("(", 1000000))
assert(not ok and e:find("too many captures"), tostring(e))
ok, e = pcall(string.find, "abc", string.rep("(", 33) .. "a" .. string.rep(")", 33))
assert(not ok and e:find("too many captures"), tostring(e))
local p = string.rep("(", 32) .. "a" .. string.rep(")", 32)
assert(string.find("a", p) == 1)
assert(select('#', string.find("a", p)) == 34)
-- sequential captures are not nesting
assert(string.find("aaaa", "(a)(a)(a)(a)") == 1)
print "ok"
