local function rec(...) return 1 + rec(1,2,3,4,5,6,7,8, ...) end
print(xpcall(rec, function(m) return "H:" .. tostring(m) end))
print("still alive")
local function deep(n) return 1 + deep(n + 1) end
print(xpcall(deep, function(m) return "H2:" .. tostring(m) end, 1))
print("still alive 2")
