local a, b = 0, -0
print(1/a, 1/b)
local c, d = -0, 0
print(1/c, 1/d)
local function g() error("x", 2) end
local function f() return g() end
local function h()
  f()            -- line 8
end
print(pcall(h))
print(pcall(function() local function e() error("lvl3", 3) end local function m() e() end m() end))
