for e = -300, 308 do assert(math.log10(tonumber("1e" .. e)) == e, e) end
assert(math.abs(math.log10(2) - 0.30102999566398) < 1e-13 and math.log10(0) == -math.huge and math.log10(1) == 0 and math.log10(3e10) > 10.4)
assert(select("#", string.gsub("abc", "b", 5)) == 2 and string.gsub("abc", "b", 5) == "a5c" and string.gsub("abc", "%w", 1.5) == "1.51.51.5")
assert(not pcall(string.gsub, "abc", "b", true))
print "ok"
