local function gen(n, rhs) local t = {} for i = 1, n do t[i] = "g" .. i end return table.concat(t, ",") .. " = " .. rhs end
for _, n in ipairs{2, 100, 250, 509, 510, 511, 600, 1000} do
  local f, err = loadstring("local function f() return 1, 2, 3 end " .. gen(n, "f()"))
  local ok, e2 = pcall(function() if f then f() end end)
  print(n, f and "compiled" or ("rejected: " .. tostring(err):gsub("\n", " "):sub(1, 70)), ok and "" or tostring(e2):sub(1, 60))
end
local f, err = loadstring("local function v(...) " .. gen(600, "...") .. " end")
print("vararg 600", f and "compiled" or "rejected")
