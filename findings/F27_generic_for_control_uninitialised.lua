local t = {x = 1, y = 2}
local a = "a"
local function h()
  local s2 = a .. "b" .. "c" .. "d"
  for k in next, t do s2 = s2 .. k end
  return s2
end
print(pcall(h))
local function h2()
  local s2 = a .. "b" .. "c" .. "d"
  for k in next, t, nil do s2 = s2 .. k end
  return #s2
end
print(pcall(h2))
