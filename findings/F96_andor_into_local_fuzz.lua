-- random and/or/not expression trees; expected value from an explicit evaluator
math.randomseed(12345)
local leaves = {
  {"nil", nil}, {"false", false}, {"true", true}, {"1", 1}, {"'s'", "s"},
  {"N()", nil}, {"F()", false}, {"T()", true}, {"G()", 7}, {"ln", nil}, {"lf", false}, {"lv", 9}, {"t.q", nil}, {"t.v", 3},
  {"(lv == 9)", true}, {"(lv ~= 9)", false}, {"(lv < 3)", false}, {"x", "X"},
}
local function gen(d)
  if d == 0 or math.random() < 0.25 then
    local l = leaves[math.random(#leaves)]
    return {s = l[1], v = l[2]}
  end
  local r = math.random()
  if r < 0.15 then
    local a = gen(d - 1)
    return {s = "not " .. a.s, v = not a.v}
  end
  local a, b = gen(d - 1), gen(d - 1)
  if r < 0.6 then
    local v; if a.v then v = b.v else v = a.v end
    return {s = "(" .. a.s .. " and " .. b.s .. ")", v = v}
  else
    local v; if a.v then v = a.v else v = b.v end
    return {s = "(" .. a.s .. " or " .. b.s .. ")", v = v}
  end
end
local bad = 0
local prelude = [[
local function N() return nil end local function F() return false end local function T() return true end local function G() return 7 end
local ln, lf, lv, t = nil, false, 9, {v = 3}
]]
for i = 1, 20000 do
  local e = gen(math.random(1, 4))
  local s = e.s:gsub("^%((.*)%)$", "%1")
  local forms = {
    prelude .. "local x = 'X'; x = " .. s .. "; return x",
    prelude .. "local x = 'X'; local y = " .. s .. "; return y",
    prelude .. "local x = 'X'; g = " .. s .. "; return g",
    prelude .. "local x = 'X'; local r = {" .. s .. "}; return r[1]",
    prelude .. "local x = 'X'; return (" .. s .. ")",
    prelude .. "local x = 'X'; if " .. s .. " then return true else return false end",
    prelude .. "local x = 'X'; local a, b = 1, " .. s .. "; return b",
    prelude .. "local x = 'X'; x = " .. s .. " ; x = " .. s:gsub("x", "'X'") .. "; return x",
  }
  for k, src in ipairs(forms) do
    local f, err = loadstring(src)
    if not f then print("LOAD ERROR", err, src) bad = bad + 1 break end
    local got = f()
    local want = e.v
    if k == 6 then want = not not e.v end
    if got ~= want then
      bad = bad + 1
      if bad < 12 then print("MISMATCH form " .. k .. ": " .. s, "got", got, "want", want) end
    end
  end
end
print("bad", bad)
