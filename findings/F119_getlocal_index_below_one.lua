local function f() local a = 1; return debug.getlocal(1, 0) end
assert(f() == nil)
local function g() local a = 1; return debug.getlocal(1, -1) end
assert(g() == nil)
local function h() local a = 1; return debug.setlocal(1, 0, 5) end
assert(h() == nil)
local function k() local a = 7; return debug.getlocal(1, 1) end
local n, v = k(); assert(n == "a" and v == 7)
print "ok"
