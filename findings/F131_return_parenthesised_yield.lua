local co = coroutine.wrap(function() return (coroutine.yield()) end)
co()
assert(select('#', co(1, 2, 3)) == 1)
local co2 = coroutine.create(function() return (coroutine.yield()) end)
coroutine.resume(co2)
local r = {coroutine.resume(co2, 7, 8, 9)}
assert(#r == 2 and r[1] == true and r[2] == 7)
local function f() return 1, 2, 3 end
local function g() return (f()) end
assert(select('#', g()) == 1 and g() == 1)
local function h() return (select(2, "a", "b", "c")) end
assert(select('#', h()) == 1 and h() == "b")
local function none() end
local function k() return (none()) end
assert(select('#', k()) == 1 and k() == nil)
print "ok"
