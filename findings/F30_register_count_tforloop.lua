local function mk2(t)
  for k, v in pairs(t) do return k end
end
return mk2
