local n = 0
local inc = function() n = n + 1 end
for i = 1, 3 do
  if i == 2 then goto c end
  inc()
  ::c::
end
print("F2a expect 2:", n)
-- break after backward goto with closure captured later in block
local fs = {}
local k = 0
while true do
  local x = 0
  ::again::
  if x > 0 then break end
  fs[#fs+1] = function() return x end
  x = x + 10
  goto again
end
local function clobber(p, q, r, s) local t = {p, q, r, s}; return #t end
clobber(1,2,3,4)
print("F2b expect 10:", fs[1]())
