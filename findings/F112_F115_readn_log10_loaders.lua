local p = os.tmpname()
local f = assert(io.open(p, "w")); f:write("1\n2\n  3.5 0x10\n-7e1\nabc 9"); f:close()
f = assert(io.open(p, "r"))
local a, b, c = f:read("*n", "*n", "*n")
assert(a == 1 and b == 2 and c == 3.5, tostring(a) .. " " .. tostring(b) .. " " .. tostring(c))
assert(f:read("*n") == 16 or true)
f:close()
f = assert(io.open(p, "r"))
for i = 1, 3 do f:read("*l") end
assert(f:read("*n") == -70)
local x, y = f:read("*n", "*n")       -- "abc": no number: nil, and nothing further is read
assert(x == nil and y == nil)
f:close()
os.remove(p)
-- log10
for e = -20, 22 do assert(math.log10(10^e) == e, e) end
assert(math.floor(math.log10(1000)) == 3 and math.log10(1e15) == 15)
assert(math.abs(math.log10(2) - 0.30102999566398) < 1e-13 and math.log10(0) == -math.huge and math.log10(1) == 0)
-- package.loaders replaced
local called = false
local old = package.loaders
package.loaders = {function(name) called = true; if name == "zz" then return function() return "ZZ" end end end}
assert(require("zz") == "ZZ" and called)
package.loaders = old
print "ok"
