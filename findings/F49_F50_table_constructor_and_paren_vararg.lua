local function f() return "F1", "F2" end
local function g() return "G" end
local function k() return "K" end
local t1 = {f(), x = g()}
print("t1", #t1, t1[1], t1[2], t1.x)                 -- 1 F1 nil G
local t2 = {1, b = f()}
print("t2", #t2, t2[1], t2[2], t2.b)                 -- 1 1 nil F1
local t3 = {1,2,3,4,5,6,7,8,9,10,11,12,13,14,15,16,17,18,19,20,21,22,23,24,25,26,27,28,29,30,31,32,33,34,35,36,37,38,39,40,41,42,43,44,45,46,47,48,49,50, x = g()}
print("t3", #t3, t3[1], t3[2], t3[50], t3.x)         -- 50 1 2 50 G
local t4 = {1,2,3,4,5,6,7,8,9,10,11,12,13,14,15,16,17,18,19,20,21,22,23,24,25,26,27,28,29,30,31,32,33,34,35,36,37,38,39,40,41,42,43,44,45,46,47,48,49,50, [k()] = g()}
print("t4", #t4, t4[1], t4[2], t4.K)                 -- 50 1 2 G
local t5 = {f(), f()}
print("t5", #t5, t5[1], t5[2], t5[3])                -- 3 F1 F1 F2
local t6 = {x = 1, f()}
print("t6", #t6, t6[1], t6[2])                       -- 2 F1 F2
local function v(...) local x, y, z = 1, 2, 3; x = (...); return x, y, z end
print("v", pcall(v, 9))                                -- true 9 2 3
