local r, n = string.gsub(123, "x", "y")
assert(r == "123" and type(r) == "string" and n == 0)
r, n = string.gsub(123, "2", "y", 0)
assert(r == "123" and type(r) == "string" and n == 0)
r, n = string.gsub("abc", "x", "y")
assert(r == "abc" and n == 0)
assert(select('#', string.gsub("abc", "x", "y", 1, "extra")) == 2)
print "ok"
