print(package.loaded.package, pcall(require, "package"))
print(package.loaded.string == string, require("string") == string, require("_G") == _G)
