local g = assert(io.open("/tmp/zz_out.txt", "w"))
assert(g:setvbuf("line"))
g:write("a\n", "b")
assert(g:setvbuf("full", 16))
g:write("c")
assert(g:setvbuf("no"))
g:close()
assert(io.open("/tmp/zz_out.txt"):read("*a") == "a\nbc")
print "ok"
