local function f(a, ...) return arg end
local function g(...) return f(...) end
local t = g(1, 2, 3)
assert(type(t) == "table" and t.n == 2 and t[1] == 2 and t[2] == 3)
local function h(...) return arg end
local function k(...) return h(...) end
t = k("x", "y")
assert(type(t) == "table" and t.n == 2 and t[2] == "y")
-- ordinary tail calls keep working, with and without varargs, to any depth
local function count(n, acc) if n == 0 then return acc end return count(n - 1, acc + 1) end
assert(count(100000, 0) == 100000)
local function va(n, ...) if n == 0 then return select("#", ...), ... end return va(n - 1, ...) end
local c, x, y = va(1000, "p", "q")
assert(c == 2 and x == "p" and y == "q")
local function second(a, b) return b end
local function t2(x, y) return second(x, y) end
assert(t2(1, 2) == 2)
print "ok"
