local p = os.tmpname()
local f = assert(io.open(p, "w+"))
f:write("abcdefgh"); f:seek("set", 0)
f:setvbuf("full", 64)
f:write("XY")
assert(f:read(2) == "cd", "read after buffered write")
assert(f:seek() == 4)
f:close()
assert(io.open(p):read("*a") == "XYcdefgh")
-- r+ with lines iterator
f = assert(io.open(p, "w")); f:write("0123456789\nline2\n"); f:close()
f = assert(io.open(p, "r+")); f:setvbuf("full", 100); f:write("ab")
for l in f:lines() do assert(l == "23456789", l) break end
f:close()
assert(io.open(p):read("*a") == "ab23456789\nline2\n")
os.remove(p)
print "ok"
