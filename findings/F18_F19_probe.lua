local function f() return 'a','b' end
local t = {1,2,3,4,5,6,7,8,9,10,11,12,13,14,15,16,17,18,19,20,21,22,23,24,25,26,27,28,29,30,31,32,33,34,35,36,37,38,39,40,41,42,43,44,45,46,47,48,49,50, f()}
print("F18 expect 52 1 a b:", #t, t[1], t[51], t[52])
-- swap
local a, b = 1, 2
a, b = b, a
print("swap expect 2 1:", a, b)
local x, y, z = 1, 2, 3
x, y, z = z, x, y
print("rot expect 3 1 2:", x, y, z)
-- logical
local p = nil
local q = 5
q = (p or 3) and q
print("and/or expect 5:", q)
local r = 7
r = (p or r) and 9
print("expect 9:", r)
-- last parameter call special case
local function g(u, v) v = tostring(v); return u, v end
print("lastparam expect 1 2:", g(1, 2))
local function h2(fn, arg) arg = fn(arg); return arg end
print("expect 4:", h2(function(k) return k * 2 end, 2))
local function h3(a1, fn) fn = fn(a1); return fn end
print("expect 6:", h3(3, function(k) return k * 2 end))
