local function lvl3() error("three", 3) end
local function mid() lvl3() end   -- 2
local function top()
  mid()                            -- 4
end
print(pcall(top))
print(pcall(error, "direct"))
print(pcall(error, "direct2", 2))
print(pcall(function() local x = nil; return x.y end))
print(pcall(function() return string.rep() end))
print(pcall(function() return ("x"):bad() end))
local co = coroutine.wrap(function() error("in co", 2) end)
print(pcall(co))
print(pcall(function() error("zero", 0) end))
print(pcall(function() error({}) end))
print(select(2, pcall(function() error("tail") end)))
local function tc() return error("tailcalled", 2) end
local function tcc()
   tc()   -- 19
end
print(pcall(tcc))
