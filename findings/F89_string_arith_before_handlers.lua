local smt = getmetatable("")
smt.__add = function(a, b) return "meta" end
smt.__unm = function(a) return "metaunm" end
assert("10" + 1 == 11, tostring("10" + 1))
assert(1 + "10" == 11)
assert("3" + "4" == 7)
assert("abc" + 1 == "meta")       -- no conversion: the handler, with the original operands
assert(1 + "abc" == "meta")
smt.__add = function(a, b) return type(a) .. ":" .. type(b) .. ":" .. tostring(a) .. ":" .. tostring(b) end
assert("x" + "10" == "string:string:x:10")
smt.__add = nil
local t = setmetatable({}, {__add = function(a, b) return type(a) .. type(b) end})
assert("10" + t == "stringtable" and t + "10" == "tablestring")
assert(not pcall(function() return "abc" + 1 end))
print "ok"
smt.__unm = function(a) return "metaunm:" .. a end
assert(-"10" == -10)
assert(-"abc" == "metaunm:abc")
smt.__unm = nil
assert(not pcall(function() return -"abc" end))
assert(-"0x10" == -16)
print "ok2"
