for _, src in ipairs{"if 1e then return 'accepted' end", "local x = 1e and 2", "while 0x do end", "local y = 3 or 1e", "if not 1e then end", "return 1e", "if 2 and 1e then end", "local z = (1e) and 1"} do
  local f, err = loadstring(src)
  print(src, f and "ACCEPTED" or "rejected")
end
print(loadstring("if 1 then return 'ok' end")())
