local t = {1, 2, 3, a = 1, b = 2}
local seen = {}
for k in pairs(t) do seen[#seen+1] = tostring(k); if k == 3 then table.remove(t) end end
table.sort(seen); print(table.concat(seen, " "))
-- clearing array slots from the end during traversal
t = {10, 20, 30, 40, x = 1, y = 2, [2^30] = 3}
seen = {}
for k in pairs(t) do seen[#seen+1] = tostring(k); if k == 4 then table.remove(t); table.remove(t) end end
table.sort(seen); print(table.concat(seen, " "))
-- hash integer key beyond the array continues normally
t = {1, 2, [2^30] = "h", z = 1}
seen = {}
for k in pairs(t) do seen[#seen+1] = tostring(k) end
table.sort(seen); print(table.concat(seen, " "))
