local pk = package
pk.preload.foo = function() return "FOO" end
package = {name = "my own variable"}          -- a script's global of that name
assert(require("foo") == "FOO")
local ok, err = pcall(require, "no.such.module")
assert(not ok and tostring(err):find("not found"), tostring(err))
package = nil
pk.preload.bar = function() return "BAR" end
assert(require("bar") == "BAR")
package = pk
print "ok"
