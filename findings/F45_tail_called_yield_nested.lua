-- tail-called yield in a nested function
local function inner(...) return coroutine.yield(...) end
local co = coroutine.create(function(a)
  local x, y = inner(a, "first")
  local z = inner(x, y, "second")
  return "done", z
end)
print(coroutine.resume(co, 1))
print(coroutine.resume(co, "r1", "r2"))
print(coroutine.resume(co, "r3"))
print(coroutine.status(co), coroutine.resume(co))
-- wrap + tail yield at the base, several rounds
local gen = coroutine.wrap(function() return coroutine.yield(1) end)
print(gen(), gen("last"))
print(pcall(gen))
