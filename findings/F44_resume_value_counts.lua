local co = coroutine.wrap(function()
  local a, b, c = coroutine.yield("y1")
  print("got", a, b, c)
  local t = {coroutine.yield("y2")}
  print("n", #t, t[1])
  local x = coroutine.yield("y3")
  print("x", x)
  print("sel", select('#', coroutine.yield("y4")))
  return "end"
end)
print(co()) print(co(1)) print(co()) print(co(7, 8, 9)) print(co()) 
