local A, B, C
A = coroutine.create(function()
  print("A sees B before:", coroutine.status(B))
  print("A resumes B:", coroutine.resume(B))
  return "A done"
end)
B = coroutine.create(function()
  print("B: status A", coroutine.status(A))
  print("B resumes C:", coroutine.resume(C))
  return "B done"
end)
C = coroutine.create(function()
  print("C: status A, B, C:", coroutine.status(A), coroutine.status(B), coroutine.status(C))
  print("C resumes A:", coroutine.resume(A))
  print("C resumes B:", coroutine.resume(B))
  local w = coroutine.wrap(function() end)
  return "C done"
end)
print(coroutine.resume(A))
