-- closures captured in nested blocks, goto out of them
local fs = {}
for i = 1, 3 do
  do
    local a = i * 10
    fs[#fs+1] = function() a = a + 1; return a end
    if i == 2 then goto continue end
    do
      local b = i * 100
      fs[#fs+1] = function() b = b + 1; return b end
      if i == 3 then goto continue end
    end
  end
  ::continue::
end
local function clobber(p, q, r, s) local t = {p, q, r, s}; return #t end
clobber(1,2,3,4)
local out = {}
for _, f in ipairs(fs) do out[#out+1] = f() end
for _, f in ipairs(fs) do out[#out+1] = f() end
print("expect 11 101 21 31 301 12 102 22 32 302:", table.concat(out, " "))
-- backward goto loop creating fresh locals each time
local gs = {}
do
  local i = 1
  ::top::
  local v = i
  gs[#gs+1] = function() return v end
  i = i + 1
  if i <= 3 then goto top end
end
clobber(1,2,3,4)
print("expect 1 2 3:", gs[1](), gs[2](), gs[3]())
-- outer variable still shared after inner goto
local n = 0
local get = function() return n end
for i = 1, 5 do
  local z = function() return i end
  if i % 2 == 0 then goto skip end
  n = n + 1
  ::skip::
end
print("expect 3 3:", n, get())
-- break with capture after the break
local hs = {}
for i = 1, 3 do
  local x = i
  if i == 3 then break end
  hs[#hs+1] = function() return x end
end
clobber(1,2,3,4)
print("expect 1 2:", hs[1](), hs[2]())
-- repeat/until with closure in body and upvalue in condition
local r = {}
local j = 0
repeat
  local y = j
  r[#r+1] = function() return y end
  j = j + 1
until y >= 2
clobber(1,2,3,4)
print("expect 0 1 2:", r[1](), r[2](), r[3]())
