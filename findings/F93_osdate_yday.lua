assert(os.date("!*t", 0).yday == 1)
assert(os.date("!*t", 86400 * 59).yday == 60)          -- 1970-03-01
assert(os.date("!*t", 86400 * 364).yday == 365)
assert(os.date("!%j", 0) == "001" and os.date("!%j", 86400 * 59) == "060")
-- 1970-01-01 was a Thursday: week 0 by both conventions; the first Sunday is 01-04, the first Monday 01-05
assert(os.date("!%U %W", 0) == "00 00")
assert(os.date("!%U %W", 86400 * 3) == "01 00")
assert(os.date("!%U %W", 86400 * 4) == "01 01")
assert(os.date("!%U %W", 86400 * 10) == "02 01")
assert(os.date("!%U %W", 86400 * 364) == "52 52")      -- 1970-12-31, a Thursday
assert(os.date("!%w %%", 0) == "4 %")
print "ok"
