local co = coroutine.create(function(a)
  local ok, v = pcall(function()
    local x = coroutine.yield(a + 1)
    local y = coroutine.yield(x + 1)
    return y + 1
  end)
  return ok, v
end)
print(coroutine.resume(co, 1))
print(coroutine.resume(co, 10))
print(coroutine.resume(co, 100))
print(coroutine.resume(co, 1000))
-- yield across pcall with error after
local co2 = coroutine.wrap(function()
  local ok, e = pcall(function() coroutine.yield(1); error("after yield") end)
  coroutine.yield(tostring(ok) .. ":" .. tostring(e))
  return "end"
end)
print(co2()) print(co2()) print(co2())
