local function mk()
  local a, b, c = 1, 2, function() return 3 end
  return c
end
return mk
