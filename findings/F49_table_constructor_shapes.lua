-- table constructors of many shapes against a reference built by assignments
local function f() return "F1", "F2" end
local function mk(n, tail)  -- source of {1,2,...,n <tail>}
  local body = ""
  local parts = {}
  for i = 1, n do
    parts[#parts+1] = tostring(i)
    if #parts == 1000 then body = body .. table.concat(parts, ",") .. ","; parts = {} end
  end
  if tail then parts[#parts+1] = tail end
  return "local f, g = ... return {" .. body .. table.concat(parts, ",") .. "}"
end
local g = function() return "G" end
local bad = 0
local function check(n, tail, extra)
  local chunk = assert(loadstring(mk(n, tail)))
  local t = chunk(f, g)
  local want = n + (extra or 0)
  for i = 1, n do if t[i] ~= i then bad = bad + 1; print("FAIL", n, tail, "t[" .. i .. "]", t[i]); return end end
  if #t ~= want then bad = bad + 1; print("FAIL", n, tail, "#t", #t, "want", want) end
  return t
end
for _, n in ipairs{0, 1, 49, 50, 51, 99, 100, 101, 150, 200} do
  check(n, nil)
  local t = check(n, "f()", 2); if t and (t[n+1] ~= "F1" or t[n+2] ~= "F2") then bad = bad + 1; print("FAIL vararg tail", n) end
  t = check(n, "x = g()"); if t and t.x ~= "G" then bad = bad + 1; print("FAIL keyed tail", n) end
  t = check(n, "x = f()"); if t and (t.x ~= "F1" or t[n+1] ~= nil) then bad = bad + 1; print("FAIL keyed call tail", n, t and t.x, t and t[n+1]) end
  t = check(n, "[g()] = g(), y = 1"); if t and (t.G ~= "G" or t.y ~= 1) then bad = bad + 1; print("FAIL two keyed", n) end
  t = check(n, "(f())", 1); if t and t[n+1] ~= "F1" then bad = bad + 1; print("FAIL paren call", n) end
end
-- keyed fields interleaved
local src = {"local f, g = ... return {"}
for i = 1, 120 do src[#src+1] = i .. ", k" .. i .. " = g(), " end
src[#src+1] = "f()}"
local t = assert(loadstring(table.concat(src)))(f, g)
for i = 1, 120 do if t[i] ~= i or t["k" .. i] ~= "G" then bad = bad + 1; print("FAIL interleaved", i); break end end
if t[121] ~= "F1" or t[122] ~= "F2" or #t ~= 122 then bad = bad + 1; print("FAIL interleaved tail", #t) end
-- big one (extended SETLIST word)
local n = 25600
local big = check(n, "f()", 2)
print(bad == 0 and "ALL OK" or (bad .. " failures"))
