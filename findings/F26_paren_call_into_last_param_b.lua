local function g() return 7 end
local function f(a) a = (g()) return a end
print(pcall(f, 1))
local function f4(a, b) b = (g()) return a, b end
print(pcall(f4, 1, 2))
local function f5(a, b) a = (g()) return a, b end
print(pcall(f5, 1, 2))
