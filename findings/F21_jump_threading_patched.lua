local x = 1
if x then x = 2 end
local n = 0
local iters = 0
repeat
  if false then n = 100 end
  n = n + 1
  iters = iters + 1
  if iters > 50 then error("runaway loop: n="..n) end
until n >= 3
print(n, iters)
local k = 0
while true do
  if false then k = k + 100 end
  k = k + 1
  if k > 5 then break end
end
print(k)
