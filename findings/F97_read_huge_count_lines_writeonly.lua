local p = os.tmpname()
local f = assert(io.open(p, "w")); f:write("hello\nworld\n"); f:close()
f = assert(io.open(p, "r"))
assert(f:read(2^40) == "hello\nworld\n")      -- a huge count returns what is there
assert(f:read(2^40) == nil)
f:close()
f = assert(io.open(p, "r"))
assert(f:read(3) == "hel" and f:read(100000) == "lo\nworld\n" and f:read(1) == nil and f:read(0) == nil)
f:close()
-- a big file read with a count beyond the chunk size
f = assert(io.open(p, "w")); f:write(string.rep("x", 300000)); f:close()
f = assert(io.open(p, "r")); local s = f:read(250000); assert(#s == 250000); assert(#f:read(2^31) == 50000); f:close()
-- lines on a write-only handle: an error, not a nil dereference
local w = assert(io.open(p, "w"))
local ok, err = pcall(function() for l in w:lines() do end end)
assert(not ok)
io.input(w)
ok, err = pcall(function() for l in io.lines() do end end)
assert(not ok and tostring(err):find("only writing"), tostring(err))
io.input(io.stdin)
w:close()
os.remove(p)
print "ok"
