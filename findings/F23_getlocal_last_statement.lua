local out
local function probe()
  local names = {}
  local i = 1
  while true do
    local n, v = debug.getlocal(2, i)
    if not n then break end
    if n ~= "(*temporary)" then names[#names+1] = n .. "=" .. tostring(v) end
    i = i + 1
  end
  out = table.concat(names, ",")
end
local function h1() do local c = 3; probe() end local z = 1 end
h1() print("h1 want c=3:", out)
local function h2() local a = 1; while a do local u = 5; probe(); break end end
h2() print("h2 want a=1,u=5:", out)
local function h3() local a = 1; probe() end
h3() print("h3 want a=1:", out)
local function h4() for i = 1, 1 do local w = 2; probe() end end
h4() print("h4 want (for..),i=1,w=2:", out)
