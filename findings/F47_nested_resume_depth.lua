local depth = 0
local function f()
  depth = depth + 1
  local co = coroutine.create(f)
  return coroutine.resume(co)
end
print(pcall(f))
print("depth reached", depth)
-- legitimate nesting still works
local function nest(n) if n == 0 then return "bottom" end local co = coroutine.wrap(nest) return co(n - 1) end
print(nest(100))
