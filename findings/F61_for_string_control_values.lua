local out = {}
for i = '1', 2 do out[#out+1] = i end
for i = 1, '3', '2' do out[#out+1] = i end
for i = "0x10", 17 do out[#out+1] = i end
print(table.concat(out, " "), type(out[1]))
print(pcall(function() for i = 'x', 2 do end end))
print(pcall(function() for i = 1, 'y' do end end))
print(pcall(function() for i = 1, 2, {} do end end))
