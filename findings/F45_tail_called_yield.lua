local w = coroutine.wrap(function(...) return coroutine.yield(...) end)
print(pcall(w, 1, 2))
print(pcall(w, 3, 4))
print(pcall(w, 5))
