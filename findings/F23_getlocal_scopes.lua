local function locals()
  local names = {}
  local i = 1
  while true do
    local n, v = debug.getlocal(2, i)
    if not n then break end
    if n ~= "(*temporary)" then names[#names+1] = n .. "=" .. tostring(v) end
    i = i + 1
  end
  return table.concat(names, ",")
end
local function g1() do local c = 3; print("g1 want c=3:", locals()) end end
g1()
local function g2() do local c = 3; print("g2 want c=3:", locals()) end local z = 1 end
g2()
local function g3() local a = 1; local b = locals(); print("g3 want a=1:", b) end
g3()
local function g4()
  local a = 1
  do local b = 2 end
  do local c = 3; print("g4 want a=1,c=3:", locals()) end
  print("g4 want a=1:", locals())
  local d = 4
  print("g4 want a=1,d=4:", locals())
end
g4()
local function g5(p, q)
  for i = 1, 1 do local w = i * 2; print("g5 want p,q,(for..),i=1,w=2:", locals()) end
  for k, v in pairs({x = 1}) do print("g5 want p,q,(for..),k=x,v=1:", locals()) end
  print("g5 want p=1,q=2:", locals())
end
g5(1, 2)
local function g6()
  local a = 1
  local function inner() return a end
  while true do local u = 5; print("g6 want a,inner,u=5:", locals()); break end
  repeat local r = 6; print("g6 want a,inner,r=6:", locals()) until true
  if a then local t = 7; print("g6 want a,inner,t=7:", locals()) else local e = 8 end
  print("g6 want a,inner:", locals())
end
g6()
local function g7()
  local a = 1
  local a = 2
  print("g7 want a=1,a=2:", locals())
end
g7()
