local t = setmetatable({}, {__metatable = "locked"})
assert(getmetatable(t) == "locked")
assert(type(debug.getmetatable(t)) == "table" and debug.getmetatable(t).__metatable == "locked")
assert(math.huge == 1/0 and -math.huge == -1/0 and math.huge > 1.7976931348623157e308)
print "ok"
