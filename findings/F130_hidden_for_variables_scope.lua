local function names(level)
  local t = {}
  local i = 1
  while true do
    local n = debug.getlocal(level, i)
    if not n then break end
    if n ~= "(*temporary)" then t[#t + 1] = n end
    i = i + 1
  end
  return table.concat(t, ",")
end
local seen = {}
local function probe(tag, v) seen[tag] = names(3); return v end
local function run()
  local a = 1
  for i = probe("init", 1), probe("limit", 2), probe("step", 1) do
    local b = i
    seen["body" .. i] = names(2)
  end
  for k, v in pairs(probe("gen", {x = 1})) do
    seen.gbody = names(2)
  end
end
run()
assert(seen.init == "a", seen.init)
assert(seen.limit == "a", seen.limit)
assert(seen.step == "a", seen.step)
assert(seen.body1 == "a,(for index),(for limit),(for step),i,b", seen.body1)
assert(seen.gen == "a", seen.gen)
assert(seen.gbody == "a,(for generator),(for state),(for control),k,v", seen.gbody)
-- values are still right
local s = 0
for i = 1, 3 do s = s + i end
assert(s == 6)
-- setlocal on the loop variable inside the body addresses the loop variable
for i = 1, 1 do
  local n = debug.getlocal(1, 9)
  assert(n == "i", n)
end
print "ok"
