package main

// round15.go — rules added after seeding round 15.

import (
	"fmt"
	"go/token"
	"strings"

	"golang.org/x/tools/go/callgraph"
	"golang.org/x/tools/go/ssa"
)

func init() {
	add := func(id string, rs ...func(*Ctx)) {
		if pi := props[id]; pi != nil {
			pi.Rules = append(pi.Rules, rs...)
		}
	}
	add("C04", ruleToStringMetaHandlerFirst)
	add("C20", ruleOpenersPublishOnEveryPath)
	add("C05", ruleErrorValueUnchanged)
	add("C07", ruleKmvConstantIndexFromBx)
	add("C01", ruleKmvConstantIndexFromBx, ruleIfJumpOverElseUnconditional)
	add("C12", ruleNoStaleRegistryArray)
	add("C10", ruleNoStaleRegistryArray)
	add("C11", ruleContextAttachedByTheHostOnly)
	add("C14", ruleBacktrackingUnconditional)
	add("C19", ruleDescriptorMovedOnlyBySeek)
	add("C05", rulePCallDeliversEveryErrorObject)
	add("C02", rulePCallHandsItsArgumentsOn)
	// a prototype is shared by every closure made from it: a run-time write into it (a cached closure) is what
	// makes two evaluations of one function expression the same object — C03 "fresh closure, creator's environment"
	add("C03", ruleProto)
	add("C06", ruleCurrentThreadRestoredOnRaise)
}

// dominatesAllReturns: the instruction lies on every path from the entry to every live return.
func dominatesAllReturns(g *PCFG, fn *ssa.Function, ev ssa.Instruction) bool {
	okc, n := true, 0
	allInstrs(fn, func(in ssa.Instruction) {
		if _, isRet := in.(*ssa.Return); isRet && g.Live(in) {
			n++
			if !g.Dominates(ev, in) {
				okc = false
			}
		}
	})
	return okc && n > 0
}

// ruleToStringMetaHandlerFirst: C04 "tostring honours __tostring through the per-type metatable of
// non-table values": ToStringMeta asks for the handler before anything else — no exit of the function
// lies off the path through the metaOp1(v, "__tostring") lookup (a fast path for strings or numbers in
// front of it answers without the handler the shared string/number metatable may carry).
func ruleToStringMetaHandlerFirst(c *Ctx) {
	const R = "R04-events"
	p := c.P
	fn := c.need(R, "lua", "(*LState).ToStringMeta")
	mo1 := p.Fn("lua", "(*LState).metaOp1")
	if fn == nil || mo1 == nil {
		return
	}
	g := p.G(fn)
	okc := false
	for _, cl := range callsTo(fn, mo1) {
		if s, isK := constStr(cl.Call.Args[2]); isK && s == "__tostring" && dominatesAllReturns(g, fn, cl) {
			okc = true
		}
	}
	c.Sites++
	c.check(okc, R, "ToStringMeta:handler-looked-up-on-every-path", p.pos(fn.Pos()), "every exit follows the __tostring lookup",
		"ToStringMeta can answer without looking for __tostring: a value whose type-wide metatable (strings, numbers, …) carries the handler is converted by the default rule instead — tostring(s) and print(s) ignore a __tostring placed in the string metatable")
}

// ruleOpenersPublishOnEveryPath: C20 "modules registered by the host are reachable through require and
// through their global name": an opener that calls RegisterModule does so on every path (an 'already
// opened' guard in front of it leaves package.loaded / the global unset when the script removed them or
// the host set the type's metatable before opening the library).
func ruleOpenersPublishOnEveryPath(c *Ctx) {
	const R = "R20-order"
	p := c.P
	reg := p.Fn("lua", "(*LState).RegisterModule")
	if reg == nil {
		c.und(R, "openers:every-path:anchor", "-", "RegisterModule not found")
		return
	}
	n := 0
	for _, fn := range p.srcFuncs {
		if fn.Pkg == nil || fn.Pkg.Pkg.Path() != luaPath || fn.Parent() != nil || fn.Signature.Recv() != nil {
			continue
		}
		if !strings.HasPrefix(fn.Name(), "Open") || len(fn.Params) != 1 || typeName(fn.Params[0].Type()) != "LState" || fn.Signature.Results().Len() != 1 {
			continue
		}
		calls := callsTo(fn, reg)
		if len(calls) == 0 {
			continue // reported by published-through-RegisterModule
		}
		n++
		c.Sites++
		g := p.G(fn)
		okc := false
		for _, cl := range calls {
			if dominatesAllReturns(g, fn, cl) {
				okc = true
			}
		}
		c.check(okc, R, "opener:"+fn.Name()+":published-on-every-path", p.pos(fn.Pos()), "RegisterModule lies on every path through the opener",
			fn.Name()+" skips RegisterModule on some path (an 'already opened' test): after `package.loaded.x = nil; x = nil`, or when the host installed the type's metatable first, opening the library again leaves the global and require(name) without it")
	}
	c.check(n >= 8, R, "openers:every-path", "-", fmt.Sprintf("%d library openers examined", n), "library openers (Open*) calling RegisterModule not found")
}

// ruleErrorValueUnchanged: C05 "error() with a value of any type is delivered as that error value":
// the base library's error hands LState.Error the argument slot it read — not a conversion of it.
func ruleErrorValueUnchanged(c *Ctx) {
	const R = "R05-convert"
	p := c.P
	fn := c.need(R, "lua", "baseError")
	errFn := p.Fn("lua", "(*LState).Error")
	if fn == nil || errFn == nil {
		return
	}
	okc, n := true, 0
	for _, cl := range callsTo(fn, errFn) {
		n++
		src, isCall := cl.Call.Args[1].(*ssa.Call)
		if !isCall || src.Call.StaticCallee() == nil || (src.Call.StaticCallee().Name() != "CheckAny" && src.Call.StaticCallee().Name() != "Get") {
			okc = false
		}
	}
	c.Sites++
	c.check(okc && n > 0, R, "baseError:value-handed-on-as-read", p.pos(fn.Pos()), "LState.Error receives the argument slot itself",
		"error() converts or replaces its argument before raising it: error(404) arrives at pcall / the Go caller as a string (with a position prefix) instead of the number that was raised")
}

// ruleKmvConstantIndexFromBx: C07 "constant operands name constants that exist / string-keyed
// instructions name string constants": LOADK carries its constant index in the 18-bit Bx field; the
// peephole that folds a trailing LOADK into an RK operand reads it with the Bx getter (the 9-bit B getter
// truncates indices >= 512 to another constant).
func ruleKmvConstantIndexFromBx(c *Ctx) {
	const R = "R01-peephole"
	p := c.P
	fn := c.need(R, "lua", "(*codeStore).PropagateKMV")
	bx := p.Fn("lua", "opGetArgBx")
	if fn == nil || bx == nil {
		return
	}
	c.Sites++
	c.check(reachesThroughNewHelpers(fn, bx), R, "PropagateKMV:LOADK-index-read-from-Bx", p.pos(fn.Pos()), "the folded constant's index is read with opGetArgBx",
		"PropagateKMV no longer reads the LOADK operand with opGetArgBx: an index >= 512 is truncated to its low 9 bits and the instruction names another constant (t.name reads K[i mod 512])")
}

// ruleIfJumpOverElseUnconditional: C01 control flow: the jump that takes the end of a then-block over the
// else-block is emitted whenever there is an else-block; compileIfStmt does not look at the last emitted
// instruction to elide it (a trailing RETURN may belong to a nested, else-less `if … then return end`
// whose false exit lands exactly there).
func ruleIfJumpOverElseUnconditional(c *Ctx) {
	const R = "R01-threading"
	p := c.P
	fn := c.need(R, "lua", "compileIfStmt")
	if fn == nil {
		return
	}
	peeks := ""
	for _, name := range []string{"(*codeStore).Last", "(*codeStore).At", "opGetOpCode"} {
		if f := p.Fn("lua", name); f != nil && reachesThroughNewHelpers(fn, f) {
			peeks = name
		}
	}
	jmps := 0
	for _, e := range p.emitSites(fn) {
		if e.emits(p.op("OP_JMP")) {
			jmps++
		}
	}
	c.Sites++
	c.check(peeks == "" && jmps > 0, R, "compileIfStmt:jump-over-else-not-elided-by-peeking", p.pos(fn.Pos()), "the jump over the else-block does not depend on the last emitted instruction",
		"compileIfStmt inspects the last emitted instruction ("+peeks+") to decide about the jump over the else-block: a RETURN there may end a nested `if b then return end` whose false exit falls into the else-block (`if a then if b then return end else S end` runs S when a holds and b does not)")
}

// ruleNoStaleRegistryArray: C12 "a program below the limits behaves identically under every registry
// configuration" / C10 stack operations: growing the registry replaces registry.array. Outside the
// registry's own methods no function keeps the slice it read from that field across a call that can
// grow the registry and then indexes or slices the old value (the writes land in the abandoned array).
func ruleNoStaleRegistryArray(c *Ctx) {
	const R = "R12-grow"
	p := c.P
	arrF := p.regArrayField()
	resize := p.Fn("lua", "(*registry).resize")
	if arrF == nil || resize == nil {
		c.und(R, "stale-array:anchors", "-", "registry.array / resize not found")
		return
	}
	// functions that can reach resize
	cg := p.CallGraph()
	can := map[*ssa.Function]bool{resize: true}
	work := []*callgraph.Node{cg.Nodes[resize]}
	for len(work) > 0 {
		nd := work[len(work)-1]
		work = work[:len(work)-1]
		if nd == nil {
			continue
		}
		for _, e := range nd.In {
			if f := e.Caller.Func; f != nil && !can[f] {
				can[f] = true
				work = append(work, e.Caller)
			}
		}
	}
	n := 0
	for _, fn := range p.srcFuncs {
		if fn.Pkg == nil || fn.Pkg.Pkg.Path() != luaPath || fn.Blocks == nil || recvNamed(fn) == "registry" {
			continue
		}
		var g *PCFG
		allInstrs(fn, func(in ssa.Instruction) {
			ld, ok := in.(*ssa.UnOp)
			if !ok || !p.isLoadOfField(ld, arrF) || ld.Referrers() == nil {
				return
			}
			for _, use := range *ld.Referrers() {
				switch use.(type) {
				case *ssa.IndexAddr, *ssa.Slice:
				default:
					continue
				}
				if g == nil {
					g = p.G(fn)
				}
				n++
				var stale ssa.Instruction
				allInstrs(fn, func(mid ssa.Instruction) {
					if stale != nil {
						return
					}
					sc := staticCallee(mid)
					if sc == nil || !can[sc] || !g.Live(mid) {
						return
					}
					if g.Dominates(ld, mid) && g.Dominates(mid, use) {
						stale = mid
					}
				})
				if stale != nil {
					c.Sites++
					c.bad(R, "stale-array:"+fname(fn)+":"+fname(staticCallee(stale)), p.ipos(use),
						fname(fn)+" reads registry.array, calls "+fname(staticCallee(stale))+" (which can grow the registry and replace the array) and then uses the slice it read before: when that call re-allocates, the accesses go to the abandoned array — the operation is lost exactly when the registry grows, so the result depends on RegistrySize/RegistryGrowStep")
				}
			}
		})
	}
	c.Sites += n
	c.check(n >= 20, R, "stale-array", "-", fmt.Sprintf("%d uses of a loaded registry.array examined, none across a growing call", n), "uses of registry.array outside the registry's methods not found")
}

// ruleContextAttachedByTheHostOnly: C11 "until the context is done, attaching it does not change the
// script's behaviour" — and detaching or replacing it takes effect for every thread as the host set it:
// SetContext and RemoveContext are host entry points; nothing inside the interpreter calls them (a
// library function that lets a coroutine adopt its resumer's context makes the adoption sticky: after
// that context is cancelled and replaced, the coroutine still fails with 'context canceled').
func ruleContextAttachedByTheHostOnly(c *Ctx) {
	const R = "R11-threadctx"
	p := c.P
	n := 0
	for _, name := range []string{"(*LState).SetContext", "(*LState).RemoveContext"} {
		target := c.need(R, "lua", name)
		if target == nil {
			continue
		}
		n++
		who := ""
		for _, fn := range p.srcFuncs {
			if fn.Pkg == nil || fn.Pkg.Pkg.Path() != luaPath || fn.Blocks == nil {
				continue
			}
			if len(callsTo(fn, target)) > 0 {
				who = fname(fn)
			}
		}
		c.Sites++
		c.check(who == "", R, target.Name()+":called-by-the-host-only", p.pos(target.Pos()), "no function of the interpreter attaches or removes a context",
			who+" calls "+target.Name()+": a thread's context is changed from inside the interpreter, so what the host attached, replaced or removed is not what the thread polls (a coroutine that adopted a cancelled context keeps failing after the host attached a fresh one)")
	}
	c.check(n == 2, R, "context-entry-points", "-", "SetContext and RemoveContext found", "SetContext / RemoveContext not found")
}

// rulePCallHandsItsArgumentsOn: C02 "a call passes exactly the values Lua prescribes": pcall(f, ...) calls
// f itself with the arguments as received — a callable object goes through the __call dispatch of the
// call machinery, which is what inserts the object as first argument. basePCall / baseXPCall do not
// rewrite the argument slots before the protected call (Replace / Remove / Insert / SetTop may only
// follow it).
func rulePCallHandsItsArgumentsOn(c *Ctx) {
	const R = "R02-full"
	p := c.P
	pcall := p.Fn("lua", "(*LState).PCall")
	n := 0
	for _, name := range []string{"basePCall", "baseXPCall"} {
		fn := c.need(R, "lua", name)
		if fn == nil || pcall == nil {
			continue
		}
		g := p.G(fn)
		calls := callsTo(fn, pcall)
		if len(calls) != 1 {
			c.und(R, name+":arguments-handed-on-as-received", p.pos(fn.Pos()), "expected exactly one PCall")
			continue
		}
		n++
		who := ""
		for _, w := range []string{"(*LState).Replace", "(*LState).Remove", "(*LState).Insert", "(*LState).SetTop", "(*registry).Set", "(*registry).Insert"} {
			wf := p.Fn("lua", w)
			for _, cl := range callsTo(fn, wf) {
				if g.Live(cl) && !g.Dominates(calls[0], cl) {
					who = w
				}
			}
		}
		c.Sites++
		c.check(who == "", R, name+":arguments-handed-on-as-received", p.pos(fn.Pos()), "no argument slot is rewritten before the protected call",
			name+" rewrites its argument slots ("+who+") before the protected call: when the callee is replaced by its __call handler here, the call machinery no longer inserts the object as first argument — pcall(obj, a) runs the handler with self = a")
	}
	c.check(n == 2, R, "pcall-entry-points", "-", "basePCall and baseXPCall examined", "basePCall / baseXPCall not examined")
}

// ruleCurrentThreadRestoredOnRaise: C06 "coroutine.running / status answer for the thread that runs":
// a function that saves G.CurrentThread, changes it, and puts the saved value back around a call that can
// raise must do the putting-back in a deferred function — a plain statement after the call is skipped by
// the unwinding panic and the global keeps naming a thread that is no longer running.
func ruleCurrentThreadRestoredOnRaise(c *Ctx) {
	const R = "R06-release"
	p := c.P
	curF := p.Field("lua", "Global", "CurrentThread")
	if curF == nil {
		c.und(R, "CurrentThread:restore-survives-a-raise", "-", "Global.CurrentThread not found")
		return
	}
	raises := p.mayRaise()
	stores := 0
	for _, fn := range p.srcFuncs {
		if fn.Pkg == nil || fn.Pkg.Pkg.Path() != luaPath || fn.Blocks == nil {
			continue
		}
		var g *PCFG
		allInstrs(fn, func(in ssa.Instruction) {
			st, ok := isFieldStore(in, curF)
			if !ok {
				return
			}
			stores++
			saved, isLoad := stripMI(st.Val).(*ssa.UnOp)
			if !isLoad || !p.isLoadOfField(saved, curF) {
				return
			}
			if g == nil {
				g = p.G(fn)
			}
			var between ssa.Instruction
			allInstrs(fn, func(mid ssa.Instruction) {
				cl, isCall := mid.(*ssa.Call)
				if !isCall || between != nil {
					return
				}
				sc := staticCallee(mid)
				_, builtin := cl.Call.Value.(*ssa.Builtin)
				// a call through a function value (ls.mainLoop is a field) can raise as well
				mayRaise := (sc != nil && raises[sc]) || (sc == nil && !builtin)
				if mayRaise && g.Live(mid) && g.Dominates(saved, mid) && g.Dominates(mid, in) {
					between = mid
				}
			})
			if between != nil {
				c.Sites++
				c.bad(R, "CurrentThread:restore-survives-a-raise:"+fname(fn), p.ipos(in),
					fname(fn)+" puts the saved G.CurrentThread back in a plain statement after a call ("+between.String()+") that can raise: when it does, the unwinding skips the statement and CurrentThread keeps naming the other thread (coroutine.running() / status() answer for a thread that is not running)")
			}
		})
	}
	c.Sites += stores
	c.check(stores >= 4, R, "CurrentThread:restore-survives-a-raise", "-", fmt.Sprintf("%d stores of G.CurrentThread examined, no save/restore pair around a raising call outside a deferred function", stores), "stores of G.CurrentThread not found")
}

// ruleBacktrackingUnconditional: C14 "patterns match as the 5.1 matcher does": the matcher is a
// backtracking search whose outcome at (pc, sp) depends on the captures made so far (back-references), so a
// branch may be skipped only because an earlier branch of the same instruction succeeded. In recursiveVM
// every recursive call is reached under comparisons only (the dispatch on the opcode, bounds, the recursion
// cap) or under the failure of an earlier recursive call — never under the answer of some other call or
// table lookup (a memo of failed states keyed by (pc, sp) prunes states that would succeed with other
// captures: "^(a-)a-b%1$" on "aaba").
func ruleBacktrackingUnconditional(c *Ctx) {
	const R = "R14-progress"
	p := c.P
	fn := c.need(R, "pm", "recursiveVM")
	if fn == nil {
		return
	}
	g := p.G(fn)
	n := 0
	var badAt ssa.Instruction
	what := ""
	for _, cl := range callsTo(fn, fn) {
		if cl.Parent() != fn {
			continue
		}
		n++
		for _, cd := range g.CondsAtInstr(cl) {
			v := cd.V
			if u, ok := v.(*ssa.UnOp); ok && u.Op == token.NOT {
				v = u.X
			}
			switch x := v.(type) {
			case *ssa.BinOp:
				continue
			case *ssa.Extract:
				if tc, ok := x.Tuple.(*ssa.Call); ok && tc.Call.StaticCallee() == fn {
					continue // the outcome of an earlier branch
				}
			case *ssa.Phi:
				continue // a short-circuit of comparisons
			}
			if badAt == nil {
				badAt, what = cl, fmt.Sprintf("%T %s", cd.V, cd.V.String())
			}
		}
	}
	c.Sites += n
	pos := p.pos(fn.Pos())
	if badAt != nil {
		pos = p.ipos(badAt)
	}
	c.check(n >= 2 && badAt == nil, R, "recursiveVM:branches-taken-under-comparisons-only", pos, fmt.Sprintf("%d recursive calls, each reached under comparisons and earlier branch outcomes only", n),
		"a branch of the backtracking search in recursiveVM is taken or skipped on the answer of "+what+": the outcome at (pc, sp) depends on the captures made so far (back-references), so pruning by anything but an earlier branch's success loses matches")
}

// ruleDescriptorMovedOnlyBySeek: C19 "one cursor": the position of the underlying descriptor is changed by
// reads, writes, file:seek and the reconciliation of the read buffer — nothing else calls (*os.File).Seek
// (a constructor that seeks an "a+" handle to the end makes the first read answer nil).
func ruleDescriptorMovedOnlyBySeek(c *Ctx) {
	const R = "R19-reconcile"
	p := c.P
	allowed := map[*ssa.Function]bool{}
	for _, n := range []string{"fileSeek", "(*lFile).AbandonReadBuffer"} {
		if f := p.Fn("lua", n); f != nil {
			allowed[f] = true
		}
	}
	n, who := 0, ""
	for _, fn := range p.srcFuncs {
		if fn.Pkg == nil || fn.Pkg.Pkg.Path() != luaPath || fn.Blocks == nil {
			continue
		}
		allInstrs(fn, func(in ssa.Instruction) {
			cc := callOf(in)
			if cc == nil || in.Parent() != fn {
				return
			}
			sc := cc.StaticCallee()
			if sc == nil || sc.Name() != "Seek" || recvNamed(sc) != "File" || sc.Pkg == nil || sc.Pkg.Pkg.Path() != "os" {
				return
			}
			n++
			root := fn
			for root.Parent() != nil {
				root = root.Parent()
			}
			if !allowed[root] && !isNewHelper(root) {
				who = fname(fn)
			}
		})
	}
	c.Sites += n
	c.check(n >= 2 && who == "", R, "descriptor-moved-only-by-seek-and-reconciliation", "-", fmt.Sprintf("%d calls of (*os.File).Seek, all in file:seek and the read-buffer reconciliation", n),
		who+" moves the descriptor with (*os.File).Seek: the handle's cursor changes outside read, write and seek (an \"a+\" handle positioned at the end by its constructor reads nil where the file's first bytes are)")
}

// rulePCallDeliversEveryErrorObject: C05 "the error value reaches the nearest pcall as that value": pcall and
// xpcall hand on the Object of whatever *ApiError the protected call returned — they do not look at the
// error's kind (a Go panic converted by PCall carries its message as Object; falling back to Error() for
// that kind appends the stack traceback to what the script receives).
func rulePCallDeliversEveryErrorObject(c *Ctx) {
	const R = "R05-convert"
	p := c.P
	typeF := p.Field("lua", "ApiError", "Type")
	if typeF == nil {
		c.und(R, "pcall:error-object-whatever-the-kind", "-", "ApiError.Type not found")
		return
	}
	for _, name := range []string{"basePCall", "baseXPCall"} {
		fn := c.need(R, "lua", name)
		if fn == nil {
			continue
		}
		reads := false
		look := func(f *ssa.Function) {
			for _, b := range f.Blocks {
				for _, in := range b.Instrs {
					if fa, ok := in.(*ssa.FieldAddr); ok && fieldOf(fa) == typeF {
						reads = true
					}
					if fv, ok := in.(*ssa.Field); ok && fieldOfVal(fv) == typeF {
						reads = true
					}
				}
			}
		}
		look(fn)
		allInstrs(fn, func(in ssa.Instruction) {
			if sc := staticCallee(in); sc != nil && isNewHelper(sc) {
				look(sc)
			}
		})
		c.Sites++
		c.check(!reads, R, name+":error-object-whatever-the-kind", p.pos(fn.Pos()), "the failure arm does not consult ApiError.Type",
			name+" chooses what to hand the script by the kind of the ApiError: for the kinds it excludes the script receives Error() — the message with position and stack traceback appended — instead of the error value")
	}
}
