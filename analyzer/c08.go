package main

// C08 — loading arbitrary bytes never crashes: AST exhaustiveness, panic typing, EOF exits.

import (
	"fmt"
	"go/ast"
	"go/constant"
	"go/token"
	"go/types"
	"sort"
	"strings"

	"golang.org/x/tools/go/ssa"
)

func init() {
	register(&propInfo{
		ID:    "C08",
		Title: "Loading arbitrary bytes ends in a function or a syntax error, never a crash",
		Explanation: "Decided: R08-astkinds — producer/consumer exhaustiveness over the AST sum types: every concrete type implementing ast.Expr is a case of compileExpr, every ast.Stmt a case of compileStmt, every left-hand-side type the grammar can produce is a case of compileAssignStmtLeft, and every operator string the grammar writes into Arithmetic/Relational/LogicalOpExpr is handled by the corresponding compile switch and by constFold; " +
			"R08-panics — panic discipline on the load path: every explicit panic in package parse carries a value whose static type implements error (otherwise Parse's 'err, _ = e.(error)' turns a failure into (nil, nil)); every explicit panic reachable from lua.Compile is a *CompileError or one of four shape-guarded sentinels that R08-astkinds makes unreachable; Load wraps both error sources as ApiErrorSyntax and contains no panic; " +
			"R08-eof — 'never hangs': every loop in the scanner that consumes input leaves the loop when the current character is EOF (decided by partial evaluation of the loop's exit conditions with every character-producing call returning -1; pure predicates isIdent/isDecimal/isDigit are evaluated on -1). " +
			"R08-comment — a long-bracket comment ends at its closing bracket: skipComments consumes no further input after scanMultilineString has returned (program text after an inline --[[ ]] on the same line is kept). R19-buffers/R17-rawread shared — LoadFile skips a first '#' line through the one line reader (whole, however long) and gives its newline back. R08-terminate:recursion — every recursive cycle among the compiler's functions passes through a function that counts the nesting against a constant bound and raises a compile error beyond it (a Go stack overflow is not recoverable). NOT decided: run-time (index / nil / assertion) panics inside compile.go, termination of the generated LALR driver, that all Lua 5.1 texts are accepted.",
		Trusted: []string{"the goyacc-generated driver terminates on every token sequence"},
		Rules:   []func(*Ctx){ruleLabelScopeAtBlockEnd, ruleHexPrefixOnce, ruleScannerSeesBytesOnly, ruleFlagRecomputedPerToken, ruleDepthCounterBalanced, ruleCallResultIndexing, ruleIndexCensusDebug, ruleAstKinds, ruleLoadPanics, ruleEOF, ruleTerminate, ruleLongComment, ruleOneLineReader, ruleShebangLine, ruleCompileRecursionBounded, ruleNumeralValidatedWhereSkipped, ruleReadBounded, ruleGlobals, ruleNoIntegerDivisionByUnknown},
	})
}

func implementers(p *Prog, iface *types.Interface, pkgs ...string) []string {
	var out []string
	for _, pn := range pkgs {
		pk := p.Pkg(pn)
		if pk == nil {
			continue
		}
		sc := pk.Types.Scope()
		for _, n := range sc.Names() {
			tn, ok := sc.Lookup(n).(*types.TypeName)
			if !ok {
				continue
			}
			if _, isStruct := tn.Type().Underlying().(*types.Struct); !isStruct {
				continue
			}
			if types.Implements(types.NewPointer(tn.Type()), iface) {
				out = append(out, pk.Types.Name()+"."+n)
			}
		}
	}
	sort.Strings(out)
	return out
}

func assertedTypes(fn *ssa.Function) map[string]bool {
	out := map[string]bool{}
	allInstrs(fn, func(in ssa.Instruction) {
		if ta, ok := in.(*ssa.TypeAssert); ok {
			if pt, ok := ta.AssertedType.(*types.Pointer); ok {
				if nt, ok := pt.Elem().(*types.Named); ok {
					out[nt.Obj().Pkg().Name()+"."+nt.Obj().Name()] = true
				}
			}
		}
	})
	return out
}

func comparedStrings(fn *ssa.Function) map[string]bool {
	out := map[string]bool{}
	allInstrs(fn, func(in ssa.Instruction) {
		if b, ok := in.(*ssa.BinOp); ok && (b.Op == token.EQL || b.Op == token.NEQ) {
			if s, ok := constStr(b.Y); ok {
				out[s] = true
			}
			if s, ok := constStr(b.X); ok {
				out[s] = true
			}
		}
	})
	return out
}

func ruleAstKinds(c *Ctx) {
	const R = "R08-astkinds"
	c.floor(R, 45)
	p := c.P
	exprI, _ := p.Obj("ast", "Expr").Type().Underlying().(*types.Interface)
	stmtI, _ := p.Obj("ast", "Stmt").Type().Underlying().(*types.Interface)
	ce, cs, cl := c.need(R, "lua", "compileExpr"), c.need(R, "lua", "compileStmt"), c.need(R, "lua", "compileAssignStmtLeft")
	if exprI == nil || stmtI == nil || ce == nil || cs == nil || cl == nil {
		return
	}
	exprs := implementers(p, exprI, "ast", "lua")
	stmts := implementers(p, stmtI, "ast")
	// abstract bases are not node kinds
	skip := map[string]bool{"ast.ExprBase": true, "ast.ConstExprBase": true, "ast.StmtBase": true}
	handled := assertedTypes(ce)
	for _, e := range exprs {
		if skip[e] {
			continue
		}
		c.check(handled[e], R, "expr:"+e, p.pos(ce.Pos()), "has a case in compileExpr", e+" has no case in compileExpr: a program containing it hits panic(\"expr … not implemented\"), which Compile re-panics out of Load/DoString")
	}
	handledS := assertedTypes(cs)
	for _, s := range stmts {
		if skip[s] {
			continue
		}
		c.check(handledS[s], R, "stmt:"+s, p.pos(cs.Pos()), "has a case in compileStmt", s+" has no case in compileStmt: the statement is silently dropped")
	}
	// grammar side: composite literals in parse/parser.go
	pk := p.Pkg("parse")
	built := map[string]bool{}
	ops := map[string]map[string]bool{}
	var lhsTypes = map[string]bool{}
	for _, f := range pk.Syntax {
		ast.Inspect(f, func(n ast.Node) bool {
			cl, ok := n.(*ast.CompositeLit)
			if !ok {
				return true
			}
			tv, ok := pk.TypesInfo.Types[cl]
			if !ok {
				return true
			}
			nt, ok := tv.Type.(*types.Named)
			if !ok || nt.Obj().Pkg() == nil || nt.Obj().Pkg().Name() != "ast" {
				return true
			}
			name := "ast." + nt.Obj().Name()
			built[name] = true
			for _, e := range cl.Elts {
				kv, ok := e.(*ast.KeyValueExpr)
				if !ok {
					continue
				}
				if id, ok := kv.Key.(*ast.Ident); ok && id.Name == "Operator" {
					if v := pk.TypesInfo.Types[kv.Value].Value; v != nil && v.Kind() == constant.String {
						if ops[name] == nil {
							ops[name] = map[string]bool{}
						}
						ops[name][constant.StringVal(v)] = true
					}
				}
			}
			return true
		})
	}
	// every node kind the grammar builds is handled
	for _, b := range sortedKeys(built) {
		isExpr := false
		for _, e := range exprs {
			if e == b {
				isExpr = true
			}
		}
		isStmt := false
		for _, s := range stmts {
			if s == b {
				isStmt = true
			}
		}
		if isExpr {
			c.check(handled[b], R, "grammar-expr:"+b, "-", "built by the grammar and compiled", b+" is built by the grammar but not compiled")
		}
		if isStmt {
			c.check(handledS[b], R, "grammar-stmt:"+b, "-", "built by the grammar and compiled", b+" is built by the grammar but not compiled")
		}
	}
	// left-hand sides: the `var` productions build IdentExpr and AttrGetExpr
	_ = lhsTypes
	lh := assertedTypes(cl)
	for _, t := range []string{"ast.IdentExpr", "ast.AttrGetExpr"} {
		c.check(lh[t] && built[t], R, "lhs:"+t, p.pos(cl.Pos()), "assignable expression kind handled by compileAssignStmtLeft", t+" can be an assignment target but compileAssignStmtLeft has no case: panic(\"invalid left expression.\") escapes Load")
	}
	// operators
	type opUse struct{ node, fn string }
	for _, u := range []opUse{{"ast.ArithmeticOpExpr", "compileArithmeticOpExpr"}, {"ast.ArithmeticOpExpr", "constFold"}, {"ast.RelationalOpExpr", "compileRelationalOpExprAux"}} {
		fn := c.need(R, "lua", u.fn)
		if fn == nil {
			continue
		}
		have := comparedStrings(fn)
		for _, op := range sortedKeys(ops[u.node]) {
			c.check(have[op], R, fmt.Sprintf("operator:%s:%s:%s", u.node, u.fn, op), p.pos(fn.Pos()), "operator handled", fmt.Sprintf("the grammar produces %s with operator %q but %s has no case for it (no instruction is emitted / panic(\"unknown binop\") escapes Load)", u.node, op, u.fn))
		}
		if len(ops[u.node]) == 0 {
			c.und(R, "operator:"+u.node, "-", "no operator literals found in the grammar")
		}
	}
	logical := sortedKeys(ops["ast.LogicalOpExpr"])
	c.check(len(logical) == 2 && logical[0] == "and" && logical[1] == "or", R, "operator:ast.LogicalOpExpr", "-", "the grammar produces exactly 'and' and 'or' (the compiler treats anything that is not 'and' as 'or')", fmt.Sprintf("the grammar produces logical operators %v; the compiler only distinguishes 'and' from everything else", logical))
	for _, fnn := range []string{"compileLogicalOpExpr", "compileBranchCondition", "compileLogicalOpExprAux"} {
		if fn := c.need(R, "lua", fnn); fn != nil {
			c.check(comparedStrings(fn)["and"], R, "operator:and:"+fnn, p.pos(fn.Pos()), "tests for 'and'", fnn+" no longer distinguishes 'and'")
		}
	}
}

func ruleLoadPanics(c *Ctx) {
	const R = "R08-panics"
	c.floor(R, 9)
	p := c.P
	errI := types.Universe.Lookup("error").Type().Underlying().(*types.Interface)
	sp := p.SPkg("parse")
	n := 0
	for _, fn := range p.srcFuncs {
		if fn.Pkg != sp {
			continue
		}
		allInstrs(fn, func(in ssa.Instruction) {
			pn, ok := in.(*ssa.Panic)
			if !ok {
				return
			}
			n++
			c.touch(fn)
			v := stripMI(pn.X)
			var t types.Type = v.Type()
			impl := types.Implements(t, errI)
			if it, ok := t.Underlying().(*types.Interface); ok && !impl {
				impl = it.NumMethods() > 0 && types.Implements(t, errI)
			}
			c.check(impl, R, fmt.Sprintf("parse:%s:panic#%d", fname(fn), countKey(c, R, fname(fn))), p.ipos(in), "panics with a value whose static type implements error",
				fmt.Sprintf("package parse panics with a %s, which is not an error: Parse's recover does 'err, _ = e.(error)', so the failure becomes (nil, nil) — the malformed chunk is silently accepted as an empty program", t))
		})
	}
	// Parse recovers
	if fn := c.need(R, "parse", "Parse"); fn != nil {
		rec := false
		withClosures(fn, func(f *ssa.Function) {
			if len(recoverCalls(f)) > 0 {
				rec = true
			}
		})
		c.check(rec, R, "Parse:recovers", p.pos(fn.Pos()), "Parse converts panics into its error result", "Parse no longer recovers: scanner/parser errors escape as Go panics")
	}
	// Compile path
	compile := c.need(R, "lua", "Compile")
	if compile == nil {
		return
	}
	// static-call closure from Compile within the lua package
	reach := map[*ssa.Function]bool{}
	var walk func(f *ssa.Function)
	walk = func(f *ssa.Function) {
		if reach[f] || f.Pkg == nil || f.Pkg.Pkg.Path() != luaPath {
			return
		}
		reach[f] = true
		allInstrs(f, func(in ssa.Instruction) {
			if sc := staticCallee(in); sc != nil {
				walk(sc)
			}
			// method values / function values passed as arguments (propergator)
			if call, ok := in.(*ssa.Call); ok {
				for _, a := range call.Call.Args {
					if mc, ok := a.(*ssa.MakeClosure); ok {
						if f2, ok := mc.Fn.(*ssa.Function); ok {
							walk(f2)
						}
					}
					if f2, ok := a.(*ssa.Function); ok {
						walk(f2)
					}
				}
			}
		})
		for _, a := range f.AnonFuncs {
			walk(a)
		}
	}
	walk(compile)
	sentinels := map[string]string{
		"compileAssignStmtLeft": "invalid left expression — unreachable by R08-astkinds lhs obligations",
		"compileExpr":           "expr not implemented — unreachable by R08-astkinds expr obligations",
		"constFold":             "unknown binop — unreachable by R08-astkinds operator obligations",
		"ecupdate":              "can not update ec cache — callers pass locally allocated contexts (R13-globals)",
	}
	rce := p.Fn("lua", "raiseCompileError")
	for fn := range reach {
		allInstrs(fn, func(in ssa.Instruction) {
			pn, ok := in.(*ssa.Panic)
			if !ok {
				return
			}
			c.touch(fn)
			key := fmt.Sprintf("compile:%s:panic#%d", fname(fn), countKey(c, R, "c"+fname(fn)))
			v := stripMI(pn.X)
			if fn == rce {
				isCE := false
				if pt, ok := v.Type().(*types.Pointer); ok {
					if nt, ok := pt.Elem().(*types.Named); ok && nt.Obj().Name() == "CompileError" {
						isCE = true
					}
				}
				c.check(isCE, R, key, p.ipos(in), "raiseCompileError panics with *CompileError", "raiseCompileError panics with something other than *CompileError: Compile re-panics it and the Go panic escapes Load")
				return
			}
			if fname(fn) == "Compile$1" {
				c.okT(R, key, p.ipos(in), "Compile's re-panic of foreign values")
				return
			}
			if why, ok := sentinels[fname(fn)]; ok && countKey(c, R, "s"+fname(fn)) == 1 {
				c.okT(R, key, p.ipos(in), "shape-guarded sentinel: "+why)
				return
			}
			c.bad(R, key, p.ipos(in), "a raw panic on the compile path: Compile re-panics everything that is not *CompileError and Load has no recover, so this leaves LoadString/DoString as a Go panic")
		})
	}
	// Load wraps both error sources and has no panic
	if fn := c.need(R, "lua", "(*LState).Load"); fn != nil {
		ae := p.Fn("lua", "newApiErrorE")
		syn, _ := p.intConst("lua", "ApiErrorSyntax")
		nw := 0
		for _, cl := range callsTo(fn, ae) {
			if k, ok := constInt(cl.Call.Args[0]); ok && k == syn {
				nw++
			}
		}
		hasPanic := false
		allInstrs(fn, func(in ssa.Instruction) {
			if _, ok := in.(*ssa.Panic); ok {
				hasPanic = true
			}
		})
		c.check(nw == 2 && !hasPanic, R, "Load:wraps-syntax-errors", p.pos(fn.Pos()), "parse and compile errors are both returned as ApiErrorSyntax", "Load does not classify both parse and compile failures as ApiErrorSyntax")
	}
}

// ---------------------------------------------------------------------------------------------
// R08-eof: partial evaluation of scanner loops at end of input

type pval struct {
	known bool
	v     int64
}

type eofEval struct {
	p     *Prog
	chars map[string]bool // functions whose int result is "the current character"
	depth int
}

func (e *eofEval) charCall(in ssa.Value) bool {
	call, ok := in.(*ssa.Call)
	if !ok {
		return false
	}
	sc := call.Call.StaticCallee()
	return sc != nil && e.chars[fname(sc)]
}

// eval evaluates an integer/bool value with every character-producing call (and every phi that
// merges only character values / parameters named ch) set to -1.
func (e *eofEval) eval(v ssa.Value, env map[ssa.Value]pval, depth int) pval {
	if depth > 12 {
		return pval{}
	}
	if pv, ok := env[v]; ok {
		return pv
	}
	switch x := v.(type) {
	case *ssa.Const:
		if x.Value == nil {
			return pval{}
		}
		switch x.Value.Kind() {
		case constant.Int:
			if k, ok := constant.Int64Val(x.Value); ok {
				return pval{true, k}
			}
			if u, ok := constant.Uint64Val(x.Value); ok {
				return pval{true, int64(u)}
			}
		case constant.Bool:
			if constant.BoolVal(x.Value) {
				return pval{true, 1}
			}
			return pval{true, 0}
		}
		return pval{}
	case *ssa.Call:
		if e.charCall(x) {
			return pval{true, -1}
		}
		// pure predicate on known arguments
		if sc := x.Call.StaticCallee(); sc != nil && sc.Pkg != nil && repoPkg(sc.Pkg.Pkg.Path()) && len(sc.Blocks) > 0 && len(sc.Blocks) < 12 && e.depth < 3 {
			args := map[ssa.Value]pval{}
			for i, pm := range sc.Params {
				if i < len(x.Call.Args) {
					args[pm] = e.eval(x.Call.Args[i], env, depth+1)
				}
			}
			e.depth++
			r := e.runPure(sc, args)
			e.depth--
			if len(r) == 1 {
				return r[0]
			}
			return pval{}
		}
		return pval{}
	case *ssa.Extract:
		if call, ok := x.Tuple.(*ssa.Call); ok {
			if sc := call.Call.StaticCallee(); sc != nil && sc.Pkg != nil && repoPkg(sc.Pkg.Pkg.Path()) && len(sc.Blocks) > 0 && len(sc.Blocks) < 12 && e.depth < 3 {
				args := map[ssa.Value]pval{}
				for i, pm := range sc.Params {
					if i < len(call.Call.Args) {
						args[pm] = e.eval(call.Call.Args[i], env, depth+1)
					}
				}
				e.depth++
				r := e.runPure(sc, args)
				e.depth--
				if x.Index < len(r) {
					return r[x.Index]
				}
			}
		}
		return pval{}
	case *ssa.Phi:
		// steady state: a phi all of whose non-self inputs are character values or `ch` parameters is -1
		all := true
		for _, ed := range x.Edges {
			if ed == ssa.Value(x) {
				continue
			}
			if e.charCall(ed) {
				continue
			}
			if pm, ok := ed.(*ssa.Parameter); ok && types.Identical(pm.Type(), types.Typ[types.Int]) {
				continue
			}
			if ph2, ok := ed.(*ssa.Phi); ok && ph2 != x {
				if r := e.eval(ph2, env, depth+1); r.known && r.v == -1 {
					continue
				}
			}
			if _, isEx := ed.(*ssa.Extract); isEx {
				if r := e.eval(ed, env, depth+1); r.known && r.v == -1 {
					continue
				}
			}
			all = false
		}
		if all {
			return pval{true, -1}
		}
		return pval{}
	case *ssa.Convert:
		r := e.eval(x.X, env, depth+1)
		if !r.known {
			return r
		}
		if bt, ok := x.Type().Underlying().(*types.Basic); ok && bt.Info()&types.IsUnsigned != 0 && r.v < 0 {
			return pval{true, r.v} // keep the bit pattern; shifts treat it as huge
		}
		return r
	case *ssa.UnOp:
		if x.Op == token.NOT {
			r := e.eval(x.X, env, depth+1)
			if r.known {
				return pval{true, 1 - r.v}
			}
		}
		return pval{}
	case *ssa.BinOp:
		a, b := e.eval(x.X, env, depth+1), e.eval(x.Y, env, depth+1)
		unsignedY := false
		if bt, ok := x.Y.Type().Underlying().(*types.Basic); ok && bt.Info()&types.IsUnsigned != 0 {
			unsignedY = true
		}
		switch x.Op {
		case token.SHL:
			if b.known && (b.v >= 64 || (b.v < 0 && unsignedY)) {
				return pval{true, 0}
			}
			if a.known && b.known && b.v >= 0 {
				return pval{true, a.v << uint(b.v)}
			}
		case token.AND:
			if (a.known && a.v == 0) || (b.known && b.v == 0) {
				return pval{true, 0}
			}
			if a.known && b.known {
				return pval{true, a.v & b.v}
			}
		case token.ADD:
			if a.known && b.known {
				return pval{true, a.v + b.v}
			}
		case token.SUB:
			if a.known && b.known {
				return pval{true, a.v - b.v}
			}
		case token.EQL, token.NEQ, token.LSS, token.LEQ, token.GTR, token.GEQ:
			if a.known && b.known {
				var r bool
				switch x.Op {
				case token.EQL:
					r = a.v == b.v
				case token.NEQ:
					r = a.v != b.v
				case token.LSS:
					r = a.v < b.v
				case token.LEQ:
					r = a.v <= b.v
				case token.GTR:
					r = a.v > b.v
				case token.GEQ:
					r = a.v >= b.v
				}
				if r {
					return pval{true, 1}
				}
				return pval{true, 0}
			}
		}
		return pval{}
	}
	return pval{}
}

// runPure executes a small loop-free function on (partially) known arguments.
func (e *eofEval) runPure(fn *ssa.Function, args map[ssa.Value]pval) []pval {
	env := map[ssa.Value]pval{}
	for k, v := range args {
		env[k] = v
	}
	b := fn.Blocks[0]
	var prev *ssa.BasicBlock
	for steps := 0; steps < 40; steps++ {
		for _, in := range b.Instrs {
			switch x := in.(type) {
			case *ssa.Phi:
				for i, pr := range b.Preds {
					if pr == prev {
						env[x] = e.eval(x.Edges[i], env, 0)
					}
				}
			case *ssa.Return:
				var out []pval
				for _, r := range x.Results {
					out = append(out, e.eval(r, env, 0))
				}
				return out
			case *ssa.If:
				cnd := e.eval(x.Cond, env, 0)
				if !cnd.known {
					return nil
				}
				prev = b
				if cnd.v != 0 {
					b = b.Succs[0]
				} else {
					b = b.Succs[1]
				}
			case *ssa.Jump:
				prev = b
				b = b.Succs[0]
			case ssa.Value:
				if _, isCall := x.(*ssa.Call); isCall {
					env[x] = e.eval(x, env, 0)
				}
			}
		}
		if len(b.Instrs) == 0 {
			return nil
		}
		switch b.Instrs[len(b.Instrs)-1].(type) {
		case *ssa.If, *ssa.Jump, *ssa.Return:
		default:
			return nil
		}
	}
	return nil
}

// isInduction: phi with an incoming edge phi+const (a counter).
func isInduction(ph *ssa.Phi) bool {
	for _, e := range ph.Edges {
		if b, ok := e.(*ssa.BinOp); ok && b.Op == token.ADD && b.X == ssa.Value(ph) {
			if _, ok := constInt(b.Y); ok {
				return true
			}
		}
	}
	return false
}

func ruleEOF(c *Ctx) {
	const R = "R08-eof"
	c.floor(R, 8)
	p := c.P
	p.computeNoReturn()
	ev := &eofEval{p: p, chars: map[string]bool{"(*Scanner).Next": true, "(*Scanner).Peek": true, "(*Scanner).readNext": true, "(*Scanner).skipWhiteSpace": true}}
	consuming := func(in ssa.Instruction) bool {
		sc := staticCallee(in)
		if sc == nil {
			return false
		}
		if ev.chars[fname(sc)] {
			return true
		}
		// scanner helpers that consume: any *Scanner method other than Error/TokenError/Newline
		return recvNamed(sc) == "Scanner" && sc.Name() != "Error" && sc.Name() != "TokenError"
	}
	for _, fn := range p.srcFuncs {
		if fn.Pkg != p.SPkg("parse") || recvNamed(fn) != "Scanner" {
			continue
		}
		g := p.G(fn)
		// loop headers: blocks with a back edge (a predecessor they dominate)
		for _, h := range fn.Blocks {
			if !g.Reach[h] {
				continue
			}
			var latches []*ssa.BasicBlock
			for _, pr := range g.Preds(h) {
				if g.BlockDom(h, pr) {
					latches = append(latches, pr)
				}
			}
			if len(latches) == 0 {
				continue
			}
			// loop body = blocks that can reach a latch without leaving through h
			body := map[*ssa.BasicBlock]bool{h: true}
			var back func(b *ssa.BasicBlock)
			back = func(b *ssa.BasicBlock) {
				if body[b] {
					return
				}
				body[b] = true
				for _, pr := range g.Preds(b) {
					back(pr)
				}
			}
			for _, l := range latches {
				back(l)
			}
			consumes := false
			for b := range body {
				for _, in := range b.Instrs {
					if consuming(in) {
						consumes = true
					}
				}
			}
			if !consumes {
				continue
			}
			c.touch(fn)
			c.Sites++
			key := fmt.Sprintf("%s:loop#%d", fname(fn), countKey(c, R, fname(fn)))
			// symbolic walk from the header at EOF steady state: can control come back to h?
			spin := false
			var witness []string
			seen := map[*ssa.BasicBlock]bool{}
			var walk func(b *ssa.BasicBlock, first bool)
			walk = func(b *ssa.BasicBlock, first bool) {
				if spin {
					return
				}
				if b == h && !first {
					spin = true
					return
				}
				if !body[b] || (seen[b] && !first) {
					return
				}
				seen[b] = true
				if g.Cut[b] >= 0 {
					return
				}
				last := b.Instrs[len(b.Instrs)-1]
				if iff, ok := last.(*ssa.If); ok {
					cnd := ev.eval(iff.Cond, map[ssa.Value]pval{}, 0)
					if cnd.known {
						if cnd.v != 0 {
							walk(b.Succs[0], false)
						} else {
							walk(b.Succs[1], false)
						}
						return
					}
					witness = append(witness, p.ipos(iff))
				}
				for _, s := range b.Succs {
					walk(s, false)
				}
			}
			walk(h, true)
			if !spin {
				c.ok(R, key, p.pos(h.Instrs[0].Pos()), "with every character read returning EOF, control cannot return to the loop header")
				continue
			}
			// constant iteration bound?
			bounded := false
			for b := range body {
				if iff, ok := b.Instrs[len(b.Instrs)-1].(*ssa.If); ok {
					if bin, ok := iff.Cond.(*ssa.BinOp); ok && (bin.Op == token.LSS || bin.Op == token.LEQ) {
						if ph, isPhi := bin.X.(*ssa.Phi); isPhi && isInduction(ph) {
							if _, isC := constInt(bin.Y); isC {
								// exit edge leaves the body
								if !body[b.Succs[1]] || !body[b.Succs[0]] {
									bounded = true
								}
							}
						}
					}
				}
			}
			if bounded {
				c.ok(R, key, p.pos(h.Instrs[0].Pos()), "constant iteration bound")
				continue
			}
			c.bad(R, key, p.ipos(h.Instrs[0]), fmt.Sprintf("at end of input (every character read returns EOF = -1) this scanner loop can come back to its header: an unterminated construct at EOF makes Load spin forever (undetermined tests at %s)", strings.Join(witness, ", ")))
		}
	}
}

// ruleTerminate: 'loading never hangs' — every loop of the bytecode compiler has a recognised
// termination argument (see loops.go); the loops whose argument is not a counter, a link chain or an
// iterator are listed here with the reason they end.
var otherLoops = map[string]string{}

func ruleTerminate(c *Ctx) {
	const R = "R08-terminate"
	c.floor(R, 20)
	p := c.P
	for _, fn := range p.srcFuncs {
		if fn.Pkg == nil || fn.Pkg.Pkg.Path() != luaPath {
			continue
		}
		if !strings.HasSuffix(p.pos(fn.Pos()), "") || !strings.HasPrefix(p.pos(fn.Pos()), "compile.go:") {
			continue
		}
		g := p.G(fn)
		for k, li := range g.loops() {
			key := loopKey(fn, k)
			c.Sites++
			pos := p.pos(li.Header.Instrs[0].Pos())
			if li.ExitPos.IsValid() {
				pos = p.pos(li.ExitPos)
			}
			if li.Class != "other" {
				c.ok(R, key, pos, li.Class+": "+li.Why)
				continue
			}
			if why, ok := otherLoops[key]; ok {
				c.okT(R, key, pos, "listed: "+why)
				continue
			}
			c.bad(R, key, pos, fmt.Sprintf("a loop of %s has no exit that every iteration evaluates against a counter, a link chain or an iterator: a source text that makes its condition stay true hangs the load (the jump-threading loop of patchCode is bounded by a hop count for this reason)", fname(fn)))
		}
	}
}

// ruleLongComment: 'meaning does not depend on comment forms'. A long comment --[[ … ]] may be followed
// by program text on the same line; the short-comment loop (skip to end of line) must not run after it.
func ruleLongComment(c *Ctx) {
	const R = "R08-comment"
	c.floor(R, 4)
	p := c.P
	fn := c.need(R, "parse", "(*Scanner).skipComments")
	if fn == nil {
		return
	}
	g := p.G(fn)
	ml := p.Fn("parse", "(*Scanner).scanMultilineString")
	body := p.Fn("parse", "(*Scanner).scanMultilineBody")
	next := p.Fn("parse", "(*Scanner).Next")
	calls := append(callsTo(fn, ml), callsTo(fn, body)...)
	if len(calls) == 0 || next == nil {
		c.und(R, "skipComments:long-form", p.pos(fn.Pos()), "skipComments calls neither scanMultilineString nor scanMultilineBody")
		return
	}
	// "--[==" that is not followed by a second bracket is a short comment (F53): the long-comment scanner
	// is entered only once the second '[' has been seen, and never through scanMultilineString, which
	// reports a missing bracket as an error
	{
		entered := len(callsTo(fn, ml)) == 0
		for _, cl := range callsTo(fn, body) {
			okBr := false
			for _, cd := range g.CondsAtInstr(cl) {
				if b, ok := cd.V.(*ssa.BinOp); ok && ((eqHolds(b, cd)) || (b.Op == token.NEQ && !cd.Sense)) {
					if k, ok := constInt(b.Y); ok && k == '[' {
						okBr = true
					}
				}
			}
			if !okBr {
				entered = false
			}
		}
		c.check(entered, R, "skipComments:long-form-needs-second-bracket", p.pos(fn.Pos()), "the long-comment scanner is entered only after '--[', '='*, '['", "skipComments hands '--[=' to the long-string scanner without having seen the second bracket: '--[= note' (a short comment in Lua 5.1) is rejected as an invalid multiline comment")
	}
	// F51: blanks are C's isspace set
	for name, want := range map[string]string{"whitespace1": "\t \f\v", "whitespace2": "\t \f\v\n\r"} {
		v, ok := p.intConst("parse", name)
		missing := ""
		for _, ch := range want {
			if !ok || v&(1<<uint(ch)) == 0 {
				missing += fmt.Sprintf(" %q", ch)
			}
		}
		c.check(missing == "", R, "blanks:"+name, "-", "tab, space, form feed and vertical tab (and the line ends) are blank space", "the lexer's blank set "+name+" lacks"+missing+": Lua 5.1 skips every isspace character between tokens ('return\\f1' is rejected as an invalid token)")
	}
	// F52: a decimal escape is a byte
	if esc := p.Fn("parse", "(*Scanner).scanEscape"); esc != nil {
		eg := p.G(esc)
		wc := p.Fn("parse", "writeChar")
		okc, found := true, false
		for _, cl := range callsTo(esc, wc) {
			cv, isConv := cl.Call.Args[1].(*ssa.Convert)
			if !isConv {
				continue
			}
			if _, fromParse := cv.X.(*ssa.Extract); !fromParse {
				continue
			}
			found = true
			up, _, hasUp, _ := bounds(eg, cl, cv.X)
			if !hasUp || up > 255 {
				okc = false
			}
			// the guard must be able to fire: the parse that produced the value (its error is not looked at)
			// has to be wide enough to represent what three digits can spell, otherwise strconv saturates at
			// the type's maximum and 'val > 255' is never true
			if ex, ok := cv.X.(*ssa.Extract); ok {
				if pc, ok := ex.Tuple.(*ssa.Call); ok {
					if pk, n, ok := stdCall(pc); ok && pk == "strconv" && (n == "ParseInt" || n == "ParseUint") && len(pc.Call.Args) == 3 {
						if bits, ok := constInt(pc.Call.Args[2]); ok && bits != 0 {
							max := int64(1)<<uint(bits) - 1
							if n == "ParseInt" {
								max = int64(1)<<uint(bits-1) - 1
							}
							if max < 999 {
								okc = false
							}
						}
					}
				}
			}
		}
		c.check(found && okc, R, "scanEscape:decimal-escape-is-a-byte", p.pos(esc.Pos()), "\\ddd is written only when ddd <= 255", "scanEscape writes a decimal escape without checking it against 255: '\\300' silently becomes byte 44 instead of the error 'escape sequence too large'")
	}
	for i, cl := range calls {
		b, idx := after(cl)
		var hit ssa.Instruction
		g.walk(b, idx, nil, func(in ssa.Instruction) bool {
			if isCallTo(in, next) {
				hit = in
				return true
			}
			return false
		})
		pos := p.ipos(cl)
		if hit != nil {
			pos = p.ipos(hit)
		}
		c.check(hit == nil, R, fmt.Sprintf("skipComments:long-comment-ends-at-bracket#%d", i+1), pos, "no input is consumed after the long comment has been scanned", "skipComments goes on consuming input after a long-bracket comment has been scanned (it falls into the skip-to-end-of-line loop): program text that follows --[[ … ]] on the same line is discarded ('x = 1 --[[c]] x = 2' leaves x == 1)")
	}
}
