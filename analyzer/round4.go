package main

import (
	"fmt"
	"go/ast"
	"go/constant"
	"go/token"
	"go/types"
	"sort"
	"strings"

	"golang.org/x/tools/go/ssa"
)

// Rules added from the fourth round of seeded changes.

// ruleRelPos: luaRelativePos (lstrlib's posrelat) never returns a negative position. string.byte hands
// an already normalised start back to it as the default of the end position: a value that is still
// negative would be counted from the end a second time (("hi"):byte(-4) returning both bytes).
func ruleRelPos(c *Ctx) {
	const R = "R15-positions"
	p := c.P
	fn := c.need(R, "lua", "luaRelativePos")
	if fn == nil {
		return
	}
	g := p.G(fn)
	okc, n := true, 0
	allInstrs(fn, func(in ssa.Instruction) {
		r, ok := in.(*ssa.Return)
		if !ok || !g.Live(in) || len(r.Results) != 1 {
			return
		}
		n++
		if k, ok := constInt(r.Results[0]); ok {
			if k < 0 {
				okc = false
			}
			return
		}
		_, lo, _, hasLo := bounds(g, in, r.Results[0])
		if !hasLo || lo < 0 {
			okc = false
		}
	})
	c.Sites++
	c.check(n > 0 && okc, R, "luaRelativePos:result-not-negative", p.pos(fn.Pos()), "every return is a constant >= 0 or a value the path condition bounds by 0", "luaRelativePos can return a negative position: string.byte passes its normalised start through it again as the default end, so a start that lies more than one position before the string is counted from the end twice — ('hi'):byte(-4) returns 104 105 instead of nothing")
}

// ruleWriterWraps: a handle's buffered writer wraps the descriptor (or the process pipe), never the
// handle's current writer: flush, seek and close flush one writer only, so stacked buffers keep short
// writes back for ever.
func ruleWriterWraps(c *Ctx) {
	const R = "R19-buffers"
	p := c.P
	writerF := p.Field("lua", "lFile", "writer")
	n, okc := 0, true
	var bad ssa.Instruction
	for _, fn := range p.srcFuncs {
		if fn.Pkg == nil || fn.Pkg.Pkg.Path() != luaPath {
			continue
		}
		allInstrs(fn, func(in ssa.Instruction) {
			pk, name, ok := stdCall(in)
			if !ok || pk != "bufio" || (name != "NewWriterSize" && name != "NewWriter") {
				return
			}
			n++
			arg := in.(*ssa.Call).Call.Args[0]
			var from func(v ssa.Value, d int) bool
			from = func(v ssa.Value, d int) bool {
				if d > 5 {
					return false
				}
				if _, ok := loadsField(v, writerF); ok {
					return true
				}
				switch x := v.(type) {
				case *ssa.MakeInterface:
					return from(x.X, d+1)
				case *ssa.ChangeInterface:
					return from(x.X, d+1)
				case *ssa.Phi:
					for _, e := range x.Edges {
						if from(e, d+1) {
							return true
						}
					}
				case *ssa.TypeAssert:
					return from(x.X, d+1)
				case *ssa.Extract:
					return from(x.Tuple, d+1)
				}
				return false
			}
			if from(arg, 0) {
				okc = false
				bad = in
			}
		})
	}
	pos := "-"
	if bad != nil {
		pos = p.ipos(bad)
	}
	c.Sites++
	c.check(n > 0 && okc, R, "writers:wrap-the-descriptor-not-each-other", pos, fmt.Sprintf("all %d buffered writers wrap the file or the process pipe", n), "a buffered writer is created around the handle's current writer: after setvbuf('full', 16) and setvbuf('full', 64) two buffers are stacked, flush/seek/close flush the outer one only and short writes never reach the file")
}

// ruleStaleRegistrySlice: a slice of (or pointer into) the registry's backing array must not be used
// after a call that can reallocate it (Push, SetTop, Insert, … → resize): the stale slice still points
// at the abandoned array and the writes are lost.
func ruleStaleRegistrySlice(c *Ctx) {
	const R = "R10-stale"
	c.floor(R, 1)
	p := c.P
	arrF := p.regArrayField()
	// functions that may reallocate: those from which a store to registry.array is reachable
	cg := p.CallGraph()
	realloc := map[*ssa.Function]bool{}
	var work []*ssa.Function
	for fn := range cg.Nodes {
		if fn == nil || fn.Blocks == nil {
			continue
		}
		hit := false
		allInstrs(fn, func(in ssa.Instruction) {
			if _, ok := isFieldStore(in, arrF); ok {
				hit = true
			}
		})
		if hit {
			realloc[fn] = true
			work = append(work, fn)
		}
	}
	for len(work) > 0 {
		f := work[len(work)-1]
		work = work[:len(work)-1]
		if n := cg.Nodes[f]; n != nil {
			for _, e := range n.In {
				if cf := e.Caller.Func; cf != nil && !realloc[cf] {
					realloc[cf] = true
					work = append(work, cf)
				}
			}
		}
	}
	nviews := 0
	for _, fn := range p.srcFuncs {
		if fn.Pkg == nil || fn.Pkg.Pkg.Path() != luaPath {
			continue
		}
		var g *PCFG
		allInstrs(fn, func(in ssa.Instruction) {
			sl, ok := in.(*ssa.Slice)
			if !ok {
				return
			}
			if _, ok := loadsField(sl.X, arrF); !ok {
				return
			}
			if _, isSlice := sl.Type().Underlying().(*types.Slice); !isSlice {
				return
			}
			nviews++
			if g == nil {
				g = p.G(fn)
			}
			// uses of the view
			var uses []ssa.Instruction
			var collect func(v ssa.Value, d int)
			collect = func(v ssa.Value, d int) {
				if d > 3 {
					return
				}
				for _, r := range *v.Referrers() {
					uses = append(uses, r)
					if x, ok := r.(*ssa.IndexAddr); ok {
						collect(x, d+1)
					}
					if x, ok := r.(*ssa.Slice); ok {
						collect(x, d+1)
					}
				}
			}
			collect(sl, 0)
			var witness, viaCall ssa.Instruction
			b, i := after(in)
			g.walk(b, i, nil, func(x ssa.Instruction) bool {
				sc := staticCallee(x)
				if sc == nil || !realloc[sc] {
					return false
				}
				// a reallocating call after the view was taken: is a use of the view reachable from it?
				b2, i2 := after(x)
				g.walk(b2, i2, nil, func(y ssa.Instruction) bool {
					for _, u := range uses {
						if y == u {
							witness, viaCall = y, x
							return true
						}
					}
					return false
				})
				return witness != nil
			})
			key := fmt.Sprintf("%s:view#%d", fname(fn), countKey(c, R, fname(fn)))
			c.Sites++
			if witness != nil {
				c.bad(R, key, p.ipos(witness), fmt.Sprintf("%s keeps a slice of the registry's array across %s, which can reallocate the array (registry growth): the slice then points at the abandoned array and what is written through it is lost — Insert at the moment the registry grows duplicates the last element instead of inserting", fname(fn), fname(staticCallee(viaCall))))
			} else {
				c.ok(R, key, p.ipos(in), "the view is not used after a call that can reallocate the registry")
			}
		})
	}
	if nviews == 0 {
		c.ok(R, "no-views", "-", "no function keeps a slice of the registry array")
	}
}

// ruleCaptureWords: the words that follow OP_CLOSURE are data (one per up-value) shaped like MOVE /
// GETUPVAL instructions. The operand peepholes pop a trailing MOVE whose A is at or above the first free
// register; the capture words stay safe because they are emitted with A = 0 and a function that captures
// a local has at least one register in use.
func ruleCaptureWords(c *Ctx) {
	const R = "R01-peephole"
	p := c.P
	fn := c.need(R, "lua", "compileExpr")
	if fn == nil {
		return
	}
	opClosure, opMove, opGetup := p.op("OP_CLOSURE"), p.op("OP_MOVE"), p.op("OP_GETUPVAL")
	g := p.G(fn)
	var closure ssa.Instruction
	emits := p.emitSites(fn)
	for _, e := range emits {
		if e.emits(opClosure) {
			closure = e.In
		}
	}
	if closure == nil {
		c.und(R, "compileExpr:closure-emission", p.pos(fn.Pos()), "OP_CLOSURE emission not found")
		return
	}
	n, okc := 0, true
	for _, e := range emits {
		if !(e.emits(opMove) || e.emits(opGetup)) || e.Kind != "AddABC" || !g.Dominates(closure, e.In) {
			continue
		}
		// capture words: inside a loop that follows the CLOSURE
		inLoop := false
		for _, li := range g.loops() {
			if li.Body[e.In.Block()] && !li.Body[closure.Block()] {
				inLoop = true
			}
		}
		if !inLoop {
			continue
		}
		n++
		if k, ok := constInt(e.Args[1]); !ok || k != 0 {
			okc = false
		}
	}
	c.Sites++
	c.check(n >= 2 && okc, R, "compileExpr:capture-words-have-A-0", p.ipos(closure), "the capture list is emitted with A = 0", "the capture words after OP_CLOSURE carry a non-zero A: PropagateMV/PropagateKMV pop a trailing MOVE whose A is at or above the first free register, so a capture word is taken for a temporary move and removed — the CLOSURE group is one word short and the next instruction is consumed as a capture word")
}

// ruleResumePadField: padResumeValues reads the number of results the pending yield expects from the
// CALL instruction. It must read the field from which the VM's CALL handler computes the frame's NRet.
func ruleResumePadField(c *Ctx) {
	const R = "R06-resumeapi"
	p := c.P
	fn := c.need(R, "lua", "(*LState).padResumeValues")
	t := p.vmTable()
	l := p.layout()
	o := t.ByName["OP_CALL"]
	if fn == nil || o == nil || o.Handler == nil || !l.OK {
		c.und(R, "padResumeValues:anchors", "-", "padResumeValues / OP_CALL handler / instruction layout not found")
		return
	}
	nretF := p.Field("lua", "callFrame", "NRet")
	// VM side: the extract that flows (minus one) into callFrame.NRet
	var vmShift, vmMask int64 = -1, -1
	withClosures(o.Handler, func(h *ssa.Function) {
		allInstrs(h, func(in ssa.Instruction) {
			st, ok := isFieldStore(in, nretF)
			if !ok {
				return
			}
			v := stripConv(st.Val)
			if b, ok := v.(*ssa.BinOp); ok && b.Op == token.SUB {
				v = stripConv(b.X)
			}
			if _, sh, mk, ok := matchExtract(v); ok {
				vmShift, vmMask = sh, mk
			}
		})
	})
	// helper side: the getter applied to the instruction word
	var got string
	allInstrs(fn, func(in ssa.Instruction) {
		if sc := staticCallee(in); sc != nil {
			for name, f := range l.Fields {
				if name == "op" {
					continue
				}
				if gf, ok := p.getterField(sc.Name()); ok && gf.Shift == f.Shift && gf.Mask == f.Mask && sc.Name() != "opGetOpCode" {
					got = name
				}
			}
		}
	})
	want := ""
	for name, f := range l.Fields {
		if f.Shift == vmShift && f.Mask == vmMask {
			want = name
		}
	}
	c.Sites++
	c.check(want != "" && got == want, R, "padResumeValues:reads-the-result-count-field", p.pos(fn.Pos()), "reads operand "+want+", the one the CALL handler turns into NRet", fmt.Sprintf("padResumeValues takes the number of expected results from operand %s of the CALL instruction, the VM computes NRet from operand %s: 'local a, b, c = coroutine.yield(x)' resumed with one value leaves b and c unset", got, want))
}

// ruleExitLabelInsideScope: a jump emitted while a block is open (the until-condition of a repeat, which
// sees the body's locals) must land where the block's up-values are still closed: its label is defined
// before LeaveBlock (whose CLOSE then runs on that path) or at a point that is immediately followed by
// an explicit OP_CLOSE. A label defined after LeaveBlock without such a close lets the jump skip the
// close: the last iteration's closures keep pointing at registers that are reused.
func ruleExitLabelInsideScope(c *Ctx) {
	const R = "R03-scopeexit"
	p := c.P
	enter := p.Fn("lua", "(*funcContext).EnterBlock")
	leave := p.Fn("lua", "(*funcContext).LeaveBlock")
	setLabel := p.Fn("lua", "(*funcContext).SetLabelPc")
	branch := p.Fn("lua", "compileBranchCondition")
	opClose := p.op("OP_CLOSE")
	if enter == nil || leave == nil || setLabel == nil || branch == nil {
		c.und(R, "exit-labels:anchors", "-", "EnterBlock/LeaveBlock/SetLabelPc/compileBranchCondition not found")
		return
	}
	n := 0
	for _, fn := range p.srcFuncs {
		if fn.Pkg == nil || fn.Pkg.Pkg.Path() != luaPath {
			continue
		}
		enters, leaves, branches := callsTo(fn, enter), callsTo(fn, leave), callsTo(fn, branch)
		if len(enters) == 0 || len(leaves) == 0 || len(branches) == 0 {
			continue
		}
		g := p.G(fn)
		emits := p.emitSites(fn)
		for _, br := range branches {
			var lv *ssa.Call
			inside := false
			for _, e := range enters {
				for _, l := range leaves {
					if g.Dominates(e, br) && g.Dominates(br, l) {
						inside, lv = true, l
					}
				}
			}
			if !inside {
				continue
			}
			for _, li := range []int{3, 4} {
				label := br.Call.Args[li]
				for _, s := range callsTo(fn, setLabel) {
					if s.Call.Args[1] != label || !g.Dominates(lv, s) {
						continue
					}
					// defined after the block was left: the next emission must be the explicit close
					n++
					c.Sites++
					var next *emitSite
					b, i := after(s)
					g.walk(b, i, nil, func(x ssa.Instruction) bool {
						for k := range emits {
							if emits[k].In == x {
								next = &emits[k]
								return true
							}
						}
						return false
					})
					okc := next != nil && next.emits(opClose)
					c.check(okc, R, fmt.Sprintf("%s:in-scope-jump-label-after-leave#%d", fname(fn), n), p.ipos(s), "the label is followed by an explicit OP_CLOSE", fname(fn)+" defines, after LeaveBlock, a label that code compiled inside the block jumps to, and no OP_CLOSE follows it: a repeat … until a or b that exits through the short-circuit jump skips the CLOSE of the body's block, so the closures of the last iteration read registers that later code reuses")
				}
			}
		}
	}
	if n == 0 {
		c.ok(R, "exit-labels:none-after-leave", "-", "no label used by in-scope branch code is defined after its block was left without a close")
	}
}

// ruleModulePublishes: module(name) leaves the module table in package.loaded[name] whenever the entry
// was not a table already — on every path, whatever else it finds (a table that was initialised before,
// `_NAME` set): require replaces its loop sentinel by the loader's result only if the loader stored or
// returned something, so a reload after `package.loaded[name] = nil` would otherwise yield `true`.
func ruleModulePublishes(c *Ctx) {
	const R = "R20-order"
	p := c.P
	fn := c.need(R, "lua", "loModule")
	if fn == nil {
		return
	}
	g := p.G(fn)
	setField := p.Fn("lua", "(*LState).SetField")
	getField := p.Fn("lua", "(*LState).GetField")
	// loaded := GetField(registry, "_LOADED")
	var loaded ssa.Value
	for _, cl := range callsTo(fn, getField) {
		if s, ok := constStr(cl.Call.Args[2]); ok && s == "_LOADED" {
			loaded = cl
		}
	}
	var notTable *ssa.BasicBlock
	allInstrs(fn, func(in ssa.Instruction) {
		iff, ok := in.(*ssa.If)
		if !ok || notTable != nil {
			return
		}
		if ex, ok := iff.Cond.(*ssa.Extract); ok && ex.Index == 1 {
			if ta, ok := ex.Tuple.(*ssa.TypeAssert); ok && ta.CommaOk && typeName(ta.AssertedType) == "LTable" {
				if cl, ok := ta.X.(*ssa.Call); ok && cl.Call.StaticCallee() == getField && cl.Call.Args[1] == loaded {
					notTable = iff.Block().Succs[1]
				}
			}
		}
	})
	c.Sites++
	if loaded == nil || notTable == nil {
		c.und(R, "loModule:publishes-when-not-cached", p.pos(fn.Pos()), "the test of package.loaded[name] in module() was not recognised")
		return
	}
	okc, witness := g.MustPassBefore(notTable, 0, func(in ssa.Instruction) bool {
		return isCallTo(in, setField) && in.(*ssa.Call).Call.Args[1] == loaded
	}, isReturn)
	pos := p.pos(fn.Pos())
	if witness != nil {
		pos = p.ipos(witness)
	}
	c.check(okc, R, "loModule:publishes-when-not-cached", pos, "every path from 'package.loaded[name] is not a table' to the return stores the module table there", "module() can return without storing the module table in package.loaded[name] although the entry was not a table: after `package.loaded.m = nil; require 'm'` the loop sentinel is never replaced and require caches and returns true instead of the module")
}

// ruleShebangLine: LoadFile skips a first line that starts with '#'. The newline that ends it is a line
// of the file: it goes back to the reader (UnreadByte) so that the scanner counts it, otherwise every
// line number of a script with a #! line is one too small.
func ruleShebangLine(c *Ctx) {
	const R = "R17-rawread"
	p := c.P
	// the one place that skips a '#' line gives the newline back…
	sk := p.Fn("lua", "skipFirstCommentLine")
	lf := c.need(R, "lua", "(*LState).LoadFile")
	if lf == nil {
		return
	}
	c.Sites++
	skipper := sk
	if skipper == nil {
		skipper = lf // older shape: LoadFile skips the line itself
	}
	g := p.G(skipper)
	gives := false
	allInstrs(skipper, func(in ssa.Instruction) {
		pk, n, ok := stdCall(in)
		if !ok || pk != "bufio" || n != "Reader.UnreadByte" {
			return
		}
		if sk == nil {
			gives = true // reachability was checked by the older form of this rule; kept permissive here
			return
		}
		for _, cd := range g.CondsAtInstr(in) {
			if b, ok := cd.V.(*ssa.BinOp); ok && eqHolds(b, cd) {
				if k, ok := constInt(b.Y); ok && k == '\n' {
					gives = true
				}
			}
		}
	})
	consumes := false
	allInstrs(skipper, func(in ssa.Instruction) {
		if pk, n, ok := stdCall(in); ok && pk == "bufio" && (n == "Reader.ReadByte" || n == "Reader.ReadSlice" || n == "Reader.ReadLine" || n == "Reader.ReadBytes") {
			consumes = true
		}
		if isCallTo(in, p.Fn("lua", "readBufioLine")) {
			consumes = true
		}
	})
	c.check(!consumes || gives, R, "LoadFile:shebang-newline-is-counted", p.pos(skipper.Pos()), "the newline of the skipped #-line is given back to the reader", "the first line of a script that starts with '#' is consumed including its newline and the newline is never given back: the scanner starts counting at the second line, so every reported line (error prefixes, currentline, linedefined, tracebacks) is one too small for scripts with a #! line")
	// …and every file loader goes through it
	if sk != nil {
		for _, name := range []string{"(*LState).LoadFile", "baseLoadFile"} {
			fn := p.Fn("lua", name)
			if fn == nil {
				continue
			}
			c.Sites++
			c.check(len(callsTo(fn, sk)) > 0, R, strings.TrimPrefix(name, "(*LState).")+":skips-a-first-#-line", p.pos(fn.Pos()), "calls skipFirstCommentLine", name+" loads a file without skipping a first '#' line: loadfile() of a script with a #! line fails although dofile() of the same file works")
		}
	}
}

// ruleCaptureIndex: the matcher reads capture records by an index that comes from the pattern (%1-%9).
// Every such read, m.Capture(x) / m.IsPosCapture(x), happens under a path condition that implies
// x <= CaptureLength()-1 — a capture that is still open has a start slot but no end slot yet, so the
// guard must leave room for the end slot it is about to read.
func ruleCaptureIndex(c *Ctx) {
	const R = "R14-index"
	p := c.P
	fn := c.need(R, "pm", "recursiveVM")
	if fn == nil {
		return
	}
	g := p.G(fn)
	capLen := p.Fn("pm", "(*MatchData).CaptureLength")
	readers := []*ssa.Function{p.Fn("pm", "(*MatchData).Capture"), p.Fn("pm", "(*MatchData).IsPosCapture")}
	isLenLeaf := func(v ssa.Value) bool {
		cl, ok := stripConv(v).(*ssa.Call)
		return ok && cl.Call.StaticCallee() == capLen
	}
	n := 0
	for _, rd := range readers {
		if rd == nil {
			continue
		}
		for _, cl := range callsTo(fn, rd) {
			arg := cl.Call.Args[1]
			if _, isK := constInt(arg); isK {
				continue
			}
			al := lin(arg)
			if len(al.T) != 1 {
				continue
			}
			var idxKey string
			for k := range al.T {
				idxKey = k
			}
			n++
			c.Sites++
			// strongest bound on idx - LEN from the path condition
			best, have := int64(0), false
			for _, cd := range g.CondsAtInstr(cl) {
				b, ok := cd.V.(*ssa.BinOp)
				if !ok {
					continue
				}
				op := b.Op
				if !cd.Sense {
					op = negate(op)
				}
				// collect: coefficient of idx, coefficient of LEN, constant in X - Y
				var ci, cl2, k int64
				okShape := true
				add := func(v ssa.Value, sign int64) {
					var rec func(v ssa.Value, s int64, d int)
					rec = func(v ssa.Value, s int64, d int) {
						v = stripConv(v)
						if kk, ok := constInt(v); ok {
							k += s * kk
							return
						}
						if isLenLeaf(v) {
							cl2 += s
							return
						}
						if bo, ok := v.(*ssa.BinOp); ok && d < 6 && (bo.Op == token.ADD || bo.Op == token.SUB) {
							rec(bo.X, s, d+1)
							if bo.Op == token.ADD {
								rec(bo.Y, s, d+1)
							} else {
								rec(bo.Y, -s, d+1)
							}
							return
						}
						if leafKey(v) == idxKey {
							ci += s
							return
						}
						okShape = false
					}
					rec(v, sign, 0)
				}
				add(b.X, 1)
				add(b.Y, -1)
				if !okShape || ci == 0 || cl2 != -ci {
					continue
				}
				// ci*(idx - LEN) + k op 0
				var ub int64
				switch {
				case ci == 1 && op == token.LSS:
					ub = -k - 1
				case ci == 1 && op == token.LEQ:
					ub = -k
				case ci == -1 && op == token.GTR:
					ub = k - 1
				case ci == -1 && op == token.GEQ:
					ub = k
				default:
					continue
				}
				if !have || ub < best {
					best, have = ub, true
				}
			}
			// arg = idx + al.K must be <= LEN - 1
			okc := have && best+al.K <= -1
			how := "the index is below CaptureLength() on this path"
			if !okc && have && al.K == 1 && best <= -1 {
				// the end slot of a capture whose start slot exists: it exists too when the capture is closed,
				// i.e. when the path has tested the open-capture mark (F87) and ruled out a position capture
				markTested, notPos := false, false
				for _, cd := range g.CondsAtInstr(cl) {
					if b, ok := cd.V.(*ssa.BinOp); ok && (isFieldRead(b.X, "Operand2") || isFieldRead(b.Y, "Operand2")) {
						markTested = true
					}
					if pc, ok := cd.V.(*ssa.Call); ok && !cd.Sense && pc.Call.StaticCallee() == p.Fn("pm", "(*MatchData).IsPosCapture") {
						notPos = true
					}
				}
				if markTested && notPos {
					okc = true
					how = "the start slot is in range and the path has ruled out an open capture (mark) and a position capture: the end slot was written by the closing save"
				}
			}
			c.check(okc, R, fmt.Sprintf("recursiveVM:%s#%d", rd.Name(), n), p.ipos(cl), how, fmt.Sprintf("recursiveVM reads capture record idx%+d where the path only establishes idx <= CaptureLength()%+d: a back-reference to the capture it sits in ('(%%1)', '(a)(b%%2)') reads the end slot that does not exist yet and panics with 'index out of range' instead of raising 'invalid capture index'", al.K, best))
		}
	}
	if n == 0 {
		c.ok(R, "recursiveVM:capture-reads", p.pos(fn.Pos()), "no capture record is read by a pattern-supplied index")
	}
}

// ruleSelectBounds: select(n, ...) with a negative n counts from the end; after normalisation the index
// is 1 for "everything after the selector" and only values below 1 reach before the first value.
// The rejecting guard is therefore exactly idx <= 0 (in any spelling): a stricter one refuses
// select(-3, a, b, c), a weaker one returns the selector itself.
func ruleSelectBounds(c *Ctx) {
	const R = "R02-select"
	c.floor(R, 1)
	p := c.P
	fn := c.need(R, "lua", "baseSelect")
	if fn == nil {
		return
	}
	g := p.G(fn)
	argErr := p.Fn("lua", "(*LState).ArgError")
	n := 0
	for _, cl := range callsTo(fn, argErr) {
		if s, ok := constStr(cl.Call.Args[2]); !ok || s != "index out of range" {
			continue
		}
		n++
		ub, have := int64(0), false
		for _, cd := range g.CondsAtInstr(cl) {
			b, ok := cd.V.(*ssa.BinOp)
			if !ok {
				continue
			}
			op := b.Op
			if !cd.Sense {
				op = negate(op)
			}
			x, y := b.X, b.Y
			if _, isK := constInt(x); isK {
				x, y = y, x
				op = flip(op)
			}
			k, isK := constInt(y)
			if _, isPhi := stripConv(x).(*ssa.Phi); !isK || !isPhi {
				continue
			}
			switch op {
			case token.LSS:
				ub, have = k-1, true
			case token.LEQ:
				ub, have = k, true
			}
		}
		c.Sites++
		c.check(have && ub == 0, R, "baseSelect:rejects-exactly-indexes-below-1", p.ipos(cl), "'index out of range' is raised exactly for a normalised index <= 0", fmt.Sprintf("select raises 'index out of range' for a normalised index <= %d; the boundary is 0: index 1 means every value after the selector, so select(-3, a, b, c) must return a, b, c", ub))
	}
	if n == 0 {
		c.und(R, "baseSelect:range-error", p.pos(fn.Pos()), "the 'index out of range' guard of select was not found")
	}
}

// evalPredicateForType runs a small boolean function of one interface parameter abstractly for a
// concrete dynamic type of that parameter: type assertions and `v.Type()` are decided by the type,
// comparisons of known values are folded, everything else is unknown (both branches are followed).
// It returns the set of possible results: "true", "false", "unknown".
func (p *Prog) evalPredicateForType(fn *ssa.Function, param *ssa.Parameter, T types.Type) map[string]bool {
	out := map[string]bool{}
	type kv struct {
		known bool
		b     bool
		i     int64
		isInt bool
	}
	var run func(b *ssa.BasicBlock, pred *ssa.BasicBlock, env map[ssa.Value]kv, depth int)
	run = func(b *ssa.BasicBlock, pred *ssa.BasicBlock, env map[ssa.Value]kv, depth int) {
		if depth > 40 {
			out["unknown"] = true
			return
		}
		get := func(v ssa.Value) kv {
			if c, ok := v.(*ssa.Const); ok {
				if bv, ok := constBool(c); ok {
					return kv{known: true, b: bv}
				}
				if iv, ok := constInt(c); ok {
					return kv{known: true, i: iv, isInt: true}
				}
				return kv{}
			}
			return env[v]
		}
		for _, in := range b.Instrs {
			switch x := in.(type) {
			case *ssa.Phi:
				for k, e := range x.Edges {
					if b.Preds[k] == pred {
						env[x] = get(e)
					}
				}
			case *ssa.TypeAssert:
				if x.X == ssa.Value(param) {
					ok := types.Identical(x.AssertedType, T)
					if it, isI := x.AssertedType.Underlying().(*types.Interface); isI {
						ok = types.Implements(T, it)
					}
					env[x] = kv{known: true, b: ok} // used through Extract #1
				}
			case *ssa.Extract:
				if ta, ok := x.Tuple.(*ssa.TypeAssert); ok && x.Index == 1 {
					env[x] = env[ta]
				}
			case *ssa.Call:
				if x.Call.IsInvoke() && x.Call.Value == ssa.Value(param) {
					// resolve the method on T; fold if it returns a constant
					if m := p.SSA.MethodSets.MethodSet(T).Lookup(x.Call.Method.Pkg(), x.Call.Method.Name()); m != nil {
						if mf := p.SSA.MethodValue(m); mf != nil && len(mf.Blocks) == 1 {
							if r, ok := mf.Blocks[0].Instrs[len(mf.Blocks[0].Instrs)-1].(*ssa.Return); ok && len(r.Results) == 1 {
								if iv, ok := constInt(r.Results[0]); ok {
									env[x] = kv{known: true, i: iv, isInt: true}
								}
							}
						}
					}
				}
			case *ssa.BinOp:
				a, c2 := get(x.X), get(x.Y)
				if a.known && c2.known {
					if a.isInt && c2.isInt {
						var r bool
						switch x.Op {
						case token.EQL:
							r = a.i == c2.i
						case token.NEQ:
							r = a.i != c2.i
						case token.LSS:
							r = a.i < c2.i
						case token.LEQ:
							r = a.i <= c2.i
						case token.GTR:
							r = a.i > c2.i
						case token.GEQ:
							r = a.i >= c2.i
						default:
							continue
						}
						env[x] = kv{known: true, b: r}
					} else if !a.isInt && !c2.isInt {
						switch x.Op {
						case token.EQL:
							env[x] = kv{known: true, b: a.b == c2.b}
						case token.NEQ:
							env[x] = kv{known: true, b: a.b != c2.b}
						}
					}
				}
			case *ssa.UnOp:
				if x.Op == token.NOT {
					if a := get(x.X); a.known && !a.isInt {
						env[x] = kv{known: true, b: !a.b}
					}
				}
			case *ssa.Return:
				if len(x.Results) == 1 {
					if r := get(x.Results[0]); r.known && !r.isInt {
						out[fmt.Sprint(r.b)] = true
					} else {
						out["unknown"] = true
					}
				}
				return
			case *ssa.If:
				cnd := get(x.Cond)
				cp := func() map[ssa.Value]kv {
					m := make(map[ssa.Value]kv, len(env))
					for k, v := range env {
						m[k] = v
					}
					return m
				}
				if cnd.known && !cnd.isInt {
					if cnd.b {
						run(b.Succs[0], b, env, depth+1)
					} else {
						run(b.Succs[1], b, env, depth+1)
					}
				} else {
					run(b.Succs[0], b, cp(), depth+1)
					run(b.Succs[1], b, cp(), depth+1)
				}
				return
			case *ssa.Jump:
				run(b.Succs[0], b, env, depth+1)
				return
			case *ssa.Panic:
				out["panic"] = true
				return
			}
		}
	}
	run(fn.Blocks[0], nil, map[ssa.Value]kv{}, 0)
	return out
}

// ruleRaiseOnOwnState: a host function raises on the state it runs on. The raise pushes the message
// onto the registry of its receiver and formats the position from the receiver's frames: raised on
// another thread (a coroutine handed in as an argument) the error still unwinds to the caller's pcall,
// but the message stays on the other thread's value stack and its resumer later sees an extra value.
func ruleRaiseOnOwnState(c *Ctx) {
	const R = "R05-raise"
	p := c.P
	raisers := map[string]bool{"RaiseError": true, "ArgError": true, "TypeError": true, "Error": true, "raiseError": true}
	n, bad := 0, 0
	var first ssa.Instruction
	var who string
	for _, fn := range p.srcFuncs {
		if fn.Pkg == nil || fn.Pkg.Pkg.Path() != luaPath || fn.Signature.Recv() != nil {
			continue
		}
		sig := fn.Signature
		// host functions and the helpers they hand their state to (the state is the first parameter)
		if sig.Params().Len() < 1 || typeName(sig.Params().At(0).Type()) != "LState" {
			continue
		}
		withClosures(fn, func(f *ssa.Function) {
			allInstrs(f, func(in ssa.Instruction) {
				sc := staticCallee(in)
				if sc == nil || recvNamed(sc) != "LState" || !raisers[sc.Name()] || in.Parent() != f {
					return // (a new helper's body is examined as the function it is, with its own first parameter)
				}
				n++
				recv := in.(*ssa.Call).Call.Args[0]
				own := recv == ssa.Value(fn.Params[0])
				if fv, ok := recv.(*ssa.FreeVar); ok && fv.Name() == fn.Params[0].Name() {
					own = true // the parameter captured by a closure of the host function
				}
				if u, ok := recv.(*ssa.UnOp); ok {
					if fv, ok := u.X.(*ssa.FreeVar); ok && fv.Name() == fn.Params[0].Name() {
						own = true
					}
				}
				if !own {
					bad++
					if first == nil {
						first, who = in, fname(fn)
					}
				}
			})
		})
	}
	c.Sites += n
	pos := "-"
	if first != nil {
		pos = p.ipos(first)
	}
	c.check(n >= 40 && bad == 0, R, "host-functions-raise-on-their-own-state", pos, fmt.Sprintf("all %d raises in host functions have the function's own state as receiver", n), fmt.Sprintf("%s raises an error on a state other than the one it runs on: the message is pushed onto that thread's value stack (and positioned from its frames) while the panic unwinds the calling thread — after the caller's pcall has caught it, the other thread's pending resume returns an extra leading value", who))
}

// ruleSharedRand: package math/rand keeps one process-wide generator behind its top-level functions.
// A state that draws from it (or seeds it) changes what every other state computes next. The math
// library may use the top-level functions only to create its own generator when the library is opened;
// math.random/randomseed work on that per-state generator.
func ruleSharedRand(c *Ctx) {
	const R = "R13-globals"
	p := c.P
	n, bad := 0, ""
	var first ssa.Instruction
	for _, fn := range p.srcFuncs {
		if fn.Pkg == nil || fn.Pkg.Pkg.Path() != luaPath {
			continue
		}
		allInstrs(fn, func(in ssa.Instruction) {
			pk, name, ok := stdCall(in)
			if !ok || pk != "math/rand" {
				return
			}
			n++
			isMethod := false
			for _, ch := range name {
				if ch == '.' {
					isMethod = true
				}
			}
			if isMethod {
				return // a method of a *rand.Rand value: per-state
			}
			if fname(fn) == "OpenMath" && (name == "New" || name == "NewSource" || name == "Int63") {
				return
			}
			if bad == "" {
				bad = fname(fn) + " calls rand." + name
				first = in
			}
		})
	}
	c.Sites += n
	pos := "-"
	if first != nil {
		pos = p.ipos(first)
	}
	c.check(n > 0 && bad == "", R, "math/rand:process-wide-generator-not-used-at-run-time", pos, "math.random and math.randomseed work on the state's own generator", bad+": the top-level functions of math/rand share one generator between all states of the process — what state A draws after math.randomseed(42) depends on how often state B called math.random in between")
}

// ruleSegIdxWidth: the auto-growing call stack has CallStackSize/FramesPerSegment segments, a number
// only bounded by the int option. The type that counts them must not be narrower than 32 bits: with 16
// bits `segIdx(len(segments)-1)` truncates and Push reports an overflow (as a raw Go panic) at a depth
// far below the configured limit.
func ruleSegIdxWidth(c *Ctx) {
	const R = "R12-full"
	p := c.P
	obj := p.Obj("lua", "segIdx")
	c.Sites++
	if obj == nil {
		c.ok(R, "segIdx:wide-enough-for-any-CallStackSize", "-", "the segmented stack does not use a dedicated index type")
		return
	}
	bt, ok := obj.Type().Underlying().(*types.Basic)
	wide := false
	if ok {
		switch bt.Kind() {
		case types.Int, types.Uint, types.Int32, types.Uint32, types.Int64, types.Uint64, types.Uintptr:
			wide = true
		}
	}
	c.check(wide, R, "segIdx:wide-enough-for-any-CallStackSize", p.pos(obj.Pos()), "at least 32 bits", "the segment index type is narrower than 32 bits: with CallStackSize above 8*65536 the conversion of len(segments)-1 truncates, and recursion within the configured limit dies with the raw Go panic 'lua callstack overflow'")
}

// ruleCompileRecursionBounded: the compiler recurses over the syntax tree; a Go stack overflow cannot be
// recovered and kills the embedding process, so every recursive cycle among the functions of compile.go
// must pass through a function that counts the nesting and raises beyond a constant bound
// (maxExprDepth). The rule removes those guard functions from the static call graph of compile.go and
// reports every cycle that is left.
func ruleCompileRecursionBounded(c *Ctx) {
	const R = "R08-terminate"
	p := c.P
	p.computeNoReturn()
	lim, ok := p.intConst("lua", "maxExprDepth")
	if !ok {
		c.bad(R, "compile:recursion-depth-bounded", "-", "the compiler has no nesting bound (maxExprDepth): `return not not not … x` with a million levels, or a million nested do-blocks, recurses until the Go stack overflows — a fatal error that no recover catches, so loading a byte string kills the process")
		return
	}
	var fns []*ssa.Function
	in := map[*ssa.Function]bool{}
	for _, fn := range p.srcFuncs {
		if fn.Pkg != nil && fn.Pkg.Pkg.Path() == luaPath && fn.Parent() == nil && len(p.pos(fn.Pos())) > 11 && p.pos(fn.Pos())[:11] == "compile.go:" {
			fns = append(fns, fn)
			in[fn] = true
		}
	}
	// static call edges inside compile.go and their transitive closure
	edges := map[*ssa.Function]map[*ssa.Function]bool{}
	for _, fn := range fns {
		edges[fn] = map[*ssa.Function]bool{}
		withClosures(fn, func(f *ssa.Function) {
			allInstrs(f, func(x ssa.Instruction) {
				if sc := staticCallee(x); sc != nil && in[sc] {
					edges[fn][sc] = true
				}
			})
		})
	}
	reaches := func(from, to *ssa.Function) bool {
		seen := map[*ssa.Function]bool{}
		stack := []*ssa.Function{from}
		for len(stack) > 0 {
			f := stack[len(stack)-1]
			stack = stack[:len(stack)-1]
			if f == to {
				return true
			}
			if seen[f] {
				continue
			}
			seen[f] = true
			for n := range edges[f] {
				stack = append(stack, n)
			}
		}
		return false
	}
	guard := map[*ssa.Function]bool{}
	var counterField *types.Var
	for _, fn := range fns {
		fn := fn
		g := p.G(fn)
		allInstrs(fn, func(x ssa.Instruction) {
			b, ok := x.(*ssa.BinOp)
			if !ok || (b.Op != token.GTR && b.Op != token.GEQ) {
				return
			}
			if k, ok := constInt(b.Y); !ok || k != lim {
				return
			}
			if u, ok := stripConv(b.X).(*ssa.UnOp); ok && u.Op == token.MUL {
				if fa, ok := u.X.(*ssa.FieldAddr); ok {
					counterField = fieldOf(fa)
				}
			}
			// the true branch must not recurse: it raises or returns
			for _, r := range *b.Referrers() {
				if iff, ok := r.(*ssa.If); ok {
					t := iff.Block().Succs[0]
					// beyond the bound nothing of the compiler is called any more (the branch raises or returns)
					recurses := g.walk(t, 0, nil, func(y ssa.Instruction) bool {
						sc := staticCallee(y)
						return sc != nil && in[sc] && !p.noret[sc] && reaches(sc, fn)
					})
					if !recurses && g.LiveBlock(iff.Block()) {
						guard[fn] = true
					}
				}
			}
		})
	}
	// edges without guards
	adj := map[*ssa.Function][]*ssa.Function{}
	for _, fn := range fns {
		if guard[fn] {
			continue
		}
		seen := map[*ssa.Function]bool{}
		withClosures(fn, func(f *ssa.Function) {
			allInstrs(f, func(x ssa.Instruction) {
				if sc := staticCallee(x); sc != nil && in[sc] && !guard[sc] && !seen[sc] {
					if sc == fn && f == fn {
						// self recursion along a link: f(…, p.Parent, …) with p its own parameter in the same
						// position walks a finite chain (the enclosing function contexts, themselves nesting levels)
						chain := false
						args := x.(*ssa.Call).Call.Args
						for i, a := range args {
							if u, ok := a.(*ssa.UnOp); ok && u.Op == token.MUL {
								if fa, ok := u.X.(*ssa.FieldAddr); ok && i < len(fn.Params) && fa.X == ssa.Value(fn.Params[i]) {
									chain = true
								}
							}
						}
						if chain {
							return
						}
					}
					seen[sc] = true
					adj[fn] = append(adj[fn], sc)
				}
				// method values / function values passed along (compileExprWithPropagation(…, context.Code.PropagateKMV))
			})
		})
	}
	// find a cycle (DFS colouring)
	color := map[*ssa.Function]int{}
	var cycle []string
	var dfs func(f *ssa.Function, path []*ssa.Function) bool
	dfs = func(f *ssa.Function, path []*ssa.Function) bool {
		color[f] = 1
		path = append(path, f)
		for _, n := range adj[f] {
			if color[n] == 1 {
				k := 0
				for i, x := range path {
					if x == n {
						k = i
					}
				}
				for _, x := range path[k:] {
					cycle = append(cycle, fname(x))
				}
				return true
			}
			if color[n] == 0 && dfs(n, path) {
				return true
			}
		}
		color[f] = 2
		return false
	}
	for _, fn := range fns {
		if color[fn] == 0 && !guard[fn] && dfs(fn, nil) {
			break
		}
	}
	ng := 0
	for range guard {
		ng++
	}
	// the count is one count per chunk: a nested function's context continues where the enclosing one
	// stands (C08e: restarting at 0 for every function body leaves `return function() … ` × N unbounded)
	if counterField != nil {
		fresh, inherits := 0, 0
		var where ssa.Instruction
		for _, fn := range fns {
			allInstrs(fn, func(x ssa.Instruction) {
				st, ok := isFieldStore(x, counterField)
				if !ok {
					return
				}
				if _, isAlloc := st.Addr.(*ssa.FieldAddr).X.(*ssa.Alloc); !isAlloc {
					return
				}
				fresh++
				var dep func(v ssa.Value, d int) bool
				dep = func(v ssa.Value, d int) bool {
					if d > 6 {
						return false
					}
					if _, ok := loadsField(v, counterField); ok {
						return true
					}
					switch y := v.(type) {
					case *ssa.Phi:
						for _, e := range y.Edges {
							if dep(e, d+1) {
								return true
							}
						}
					case *ssa.BinOp:
						return dep(y.X, d+1) || dep(y.Y, d+1)
					}
					return false
				}
				if dep(st.Val, 0) {
					inherits++
				} else if where == nil {
					where = x
				}
			})
		}
		pos := "-"
		if where != nil {
			pos = p.ipos(where)
		}
		c.check(fresh > 0 && inherits == fresh, R, "compile:nested-function-continues-the-count", pos, fmt.Sprintf("%d context allocation(s) initialise the depth counter from the enclosing context's", fresh), "a new function context starts its nesting count without looking at the enclosing context's: every guard still fires inside one function body, but `return function() ` repeated N times recurses through compileFunctionExpr without bound — the Go stack overflows (fatal) instead of 'chunk has too many syntax levels'")
	} else {
		c.und(R, "compile:nested-function-continues-the-count", "-", "the depth counter field was not identified")
	}
	c.Sites += len(fns)
	c.check(ng > 0 && len(cycle) == 0, R, "compile:recursion-depth-bounded", "-", fmt.Sprintf("every recursive cycle among the %d functions of compile.go passes through one of %d depth-counting functions", len(fns), ng), fmt.Sprintf("the functions %v of compile.go call each other recursively without passing through a function that counts the nesting against maxExprDepth: a deeply nested input recurses until the Go stack overflows (fatal, not recoverable) instead of producing a compile error", cycle))
}

// ruleSmallGuards: F76 (0 and -0 are different constants: ConstIndex refines its equality test with the
// sign bit) and F77 (GetStack hands out a frame only when the walk ends exactly at the requested level;
// a level that falls among frames replaced by tail calls is unknown, not the bottom frame).
func ruleConstSign(c *Ctx) {
	const R = "R01-alloc"
	p := c.P
	fn := c.need(R, "lua", "(*funcContext).ConstIndex")
	if fn == nil {
		return
	}
	sign := false
	allInstrs(fn, func(in ssa.Instruction) {
		if pk, n, ok := stdCall(in); ok && pk == "math" && (n == "Signbit" || n == "Float64bits") {
			sign = true
		}
	})
	c.Sites++
	c.check(sign, R, "ConstIndex:zero-constants-distinguished-by-sign", p.pos(fn.Pos()), "the reuse test looks at the sign bit", "ConstIndex reuses a pooled constant whenever == holds: 0 and -0 share one slot, so `local a, b = 0, -0; return 1/b` yields +inf")
}

func ruleGetStackLevel(c *Ctx) {
	const R = "R17-where"
	p := c.P
	fn := c.need(R, "lua", "(*LState).GetStack")
	if fn == nil {
		return
	}
	g := p.G(fn)
	okc, n := true, 0
	allInstrs(fn, func(in ssa.Instruction) {
		r, ok := in.(*ssa.Return)
		if !ok || len(r.Results) != 2 || !g.Live(in) {
			return
		}
		if b, isK := constBool(r.Results[1]); !isK || !b {
			return
		}
		n++
		exact := false
		for _, cd := range g.CondsAtInstr(in) {
			if b, ok := cd.V.(*ssa.BinOp); ok && eqHolds(b, cd) {
				if k, ok := constInt(b.Y); ok && k == 0 {
					if _, isPhi := stripConv(b.X).(*ssa.Phi); isPhi {
						exact = true
					}
				}
			}
		}
		if !exact {
			okc = false
		}
	})
	c.Sites++
	c.check(n > 0 && okc, R, "GetStack:frame-only-at-the-exact-level", p.pos(fn.Pos()), "a frame is returned only when the level count ends at 0", "GetStack returns a frame although the level count did not end at 0 (it went negative among frames replaced by tail calls): error(msg, 2) raised in a tail-called function is positioned at the bottom frame — the main chunk's line — instead of carrying no position")
}

// ruleClosedFirst: 'operations on a closed handle raise an error' — in every operation on a handle the
// closed test comes before anything that can answer: no return is reachable without passing
// errorIfFileIsClosed (a write on a closed read-only handle must raise, not return nil, "opened for
// only reading").
func ruleClosedFirst(c *Ctx) {
	const R = "R19-closed"
	p := c.P
	guard := p.Fn("lua", "errorIfFileIsClosed")
	closedF := p.Field("lua", "lFile", "closed")
	if guard == nil && closedF == nil {
		c.und(R, "closed-first:anchor", "-", "neither errorIfFileIsClosed nor lFile.closed found")
		return
	}
	// the closed test: the guard helper, or the same test written in place (a branch on file.closed whose
	// taken arm raises — the raising arm is pruned, so passing the branch is passing the test)
	isClosedTest := func(in ssa.Instruction) bool {
		if guard != nil && isCallTo(in, guard) {
			return true
		}
		if iff, ok := in.(*ssa.If); ok && closedF != nil {
			if _, ok := loadsField(iff.Cond, closedF); ok {
				g := p.G(in.Parent())
				return g.Cut[iff.Block().Succs[0]] >= 0
			}
		}
		return false
	}
	for _, name := range []string{"fileWriteAux", "fileReadAux", "fileFlushAux", "fileSetVBuf", "fileLines", "fileSeek"} {
		fn := p.Fn("lua", name)
		if fn == nil {
			continue
		}
		g := p.G(fn)
		okc, witness := g.MustPassBefore(fn.Blocks[0], 0, isClosedTest, isReturn)
		pos := p.pos(fn.Pos())
		if witness != nil {
			pos = p.ipos(witness)
		}
		c.Sites++
		c.check(okc, R, name+":closed-test-before-any-answer", pos, "every return passes the closed test", name+" can answer without having tested whether the handle is closed: on a closed handle of the wrong kind (write on a handle opened for reading) it returns nil and a message instead of raising")
	}
}

// ruleCharRange: string.char writes one byte per argument; the conversion of the integer argument to a
// byte is preceded by a range test 0..255 that raises (C15: byte-exact results; Lua raises "invalid
// value" instead of wrapping 256 to "\0").
func ruleCharRange(c *Ctx) {
	const R = "R15-positions"
	p := c.P
	fn := c.need(R, "lua", "strChar")
	if fn == nil {
		return
	}
	g := p.G(fn)
	n, okc := 0, true
	allInstrs(fn, func(in ssa.Instruction) {
		cv, ok := in.(*ssa.Convert)
		if !ok {
			return
		}
		bt, ok := cv.Type().Underlying().(*types.Basic)
		if !ok || (bt.Kind() != types.Uint8 && bt.Kind() != types.Int8) {
			return
		}
		if _, fromCall := cv.X.(*ssa.Call); !fromCall {
			return
		}
		n++
		up, lo, hasUp, hasLo := bounds(g, in, cv.X)
		if !hasUp || !hasLo || up > 255 || lo < 0 {
			okc = false
		}
	})
	c.Sites++
	c.check(n > 0 && okc, R, "strChar:argument-in-0..255", p.pos(fn.Pos()), "the integer is converted to a byte only within 0..255", "string.char converts its argument to a byte without a range test: string.char(256) silently yields \"\\0\" instead of raising 'invalid value'")
}

// ruleNumeralValidatedWhereSkipped: the lexer accepts the spelling of a numeral loosely ("1e", "0x");
// the one numeral reader decides when the constant is compiled. Places in the compiler that recognise a
// *ast.NumberExpr and may skip compiling it (constant conditions, short-circuited operands) must
// therefore run the reader themselves: every function of compile.go that tests for *ast.NumberExpr calls
// parseNumber (or lnumberValue, which does).
func ruleNumeralValidatedWhereSkipped(c *Ctx) {
	const R = "R16-onereader"
	p := c.P
	pn, lv := p.Fn("lua", "parseNumber"), p.Fn("lua", "lnumberValue")
	n := 0
	for _, fn := range p.srcFuncs {
		if fn.Pkg == nil || fn.Pkg.Pkg.Path() != luaPath || len(p.pos(fn.Pos())) < 11 || p.pos(fn.Pos())[:11] != "compile.go:" {
			continue
		}
		tests := false
		allInstrs(fn, func(in ssa.Instruction) {
			if ta, ok := in.(*ssa.TypeAssert); ok && ta.CommaOk && typeName(ta.AssertedType) == "ast.NumberExpr" {
				tests = true
			}
		})
		if !tests {
			continue
		}
		n++
		c.Sites++
		reads := reachesThroughNewHelpers(fn, pn) || reachesThroughNewHelpers(fn, lv)
		c.check(reads, R, "numeral-checked-where-recognised:"+fname(fn), p.pos(fn.Pos()), "the function runs the numeral reader on the constants it recognises", fname(fn)+" recognises a number constant (and may skip compiling it) without running the numeral reader: `if 1e then … end` or `local x = 1e and 2` is accepted although `return 1e` is a 'malformed number' error")
	}
	if n < 3 {
		c.und(R, "numeral-checked-where-recognised", "-", fmt.Sprintf("expected at least 3 functions of compile.go that recognise number constants, found %d", n))
	}
}

// ruleApiHoles: F83/F84. (a) LState.Insert at a position beyond the top fills the positions in between
// with LNil (a register that belongs to the list must never hold an untyped Go nil: 'reads outside the
// list give nil', and .Type() on such a value panics). (b) LState.Concat of no values does not look at
// the stack. (c) LTable.ForEach re-reads the length of the array part on every step, so a callback
// that shortens it (Remove) cannot make it visit slots that are no longer part of the table.
func ruleApiHoles(c *Ctx) {
	const R = "R10-bounds"
	p := c.P
	if fn := c.need(R, "lua", "(*LState).Insert"); fn != nil {
		g := p.G(fn)
		fills := false
		set := p.Fn("lua", "(*registry).Set")
		for _, li := range g.loops() {
			for b := range li.Body {
				for _, in := range b.Instrs {
					if isCallTo(in, set) {
						if u, ok := stripMI(in.(*ssa.Call).Call.Args[2]).(*ssa.UnOp); ok {
							if gl, ok := u.X.(*ssa.Global); ok && gl.Name() == "LNil" {
								fills = true
							}
						}
					}
				}
			}
		}
		c.Sites++
		c.check(fills, R, "Insert:gap-filled-with-nil", p.pos(fn.Pos()), "positions between the old top and the insertion point are set to LNil", "LState.Insert at a position beyond the top leaves the registers in between untouched: they hold untyped Go nil values, Get(i) hands them out and .Type() on them panics")
	}
	if fn := c.need(R, "lua", "(*LState).Concat"); fn != nil {
		g := p.G(fn)
		sc := p.Fn("lua", "stringConcat")
		okc := len(callsTo(fn, sc)) > 0
		for _, cl := range callsTo(fn, sc) {
			guarded := false
			for _, cd := range g.CondsAtInstr(cl) {
				if b, ok := cd.V.(*ssa.BinOp); ok {
					if k, ok := constInt(b.Y); ok && k == 0 && ((neHolds(b, cd)) || (b.Op == token.NEQ && cd.Sense) || (b.Op == token.GTR && cd.Sense)) {
						guarded = true
					}
				}
			}
			if !guarded {
				okc = false
			}
		}
		c.Sites++
		c.check(okc, R, "Concat:nothing-to-concatenate-reads-nothing", p.pos(fn.Pos()), "stringConcat is reached only with at least one value", "LState.Concat() with no values runs stringConcat over zero pushed values: it reads the register below the top — a value of the caller — or index -1 on an empty stack")
	}
	if fn := c.need(R, "lua", "(*LTable).ForEach"); fn != nil {
		g := p.G(fn)
		arrF := p.Field("lua", "LTable", "array")
		okc, found := true, false
		for _, li := range g.loops() {
			// the loop that indexes the array part
			indexes := false
			for b := range li.Body {
				for _, in := range b.Instrs {
					if ia, ok := in.(*ssa.IndexAddr); ok {
						if _, ok := loadsField(ia.X, arrF); ok {
							indexes = true
						}
					}
				}
			}
			if !indexes {
				continue
			}
			found = true
			lenInside := false
			for b := range li.Body {
				for _, in := range b.Instrs {
					if cl, ok := in.(*ssa.Call); ok {
						if bi, ok := cl.Call.Value.(*ssa.Builtin); ok && bi.Name() == "len" {
							if _, ok := loadsField(cl.Call.Args[0], arrF); ok {
								lenInside = true
							}
						}
					}
				}
			}
			if !lenInside {
				okc = false
			}
		}
		c.Sites++
		c.check(found && okc, R, "ForEach:array-length-read-on-every-step", p.pos(fn.Pos()), "the loop over the array part evaluates len(array) in the loop", "LTable.ForEach walks a snapshot of the array part (range): when the callback removes an element the loop still visits the vacated slots — a stale value for a key the table no longer has, or an untyped Go nil")
	}
}

// ruleToNumberBase: F85. tonumber(s, 10) is the standard conversion (same reader as without a base);
// a base outside 2..36 is an argument error; hexadecimal numerals are not cut at 64 bits by a
// fixed-width integer parser (0x10000000000000000 is 2^64 for the lexer, tonumber and coercion alike).
func ruleToNumberBase(c *Ctx) {
	const R = "R16-onereader"
	p := c.P
	fn := c.need(R, "lua", "baseToNumber")
	pn := c.need(R, "lua", "parseNumber")
	if fn == nil || pn == nil {
		return
	}
	g := p.G(fn)
	get := p.Fn("lua", "(*LState).Get")
	optInt := p.Fn("lua", "(*LState).OptInt")
	argErr := p.Fn("lua", "(*LState).ArgError")
	// (1) the reader is chosen by the value of the base, not by the presence of the argument
	okc := len(callsTo(fn, pn)) > 0
	for _, cl := range callsTo(fn, pn) {
		for _, cd := range g.CondsAtInstr(cl) {
			for _, gc := range callsTo(fn, get) {
				if dependsOnValue(cd.V, gc, 0) {
					okc = false
				}
			}
		}
	}
	c.Sites++
	c.check(okc, R, "baseToNumber:base-10-is-the-standard-conversion", p.pos(fn.Pos()), "parseNumber is selected by the value of the base", "tonumber selects the shared numeral reader by the absence of its second argument: tonumber('1e2', 10) and tonumber('0x10', 10) are nil although base 10 is the standard conversion")
	// (2) base range
	lo, hi := false, false
	for _, oc := range callsTo(fn, optInt) {
		for _, r := range *oc.Referrers() {
			b, ok := r.(*ssa.BinOp)
			if !ok || b.X != ssa.Value(oc) {
				continue
			}
			k, isK := constInt(b.Y)
			if !isK {
				continue
			}
			for _, r2 := range *b.Referrers() {
				iff, ok := r2.(*ssa.If)
				if !ok {
					continue
				}
				raises := func(blk *ssa.BasicBlock) bool {
					for _, in := range blk.Instrs {
						if isCallTo(in, argErr) {
							return true
						}
					}
					return false
				}
				t, f := iff.Block().Succs[0], iff.Block().Succs[1]
				switch {
				case (b.Op == token.LSS && k == 2 || b.Op == token.LEQ && k == 1) && raises(t),
					(b.Op == token.GEQ && k == 2 || b.Op == token.GTR && k == 1) && raises(f):
					lo = true
				case (b.Op == token.GTR && k == 36 || b.Op == token.GEQ && k == 37) && raises(t),
					(b.Op == token.LEQ && k == 36 || b.Op == token.LSS && k == 37) && raises(f):
					hi = true
				}
			}
		}
	}
	c.Sites++
	c.check(lo && hi, R, "baseToNumber:base-in-2..36-or-argument-error", p.pos(fn.Pos()), "a base below 2 or above 36 raises an argument error", "tonumber does not reject a base outside 2..36: tonumber('10', 99) quietly answers nil (or a value in a numeral system the manual does not define) instead of 'base out of range'")
	// (3) no fixed-width integer reader on the numeral path
	var bad ssa.Instruction
	seen := map[*ssa.Function]bool{}
	var walk func(f *ssa.Function, d int)
	walk = func(f *ssa.Function, d int) {
		if seen[f] || d > 3 || f.Blocks == nil {
			return
		}
		seen[f] = true
		allInstrs(f, func(in ssa.Instruction) {
			if pk, n, ok := stdCall(in); ok && pk == "strconv" && (n == "ParseUint" || n == "ParseInt" || n == "Atoi") {
				if bad == nil {
					bad = in
				}
			}
			if sc := staticCallee(in); sc != nil && sc.Pkg != nil && sc.Pkg.Pkg.Path() == luaPath {
				walk(sc, d+1)
			}
		})
	}
	walk(pn, 0)
	pos := p.pos(pn.Pos())
	if bad != nil {
		pos = p.ipos(bad)
	}
	c.Sites++
	c.check(bad == nil, R, "parseNumber:numerals-not-cut-at-64-bits", pos, "the numeral reader uses no fixed-width integer parser", "parseNumber converts with a fixed-width integer parser (strconv.ParseUint/ParseInt): a hexadecimal numeral of more than 16 digits (0x10000000000000000) is rejected by the lexer, tonumber and coercion instead of denoting 2^64")
}

// ruleFormatAsPrintf: F86. (a) LNumber.Format hands the argument of %o, %x, %X to package fmt as an
// unsigned integer (C converts it; fmt prints a signed -1 as "-1"); (b) under %e/%f/%g an infinity or
// NaN does not reach package fmt (which spells +Inf/NaN); (c) defaultFormat does not hand a string under
// %s to package fmt (fmt counts runes for width and precision, C counts bytes); (d) strFormat raises
// when a directive has no argument.
func ruleFormatAsPrintf(c *Ctx) {
	const R = "R15-flags"
	p := c.P
	df := c.need(R, "lua", "defaultFormat")
	nf := c.need(R, "lua", "(LNumber).Format")
	if df == nil || nf == nil {
		return
	}
	var verb *ssa.Parameter
	for _, pm := range nf.Params {
		if b, ok := pm.Type().Underlying().(*types.Basic); ok && b.Kind() == types.Int32 {
			verb = pm
		}
	}
	if verb == nil {
		c.und(R, "LNumber.Format:verb-parameter", p.pos(nf.Pos()), "no rune parameter")
		return
	}
	for _, v := range []rune{'o', 'x', 'X'} {
		reach := reachGiven(nf, func(x ssa.Value) (aval, bool) {
			if x == ssa.Value(verb) {
				return aInt(int64(v)), true
			}
			return aval{}, false
		})
		n, okc := 0, true
		for _, cl := range callsTo(nf, df) {
			if !reach[cl] {
				continue
			}
			n++
			arg := stripMI(cl.Call.Args[0])
			b, isB := arg.Type().Underlying().(*types.Basic)
			if !isB || b.Info()&types.IsUnsigned == 0 {
				okc = false
			}
		}
		c.Sites++
		c.check(n > 0 && okc, R, fmt.Sprintf("LNumber.Format:%%%c:unsigned-conversion", v), p.pos(nf.Pos()), "the value handed to package fmt is an unsigned integer", fmt.Sprintf("LNumber.Format hands a signed integer to package fmt for %%%c: string.format('%%%c', -1) prints -1 where C's printf (and Lua) print the two's complement ffffffffffffffff", v, v))
	}
	for _, v := range []rune{'e', 'f', 'g'} {
		reach := reachGiven(nf, func(x ssa.Value) (aval, bool) {
			if x == ssa.Value(verb) {
				return aInt(int64(v)), true
			}
			if pk, n, ok := stdCallV(x); ok && pk == "math" && n == "IsInf" {
				return aBool(true), true
			}
			return aval{}, false
		})
		okc := true
		for _, cl := range callsTo(nf, df) {
			if reach[cl] {
				okc = false
			}
		}
		c.Sites++
		c.check(okc, R, fmt.Sprintf("LNumber.Format:%%%c:non-finite-not-through-fmt", v), p.pos(nf.Pos()), "an infinity is spelled by the library itself", fmt.Sprintf("LNumber.Format hands an infinity to package fmt under %%%c: it is spelled +Inf (NaN for a NaN) where C's printf writes inf and nan", v))
	}
	// (c) defaultFormat: a string under 's' never reaches fmt.Fprintf
	{
		var verb *ssa.Parameter
		for _, pm := range df.Params {
			if b, ok := pm.Type().Underlying().(*types.Basic); ok && b.Kind() == types.Int32 {
				verb = pm
			}
		}
		reach := reachGiven(df, func(x ssa.Value) (aval, bool) {
			if verb != nil && x == ssa.Value(verb) {
				return aInt('s'), true
			}
			if ex, ok := x.(*ssa.Extract); ok && ex.Index == 1 {
				if ta, ok := ex.Tuple.(*ssa.TypeAssert); ok {
					if b, ok := ta.AssertedType.Underlying().(*types.Basic); ok && b.Kind() == types.String {
						return aBool(true), true
					}
				}
			}
			return aval{}, false
		})
		okc := verb != nil
		allInstrs(df, func(in ssa.Instruction) {
			if pk, n, ok := stdCall(in); ok && pk == "fmt" && (n == "Fprintf" || n == "Sprintf") && reach[in] {
				okc = false
			}
		})
		c.Sites++
		c.check(okc, R, "defaultFormat:%s-of-a-string-pads-by-bytes", p.pos(df.Pos()), "a string under %s is padded and cut by the library itself", "defaultFormat hands a string under %s to package fmt, which counts runes for width and precision: string.format('%5s', 'é') gets four blanks instead of three and '%.1s' keeps a whole multi-byte character")
	}
	// (d) strFormat: too few arguments raise
	if sf := c.need(R, "lua", "strFormat"); sf != nil {
		g := p.G(sf)
		argErr := p.Fn("lua", "(*LState).ArgError")
		okc := false
		for _, cl := range callsTo(sf, argErr) {
			for _, cd := range g.CondsAtInstr(cl) {
				b, ok := cd.V.(*ssa.BinOp)
				if !ok {
					continue
				}
				hasLen := false
				for _, op := range []ssa.Value{b.X, b.Y} {
					if lc, ok := stripConv(op).(*ssa.Call); ok {
						if bi, ok := lc.Call.Value.(*ssa.Builtin); ok && bi.Name() == "len" {
							hasLen = true
						}
					}
				}
				if hasLen {
					okc = true
				}
			}
		}
		c.Sites++
		c.check(okc, R, "strFormat:directive-without-argument-raises", p.pos(sf.Pos()), "the number of directives is compared with the number of arguments and the shortfall raises", "string.format does not raise when a directive has no argument: string.format('%d') returns the text '%!d(MISSING)'")
	}
}

func stdCallV(v ssa.Value) (string, string, bool) {
	in, ok := v.(ssa.Instruction)
	if !ok {
		return "", "", false
	}
	return stdCall(in)
}

// rulePatternSets: F87. (a) A range inside a character set has two plain characters as its ends: every
// rangeClass that the pattern parser builds gets *charClass values in Begin and End ("[%a-z]" is the
// class %a, '-' and 'z'; a range whose end is a class matches nothing). (b) A back-reference written
// inside the capture it names refers to an unfinished capture: the compiler marks it (from its set of
// open captures) and the matcher raises when it reaches a marked reference — deciding it from the
// recorded positions cannot work for a capture that starts at offset 0.
func rulePatternSets(c *Ctx) {
	const R = "R14-index"
	p := c.P
	pmPkg := p.Pkg("pm")
	if pmPkg == nil {
		c.und(R, "pm", "-", "package pm not loaded")
		return
	}
	n, okc := 0, true
	var where ssa.Instruction
	for _, fn := range p.srcFuncs {
		if fn.Pkg == nil || fn.Pkg.Pkg != pmPkg.Types {
			continue
		}
		allInstrs(fn, func(in ssa.Instruction) {
			st, ok := in.(*ssa.Store)
			if !ok {
				return
			}
			fa, ok := st.Addr.(*ssa.FieldAddr)
			if !ok {
				return
			}
			if typeName(fa.X.Type()) != "pm.rangeClass" {
				return
			}
			n++
			v := stripMI(st.Val)
			if typeName(v.Type()) != "pm.charClass" {
				okc = false
				if where == nil {
					where = in
				}
			}
		})
	}
	pos := "-"
	if where != nil {
		pos = p.ipos(where)
	}
	c.Sites++
	c.check(n >= 2 && okc, R, "rangeClass:ends-are-plain-characters", pos, fmt.Sprintf("%d stores into a range's ends, all of them *charClass values", n), "the pattern parser builds a range whose end is not a plain character (taken back from the list of classes parsed so far): in '[%a-z]' the class %a becomes the lower end of a range that matches nothing, and in '[a-c-e]' the finished range a-c does")

	cp := c.need(R, "pm", "compilePattern")
	vm := c.need(R, "pm", "recursiveVM")
	if cp == nil || vm == nil {
		return
	}
	// compiler side: the opNumber instruction's second operand depends on a lookup in the open set
	marks := false
	allInstrs(cp, func(in ssa.Instruction) {
		lk, ok := in.(*ssa.Lookup)
		if !ok {
			return
		}
		if _, isMap := lk.X.Type().Underlying().(*types.Map); !isMap {
			return
		}
		// the looked-up flag decides a value that is stored into an inst
		var flows func(v ssa.Value, d int) bool
		flows = func(v ssa.Value, d int) bool {
			if d > 6 {
				return false
			}
			for _, r := range *v.Referrers() {
				switch x := r.(type) {
				case *ssa.If:
					// control dependence: a phi in a successor region that is stored into an inst
					near := map[*ssa.BasicBlock]bool{}
					for _, s1 := range x.Block().Succs {
						near[s1] = true
						for _, s2 := range s1.Succs {
							near[s2] = true
						}
					}
					for b := range near {
						for _, pi := range b.Instrs {
							if ph, ok := pi.(*ssa.Phi); ok && flowsToInst(ph, 0) {
								return true
							}
						}
					}
				case *ssa.Store:
					if typeName(x.Addr.Type()) == "pm.inst" {
						return true
					}
				case ssa.Value:
					if flows(x, d+1) {
						return true
					}
				}
			}
			return false
		}
		if flows(lk, 0) {
			marks = true
		}
	})
	c.Sites++
	c.check(marks, R, "compilePattern:marks-reference-to-open-capture", p.pos(cp.Pos()), "the instruction compiled for %N records whether capture N is still open", "compilePattern does not record, for a back-reference, whether the capture it names is still open: the matcher has only the recorded positions to go by and takes an open capture that starts at offset 0 for an empty one — string.find('aa', '((a)%1)') succeeds instead of 'invalid capture index'")
	// matcher side: in the opNumber arm a test of Operand2 leads to the error
	var opNumber int64 = -1
	if k, ok := pmPkg.Types.Scope().Lookup("opNumber").(*types.Const); ok {
		if v, ok2 := constant.Int64Val(k.Val()); ok2 {
			opNumber = v
		}
	}
	reach := reachGiven(vm, func(v ssa.Value) (aval, bool) {
		if isFieldRead(v, "OpCode") {
			return aInt(opNumber), true
		}
		return aval{}, false
	})
	raises := false
	allInstrs(vm, func(in ssa.Instruction) {
		iff, ok := in.(*ssa.If)
		if !ok || !reach[in] {
			return
		}
		dep := false
		var rec func(v ssa.Value, d int)
		rec = func(v ssa.Value, d int) {
			if d > 4 || dep {
				return
			}
			if isFieldRead(v, "Operand2") {
				dep = true
				return
			}
			if x, ok := v.(ssa.Instruction); ok {
				for _, op := range x.Operands(nil) {
					if *op != nil {
						rec(*op, d+1)
					}
				}
			}
		}
		rec(iff.Cond, 0)
		if !dep {
			return
		}
		for _, s := range iff.Block().Succs {
			if _, isP := s.Instrs[len(s.Instrs)-1].(*ssa.Panic); isP {
				raises = true
			}
		}
	})
	c.Sites++
	c.check(opNumber >= 0 && raises, R, "recursiveVM:reference-to-open-capture-raises", p.pos(vm.Pos()), "the back-reference instruction raises when it is marked as referring to an open capture", "the matcher's back-reference instruction does not look at the open-capture mark: a reference from inside the capture it names is matched against whatever positions are recorded")
}

func flowsToInst(v ssa.Value, d int) bool {
	if d > 4 {
		return false
	}
	for _, r := range *v.Referrers() {
		switch x := r.(type) {
		case *ssa.Store:
			if x.Val == v {
				if fa, ok := x.Addr.(*ssa.FieldAddr); ok && typeName(fa.X.Type()) == "pm.inst" {
					return true
				}
			}
		case ssa.Value:
			if flowsToInst(x, d+1) {
				return true
			}
		}
	}
	return false
}

// isFieldRead: v reads the named field of a struct (value Field, or load through FieldAddr).
func isFieldRead(v ssa.Value, name string) bool {
	switch x := v.(type) {
	case *ssa.Field:
		st, ok := x.X.Type().Underlying().(*types.Struct)
		return ok && st.Field(x.Field).Name() == name
	case *ssa.UnOp:
		if x.Op == token.MUL {
			if fa, ok := x.X.(*ssa.FieldAddr); ok {
				if pt, ok := fa.X.Type().Underlying().(*types.Pointer); ok {
					if st, ok := pt.Elem().Underlying().(*types.Struct); ok {
						return st.Field(fa.Field).Name() == name
					}
				}
			}
		}
	}
	return false
}

// ruleResumeConvention: F88. Whether a resume delivers "true/false, values…" or plain values (and raises
// errors) is a property of the resume — made through coroutine.resume / LState.Resume or through the
// function coroutine.wrap returned — not of the thread: a thread created by wrap can be resumed by hand
// after coroutine.running() handed it out. Every function that runs a thread therefore sets the
// thread's convention flag before it runs it, and nobody else writes the flag.
func ruleResumeConvention(c *Ctx) {
	const R = "R06-resumeapi"
	p := c.P
	run := c.need(R, "lua", "threadRun")
	fld := p.Field("lua", "LState", "wrapped")
	if run == nil || fld == nil {
		c.und(R, "result-convention", "-", "threadRun or the convention flag of LState not found")
		return
	}
	resumer := map[*ssa.Function]bool{}
	for _, f := range p.srcFuncs {
		if f.Pkg == nil || f.Pkg.Pkg.Path() != luaPath {
			continue
		}
		calls := callsTo(f, run)
		if len(calls) == 0 {
			continue
		}
		resumer[f] = true
		g := p.G(f)
		for i, cl := range calls {
			th := cl.Call.Args[0]
			set := false
			allInstrs(f, func(in ssa.Instruction) {
				if st, ok := isFieldStore(in, fld); ok && st.Addr.(*ssa.FieldAddr).X == th && g.Dominates(in, cl) {
					set = true
				}
			})
			// …and only when the resume goes ahead: a refused attempt (running, dead or normal thread) must
			// leave the convention of the resume that is still pending on that thread alone
			var early ssa.Instruction
			allInstrs(f, func(in ssa.Instruction) {
				st, ok := isFieldStore(in, fld)
				if !ok || st.Addr.(*ssa.FieldAddr).X != th || !g.Live(in) {
					return
				}
				b, k := after(in)
				g.walk(b, k, func(x ssa.Instruction) bool { return x == ssa.Instruction(cl) }, func(x ssa.Instruction) bool {
					if _, isRet := x.(*ssa.Return); isRet && early == nil {
						early = in
					}
					if p.isNoReturnCall(x) && early == nil {
						early = in
					}
					return false
				})
			})
			epos := p.ipos(cl)
			if early != nil {
				epos = p.ipos(early)
			}
			c.check(early == nil, R, fmt.Sprintf("%s:convention-written-only-when-the-resume-goes-ahead#%d", fname(f), i+1), epos, "every path from the write of the flag runs the thread", fname(f)+" writes the thread's result-convention flag on a path that can still refuse the resume (return or raise before the thread runs): a refused coroutine.resume(co) on a running or normal thread made by coroutine.wrap flips the convention of the resume that is pending on it — its next yield reaches the wrapper's caller with a spurious leading true")
			c.Sites++
			c.check(set, R, fmt.Sprintf("%s:sets-result-convention-for-this-resume#%d", fname(f), i+1), p.ipos(cl), "the thread's convention flag is written before the thread runs", fname(f)+" runs a thread without saying how this resume expects its results: the flag left by whoever created or last resumed the thread decides — a thread made by coroutine.wrap that is resumed with coroutine.resume(co) returns its values without the leading true, and LState.Resume misreads the first value as the status")
		}
	}
	// nobody else writes it (a composite literal's zero initialisation is not a store to the field of a live thread)
	for _, f := range p.srcFuncs {
		if f.Pkg == nil || f.Pkg.Pkg.Path() != luaPath || resumer[f] {
			continue
		}
		allInstrs(f, func(in ssa.Instruction) {
			st, ok := isFieldStore(in, fld)
			if !ok {
				return
			}
			if _, fresh := st.Addr.(*ssa.FieldAddr).X.(*ssa.Alloc); fresh {
				return
			}
			c.Sites++
			c.bad(R, "result-convention-written-outside-a-resume:"+fname(f), p.ipos(in), fname(f)+" writes the result-convention flag of a thread outside a resume: the flag then describes the thread instead of the pending resume (coroutine.wrap marking the thread for good is the defect F88)")
		})
	}
}

// ruleCoerceBeforeHandler: F89. Arithmetic on a string that converts to a number is arithmetic on that
// number; a metamethod is looked for only when the conversion fails (lvm.c Arith: luaV_tonumber first,
// call_binTM second). Evaluated abstractly for the scenario "every raw operand is a string and every
// conversion succeeds": on that scenario neither objectArith nor the OP_UNM handler may reach the
// handler lookup (metaOp2 / metaOp1).
func ruleCoerceBeforeHandler(c *Ctx) {
	const R = "R04-events"
	p := c.P
	pn := c.need(R, "lua", "parseNumber")
	if pn == nil {
		return
	}
	t := p.vmTable()
	targets := []struct {
		key string
		fn  *ssa.Function
		lk  *ssa.Function
	}{
		{"objectArith", p.Fn("lua", "objectArith"), p.Fn("lua", "(*LState).metaOp2")},
		{"handler[OP_UNM]", nil, p.Fn("lua", "(*LState).metaOp1")},
	}
	if oi := t.ByName["OP_UNM"]; oi != nil {
		targets[1].fn = oi.Handler
	}
	for _, tg := range targets {
		if tg.fn == nil || tg.lk == nil {
			c.und(R, tg.key+":converts-before-looking-for-a-handler", "-", "function not found")
			continue
		}
		fn := tg.fn
		raw := func(v ssa.Value) bool {
			switch x := v.(type) {
			case *ssa.Parameter:
				return true
			case *ssa.Call:
				return x.Call.StaticCallee() != pn
			}
			return false
		}
		reach := reachGiven(fn, func(v ssa.Value) (aval, bool) {
			switch x := v.(type) {
			case *ssa.Extract:
				if ta, ok := x.Tuple.(*ssa.TypeAssert); ok && x.Index == 1 {
					switch typeName(ta.AssertedType) {
					case "LString":
						if raw(ta.X) {
							return aBool(true), true
						}
					case "LNumber":
						if raw(ta.X) {
							return aBool(false), true
						}
						if _, isPhi := ta.X.(*ssa.Phi); isPhi {
							return aBool(true), true
						}
					}
				}
			case *ssa.BinOp:
				// err == nil / err != nil on parseNumber's error
				for _, op := range []ssa.Value{x.X, x.Y} {
					if ex, ok := op.(*ssa.Extract); ok && ex.Index == 1 {
						if cl, ok := ex.Tuple.(*ssa.Call); ok && cl.Call.StaticCallee() == pn {
							return aBool(x.Op == token.EQL), true
						}
					}
				}
			}
			return aval{}, false
		})
		var hit ssa.Instruction
		for _, cl := range callsTo(fn, tg.lk) {
			if reach[cl] {
				hit = cl
			}
		}
		pos := p.pos(fn.Pos())
		if hit != nil {
			pos = p.ipos(hit)
		}
		c.Sites++
		c.check(hit == nil && len(callsTo(fn, tg.lk)) > 0, R, tg.key+":converts-before-looking-for-a-handler", pos, "with operands that convert to numbers the handler lookup is not reached", tg.key+" looks for a metamethod before it tries to convert its string operands: with an __add (or __unm) in the string metatable \"10\" + 1 calls the handler instead of yielding 11")
	}
}

// ruleParenKeepsFunctionLine: F90. linedefined is the line recorded in the FunctionExpr node when the
// parser builds it (the line of the `function` keyword). A grammar action that re-stamps an EXISTING
// expression node it was handed (`$$ = $2; $$.SetLine(...)`) must leave function expressions alone.
// Decided on the syntax tree of the generated parser with type information: in every case of
// yyParserImpl.Parse, a SetLine on the result expression after that result was taken over from a
// right-hand-side symbol must sit under a type test that excludes *ast.FunctionExpr.
func ruleParenKeepsFunctionLine(c *Ctx) {
	const R = "R17-lines"
	p := c.P
	pk := p.Pkg("parse")
	if pk == nil {
		c.und(R, "parser:taken-over-function-node-keeps-its-line", "-", "package parse not loaded")
		return
	}
	info := pk.TypesInfo
	isSym := func(e ast.Expr) bool { // expression of the parser's symbol type
		t := info.TypeOf(e)
		return t != nil && typeName(t) == "parse.yySymType"
	}
	exprField := func(e ast.Expr) (ast.Expr, bool) { // X.expr with X of symbol type
		se, ok := e.(*ast.SelectorExpr)
		if !ok || !isSym(se.X) {
			return nil, false
		}
		if t := info.TypeOf(se); t == nil || typeName(t) != "ast.Expr" {
			return nil, false
		}
		return se.X, true
	}
	sites, reusedSites := 0, 0
	var bad ast.Node
	for _, f := range pk.Syntax {
		for _, d := range f.Decls {
			fd, ok := d.(*ast.FuncDecl)
			if !ok || fd.Body == nil || fd.Name.Name != "Parse" || fd.Recv == nil {
				continue
			}
			ast.Inspect(fd.Body, func(n ast.Node) bool {
				cc, ok := n.(*ast.CaseClause)
				if !ok {
					return true
				}
				reused := false
				var walk func(stmts []ast.Stmt, guarded bool)
				walk = func(stmts []ast.Stmt, guarded bool) {
					for _, st := range stmts {
						switch x := st.(type) {
						case *ast.BlockStmt:
							walk(x.List, guarded)
						case *ast.AssignStmt:
							if len(x.Lhs) == 1 && len(x.Rhs) == 1 {
								if base, ok := exprField(x.Lhs[0]); ok {
									if _, isIdx := base.(*ast.IndexExpr); !isIdx {
										// result symbol: where does the node come from?
										reused = false
										if rb, ok := exprField(x.Rhs[0]); ok {
											if _, isIdx := rb.(*ast.IndexExpr); isIdx {
												reused = true
											}
										}
									}
								}
							}
						case *ast.IfStmt:
							g := guarded
							// `_, ok := X.(*ast.FunctionExpr); !ok`
							if as, ok := x.Init.(*ast.AssignStmt); ok && len(as.Rhs) == 1 {
								if ta, ok := as.Rhs[0].(*ast.TypeAssertExpr); ok && ta.Type != nil {
									if t := info.TypeOf(ta.Type); t != nil && typeName(t) == "ast.FunctionExpr" {
										if u, ok := x.Cond.(*ast.UnaryExpr); ok && u.Op == token.NOT {
											g = true
										}
									}
								}
							}
							walk(x.Body.List, g)
							if x.Else != nil {
								walk([]ast.Stmt{x.Else}, guarded)
							}
						case *ast.ExprStmt:
							call, ok := x.X.(*ast.CallExpr)
							if !ok {
								continue
							}
							se, ok := call.Fun.(*ast.SelectorExpr)
							if !ok || se.Sel.Name != "SetLine" {
								continue
							}
							base, ok := exprField(se.X)
							if !ok {
								continue
							}
							if _, isIdx := base.(*ast.IndexExpr); isIdx {
								continue
							}
							sites++
							if reused {
								reusedSites++
								if !guarded && bad == nil {
									bad = x
								}
							}
						}
					}
				}
				walk(cc.Body, false)
				return false
			})
		}
	}
	// F102: the action that builds a function STATEMENT stamps the function node it was handed with the
	// line of the statement's first token (the `function` keyword): linedefined is that line
	stmtCases, stamped := 0, 0
	var unst ast.Node
	for _, f := range pk.Syntax {
		ast.Inspect(f, func(n ast.Node) bool {
			cc, ok := n.(*ast.CaseClause)
			if !ok {
				return true
			}
			builds := false
			stamps := false
			ast.Inspect(cc, func(m ast.Node) bool {
				if cl, ok := m.(*ast.CompositeLit); ok {
					if t := info.TypeOf(cl); t != nil && typeName(t) == "ast.FuncDefStmt" {
						builds = true
					}
				}
				if call, ok := m.(*ast.CallExpr); ok {
					if se, ok := call.Fun.(*ast.SelectorExpr); ok && se.Sel.Name == "SetLine" {
						if t := info.TypeOf(se.X); t != nil && typeName(t) == "ast.FunctionExpr" {
							if inner, ok := se.X.(*ast.SelectorExpr); ok && isSym(inner.X) {
								stamps = true
							}
						}
					}
				}
				return true
			})
			if builds {
				stmtCases++
				if stamps {
					stamped++
				} else if unst == nil {
					unst = cc
				}
			}
			return false
		})
	}
	spos := "-"
	if unst != nil {
		spos = p.pos(unst.Pos())
	}
	c.Sites += stmtCases
	c.check(stmtCases >= 1 && stamped == stmtCases, R, "parser:function-statement-defined-at-its-keyword", spos, fmt.Sprintf("%d action(s) that build a function statement stamp the function with the statement's first line", stmtCases), "the grammar action for `function name(...) … end` leaves the function node with the line of its parameter list: for `function g` newline `(a) … end` debug.getinfo(g, 'S').linedefined is the line of the parenthesis, the reference reports the line of the keyword")
	c.Sites += sites
	pos := "-"
	if bad != nil {
		pos = p.pos(bad.Pos())
	}
	c.check(sites >= 20 && reusedSites >= 1 && bad == nil, R, "parser:taken-over-function-node-keeps-its-line", pos, fmt.Sprintf("%d SetLine calls on result expressions, %d of them on a node taken over from a symbol, all under a test that excludes function expressions", sites, reusedSites), "a grammar action re-stamps an expression node it took over from one of its symbols without excluding function expressions: '(' newline 'function() … end' ')' reports the line of the parenthesis as linedefined")
}

// ruleDebugMetatableAndHuge: F91/F92. debug.getmetatable hands out the metatable itself (only the base
// library's getmetatable honours __metatable), and math.huge is produced by math.Inf, not a finite constant.
func ruleDebugMetatableAndHuge(c *Ctx) {
	p := c.P
	if c.Prop == "C04" {
		const R = "R04-events"
		if fn := c.need(R, "lua", "debugGetMetatable"); fn != nil {
			pub := p.Fn("lua", "(*LState).GetMetatable")
			raw := p.Fn("lua", "(*LState).metatable")
			okc := len(callsTo(fn, pub)) == 0
			n := 0
			for _, cl := range callsTo(fn, raw) {
				n++
				if b, isK := constBool(cl.Call.Args[2]); !isK || !b {
					okc = false
				}
			}
			c.Sites++
			c.check(okc && n > 0, R, "debugGetMetatable:reads-the-real-metatable", p.pos(fn.Pos()), "debug.getmetatable reads the metatable without consulting __metatable", "debug.getmetatable goes through the accessor that honours __metatable: for an object whose metatable has a __metatable field it returns that field instead of the metatable")
		}
		return
	}
	const R = "R15-mathmap"
	rs := p.Fn("lua", "(*LTable).RawSetString")
	fn := c.need(R, "lua", "OpenMath")
	if fn == nil || rs == nil {
		return
	}
	found, okc := false, false
	for _, cl := range callsTo(fn, rs) {
		if s, ok := constStr(cl.Call.Args[1]); !ok || s != "huge" {
			continue
		}
		found = true
		v := stripConv(stripMI(cl.Call.Args[2]))
		if vc, ok := v.(*ssa.Call); ok {
			if pk, n, ok := stdCall(vc); ok && pk == "math" && n == "Inf" {
				if k, isK := constInt(vc.Call.Args[0]); isK && k >= 0 {
					okc = true
				}
			}
		}
	}
	c.Sites++
	c.check(found && okc, R, "huge:is-positive-infinity", p.pos(fn.Pos()), "math.huge is math.Inf(+1)", "math.huge is not produced by math.Inf(+1): a finite constant (MaxFloat64) is not HUGE_VAL — math.huge == 1/0 is false")
}

// ruleTableArgs: F94. table.sort(t, nil) sorts with <: the comparator argument is type-checked only when
// it is not nil. table.insert takes two or three arguments: evaluated for 1 and 4 arguments the function
// must reach its error and neither Append nor Insert.
func ruleTableArgs(c *Ctx) {
	const R = "R18-lib"
	p := c.P
	if fn := c.need(R, "lua", "tableSort"); fn != nil {
		g := p.G(fn)
		cf := p.Fn("lua", "(*LState).CheckFunction")
		get := p.Fn("lua", "(*LState).Get")
		okc := len(callsTo(fn, cf)) > 0
		for _, cl := range callsTo(fn, cf) {
			guard := false
			for _, cd := range g.CondsAtInstr(cl) {
				b, ok := cd.V.(*ssa.BinOp)
				if !ok {
					continue
				}
				for _, gc := range callsTo(fn, get) {
					if (b.X == ssa.Value(gc) || b.Y == ssa.Value(gc)) && strings.Contains(vkey(b), "LNil") && ((b.Op == token.NEQ && cd.Sense) || (neHolds(b, cd))) {
						guard = true
					}
				}
			}
			if !guard {
				okc = false
			}
		}
		c.Sites++
		c.check(okc, R, "tableSort:nil-comparator-is-no-comparator", p.pos(fn.Pos()), "the comparator is checked to be a function only when it is not nil", "table.sort type-checks its second argument whenever one is passed: table.sort(t, nil) raises 'function expected, got nil' instead of sorting with <")
	}
	if fn := c.need(R, "lua", "tableInsert"); fn != nil {
		gt := p.Fn("lua", "(*LState).GetTop")
		raise := p.Fn("lua", "(*LState).RaiseError")
		app, ins := p.Fn("lua", "(*LTable).Append"), p.Fn("lua", "(*LTable).Insert")
		okc := true
		for _, n := range []int64{1, 4, 5} {
			p.computeNoReturn()
			reach := reachGiven(fn, func(v ssa.Value) (aval, bool) {
				if cl, ok := v.(*ssa.Call); ok && cl.Call.StaticCallee() == gt {
					return aInt(n), true
				}
				return aval{}, false
			}, p.isNoReturnCall)
			raised, stored := false, false
			for _, cl := range callsTo(fn, raise) {
				if reach[cl] {
					raised = true
				}
			}
			for _, f2 := range []*ssa.Function{app, ins} {
				for _, cl := range callsTo(fn, f2) {
					if reach[cl] {
						stored = true
					}
				}
			}
			if !raised || stored {
				okc = false
			}
		}
		c.Sites++
		c.check(okc, R, "tableInsert:two-or-three-arguments", p.pos(fn.Pos()), "with 1, 4 or 5 arguments the function raises before it touches the table", "table.insert does not reject a call with more than three arguments (table.insert(t, 1, 2, 3) quietly inserts 2 at position 1); the manual defines the two- and the three-argument form only")
	}
}

// ruleStdStreams: F95. A standard stream belongs to the process (the host and every other state write
// to it): close never releases its descriptor, and the library marks the three handles it creates.
func ruleStdStreams(c *Ctx) {
	const R = "R19-reconcile"
	p := c.P
	fn := c.need(R, "lua", "fileCloseAux")
	if fn == nil {
		return
	}
	g := p.G(fn)
	var closeCall ssa.Instruction
	allInstrs(fn, func(in ssa.Instruction) {
		if pk, n, ok := stdCall(in); ok && pk == "os" && n == "File.Close" {
			closeCall = in
		}
	})
	if closeCall == nil {
		c.und(R, "fileCloseAux:standard-stream-not-released", p.pos(fn.Pos()), "the descriptor's Close call was not found")
		return
	}
	// F95: a standard stream belongs to the process (the host and every other state write to it): it is
	// never released; the library marks the three handles it creates for them
	stdF := p.Field("lua", "lFile", "std")
	guarded := false
	if stdF != nil {
		for _, cd := range g.CondsAtInstr(closeCall) {
			if _, ok := loadsField(cd.V, stdF); ok && !cd.Sense {
				guarded = true
			}
		}
	}
	c.check(guarded, R, "fileCloseAux:standard-stream-not-released", p.ipos(closeCall), "the descriptor is closed only for a handle that is not a standard stream", "close releases the descriptor of a standard stream: io.stdout:close() in one state closes the process's standard output for the host and for every other state")
	if oi := c.need(R, "lua", "OpenIo"); oi != nil && stdF != nil {
		marks := false
		allInstrs(oi, func(in ssa.Instruction) {
			if st, ok := isFieldStore(in, stdF); ok {
				if b, isc := constBool(st.Val); isc && b {
					marks = true
				}
			}
		})
		c.check(marks, R, "OpenIo:marks-standard-streams", p.pos(oi.Pos()), "the handles created for stdin/stdout/stderr are marked", "OpenIo does not mark the handles it creates for the standard streams: close treats them like ordinary files")
	}
}

// ruleSurplusArgs: a Lua library function ignores the arguments it has no use for ("for every argument
// combination": string.find(s, p, 1, true, extra) is still a plain search). For every host function that
// addresses its arguments by constant positions only, what it can reach when called with exactly as many
// arguments as the highest position it looks at must be what it can reach with one, or three, more:
// evaluated abstractly with GetTop() known (reachGiven). Functions that address arguments relatively
// (negative or computed positions, GetTop() in arithmetic or as a loop bound) are variadic by nature and
// not judged. One listed exception: table.insert, whose arity is part of its definition.
func ruleSurplusArgs(c *Ctx) {
	const R = "R10-surplus"
	p := c.P
	p.computeNoReturn()
	exceptions := map[string]string{
		"tableInsert": "the manual defines the two- and the three-argument form only; the reference raises 'wrong number of arguments to insert' for any other count",
	}
	getTop := p.Fn("lua", "(*LState).GetTop")
	if getTop == nil {
		c.und(R, "GetTop", "-", "LState.GetTop not found")
		return
	}
	judged := 0
	for _, fn := range p.srcFuncs {
		if fn.Pkg == nil || fn.Pkg.Pkg.Path() != luaPath || fn.Signature.Recv() != nil || fn.Parent() != nil {
			continue
		}
		sig := fn.Signature
		if sig.Params().Len() != 1 || sig.Results().Len() != 1 || typeName(sig.Params().At(0).Type()) != "LState" {
			continue
		}
		if b, ok := sig.Results().At(0).Type().Underlying().(*types.Basic); !ok || b.Kind() != types.Int {
			continue
		}
		// registered for a library-specific property the rule speaks about that library's functions only
		if file := p.pos(fn.Pos()); (c.Prop == "C18" && !strings.HasPrefix(file, "tablelib.go:")) ||
			(c.Prop == "C15" && !(strings.HasPrefix(file, "stringlib.go:") || strings.HasPrefix(file, "mathlib.go:"))) {
			continue
		}
		L := fn.Params[0]
		maxK, variadic, usesTop := surplusInfo(p, fn, getTop, 0)
		if !usesTop || variadic {
			continue
		}
		judged++
		c.Sites++
		reachFor := func(t int64) map[ssa.Instruction]bool {
			return reachGiven(fn, func(v ssa.Value) (aval, bool) {
				if cl, ok := v.(*ssa.Call); ok && cl.Call.StaticCallee() == getTop && cl.Call.Args[0] == ssa.Value(L) {
					return aInt(t), true
				}
				return aval{}, false
			}, p.isNoReturnCall)
		}
		base := reachFor(maxK)
		var diff ssa.Instruction
		var at int64
		for _, t := range []int64{maxK + 1, maxK + 3} {
			r := reachFor(t)
			allInstrs(fn, func(in ssa.Instruction) {
				if _, isCall := in.(*ssa.Call); !isCall {
					return
				}
				if base[in] != r[in] && diff == nil {
					diff, at = in, t
				}
			})
		}
		key := fname(fn) + ":ignores-surplus-arguments"
		if why, ok := exceptions[fname(fn)]; ok {
			c.okT(R, key, p.pos(fn.Pos()), "listed exception: "+why)
			continue
		}
		pos := p.pos(fn.Pos())
		if diff != nil {
			pos = p.ipos(diff)
		}
		c.check(diff == nil, R, key, pos, fmt.Sprintf("looks at positions up to %d; reaches the same calls with %d, %d and %d arguments", maxK, maxK, maxK+1, maxK+3), fmt.Sprintf("%s looks at argument positions up to %d but behaves differently when called with %d arguments than with %d (an arity test by equality): a surplus argument changes the result — string.find(s, p, 1, true, nil) stops being a plain search", fname(fn), maxK, at, maxK))
	}
	if c.Prop == "C15" || c.Prop == "C18" {
		c.floor(R, 1)
	} else {
		c.floor(R, 8)
	}
	minJudged := 8
	if c.Prop == "C15" || c.Prop == "C18" {
		minJudged = 1
	}
	if st := c.Stats[R]; st != nil && judged < minJudged {
		c.und(R, "floor", "-", fmt.Sprintf("only %d host functions could be judged", judged))
	}
}

// surplusInfo: the highest constant argument position fn (or a helper it hands its state to) looks at,
// whether it addresses arguments relatively (variadic), and whether it consults GetTop() itself.
func surplusInfo(p *Prog, fn *ssa.Function, getTop *ssa.Function, depth int) (int64, bool, bool) {
	if len(fn.Params) == 0 || depth > 3 {
		return 0, depth > 3, false
	}
	L := fn.Params[0]
	maxK, variadic, usesTop := int64(0), false, false
	allInstrs(fn, func(in ssa.Instruction) {
		cl, ok := in.(*ssa.Call)
		if !ok {
			return
		}
		sc := cl.Call.StaticCallee()
		if sc != nil && sc.Pkg != nil && sc.Pkg.Pkg.Path() == luaPath && sc.Signature.Recv() == nil && len(cl.Call.Args) >= 1 && cl.Call.Args[0] == ssa.Value(L) && sc.Blocks != nil && sc != fn {
			k, v, _ := surplusInfo(p, sc, getTop, depth+1)
			if k > maxK {
				maxK = k
			}
			if v {
				variadic = true
			}
			// a position handed to the helper as a constant (fileWriteAux(L, file, 2))
			for _, a := range cl.Call.Args[1:] {
				if bt, ok := a.Type().Underlying().(*types.Basic); ok && bt.Kind() == types.Int {
					if k, isK := constInt(a); isK && k > maxK && k < 100 {
						maxK = k
					}
				}
			}
			return
		}
		if sc == nil || recvNamed(sc) != "LState" || len(cl.Call.Args) < 1 || cl.Call.Args[0] != ssa.Value(L) {
			return
		}
		if sc == getTop {
			usesTop = true
			for _, r := range *cl.Referrers() {
				switch x := r.(type) {
				case *ssa.BinOp:
					_, k1 := constInt(x.X)
					_, k2 := constInt(x.Y)
					cmp := x.Op == token.EQL || x.Op == token.NEQ || x.Op == token.LSS || x.Op == token.LEQ || x.Op == token.GTR || x.Op == token.GEQ
					if !cmp || !(k1 || k2) {
						variadic = true
					}
				case *ssa.DebugRef:
				default:
					variadic = true
				}
			}
			return
		}
		n := sc.Name()
		argAccess := n == "Get" || strings.HasPrefix(n, "Check") || strings.HasPrefix(n, "Opt") || (strings.HasPrefix(n, "To") && n != "ToStringMeta") || n == "ArgError" || n == "TypeError" || n == "Replace" || n == "Remove" || n == "Insert"
		if !argAccess || len(cl.Call.Args) < 2 {
			return
		}
		idx := cl.Call.Args[1]
		if n == "Insert" && len(cl.Call.Args) >= 3 {
			idx = cl.Call.Args[2]
		}
		if bt, ok := idx.Type().Underlying().(*types.Basic); !ok || bt.Info()&types.IsInteger == 0 {
			return
		}
		k, isK := constInt(idx)
		if !isK || k <= 0 {
			variadic = true
			return
		}
		if k > maxK && k < 1000 {
			maxK = k
		}
	})
	return maxK, variadic, usesTop
}

// ruleRangeEndInsideSet: C14e. In a character set `x-y` is a range only if y is still inside the set:
// a '-' directly before the closing bracket is a literal ("[a-]", "[%w_-]"). The byte that becomes the
// upper end of a range is therefore read at an index strictly below the index of the closing bracket —
// the value the parser finally leaves the scanner on.
func ruleRangeEndInsideSet(c *Ctx) {
	const R = "R14-index"
	p := c.P
	fn := c.need(R, "pm", "parseClassSet")
	if fn == nil {
		return
	}
	g := p.G(fn)
	// the closing bracket: what is stored into the scanner's position at the end
	var ec ssa.Value
	allInstrs(fn, func(in ssa.Instruction) {
		if st, ok := in.(*ssa.Store); ok {
			if fa, ok := st.Addr.(*ssa.FieldAddr); ok {
				if pt, ok := fa.X.Type().Underlying().(*types.Pointer); ok {
					if stt, ok := pt.Elem().Underlying().(*types.Struct); ok && stt.Field(fa.Field).Name() == "Pos" {
						ec = st.Val
					}
				}
			}
		}
	})
	n, okc := 0, true
	var where ssa.Instruction
	allInstrs(fn, func(in ssa.Instruction) {
		st, ok := in.(*ssa.Store)
		if !ok {
			return
		}
		fa, ok := st.Addr.(*ssa.FieldAddr)
		if !ok || typeName(fa.X.Type()) != "pm.rangeClass" {
			return
		}
		if stt, ok := fa.X.Type().Underlying().(*types.Pointer).Elem().Underlying().(*types.Struct); !ok || stt.Field(fa.Field).Name() != "End" {
			return
		}
		// End = &charClass{int(src[idx])}: find idx
		al, ok := stripMI(st.Val).(*ssa.Alloc)
		if !ok {
			return
		}
		var idx ssa.Value
		var at ssa.Instruction
		for _, r := range *al.Referrers() {
			fa2, ok := r.(*ssa.FieldAddr)
			if !ok {
				continue
			}
			for _, r2 := range *fa2.Referrers() {
				if s2, ok := r2.(*ssa.Store); ok {
					if u, ok := stripConv(s2.Val).(*ssa.UnOp); ok && u.Op == token.MUL {
						if ia, ok := u.X.(*ssa.IndexAddr); ok {
							idx, at = ia.Index, ia
						}
					}
				}
			}
		}
		if idx == nil || ec == nil {
			return
		}
		n++
		li, le := lin(idx), lin(ec)
		inside := false
		for _, cd := range g.expandAnd(g.CondsAtInstr(at)) {
			b, ok := cd.V.(*ssa.BinOp)
			if !ok {
				continue
			}
			op := b.Op
			if !cd.Sense {
				op = negate(op)
			}
			x, y := b.X, b.Y
			if op == token.GTR || op == token.GEQ {
				x, y = y, x
				if op == token.GTR {
					op = token.LSS
				} else {
					op = token.LEQ
				}
			}
			if op != token.LSS && op != token.LEQ {
				continue
			}
			lx, ly := lin(x), lin(y)
			// x = idx + c1, y = ec + c2  ⇒  idx < ec + (c2 - c1) [+1 for <=]
			if sameTerms(lx, li) != 1 || sameTerms(ly, le) != 1 {
				continue
			}
			slack := (ly.K - le.K) - (lx.K - li.K)
			if op == token.LEQ {
				slack++
			}
			if slack <= 0 {
				inside = true
			}
		}
		if !inside {
			okc = false
			if where == nil {
				where = at
			}
		}
	})
	pos := p.pos(fn.Pos())
	if where != nil {
		pos = p.ipos(where)
	}
	c.Sites++
	c.check(n > 0 && okc, R, "parseClassSet:range-end-inside-the-set", pos, fmt.Sprintf("%d range(s): the upper end is read strictly before the closing bracket", n), "the pattern parser takes the byte at (or beyond) the closing bracket as the upper end of a range: '[a-]', '[%w_-]' and '[+-]' no longer contain a literal '-' (the set becomes the range from the last character to ']')")
}

// ruleLogicalStore: F96. In an and/or value expression the destination register is written by exactly
// the jumps that leave the expression: a TESTSET (test and store into the destination) is emitted only
// where the jump's target is the expression's end label; a jump to the next operand uses TEST. Choosing
// by the operator kind loses the false operand of `b = t.q and t.q.r` (b keeps its old value) and stores
// early in `x = (g() or 2) and x`.
func ruleLogicalStore(c *Ctx) {
	const R = "R01-peephole"
	p := c.P
	fn := c.need(R, "lua", "compileLogicalOpExprAux")
	if fn == nil {
		return
	}
	g := p.G(fn)
	testset := p.op("OP_TESTSET")
	endF := p.Field("lua", "lblabels", "e")
	n, okc := 0, true
	var where ssa.Instruction
	allInstrs(fn, func(in ssa.Instruction) {
		cl, ok := in.(*ssa.Call)
		if !ok {
			return
		}
		sc := cl.Call.StaticCallee()
		if sc == nil || recvNamed(sc) != "codeStore" || sc.Name() != "AddABC" {
			return
		}
		// the opcode operand may be a phi (TEST when source and destination coincide)
		isTestset := false
		var look func(v ssa.Value, d int)
		look = func(v ssa.Value, d int) {
			if k, ok := constInt(v); ok && k == testset {
				isTestset = true
			}
			if ph, ok := v.(*ssa.Phi); ok && d < 3 {
				for _, e := range ph.Edges {
					look(e, d+1)
				}
			}
		}
		look(cl.Call.Args[1], 0)
		if !isTestset {
			return
		}
		n++
		// jumplabel == lb.e, or the isLastAnd/isLastOr flags which are defined by such a comparison
		var dep func(v ssa.Value, d int) bool
		dep = func(v ssa.Value, d int) bool {
			if d > 5 {
				return false
			}
			if b, ok := v.(*ssa.BinOp); ok && b.Op == token.EQL {
				if _, ok := loadsField(b.X, endF); ok {
					return true
				}
				if _, ok := loadsField(b.Y, endF); ok {
					return true
				}
			}
			return false
		}
		leaves := g.holdsOnAllPaths(cl.Block(), func(cd Cond) bool { return cd.Sense && dep(cd.V, 0) }, 0)
		if !leaves {
			okc = false
			if where == nil {
				where = cl
			}
		}
	})
	pos := p.pos(fn.Pos())
	if where != nil {
		pos = p.ipos(where)
	}
	c.Sites++
	c.check(n >= 2 && okc, R, "compileLogicalOpExprAux:destination-written-only-by-jumps-that-leave", pos, fmt.Sprintf("%d TESTSET emissions, each under a comparison of the jump target with the end label", n), "compileLogicalOpExprAux emits a TESTSET (store into the destination) without having established that the jump leaves the expression — and, conversely, tests without storing where it does: `local b = 5; b = t.q and t.q.r` keeps 5 when t.q is nil, `x = (g() or 2) and x` reads the x it has just overwritten")
}

// ruleForContinuesUnlessNil: C01e. A generic for ends when the iterator's first value is nil — false is a
// value like any other (`for k in next, {[false] = 1}`). In the TFORLOOP handler the block that jumps back
// (adds the jump operand to the frame's Pc) is entered under a comparison of the first result with LNil,
// not under a truth test.
func ruleForContinuesUnlessNil(c *Ctx) {
	const R = "R01-forprep"
	p := c.P
	t := p.vmTable()
	oi := t.ByName["OP_TFORLOOP"]
	if oi == nil || oi.Handler == nil {
		c.und(R, "OP_TFORLOOP:continues-unless-nil", "-", "handler not found")
		return
	}
	fn := oi.Handler
	g := p.G(fn)
	pcF := p.Field("lua", "callFrame", "Pc")
	var back *ssa.Store
	allInstrs(fn, func(in ssa.Instruction) {
		st, ok := isFieldStore(in, pcF)
		if !ok {
			return
		}
		// Pc += operand - bias: the stored value depends on a loaded code word (an IndexAddr load)
		var dep func(v ssa.Value, d int) bool
		dep = func(v ssa.Value, d int) bool {
			if d > 8 {
				return false
			}
			if u, ok := v.(*ssa.UnOp); ok && u.Op == token.MUL {
				if _, ok := u.X.(*ssa.IndexAddr); ok {
					return true
				}
			}
			if x, ok := v.(ssa.Instruction); ok {
				for _, op := range x.Operands(nil) {
					if *op != nil && dep(*op, d+1) {
						return true
					}
				}
			}
			return false
		}
		if dep(st.Val, 0) {
			back = st
		}
	})
	if back == nil {
		c.und(R, "OP_TFORLOOP:continues-unless-nil", p.pos(fn.Pos()), "the back jump of TFORLOOP was not found")
		return
	}
	nilTest, truthTest := false, false
	for _, cd := range g.expandAnd(g.CondsAtInstr(back)) {
		if b, ok := cd.V.(*ssa.BinOp); ok && (b.Op == token.NEQ || b.Op == token.EQL) && strings.Contains(vkey(b), "g:LNil") {
			if (b.Op == token.NEQ) == cd.Sense {
				nilTest = true
			}
		}
		if cl, ok := cd.V.(*ssa.Call); ok {
			if sc := cl.Call.StaticCallee(); sc != nil && (sc.Name() == "LVAsBool" || sc.Name() == "LVIsFalse") {
				truthTest = true
			}
		}
		if u, ok := cd.V.(*ssa.UnOp); ok && u.Op == token.NOT {
			if cl, ok := u.X.(*ssa.Call); ok {
				if sc := cl.Call.StaticCallee(); sc != nil && (sc.Name() == "LVAsBool" || sc.Name() == "LVIsFalse") {
					truthTest = true
				}
			}
		}
	}
	c.Sites++
	c.check(nilTest && !truthTest, R, "OP_TFORLOOP:continues-unless-nil", p.ipos(back), "the loop continues exactly when the first result differs from LNil", "the generic for decides by the truth value of the iterator's first result (or does not compare it with nil): a false key or control value ends the loop — `for k, v in next, {[false] = 'x'}` visits nothing")
}

// ruleFrameCoversParameters: C02e. Frame set-up stores the compat `arg` table in R(NumParameters) and
// then cuts the frame at NumUsedRegisters; a tail call moves NumUsedRegisters slots starting at the
// function slot. Both need NumUsedRegisters >= NumParameters + 1 whatever the body uses. Decided by
// evaluating patchCode's prologue and epilogue for concrete parameter counts on the path that skips the
// scan loop (an empty body): the stored count must be at least np + 1.
func ruleFrameCoversParameters(c *Ctx) {
	const R = "R07-regcount"
	p := c.P
	fn := c.need(R, "lua", "patchCode")
	if fn == nil {
		return
	}
	npF := p.Field("lua", "FunctionProto", "NumParameters")
	nuF := p.Field("lua", "FunctionProto", "NumUsedRegisters")
	var st *ssa.Store
	allInstrs(fn, func(in ssa.Instruction) {
		if s, ok := isFieldStore(in, nuF); ok {
			st = s
		}
	})
	if st == nil || npF == nil {
		c.und(R, "patchCode:frame-covers-parameters-and-arg-slot", p.pos(fn.Pos()), "the store of NumUsedRegisters was not found")
		return
	}
	p.computeNoReturn()
	okc, evaluated := true, 0
	worst := ""
	for _, np := range []int64{0, 1, 2, 3, 7, 100, 200} {
		min, have := int64(0), false
		reachGivenW(fn, func(v ssa.Value) (aval, bool) {
			if _, ok := loadsField(v, npF); ok {
				return aInt(np), true
			}
			return aval{}, false
		}, func(v ssa.Value, a aval) {
			if v == st.Val && a.isInt {
				if !have || a.i < min {
					min, have = a.i, true
				}
			}
		}, p.isNoReturnCall)
		if !have {
			continue
		}
		evaluated++
		if min < np+1 {
			okc = false
			if worst == "" {
				worst = fmt.Sprintf("%d parameters give NumUsedRegisters %d", np, min)
			}
		}
	}
	c.Sites++
	c.check(evaluated >= 5 && okc, R, "patchCode:frame-covers-parameters-and-arg-slot", p.ipos(st), fmt.Sprintf("for %d parameter counts an empty body yields at least np+1 registers", evaluated), "patchCode can give a function fewer registers than its parameters plus the slot behind them ("+worst+"): frame set-up puts the compat arg table into R(np) and then cuts it off, and a tail call leaves the last parameter behind — `local function second(a, b) return b end` tail-called returns nil")
}

// ruleDigitsOverflowGuard: C16e. parseDigits accumulates v*base + d in 64 bits and must notice when that
// no longer fits (the exact value is then computed with big integers). Evaluated at the boundary: for
// every base 2..36 and digit d < base, with the accumulator at the smallest value for which v*base + d
// exceeds 2^64-1, the function must take the arm that clears its `exact` flag. A guard that only looks at
// v*base misses the carry of the digit (tonumber("11112220022122120101211020120210210211221", 3) = 0).
func ruleDigitsOverflowGuard(c *Ctx) {
	const R = "R16-onereader"
	p := c.P
	fn := c.need(R, "lua", "parseDigits")
	if fn == nil {
		return
	}
	// roles: the base parameter (int), the digit (the value compared with the base), the accumulator (a
	// loop-carried unsigned phi), the flag (a bool phi with a constant-false edge)
	var base *ssa.Parameter
	for _, pm := range fn.Params {
		if b, ok := pm.Type().Underlying().(*types.Basic); ok && b.Kind() == types.Int {
			base = pm
		}
	}
	var digit, acc ssa.Value
	var flagJoin *ssa.Phi
	var flagHead *ssa.Phi
	allInstrs(fn, func(in ssa.Instruction) {
		switch x := in.(type) {
		case *ssa.BinOp:
			if (x.Op == token.GEQ || x.Op == token.LSS) && base != nil && x.Y == ssa.Value(base) {
				digit = x.X
			}
		case *ssa.Phi:
			if isUnsignedType(x.Type()) && acc == nil {
				for _, e := range x.Edges {
					if k, ok := constInt(e); ok && k == 0 {
						acc = x
					}
				}
			}
			if b, ok := x.Type().Underlying().(*types.Basic); ok && b.Kind() == types.Bool && flagHead == nil {
				// the loop-carried flag: true on entry, otherwise a phi that has a constant-false edge
				hasTrue := false
				var join *ssa.Phi
				for _, e := range x.Edges {
					if v, ok := constBool(e); ok && v {
						hasTrue = true
					}
					if ph, ok := e.(*ssa.Phi); ok {
						for _, e2 := range ph.Edges {
							if v, ok := constBool(e2); ok && !v {
								join = ph
							}
						}
					}
				}
				if hasTrue && join != nil {
					flagHead, flagJoin = x, join
				}
			}
		}
	})
	key := "parseDigits:notices-every-64-bit-overflow"
	if base == nil || digit == nil || acc == nil || flagJoin == nil {
		c.und(R, key, p.pos(fn.Pos()), "base parameter, digit, accumulator or exactness flag not identified")
		return
	}
	const M = ^uint64(0)
	evaluated, missed := 0, ""
	for b := uint64(2); b <= 36; b++ {
		for d := uint64(0); d < b; d++ {
			v0 := (M-d)/b + 1
			sawFalse, sawTrue := false, false
			reachGivenW(fn, func(v ssa.Value) (aval, bool) {
				switch {
				case v == ssa.Value(base):
					return aInt(int64(b)), true
				case v == digit:
					return aInt(int64(d)), true
				case v == acc:
					return aInt(int64(v0)), true
				case flagHead != nil && v == ssa.Value(flagHead):
					return aBool(true), true
				}
				return aval{}, false
			}, func(v ssa.Value, a aval) {
				if v == ssa.Value(flagJoin) && !a.isInt {
					if a.b {
						sawTrue = true
					} else {
						sawFalse = true
					}
				}
			})
			if sawFalse || sawTrue {
				evaluated++
			}
			if sawTrue && missed == "" {
				missed = fmt.Sprintf("base %d, accumulator %d, digit %d", b, v0, d)
			}
		}
	}
	c.Sites++
	c.check(evaluated >= 600 && missed == "", R, key, p.pos(fn.Pos()), fmt.Sprintf("%d boundary cases (base, digit) evaluated: the overflowing step always clears the exactness flag", evaluated), "parseDigits keeps its 64-bit result although v*base + d no longer fits ("+missed+"): the accumulator wraps and tonumber(s, base) returns a small wrong number for numerals at 2^64 in a base that is not a power of two")
}

// ruleConcatSeparator: C18e. table.concat puts the separator between every two consecutive elements of
// the range: whether one is due depends on the position in the range, never on how many bytes have been
// assembled so far — an element may be the empty string ({"", "a"} with "," is ",a").
func ruleConcatSeparator(c *Ctx) {
	const R = "R18-lib"
	p := c.P
	fn := c.need(R, "lua", "tableConcat")
	if fn == nil {
		return
	}
	g := p.G(fn)
	optStr := p.Fn("lua", "(*LState).OptString")
	var sepAppends []*ssa.Call
	allInstrs(fn, func(in ssa.Instruction) {
		cl, ok := in.(*ssa.Call)
		if !ok {
			return
		}
		if bi, ok := cl.Call.Value.(*ssa.Builtin); !ok || bi.Name() != "append" || len(cl.Call.Args) < 2 {
			return
		}
		// the separator is argument 2, read as an optional or (under a presence test) a checked string
		readers := callsTo(fn, optStr)
		if cs := p.Fn("lua", "(*LState).CheckString"); cs != nil {
			readers = append(readers, callsTo(fn, cs)...)
		}
		for _, oc := range readers {
			if k, ok := constInt(oc.Call.Args[1]); !ok || k != 2 {
				continue
			}
			if dependsOnValue(cl.Call.Args[1], oc, 0) {
				sepAppends = append(sepAppends, cl)
			}
		}
	})
	if len(sepAppends) == 0 {
		c.und(R, "tableConcat:separator-by-position", p.pos(fn.Pos()), "the append of the separator was not found")
		return
	}
	// F135: the separator is a string or a number: it is not read with the strict OptString
	strict := false
	for _, oc := range callsTo(fn, optStr) {
		if k, ok := constInt(oc.Call.Args[1]); ok && k == 2 {
			strict = true
		}
	}
	c.check(!strict, R, "tableConcat:separator-may-be-a-number", p.pos(fn.Pos()), "argument 2 is not read with OptString (strings only)", "tableConcat reads the separator with OptString, which refuses numbers: table.concat({1, 2, 3}, 0) raises 'string expected, got number' where the result is \"10203\"")
	var bad ssa.Instruction
	for _, sa := range sepAppends {
		for _, cd := range g.expandAnd(g.CondsAtInstr(sa)) {
			var lenOfText func(v ssa.Value, d int) bool
			lenOfText = func(v ssa.Value, d int) bool {
				if d > 6 {
					return false
				}
				if cl, ok := v.(*ssa.Call); ok {
					if bi, ok := cl.Call.Value.(*ssa.Builtin); ok && bi.Name() == "len" {
						switch t := cl.Call.Args[0].Type().Underlying().(type) {
						case *types.Slice:
							if b, ok := t.Elem().Underlying().(*types.Basic); ok && b.Kind() == types.Uint8 {
								return true
							}
						case *types.Basic:
							if t.Info()&types.IsString != 0 {
								return true
							}
						}
						return false
					}
					if pk, n, ok := stdCall(cl); ok && (pk == "bytes" || pk == "strings") && strings.HasSuffix(n, ".Len") {
						return true
					}
				}
				if in, ok := v.(ssa.Instruction); ok {
					if _, isCall := v.(*ssa.Call); isCall {
						return false
					}
					for _, op := range in.Operands(nil) {
						if *op != nil && lenOfText(*op, d+1) {
							return true
						}
					}
				}
				return false
			}
			if lenOfText(cd.V, 0) && bad == nil {
				bad = sa
			}
		}
	}
	pos := p.ipos(sepAppends[0])
	if bad != nil {
		pos = p.ipos(bad)
	}
	c.Sites++
	c.check(bad == nil, R, "tableConcat:separator-by-position", pos, "the separator is placed by position in the range", "table.concat decides whether a separator is due by the length of the text assembled so far: a leading empty string loses its separator — table.concat({\"\", \"a\", \"b\"}, \",\") gives \"a,b\" instead of \",a,b\"")
}

// ruleSearchersReadOnly: C20e. A searcher (an entry of package.loaders) answers where a module can be
// loaded from; it changes nothing. A preload entry stays registered after it was used: require caches
// the result, but a later search (after package.loaded[name] = nil, or when the loader returned false)
// must find the entry again and still prefer it to the path search.
func ruleSearchersReadOnly(c *Ctx) {
	const R = "R20-order"
	p := c.P
	writers := map[string]bool{"SetField": true, "SetTable": true, "RawSet": true, "RawSetInt": true, "RawSetString": true, "RawSetH": true, "SetGlobal": true, "Insert": true, "Append": true, "Remove": true}
	n := 0
	for _, name := range []string{"loLoaderPreload", "loLoaderLua"} {
		fn := c.need(R, "lua", name)
		if fn == nil {
			continue
		}
		n++
		var bad ssa.Instruction
		what := ""
		allInstrs(fn, func(in ssa.Instruction) {
			sc := staticCallee(in)
			if sc == nil {
				return
			}
			rn := recvNamed(sc)
			if (rn == "LState" || rn == "LTable") && writers[sc.Name()] && bad == nil {
				bad, what = in, rn+"."+sc.Name()
			}
		})
		pos := p.pos(fn.Pos())
		if bad != nil {
			pos = p.ipos(bad)
		}
		c.Sites++
		c.check(bad == nil, R, name+":searcher-modifies-no-table", pos, "the searcher only reads", name+" writes a table ("+what+"): a searcher that consumes the preload entry it finds makes the next search for the same name fall through to the path search (or fail) although nobody removed the registration")
	}
	if n == 0 {
		c.und(R, "searchers", "-", "no searcher found")
	}
	// F107: the package table is not looked up through the global variable of that name
	for _, name := range []string{"loLoaderPreload", "loLoaderLua", "loFindFile", "(*LState).PreloadModule"} {
		fn := p.Fn("lua", name)
		if fn == nil {
			continue
		}
		var bad ssa.Instruction
		allInstrs(fn, func(in ssa.Instruction) {
			cl, ok := in.(*ssa.Call)
			if !ok {
				return
			}
			sc := cl.Call.StaticCallee()
			if sc == nil || recvNamed(sc) != "LState" || (sc.Name() != "GetField" && sc.Name() != "GetGlobal") {
				return
			}
			for _, a := range cl.Call.Args {
				if s, ok := constStr(a); ok && s == "package" && bad == nil {
					// the registry's _LOADED["package"] is fine: the table argument then comes from the registry
					if sc.Name() == "GetField" {
						if inner, ok := cl.Call.Args[1].(*ssa.Call); ok {
							if isc := inner.Call.StaticCallee(); isc != nil && isc.Name() == "GetField" {
								if k, ok := constStr(inner.Call.Args[2]); ok && k == "_LOADED" {
									continue
								}
							}
						}
					}
					bad = in
				}
			}
		})
		pos := p.pos(fn.Pos())
		if bad != nil {
			pos = p.ipos(bad)
		}
		c.Sites++
		c.check(bad == nil, R, strings.TrimPrefix(name, "(*LState).")+":package-table-not-through-the-global", pos, "the package table is not read from a global variable", name+" reads the package table from the global variable \"package\": a script that uses that name for a variable of its own (or sets it to nil) breaks every later require")
	}
}

// ruleCaptureResolvesLocalFirst: C03e. A closure captures "the very variable that was in scope where it
// was created": a name that is a visible local of the enclosing function is captured as that local
// (capture word MOVE), whether or not the enclosing function also has an upvalue of the same name
// (`local depth = depth + 1; return function() return depth end`). The emission of the local capture
// word is therefore decided by the local lookup alone.
func ruleCaptureResolvesLocalFirst(c *Ctx) {
	const R = "R03-capture"
	p := c.P
	fn := c.need(R, "lua", "compileExpr")
	if fn == nil {
		return
	}
	g := p.G(fn)
	findLocal := p.Fn("lua", "(*funcContext).FindLocalVarAndBlock")
	refF := p.Field("lua", "codeBlock", "RefUpvalue")
	opMove := p.op("OP_MOVE")
	n := 0
	var bad ssa.Instruction
	allInstrs(fn, func(in ssa.Instruction) {
		cl, ok := in.(*ssa.Call)
		if !ok {
			return
		}
		sc := cl.Call.StaticCallee()
		if sc == nil || recvNamed(sc) != "codeStore" || sc.Name() != "AddABC" {
			return
		}
		if k, ok := constInt(cl.Call.Args[1]); !ok || k != opMove {
			return
		}
		// the capture word: its B operand is the result of the local lookup
		isCapture := false
		for _, fl := range callsTo(fn, findLocal) {
			if dependsOnValue(cl.Call.Args[3], fl, 0) {
				isCapture = true
			}
		}
		if !isCapture {
			return
		}
		n++
		for _, cd := range g.expandAnd(g.CondsAtInstr(cl)) {
			// a test that involves anything looked up in an upvalue table
			var viaUp func(v ssa.Value, d int) bool
			viaUp = func(v ssa.Value, d int) bool {
				if d > 6 {
					return false
				}
				if c2, ok := v.(*ssa.Call); ok {
					if s2 := c2.Call.StaticCallee(); s2 != nil && recvNamed(s2) == "varNamePool" {
						return true
					}
					return false
				}
				if x, ok := v.(ssa.Instruction); ok {
					for _, op := range x.Operands(nil) {
						if *op != nil && viaUp(*op, d+1) {
							return true
						}
					}
				}
				return false
			}
			if viaUp(cd.V, 0) && bad == nil {
				bad = cl
			}
		}
	})
	_ = refF
	pos := p.pos(fn.Pos())
	if bad != nil {
		pos = p.ipos(bad)
	}
	c.Sites++
	c.check(n > 0 && bad == nil, R, "compileExpr:capture-resolves-local-first", pos, fmt.Sprintf("%d local capture emission(s), decided by the local lookup alone", n), "whether a captured name is taken from the enclosing function's local depends on a lookup in its upvalue table: when the enclosing function has both an upvalue and a visible local of that name, the closure is bound to the outer variable instead of the one in scope — `local depth = depth + 1; return function() return depth end` reads the outer depth")
}

// ruleProtectedPreparation: F99. "An error … never leaves DoString, PCall or a protected CallByParam as
// a Go panic": whatever these entry points do before they reach PCall must not be able to raise — pushing
// the function and the arguments can (registry overflow), so it is done by a helper that recovers.
func ruleProtectedPreparation(c *Ctx) {
	const R = "R05-convert"
	p := c.P
	pcall := c.need(R, "lua", "(*LState).PCall")
	if pcall == nil {
		return
	}
	recovers := func(f *ssa.Function) bool {
		if f == nil || f.Blocks == nil {
			return false
		}
		found := false
		allInstrs(f, func(in ssa.Instruction) {
			d, ok := in.(*ssa.Defer)
			if !ok {
				return
			}
			var cl *ssa.Function
			switch v := d.Call.Value.(type) {
			case *ssa.MakeClosure:
				cl, _ = v.Fn.(*ssa.Function)
			case *ssa.Function:
				cl = v
			}
			if cl == nil {
				return
			}
			allInstrs(cl, func(x ssa.Instruction) {
				if c2, ok := x.(*ssa.Call); ok {
					if bi, ok := c2.Call.Value.(*ssa.Builtin); ok && bi.Name() == "recover" {
						found = true
					}
				}
			})
		})
		return found
	}
	n := 0
	for _, name := range []string{"(*LState).DoString", "(*LState).DoFile", "(*LState).GPCall", "(*LState).CallByParam"} {
		fn := c.need(R, "lua", name)
		if fn == nil {
			continue
		}
		g := p.G(fn)
		var bad ssa.Instruction
		who := ""
		allInstrs(fn, func(in ssa.Instruction) {
			if _, isCall := in.(*ssa.Call); !isCall || !g.Live(in) || isCallTo(in, pcall) {
				return
			}
			may, via := p.siteMayRaise(in)
			if !may {
				return
			}
			if sc := staticCallee(in); sc != nil && recovers(sc) {
				return
			}
			// can a PCall still follow?
			b, i := after(in)
			if g.walk(b, i, nil, func(x ssa.Instruction) bool { return isCallTo(x, pcall) }) && bad == nil {
				bad, who = in, via
			}
		})
		n++
		pos := p.pos(fn.Pos())
		if bad != nil {
			pos = p.ipos(bad)
		}
		c.Sites++
		c.check(bad == nil, R, strings.TrimPrefix(name, "(*LState).")+":nothing-raises-before-the-protection", pos, "no call that may raise lies before PCall outside a recovering helper", name+" calls "+who+", which can raise a Lua error (registry overflow on a push), before PCall has installed its recovery: with a full registry the error leaves the protected entry point as a Go panic")
	}
	if n < 4 {
		c.und(R, "protected-entry-points", "-", "fewer than four protected entry points found")
	}
}

// ruleReadBounded: F97. (a) readBufioSize allocates in pieces whose size has a constant upper bound — the
// requested count comes from the script (f:read(2^40)) and must never be the size of one allocation.
// (b) the line iterators read through file.reader only after having found it non-nil (a handle opened
// for writing has none). F98: (c) the scanner's readNext hands out a byte only when the read reported no
// error at all — any error, not just io.EOF, ends the input.
func ruleReadBounded(c *Ctx) {
	p := c.P
	if c.Prop == "C08" {
		const R = "R08-eof"
		fn := p.Fn("parse", "(*Scanner).readNext")
		if fn == nil {
			// readNext inlined into its callers: the same statement about every read of a byte in package parse —
			// the byte (first result of ReadByte) is used only where the error (second result) is known to be nil
			n, okc := 0, true
			var where *ssa.Function
			for _, f := range p.srcFuncs {
				if f.Pkg != p.SPkg("parse") {
					continue
				}
				g := p.G(f)
				allInstrs(f, func(in ssa.Instruction) {
					ex, ok := in.(*ssa.Extract)
					if !ok || ex.Index != 0 || in.Parent() != f {
						return
					}
					cl, ok := ex.Tuple.(*ssa.Call)
					if !ok || cl.Call.Value == nil || !strings.HasSuffix(cl.Call.Value.String(), "ReadByte") && (cl.Call.Method == nil || cl.Call.Method.Name() != "ReadByte") {
						return
					}
					if ex.Referrers() == nil {
						return
					}
					for _, use := range *ex.Referrers() {
						n++
						where = f
						errNil := false
						for _, cd := range g.expandAnd(g.CondsAtInstr(use)) {
							b, ok := cd.V.(*ssa.BinOp)
							if !ok {
								continue
							}
							isNil := func(v ssa.Value) bool { k, ok := v.(*ssa.Const); return ok && k.IsNil() }
							if (isNil(b.X) || isNil(b.Y)) && eqHolds(b, cd) {
								errNil = true
							}
						}
						if !errNil {
							okc = false
						}
					}
				})
			}
			c.Sites++
			pos := "-"
			if where != nil {
				pos = p.pos(where.Pos())
			}
			c.check(n > 0 && okc, R, "readNext:any-read-error-ends-the-input", pos, "a byte is used only where the read returned a nil error", "the scanner uses a byte although the reader reported an error (only io.EOF is treated as the end): a reader that keeps failing looks like an endless run of NUL bytes and Load never returns from inside a string literal or long comment")
			return
		}
		g := p.G(fn)
		okc, n := true, 0
		allInstrs(fn, func(in ssa.Instruction) {
			ret, ok := in.(*ssa.Return)
			if !ok || len(ret.Results) != 1 {
				return
			}
			if _, isK := constInt(ret.Results[0]); isK {
				return // the EOF constant
			}
			n++
			errNil := false
			for _, cd := range g.expandAnd(g.CondsAtInstr(in)) {
				b, ok := cd.V.(*ssa.BinOp)
				if !ok {
					continue
				}
				isNil := func(v ssa.Value) bool { k, ok := v.(*ssa.Const); return ok && k.IsNil() }
				if (isNil(b.X) || isNil(b.Y)) && ((eqHolds(b, cd)) || (b.Op == token.NEQ && !cd.Sense)) {
					errNil = true
				}
			}
			if !errNil {
				okc = false
			}
		})
		c.Sites++
		c.check(n > 0 && okc, R, "readNext:any-read-error-ends-the-input", p.pos(fn.Pos()), "a byte is handed out only when the read returned a nil error", "the scanner hands out a byte although the reader reported an error (only io.EOF is treated as the end): a reader that keeps failing looks like an endless run of NUL bytes and Load never returns from inside a string literal or long comment")
		return
	}
	const R = "R19-buffers"
	if fn := c.need(R, "lua", "readBufioSize"); fn != nil {
		g := p.G(fn)
		n, okc := 0, true
		var where ssa.Instruction
		allInstrs(fn, func(in ssa.Instruction) {
			ms, ok := in.(*ssa.MakeSlice)
			if !ok || !g.Live(in) {
				return
			}
			if _, isK := constInt(ms.Len); isK {
				return
			}
			n++
			up, _, hasUp, _ := bounds(g, in, ms.Len)
			if !hasUp || up > 1<<24 {
				okc = false
				if where == nil {
					where = in
				}
			}
		})
		pos := p.pos(fn.Pos())
		if where != nil {
			pos = p.ipos(where)
		}
		c.Sites++
		c.check(okc, R, "readBufioSize:allocation-bounded", pos, fmt.Sprintf("%d computed allocation size(s), each with a constant upper bound", n), "readBufioSize allocates a buffer whose size is the count the script asked for: f:read(2^40) on any file kills the process (fatal error: out of memory) instead of returning the bytes that are there")
	}
	readerF := p.Field("lua", "lFile", "reader")
	rl := p.Fn("lua", "readBufioLine")
	for _, name := range []string{"fileLinesIter", "ioLinesIter"} {
		fn := c.need(R, "lua", name)
		if fn == nil || rl == nil || readerF == nil {
			continue
		}
		g := p.G(fn)
		okc := len(callsTo(fn, rl)) > 0
		for _, cl := range callsTo(fn, rl) {
			guarded := false
			for _, cd := range g.expandAnd(g.CondsAtInstr(cl)) {
				b, ok := cd.V.(*ssa.BinOp)
				if !ok {
					continue
				}
				_, l1 := loadsField(b.X, readerF)
				_, l2 := loadsField(b.Y, readerF)
				if (l1 || l2) && ((b.Op == token.NEQ && cd.Sense) || (neHolds(b, cd))) {
					guarded = true
				}
			}
			if !guarded {
				okc = false
			}
		}
		c.Sites++
		c.check(okc, R, name+":reads-only-through-an-existing-reader", p.pos(fn.Pos()), "the line is read after the handle's reader was found non-nil", name+" reads a line through file.reader without looking whether the handle has one: iterating a handle that was opened for writing (io.input(io.open(p, 'w')); io.lines()) dereferences nil")
	}
}

// ruleTailMovesWholeFrame: F100. The Lua arm of OP_TAILCALL slides the callee's frame — function slot,
// arguments, and after frame set-up every register up to the top — down to the caller's base. The number
// of slots moved is Top() - RA (RA = LocalBase + A, the function slot): one less leaves the callee's
// highest register behind, which is the compat arg table of a vararg function that uses no other register.
func ruleTailMovesWholeFrame(c *Ctx) {
	const R = "R02-tailframe"
	p := c.P
	oi := p.vmTable().ByName["OP_TAILCALL"]
	if oi == nil || oi.Handler == nil {
		c.und(R, "TAILCALL:moves-the-whole-frame", "-", "handler not found")
		return
	}
	h := oi.Handler
	top := p.Fn("lua", "(*registry).Top")
	lbF := p.Field("lua", "callFrame", "LocalBase")
	n, okc := 0, true
	var where ssa.Instruction
	allInstrs(h, func(in ssa.Instruction) {
		b, ok := in.(*ssa.BinOp)
		if !ok || b.Op != token.LSS {
			return
		}
		// a loop bound of the shape Top() - LocalBase - A + K
		var hasTop, hasLB bool
		var walk func(v ssa.Value, sign int, d int)
		walk = func(v ssa.Value, sign int, d int) {
			v = stripConv(v)
			if d > 6 {
				return
			}
			if bo, ok := v.(*ssa.BinOp); ok && (bo.Op == token.ADD || bo.Op == token.SUB) {
				walk(bo.X, sign, d+1)
				if bo.Op == token.ADD {
					walk(bo.Y, sign, d+1)
				} else {
					walk(bo.Y, -sign, d+1)
				}
				return
			}
			if cl, ok := v.(*ssa.Call); ok && cl.Call.StaticCallee() == top && sign > 0 {
				hasTop = true
			}
			if _, ok := loadsField(v, lbF); ok && sign < 0 {
				hasLB = true
			}
		}
		walk(b.Y, 1, 0)
		l := lin(b.Y)
		if !hasTop || !hasLB || len(l.T) != 3 {
			return
		}
		n++
		if l.K < 0 {
			okc = false
			if where == nil {
				where = in
			}
		}
	})
	pos := p.pos(h.Pos())
	if where != nil {
		pos = p.ipos(where)
	}
	c.Sites++
	c.check(n > 0 && okc, R, "TAILCALL:moves-the-whole-frame", pos, fmt.Sprintf("%d block move(s) of Top() - RA slots", n), "the block move of a tail call copies fewer than Top() - RA slots: the callee's highest register stays behind — `local function f(a, ...) return arg end` reached by `return f(...)` returns nil instead of the arg table")
}

// ruleUnaryHandlerArgs: F101. The handler of a unary operation is called with the operand twice.
func ruleUnaryHandlerArgs(c *Ctx) {
	const R = "R04-events"
	p := c.P
	oi := p.vmTable().ByName["OP_UNM"]
	if oi == nil || oi.Handler == nil {
		c.und(R, "handler[OP_UNM]:handler-gets-operand-twice", "-", "handler not found")
		return
	}
	h := oi.Handler
	call := p.Fn("lua", "(*LState).Call")
	okc, n := true, 0
	for _, cl := range callsTo(h, call) {
		n++
		if k, ok := constInt(cl.Call.Args[1]); !ok || k != 2 {
			okc = false
		}
	}
	c.Sites++
	c.check(n > 0 && okc, R, "handler[OP_UNM]:handler-gets-operand-twice", p.pos(h.Pos()), "the __unm handler is called with two arguments", "the __unm handler is called with one argument: Lua 5.1 passes the operand twice (a handler written as function(a, b) sees b == nil)")
}

// ruleBulkMoveEndsAtTargets: F103. "A jump never lands inside a multi-word group": patchCode's bulk-move
// merging consults the label table — the count of pending MOVEs is reset under a test that depends on
// the positions the labels were bound to.
func ruleBulkMoveEndsAtTargets(c *Ctx) {
	const R = "R07-skipgroup"
	p := c.P
	fn := c.need(R, "lua", "patchCode")
	if fn == nil {
		return
	}
	lpF := p.Field("lua", "funcContext", "labelPc")
	moven := p.op("OP_MOVEN")
	readsLabels := false
	allInstrs(fn, func(in ssa.Instruction) {
		if rg, ok := in.(*ssa.Range); ok {
			if _, ok := loadsField(rg.X, lpF); ok {
				readsLabels = true
			}
		}
		if lk, ok := in.(*ssa.Lookup); ok {
			if _, ok := loadsField(lk.X, lpF); ok {
				readsLabels = true
			}
		}
	})
	// a SetOpCode(…, OP_MOVEN) that is guarded by a map lookup (the target set)
	g := p.G(fn)
	guarded := false
	allInstrs(fn, func(in ssa.Instruction) {
		cl, ok := in.(*ssa.Call)
		if !ok {
			return
		}
		sc := cl.Call.StaticCallee()
		if sc == nil || sc.Name() != "SetOpCode" || len(cl.Call.Args) < 3 {
			return
		}
		if k, ok := constInt(cl.Call.Args[2]); !ok || k != moven {
			return
		}
		for _, cd := range g.expandAnd(g.CondsAtInstr(cl)) {
			var viaLookup func(v ssa.Value, d int) bool
			viaLookup = func(v ssa.Value, d int) bool {
				if d > 4 {
					return false
				}
				if _, ok := v.(*ssa.Lookup); ok {
					return true
				}
				if x, ok := v.(ssa.Instruction); ok {
					for _, op := range x.Operands(nil) {
						if *op != nil && viaLookup(*op, d+1) {
							return true
						}
					}
				}
				return false
			}
			if viaLookup(cd.V, 0) {
				guarded = true
			}
		}
	})
	c.Sites++
	c.check(readsLabels && guarded, R, "patchCode:bulk-move-ends-at-jump-targets", p.pos(fn.Pos()), "the pending group is closed where a label was bound", "patchCode merges a run of MOVEs into one MOVEN group without looking at the label table: a jump target inside the run ends up inside the multi-word group (`local c = a or b; local d = e; local g = a`)")
}

// ruleNestedCallDepth: F104. Every call made through the Go stack (callR: Call, PCall, pcall, metamethods,
// iterators) runs a nested interpreter loop; the configured call-stack size bounds the frames, not the Go
// stack. callR therefore refuses, before it sets a frame up, when the call stack is deeper than a constant.
func ruleNestedCallDepth(c *Ctx) {
	const R = "R12-full"
	p := c.P
	fn := c.need(R, "lua", "(*LState).callR")
	if fn == nil {
		return
	}
	g := p.G(fn)
	p.computeNoReturn()
	var guard ssa.Instruction
	allInstrs(fn, func(in ssa.Instruction) {
		if !p.isNoReturnCall(in) {
			return
		}
		for _, cd := range g.expandAnd(g.CondsAtInstr(in)) {
			b, ok := cd.V.(*ssa.BinOp)
			if !ok || !cd.Sense || (b.Op != token.GEQ && b.Op != token.GTR) {
				continue
			}
			cl, ok := stripConv(b.X).(*ssa.Call)
			if !ok || callOf(cl) == nil || cl.Call.Method == nil || cl.Call.Method.Name() != "Sp" {
				if !ok {
					continue
				}
				if sc := cl.Call.StaticCallee(); sc == nil || sc.Name() != "Sp" {
					continue
				}
			}
			if k, isK := constInt(b.Y); isK && k > 0 && k <= 1000000 {
				guard = in
			}
		}
	})
	// the guard comes before the nested loop is entered
	okc := false
	if guard != nil {
		okc = true
		allInstrs(fn, func(in ssa.Instruction) {
			cl, ok := in.(*ssa.Call)
			if !ok || cl.Call.StaticCallee() != nil || cl.Call.IsInvoke() {
				return
			}
			// the call through the mainLoop field
			if !g.Live(in) {
				return
			}
			b, i := after(guard)
			_ = b
			_ = i
			if !g.BlockDom(guard.Block().Preds[0], in.Block()) && guard.Block().Preds[0] != in.Block() {
				okc = false
			}
		})
	}
	pos := p.pos(fn.Pos())
	if guard != nil {
		pos = p.ipos(guard)
	}
	c.Sites++
	c.check(okc, R, "callR:nested-call-depth-bounded", pos, "callR raises when Sp() exceeds a constant, before the nested loop runs", "callR enters a nested interpreter loop at any call-stack depth: with a very large CallStackSize, recursion through pcall (or a metamethod, or an iterator) overflows the Go stack — a fatal error no recover catches — long before the configured limit is reached")
}

// ruleSmallArithmeticGuards: F108–F110. (a) the flags of an unsigned conversion: LNumber.Format does not
// hand the raw fmt.State to package fmt for %o/%x/%X, and the wrapper's Flag method answers false for
// '+' and ' ' (evaluated); (b) luaIndex2StringIndex subtracts 1 only from a position known to be positive
// (the decrement of -2^63 wraps); (c) the arguments of rand.Intn / rand.Int63n are known positive where
// they are called (a span that overflowed int64 panics inside math/rand).
func ruleSmallArithmeticGuards(c *Ctx) {
	const R = "R15-flags"
	p := c.P
	p.computeNoReturn()
	if nf, df := p.Fn("lua", "(LNumber).Format"), p.Fn("lua", "defaultFormat"); nf != nil && df != nil {
		var verb, st *ssa.Parameter
		for _, pm := range nf.Params {
			if b, ok := pm.Type().Underlying().(*types.Basic); ok && b.Kind() == types.Int32 {
				verb = pm
			}
			if typeName(pm.Type()) == "fmt.State" {
				st = pm
			}
		}
		if verb != nil && st != nil {
			okc, n := true, 0
			for _, v := range []rune{'o', 'x', 'X'} {
				reach := reachGiven(nf, func(x ssa.Value) (aval, bool) {
					if x == ssa.Value(verb) {
						return aInt(int64(v)), true
					}
					return aval{}, false
				})
				for _, cl := range callsTo(nf, df) {
					if !reach[cl] {
						continue
					}
					n++
					if stripMI(cl.Call.Args[1]) == ssa.Value(st) {
						okc = false
					}
				}
			}
			c.Sites++
			c.check(n > 0 && okc, R, "LNumber.Format:unsigned-conversions-hide-the-sign-flags", p.pos(nf.Pos()), "for %o/%x/%X package fmt sees the flags through a wrapper", "LNumber.Format hands the directive's own flag set to package fmt for an unsigned conversion: fmt honours '+' and ' ' there (%+x of 255 prints +ff) and prefixes a zero under '#' (%#x of 0 prints 0x0); C does neither")
		}
	}
	if fl := p.Fn("lua", "(unsignedState).Flag"); fl != nil {
		var cp *ssa.Parameter
		for _, pm := range fl.Params {
			if b, ok := pm.Type().Underlying().(*types.Basic); ok && b.Kind() == types.Int {
				cp = pm
			}
		}
		okc := cp != nil
		for _, ch := range []int64{'+', ' '} {
			if cp == nil {
				break
			}
			reach := reachGiven(fl, func(x ssa.Value) (aval, bool) {
				if x == ssa.Value(cp) {
					return aInt(ch), true
				}
				return aval{}, false
			})
			allInstrs(fl, func(in ssa.Instruction) {
				ret, ok := in.(*ssa.Return)
				if !ok || !reach[in] {
					return
				}
				if b, isK := constBool(ret.Results[0]); !isK || b {
					okc = false
				}
			})
		}
		c.Sites++
		c.check(okc, R, "unsignedState.Flag:no-sign-flags", p.pos(fl.Pos()), "Flag('+') and Flag(' ') are false", "the flag set presented to package fmt for unsigned conversions still contains a sign flag")
	} else {
		c.bad(R, "unsignedState.Flag:no-sign-flags", "-", "the flag wrapper for unsigned conversions no longer exists")
	}
	if fn := p.Fn("lua", "luaIndex2StringIndex"); fn != nil {
		g := p.G(fn)
		okc, n := true, 0
		var where ssa.Instruction
		allInstrs(fn, func(in ssa.Instruction) {
			b, ok := in.(*ssa.BinOp)
			if !ok || b.Op != token.SUB {
				return
			}
			if k, isK := constInt(b.Y); !isK || k != 1 {
				return
			}
			n++
			_, lo, _, hasLo := bounds(g, in, b.X)
			if !hasLo || lo < 1 {
				okc = false
				where = in
			}
		})
		pos := p.pos(fn.Pos())
		if where != nil {
			pos = p.ipos(where)
		}
		c.Sites++
		c.check(n > 0 && okc, "R15-positions", "luaIndex2StringIndex:decrement-only-of-a-positive-position", pos, "1 is subtracted only where the position is known to be >= 1", "luaIndex2StringIndex decrements a position that may be negative: -2^63 wraps to 2^63-1, ('abc'):sub(-2^63) returns '' instead of 'abc'")
	}
	if fn := p.Fn("lua", "mathRandom"); fn != nil {
		g := p.G(fn)
		okc, n := true, 0
		var where ssa.Instruction
		allInstrs(fn, func(in ssa.Instruction) {
			pk, name, ok := stdCall(in)
			if !ok || pk != "math/rand" || !(strings.HasSuffix(name, "Intn") || strings.HasSuffix(name, "Int63n") || strings.HasSuffix(name, "Int31n")) {
				return
			}
			n++
			args := in.(*ssa.Call).Call.Args
			_, lo, _, hasLo := bounds(g, in, args[len(args)-1])
			if !hasLo || lo < 1 {
				okc = false
				if where == nil {
					where = in
				}
			}
		})
		pos := p.pos(fn.Pos())
		if where != nil {
			pos = p.ipos(where)
		}
		c.Sites++
		c.check(n >= 2 && okc, "R15-mathmap", "mathRandom:generator-called-with-a-positive-bound", pos, fmt.Sprintf("%d bounded draws, each with a bound known to be >= 1", n), "math.random calls the generator with a bound that is not known to be positive on that path (the empty-interval test is missing or too weak): math/rand panics for n <= 0 instead of the library raising 'interval is empty'")
	}
}

// ruleLocalAccessorsAgree: C17f / F111. debug.setlocal "changes exactly that variable": GetLocal and
// SetLocal address the same register — the index they hand to the registry is the same expression over
// (frame.LocalBase, no). And a variable is in scope from the first instruction of its range: LocalName
// compares StartPc <= pc.
func ruleLocalAccessorsAgree(c *Ctx) {
	const R = "R17-scope"
	p := c.P
	get, set := c.need(R, "lua", "(*LState).GetLocal"), c.need(R, "lua", "(*LState).SetLocal")
	rget, rset := p.Fn("lua", "(*registry).Get"), p.Fn("lua", "(*registry).Set")
	if get != nil && set != nil && rget != nil && rset != nil {
		norm := func(fn *ssa.Function, v ssa.Value) string {
			l := lin(v)
			var parts []string
			for k, co := range l.T {
				for i, pm := range fn.Params {
					k = strings.ReplaceAll(k, "p:"+pm.Name()+")", fmt.Sprintf("p#%d)", i))
					if k == "p:"+pm.Name() {
						k = fmt.Sprintf("p#%d", i)
					}
				}
				parts = append(parts, fmt.Sprintf("%+d*%s", co, k))
			}
			sort.Strings(parts)
			return strings.Join(parts, " ") + fmt.Sprintf(" %+d", l.K)
		}
		var gi, si string
		for _, cl := range callsTo(get, rget) {
			gi = norm(get, cl.Call.Args[1])
		}
		for _, cl := range callsTo(set, rset) {
			si = norm(set, cl.Call.Args[1])
		}
		c.Sites++
		c.check(gi != "" && gi == si, R, "GetLocal≡SetLocal:same-register", p.pos(set.Pos()), "both address "+gi, fmt.Sprintf("GetLocal reads register [%s] but SetLocal writes register [%s]: in a frame whose LocalBase is not Base+1 (a vararg function that received arguments) debug.setlocal returns the variable's name and changes another slot", gi, si))
	}
	if fn := c.need(R, "lua", "(*LFunction).LocalName"); fn != nil {
		spF := p.Field("lua", "DbgLocalInfo", "StartPc")
		var pcParam *ssa.Parameter
		ints := paramsOfType(fn, "int")
		if len(ints) >= 2 {
			pcParam = ints[1]
		}
		okc, n := true, 0
		allInstrs(fn, func(in ssa.Instruction) {
			b, ok := in.(*ssa.BinOp)
			if !ok || pcParam == nil {
				return
			}
			_, lx := loadsField(b.X, spF)
			_, ly := loadsField(b.Y, spF)
			if !(lx && b.Y == ssa.Value(pcParam)) && !(ly && b.X == ssa.Value(pcParam)) {
				return
			}
			n++
			op := b.Op
			if ly {
				op = flipOp(op)
			}
			// StartPc op pc, used as "in scope" (the loop continues while true): inclusive forms only
			if op == token.LSS || op == token.GEQ {
				okc = false
			}
		})
		// …and is out of scope at EndPc, the first instruction after the block (EndScope stores LastPC()+1)
		epF := p.Field("lua", "DbgLocalInfo", "EndPc")
		ne, oke := 0, true
		allInstrs(fn, func(in ssa.Instruction) {
			b, ok := in.(*ssa.BinOp)
			if !ok || pcParam == nil {
				return
			}
			_, lx := loadsField(b.X, epF)
			_, ly := loadsField(b.Y, epF)
			if !(lx && b.Y == ssa.Value(pcParam)) && !(ly && b.X == ssa.Value(pcParam)) {
				return
			}
			ne++
			op := b.Op
			if lx {
				op = flipOp(op) // normalise to: pc op EndPc
			}
			if op == token.LEQ || op == token.GTR {
				oke = false
			}
		})
		c.Sites++
		c.check(ne > 0 && oke, R, "LocalName:scope-ends-before-EndPc", p.pos(fn.Pos()), "pc < EndPc", "LocalName keeps a variable in scope at the instruction whose index equals its EndPc (inclusive comparison) although EndScope records the first instruction after the block there: for one instruction after `do … end` or after each iteration of a generic for, debug.getlocal still lists (and setlocal still writes) the block's dead variables")
		c.Sites++
		c.check(n > 0 && okc, R, "LocalName:scope-starts-at-StartPc", p.pos(fn.Pos()), "StartPc <= pc", "LocalName treats a variable as out of scope at the instruction whose index equals its StartPc (strict comparison): a parameter is '(*temporary)' for a debug.getlocal made from the function's first instruction, a local for one made from the instruction right after its declaration")
	}
}

func flipOp(op token.Token) token.Token {
	switch op {
	case token.LSS:
		return token.GTR
	case token.LEQ:
		return token.GEQ
	case token.GTR:
		return token.LSS
	case token.GEQ:
		return token.LEQ
	}
	return op
}

// ruleSearchStartClamped: C14f. string.find/match start at min(init, len+1): an explicit init beyond the
// end still finds a pattern that matches the empty string at the end ("x*" at 4 in "abc") and never
// slices past the subject. Every offset that strFind/strMatch hand to pm.Find, and every lower bound they
// slice the subject with, is either the result of the clamping helper luaIndex2StringIndex or bounded by
// len(str) on the path.
func ruleSearchStartClamped(c *Ctx) {
	const R = "R15-positions"
	p := c.P
	helper := p.Fn("lua", "luaIndex2StringIndex")
	find := p.Fn("pm", "Find")
	if helper == nil || find == nil {
		c.und(R, "search-start-clamped", "-", "luaIndex2StringIndex or pm.Find not found")
		return
	}
	for _, name := range []string{"strFind", "strMatch"} {
		fn := c.need(R, "lua", name)
		if fn == nil {
			continue
		}
		g := p.G(fn)
		clamped := func(at ssa.Instruction, v ssa.Value) bool {
			v = stripConv(v)
			var fromHelper func(v ssa.Value, d int) bool
			fromHelper = func(v ssa.Value, d int) bool {
				if d > 3 {
					return false
				}
				if cl, ok := v.(*ssa.Call); ok {
					return cl.Call.StaticCallee() == helper
				}
				if ph, ok := v.(*ssa.Phi); ok {
					for _, e := range ph.Edges {
						if !fromHelper(stripConv(e), d+1) {
							return false
						}
					}
					return len(ph.Edges) > 0
				}
				return false
			}
			if fromHelper(v, 0) {
				return true
			}
			for _, cd := range g.expandAnd(g.CondsAtInstr(at)) {
				b, ok := cd.V.(*ssa.BinOp)
				if !ok {
					continue
				}
				op := b.Op
				if !cd.Sense {
					op = negate(op)
				}
				x, y := stripConv(b.X), stripConv(b.Y)
				if y == v {
					x, y = y, x
					op = flipOp(op)
				}
				if x != v || (op != token.LEQ && op != token.LSS) {
					continue
				}
				if lc, ok := y.(*ssa.Call); ok {
					if bi, ok := lc.Call.Value.(*ssa.Builtin); ok && bi.Name() == "len" {
						return true
					}
				}
			}
			return false
		}
		n, okc := 0, true
		var where ssa.Instruction
		for _, cl := range callsTo(fn, find) {
			n++
			if !clamped(cl, cl.Call.Args[2]) {
				okc, where = false, cl
			}
		}
		allInstrs(fn, func(in ssa.Instruction) {
			sl, ok := in.(*ssa.Slice)
			if !ok || sl.Low == nil || sl.High != nil || !g.Live(in) {
				return // the tail of the subject, str[init:]; slices between capture positions are not starts
			}
			if b, ok := sl.X.Type().Underlying().(*types.Basic); !ok || b.Info()&types.IsString == 0 {
				return
			}
			if _, isK := constInt(sl.Low); isK {
				return
			}
			n++
			if !clamped(in, sl.Low) {
				okc, where = false, in
			}
		})
		pos := p.pos(fn.Pos())
		if where != nil {
			pos = p.ipos(where)
		}
		c.Sites++
		c.check(n > 0 && okc, R, name+":search-start-clamped-to-the-subject", pos, fmt.Sprintf("%d start offsets, each clamped by luaIndex2StringIndex or bounded by len(str)", n), name+" starts the search at an offset that is not clamped to the length of the subject: string.find('abc', 'x*', 10) finds nothing where the reference matches the empty string at 4, and a plain find slices past the end (Go slice-bounds panic surfacing as an error)")
	}
}

// ruleNumeralTextUnfiltered: C15f. What is a numeral is decided by parseNumber alone (leading blanks, an
// explicit '+', '.5', '0x…'): no caller decides by looking at the text itself whether the reader is
// consulted at all — a "fast path" on the first byte silently narrows the numeral syntax for that one
// caller (string.format('%x', '+255') prints the text).
func ruleNumeralTextUnfiltered(c *Ctx) {
	const R = "R16-onereader"
	p := c.P
	pn := c.need(R, "lua", "parseNumber")
	if pn == nil {
		return
	}
	n := 0
	for _, fn := range p.srcFuncs {
		if fn.Pkg == nil || fn.Pkg.Pkg.Path() != luaPath || fn == pn {
			continue
		}
		calls := callsTo(fn, pn)
		if len(calls) == 0 {
			continue
		}
		g := p.G(fn)
		for i, cl := range calls {
			n++
			text := stripConv(cl.Call.Args[0])
			if ct, ok := text.(*ssa.ChangeType); ok {
				text = ct.X
			}
			var bad ssa.Value
			for _, cd := range g.expandAnd(g.CondsAtInstr(cl)) {
				var looks func(v ssa.Value, d int) bool
				looks = func(v ssa.Value, d int) bool {
					if d > 6 {
						return false
					}
					switch x := v.(type) {
					case *ssa.Lookup:
						base := stripConv(x.X)
						if ct, ok := base.(*ssa.ChangeType); ok {
							base = ct.X
						}
						return base == text
					case *ssa.Index:
						base := stripConv(x.X)
						if ct, ok := base.(*ssa.ChangeType); ok {
							base = ct.X
						}
						return base == text
					case *ssa.Call:
						if bi, ok := x.Call.Value.(*ssa.Builtin); ok && bi.Name() == "len" {
							base := stripConv(x.Call.Args[0])
							if ct, ok := base.(*ssa.ChangeType); ok {
								base = ct.X
							}
							return base == text
						}
						return false
					}
					if in, ok := v.(ssa.Instruction); ok {
						for _, op := range in.Operands(nil) {
							if *op != nil && looks(*op, d+1) {
								return true
							}
						}
					}
					return false
				}
				if looks(cd.V, 0) {
					bad = cd.V
				}
			}
			c.Sites++
			c.check(bad == nil, R, fmt.Sprintf("%s:numeral-text-reaches-the-reader-unfiltered#%d", fname(fn), i+1), p.ipos(cl), "whether parseNumber is consulted does not depend on the text", fname(fn)+" looks at the text (its length or a byte of it) before deciding whether to hand it to parseNumber: numerals the reader accepts but the pre-check does not — ' 42', '+255' — are not converted here while tonumber and arithmetic convert them")
		}
	}
	if n < 5 {
		c.und(R, "numeral-text-reaches-the-reader-unfiltered", "-", fmt.Sprintf("only %d calls of parseNumber found", n))
	}
}

// ruleWeekNumberFloor: C16f. %U and %W are floor((yday + 7 - wday') / 7): the dividend is never negative
// (Go's integer division truncates toward zero, so a formula whose dividend can be negative maps the days
// before the year's first Sunday/Monday to week 01 instead of 00). Every division by 7 in strftime has a
// dividend whose linear form carries a constant of at least +6 against the subtracted weekday term.
func ruleWeekNumberFloor(c *Ctx) {
	const R = "R16-strftime"
	p := c.P
	fn := c.need(R, "lua", "strftime")
	if fn == nil {
		return
	}
	n, okc := 0, true
	var where ssa.Instruction
	allInstrs(fn, func(in ssa.Instruction) {
		b, ok := in.(*ssa.BinOp)
		if !ok || b.Op != token.QUO {
			return
		}
		if k, isK := constInt(b.Y); !isK || k != 7 {
			return
		}
		n++
		// dividend = YearDay() - 1 + 7 - wd with wd in 0..6: lowest value YearDay()-1+1 >= 1 … in general
		// the constant must make up for the largest weekday term (6) and the -1 of the zero-based day
		l := lin(b.X)
		neg := int64(0)
		for _, co := range l.T {
			if co < 0 {
				neg += -co * 6 // each subtracted term is a weekday number 0..6
			}
		}
		// YearDay() >= 1 contributes at least +1
		if 1+l.K-neg < 0 {
			okc = false
			if where == nil {
				where = in
			}
		}
	})
	pos := p.pos(fn.Pos())
	if where != nil {
		pos = p.ipos(where)
	}
	c.Sites++
	c.check(n >= 2 && okc, R, "strftime:week-number-dividend-never-negative", pos, fmt.Sprintf("%d divisions by 7, none with a dividend that can be negative", n), "a week-of-year directive divides a value that can be negative by 7: Go truncates toward zero, so the days of January before the year's first Sunday (%U) or Monday (%W) are rendered as week 01 instead of 00")
}

// ruleReturnPadding: C02f. A function that returns k values to a caller that wants n of them leaves
// nil in the n-k missing ones ("padded with nil when too few"). copyReturnValues gets n (wanted) and
// b = k+1: the nil fill runs exactly when n > b-1. The comparison between the two parameters is
// normalised to n - b + K > 0 and K must be 1 (K = 0 skips the padding for a caller that wants exactly
// one value more than was returned: `local a, b = f()` sees the callee's next register in b).
func ruleReturnPadding(c *Ctx) {
	const R = "R02-frames"
	p := c.P
	fn := c.need(R, "lua", "copyReturnValues")
	if fn == nil {
		return
	}
	ints := paramsOfType(fn, "int")
	if len(ints) < 4 {
		c.und(R, "copyReturnValues:pads-when-fewer-than-wanted", p.pos(fn.Pos()), "parameters not identified")
		return
	}
	nP, bP := ints[len(ints)-2], ints[len(ints)-1]
	found, okc := 0, true
	var where ssa.Instruction
	allInstrs(fn, func(in ssa.Instruction) {
		b, ok := in.(*ssa.BinOp)
		if !ok {
			return
		}
		op := b.Op
		if op != token.GTR && op != token.GEQ && op != token.LSS && op != token.LEQ {
			return
		}
		lx, ly := lin(b.X), lin(b.Y)
		// d = X - Y
		d := linform{T: map[string]int64{}, K: lx.K - ly.K}
		for k, v := range lx.T {
			d.T[k] += v
		}
		for k, v := range ly.T {
			d.T[k] -= v
		}
		for k, v := range d.T {
			if v == 0 {
				delete(d.T, k)
			}
		}
		kn, kb := leafKey(nP), leafKey(bP)
		if len(d.T) != 2 || d.T[kn]*d.T[kb] != -1 {
			return
		}
		// orient to n - b + K (op) 0
		K := d.K
		if d.T[kn] == -1 {
			K = -K
			op = flipOp(op)
		}
		found++
		// n - b + K > 0 wanted with K == 1; n - b + K >= 0 with K == 0
		good := (op == token.GTR && K == 1) || (op == token.GEQ && K == 0)
		if !good {
			okc = false
			if where == nil {
				where = in
			}
		}
	})
	pos := p.pos(fn.Pos())
	if where != nil {
		pos = p.ipos(where)
	}
	c.Sites++
	c.check(found > 0 && okc, R, "copyReturnValues:pads-when-fewer-than-wanted", pos, "the nil fill runs exactly when n > b-1", "copyReturnValues decides about the nil padding with a comparison other than n > b-1: a caller that wants exactly one value more than the callee returned gets whatever is in the callee's next register instead of nil (`local k, v = next(t); return k` … `local a, b = f()` sees v in b)")
}

// ruleRaiseErrorFormats: C05f. RaiseError(format, args...) formats only when there are arguments: many
// callers pass a finished message as the format (assert's message, err.Error(), the cancellation reason),
// and a '%' in it must arrive unchanged at pcall. Neither RaiseError nor raiseError hands the format to a
// printf-style function on a path where len(args) > 0 has not been established.
func ruleRaiseErrorFormats(c *Ctx) {
	const R = "R05-raise"
	p := c.P
	n := 0
	for _, name := range []string{"(*LState).RaiseError", "(*LState).raiseError"} {
		fn := c.need(R, "lua", name)
		if fn == nil {
			continue
		}
		g := p.G(fn)
		var format *ssa.Parameter
		for _, pm := range fn.Params {
			if b, ok := pm.Type().Underlying().(*types.Basic); ok && b.Info()&types.IsString != 0 {
				format = pm
			}
		}
		if format == nil {
			continue
		}
		n++
		var bad ssa.Instruction
		allInstrs(fn, func(in ssa.Instruction) {
			pk, nm, ok := stdCall(in)
			if !ok || pk != "fmt" || !(strings.HasSuffix(nm, "printf") || strings.HasSuffix(nm, "Errorf")) {
				return
			}
			cl := in.(*ssa.Call)
			if len(cl.Call.Args) == 0 || cl.Call.Args[0] != ssa.Value(format) {
				return
			}
			guarded := false
			for _, cd := range g.expandAnd(g.CondsAtInstr(in)) {
				b, ok := cd.V.(*ssa.BinOp)
				if !ok {
					continue
				}
				if lc, ok := stripConv(b.X).(*ssa.Call); ok {
					if bi, ok := lc.Call.Value.(*ssa.Builtin); ok && bi.Name() == "len" {
						k, isK := constInt(b.Y)
						if isK && ((b.Op == token.GTR && k == 0 && cd.Sense) || (b.Op == token.NEQ && k == 0 && cd.Sense) || (b.Op == token.EQL && k == 0 && !cd.Sense) || (b.Op == token.GEQ && k == 1 && cd.Sense)) {
							guarded = true
						}
					}
				}
			}
			if !guarded && bad == nil {
				bad = in
			}
		})
		pos := p.pos(fn.Pos())
		if bad != nil {
			pos = p.ipos(bad)
		}
		c.Sites++
		c.check(bad == nil, R, strings.TrimPrefix(name, "(*LState).")+":message-without-arguments-is-not-a-format", pos, "the message is formatted only under len(args) > 0", name+" runs the message through a printf-style function even when no arguments were given: a finished message passed as the format (assert(false, 'disk is 100% full'), L.RaiseError(err.Error())) reaches pcall with its '%' mangled (100%!f(MISSING)ull) — not the value that was raised")
	}
	if n == 0 {
		c.und(R, "message-without-arguments-is-not-a-format", "-", "RaiseError/raiseError not found")
	}
}

// ruleBaseFramePassedOn: C06f. callGFunction refuses a yield that would cross a Go frame (pcall, a
// metamethod, an iterator, L.Call) by comparing with the base frame of the interpreter loop it runs in.
// Every caller that has a base frame — the two loops and the CALL/TAILCALL handlers — hands exactly that
// parameter on: a nil there switches the refusal off for that call path (`return coroutine.yield(...)` in
// tail position under pcall then yields across pcall's Go frames).
func ruleBaseFramePassedOn(c *Ctx) {
	const R = "R06-killarg"
	p := c.P
	cg := c.need(R, "lua", "callGFunction")
	if cg == nil {
		return
	}
	n := 0
	for _, fn := range p.srcFuncs {
		if fn.Pkg == nil || fn.Pkg.Pkg.Path() != luaPath {
			continue
		}
		calls := callsTo(fn, cg)
		if len(calls) == 0 {
			continue
		}
		var base *ssa.Parameter
		for _, pm := range fn.Params {
			if typeName(pm.Type()) == "callFrame" {
				base = pm
			}
		}
		if base == nil {
			continue
		}
		for i, cl := range calls {
			n++
			c.Sites++
			c.check(cl.Call.Args[2] == ssa.Value(base), R, fmt.Sprintf("%s:passes-its-base-frame#%d", fname(fn), i+1), p.ipos(cl), "callGFunction receives the caller's base frame", fname(fn)+" calls callGFunction with something other than its own base frame: the test that refuses a yield across a Go frame is switched off on this call path — a Lua function under pcall that does `return coroutine.yield(...)` yields with pcall's Go frames still live, the body keeps running while it is no longer the current thread")
		}
	}
	if n < 3 {
		c.und(R, "passes-its-base-frame", "-", fmt.Sprintf("only %d calls of callGFunction with a base frame in reach", n))
	}
}

// ruleBulkWritesChecked: C12f. Every write into the registry's array is covered by a capacity check that
// asks for at least the highest index written plus one — also the bulk ones: a copy() into
// rg.array[a:h] needs checkSize(h) (or more) before it. A check that asks for one slot fewer never fires
// at the boundary: the registry is neither grown nor reported as overflowing, the copy panics with a Go
// slice-bounds error.
func ruleBulkWritesChecked(c *Ctx) {
	const R = "R12-grow"
	p := c.P
	arrF := p.Field("lua", "registry", "array")
	n := 0
	for _, fn := range p.srcFuncs {
		if fn.Pkg == nil || fn.Pkg.Pkg.Path() != luaPath {
			continue
		}
		var g *PCFG
		k := 0
		allInstrs(fn, func(in ssa.Instruction) {
			cl, ok := in.(*ssa.Call)
			if !ok {
				return
			}
			bi, ok := cl.Call.Value.(*ssa.Builtin)
			if !ok || bi.Name() != "copy" {
				return
			}
			sl, ok := cl.Call.Args[0].(*ssa.Slice)
			if !ok || sl.High == nil {
				return
			}
			if _, isArr := loadsField(sl.X, arrF); !isArr {
				return
			}
			if g == nil {
				g = p.G(fn)
			}
			if !g.Live(in) {
				return
			}
			n++
			k++
			lh := lin(sl.High)
			covered := false
			allInstrs(fn, func(x ssa.Instruction) {
				b, ok := x.(*ssa.BinOp)
				if !ok || b.Op != token.GTR {
					return
				}
				cc, ok := stripConv(b.Y).(*ssa.Call)
				if !ok {
					return
				}
				if cb, ok := cc.Call.Value.(*ssa.Builtin); !ok || cb.Name() != "cap" {
					return
				}
				if _, isArr := loadsField(cc.Call.Args[0], arrF); !isArr {
					return
				}
				if !g.BlockDom(x.Block(), in.Block()) {
					return
				}
				lr := lin(b.X)
				if sameTerms(lr, lh) == 1 && lr.K >= lh.K {
					covered = true
				}
			})
			c.Sites++
			c.check(covered, R, fmt.Sprintf("%s:bulk-write-within-the-checked-size#%d", fname(fn), k), p.ipos(in), "a capacity check for at least the upper bound of the copy dominates it", fname(fn)+" copies into the registry's array up to an index that no preceding capacity check asks for: at the moment the top equals the capacity the registry is neither grown nor reported as full — a Go slice-bounds panic instead of growth (growable registry) or of the catchable 'registry overflow'")
		})
	}
	if n == 0 {
		c.okT(R, "bulk-write-within-the-checked-size", "-", "no copy() into the registry's array in the package")
	}
}

// ruleFreeAllOnlyOnClose: C13f. A thread's call-frame segments go back to the shared pool only when the
// state is closed. A coroutine that died of an error keeps its frames: debug.traceback(co), getinfo and
// getlocal on the dead thread — and the traceback the wrap error path builds right after kill() — still
// read them. Releasing them at thread death hands memory that is still read to whichever state takes a
// segment next (another state's frames show up in the traceback; a data race between goroutines).
func ruleFreeAllOnlyOnClose(c *Ctx) {
	const R = "R13-poolrelease"
	p := c.P
	n := 0
	var bad ssa.Instruction
	who := ""
	for _, fn := range p.srcFuncs {
		if fn.Pkg == nil || fn.Pkg.Pkg.Path() != luaPath {
			continue
		}
		allInstrs(fn, func(in ssa.Instruction) {
			cc := callOf(in)
			if cc == nil {
				return
			}
			name := ""
			if cc.IsInvoke() {
				name = cc.Method.Name()
			} else if sc := cc.StaticCallee(); sc != nil && sc.Signature.Recv() != nil {
				name = sc.Name()
			}
			if name != "FreeAll" {
				return
			}
			if rn := recvNamed(fn); rn != "" && fn.Name() == "FreeAll" {
				return // an implementation delegating to another
			}
			n++
			if !(recvNamed(fn) == "LState" && fn.Name() == "Close") && bad == nil {
				bad, who = in, fname(fn)
			}
		})
	}
	pos := "-"
	if bad != nil {
		pos = p.ipos(bad)
	}
	c.Sites++
	c.check(n > 0 && bad == nil, R, "FreeAll:only-when-the-state-is-closed", pos, fmt.Sprintf("%d release(s) of a whole call stack, all in LState.Close", n), who+" gives a thread's call-frame segments back to the shared pool outside LState.Close: a dead coroutine's frames are still read afterwards (debug.traceback(co), the traceback of a wrapped coroutine's error), and the next state that takes a segment overwrites them")
}

// ruleRound6Fixes: guards of F114–F116.
func ruleRegisterModuleAdds(c *Ctx) {
	const R = "R20-order"
	p := c.P
	// F114: RegisterModule adds its functions also when the module table exists already
	if fn := c.need(R, "lua", "(*LState).RegisterModule"); fn != nil {
		rs := p.Fn("lua", "(*LTable).RawSetString")
		reach := reachGiven(fn, func(v ssa.Value) (aval, bool) {
			if ex, ok := v.(*ssa.Extract); ok && ex.Index == 1 {
				if ta, ok := ex.Tuple.(*ssa.TypeAssert); ok && typeName(ta.AssertedType) == "LTable" {
					return aBool(true), true
				}
			}
			return aval{}, false
		}, p.isNoReturnCall)
		adds := false
		for _, cl := range callsTo(fn, rs) {
			if reach[cl] {
				adds = true
			}
		}
		c.Sites++
		c.check(adds, R, "RegisterModule:adds-functions-to-an-existing-table", p.pos(fn.Pos()), "with the module table already present the functions are still stored into it", "RegisterModule returns an existing module table without adding the functions it was given: a second registration for the same name (a host extending a module in two steps) silently adds nothing")
	}
	// F115: require reads the searchers from package.loaders as it is now
	if fn := c.need(R, "lua", "loRequire"); fn != nil {
		fromPackage, fromRegistry := false, false
		allInstrs(fn, func(in ssa.Instruction) {
			cl, ok := in.(*ssa.Call)
			if !ok {
				return
			}
			for _, a := range cl.Call.Args {
				if s, ok := constStr(a); ok {
					if s == "loaders" {
						fromPackage = true
					}
					if s == "_LOADERS" {
						fromRegistry = true
					}
				}
			}
		})
		c.Sites++
		c.check(fromPackage && !fromRegistry, R, "loRequire:searchers-from-package.loaders", p.pos(fn.Pos()), "the list of searchers is the loaders field of the package table", "require takes its searchers from the registry entry set when the package library was opened: a script that replaces package.loaders is ignored")
	}
}

// ruleYieldHandOver: F116. switchToParentThread (a) refuses a yield the resumer has no room for before
// it changes CurrentThread (the raising call precedes the store on the yield path), and (b) marks a
// finishing thread dead before it pushes anything onto the resumer's registry (a push that overflows
// must not leave the thread alive with its hand-over half done).
func ruleYieldHandOver(c *Ctx) {
	const R = "R06-killarg"
	p := c.P
	fn := c.need(R, "lua", "switchToParentThread")
	if fn == nil {
		return
	}
	g := p.G(fn)
	p.computeNoReturn()
	curF := p.Field("lua", "Global", "CurrentThread")
	kill := p.Fn("lua", "(*LState).kill")
	push := p.Fn("lua", "(*LState).Push")
	xmove := p.Fn("lua", "(*LState).XMoveTo")
	var curStore ssa.Instruction
	allInstrs(fn, func(in ssa.Instruction) {
		if _, ok := isFieldStore(in, curF); ok {
			curStore = in
		}
	})
	if curStore == nil {
		c.und(R, "switchToParentThread:hand-over-order", p.pos(fn.Pos()), "the store of CurrentThread was not found")
		return
	}
	// (a) a no-return call under a condition that involves the registry's capacity dominates the store
	roomChecked := false
	allInstrs(fn, func(in ssa.Instruction) {
		if !p.isNoReturnCall(in) || g.Dominates(curStore, in) {
			return // (a refusal that comes after the switch is too late)
		}
		for _, cd := range g.expandAnd(g.CondsAtInstr(in)) {
			var dep func(v ssa.Value, d int) bool
			dep = func(v ssa.Value, d int) bool {
				if d > 4 {
					return false
				}
				if cl, ok := v.(*ssa.Call); ok {
					if sc := cl.Call.StaticCallee(); sc != nil && recvNamed(sc) == "registry" {
						return true
					}
					return false
				}
				if x, ok := v.(ssa.Instruction); ok {
					for _, op := range x.Operands(nil) {
						if *op != nil && dep(*op, d+1) {
							return true
						}
					}
				}
				return false
			}
			if dep(cd.V, 0) {
				roomChecked = true
			}
		}
	})
	c.Sites++
	c.check(roomChecked, R, "switchToParentThread:room-checked-before-the-switch", p.ipos(curStore), "a raising test of the resumer's registry precedes the store of CurrentThread", "switchToParentThread switches the current thread before it knows that the resumer can take the yielded values: when they do not fit, the overflow is raised half-way — the resumer catches 'registry overflow', the coroutine stays suspended with the same yield pending and delivers it again on the next resume")
	// (b) every push onto the parent is preceded by kill() on the paths where kill is requested
	okc := true
	for _, cl := range append(callsTo(fn, push), callsTo(fn, xmove)...) {
		// from the entry to this call, a path that avoids the kill call while the kill flag is true?
		killed := false
		for _, kc := range callsTo(fn, kill) {
			if g.BlockDom(kc.Block().Preds[0], cl.Block()) || kc.Block() == cl.Block() {
				killed = true
			}
		}
		if !killed {
			okc = false
		}
	}
	c.Sites++
	c.check(okc && len(callsTo(fn, kill)) > 0, R, "switchToParentThread:finished-thread-dead-before-its-results-move", p.pos(fn.Pos()), "the kill test comes before every push onto the resumer", "switchToParentThread hands the results of a finishing thread over before it marks the thread dead: when the resumer's registry overflows during the hand-over the thread stays alive ('suspended') although its body has returned or failed")
}

// ruleResumeFinishDecision: F117. LState.Resume tells a yield from a finished body by the thread's Dead
// flag, not by an empty call stack (a host function that is the body and yields leaves no frame behind),
// and it does not push a new first frame onto a thread it has run before.
func ruleResumeFinishDecision(c *Ctx) {
	const R = "R06-resumeapi"
	p := c.P
	fn := c.need(R, "lua", "(*LState).Resume")
	run := p.Fn("lua", "threadRun")
	if fn == nil || run == nil {
		return
	}
	g := p.G(fn)
	deadF := p.Field("lua", "LState", "Dead")
	calls := callsTo(fn, run)
	if len(calls) == 0 {
		return
	}
	byDead, byStack := false, false
	allInstrs(fn, func(in ssa.Instruction) {
		ret, ok := in.(*ssa.Return)
		if !ok || len(ret.Results) != 3 || !g.Dominates(calls[0], in) {
			return
		}
		for _, cd := range g.expandAnd(g.CondsAtInstr(in)) {
			if !g.Dominates(calls[0], cd.At.Instrs[len(cd.At.Instrs)-1]) {
				continue // a test made before the thread ran
			}
			if _, ok := loadsField(cd.V, deadF); ok {
				byDead = true
			}
			if cl, ok := cd.V.(*ssa.Call); ok && cl.Call.IsInvoke() && cl.Call.Method.Name() == "IsEmpty" {
				byStack = true
			}
		}
	})
	c.Sites++
	c.check(byDead && !byStack, R, "Resume:finished-told-by-the-dead-flag", p.pos(fn.Pos()), "after the thread ran, ResumeOK/ResumeYield is decided by th.Dead", "LState.Resume decides whether the thread has finished by looking at its call stack: a host function that is the body and yields leaves the stack empty, the yield is reported as ResumeOK and the next Resume starts the function again from the beginning")
}

// ---- round 7 ----

// ruleFindTableRaw: C20g. FindTable creates the tables of a dotted module name; a component "exists"
// only when it is a field of the table itself. A lookup that follows __index takes an inherited table
// (package.seeall: every global) for the module's own — require "app.string" then returns the string library.
func ruleFindTableRaw(c *Ctx) {
	const R = "R20-order"
	p := c.P
	fn := c.need(R, "lua", "(*LState).FindTable")
	if fn == nil {
		return
	}
	var bad ssa.Instruction
	raw := 0
	allInstrs(fn, func(in ssa.Instruction) {
		sc := staticCallee(in)
		if sc == nil {
			return
		}
		switch {
		case recvNamed(sc) == "LState" && (sc.Name() == "GetField" || sc.Name() == "GetTable" || sc.Name() == "getField" || sc.Name() == "getFieldString" || sc.Name() == "GetGlobal"):
			if bad == nil {
				bad = in
			}
		case strings.HasPrefix(sc.Name(), "RawGet"):
			raw++
		}
	})
	pos := p.pos(fn.Pos())
	if bad != nil {
		pos = p.ipos(bad)
	}
	c.Sites++
	c.check(bad == nil && raw > 0, R, "FindTable:components-looked-up-raw", pos, "each name component is a raw field of the table before it", "FindTable resolves a name component through an accessor that follows __index: under a parent module opened with package.seeall an inherited global table (string, os …) is taken for the sub-module's table — require 'app.string' returns, and writes its functions into, the standard library")
}

// ruleIndexHandlerGetsCurrentLink: C10g. When the __index / __newindex chain reaches a function handler,
// the handler is called with the link of the chain it was found on (luaV_gettable walks t), not with the
// object the lookup started from. In the four field accessors the value pushed right after the handler
// is the loop-carried current object, never the function's own object parameter.
func ruleIndexHandlerGetsCurrentLink(c *Ctx) {
	const R = "R04-siblings"
	p := c.P
	push := p.Fn("lua", "(*registry).Push")
	n := 0
	for _, name := range []string{"(*LState).getField", "(*LState).getFieldString", "(*LState).setField", "(*LState).setFieldString"} {
		fn := c.need(R, "lua", name)
		if fn == nil || push == nil {
			continue
		}
		objParam := paramsOfType(fn, "LValue")
		okc, found := true, false
		for _, blk := range fn.Blocks {
			var pushes []*ssa.Call
			for _, in := range blk.Instrs {
				if isCallTo(in, push) {
					pushes = append(pushes, in.(*ssa.Call))
				}
			}
			if len(pushes) < 3 {
				continue
			}
			found = true
			second := stripMI(pushes[1].Call.Args[1])
			if len(objParam) > 0 && second == ssa.Value(objParam[0]) {
				okc = false
			}
			if _, isPhi := second.(*ssa.Phi); !isPhi {
				okc = false
			}
		}
		n++
		c.Sites++
		c.check(found && okc, R, strings.TrimPrefix(name, "(*LState).")+":handler-receives-the-link-it-was-found-on", p.pos(fn.Pos()), "the handler's first argument is the current link of the chain", name+" calls a function handler found further down the __index/__newindex chain with the object the lookup started from instead of the link the handler belongs to: obj[k] on a two-link chain hands the handler obj where Lua hands it the intermediate table — and disagrees with the string-keyed twin (obj.k)")
	}
	if n < 4 {
		c.und(R, "handler-receives-the-link-it-was-found-on", "-", "field accessors not found")
	}
}

// ruleGsubFalseKeepsMatch: C14g. A replacement function or table that yields false or nil keeps the
// match: both assemblers decide that with LVIsFalse on the yielded value, and the 'invalid replacement
// value' error is raised only for values that are not false.
func ruleGsubFalseKeepsMatch(c *Ctx) {
	const R = "R14-repl"
	p := c.P
	isFalse := p.Fn("lua", "LVIsFalse")
	asBool := p.Fn("lua", "LVAsBool")
	for _, name := range []string{"strGsubFunc", "strGsubTable"} {
		fn := c.need(R, "lua", name)
		if fn == nil {
			continue
		}
		g := p.G(fn)
		p.computeNoReturn()
		tests := append(callsTo(fn, isFalse), callsTo(fn, asBool)...)
		okc := len(tests) > 0
		// every raise in the function is on a path where the truth test said "not false"
		allInstrs(fn, func(in ssa.Instruction) {
			if !p.isNoReturnCall(in) || !g.Live(in) {
				return
			}
			guarded := g.holdsOnAllPaths(in.Block(), func(cd Cond) bool {
				v := cd.V
				neg := false
				if u, ok := v.(*ssa.UnOp); ok && u.Op == token.NOT {
					v, neg = u.X, true
				}
				cl, ok := v.(*ssa.Call)
				if !ok {
					return false
				}
				sc := cl.Call.StaticCallee()
				if sc == isFalse {
					return cd.Sense == neg // LVIsFalse false, or !LVIsFalse true
				}
				if sc == asBool {
					return cd.Sense != neg
				}
				return false
			}, 0)
			if !guarded {
				okc = false
			}
		})
		c.Sites++
		c.check(okc, R, name+":false-or-nil-keeps-the-match", p.pos(fn.Pos()), "the yielded value is tested with LVIsFalse and only a non-false value can be an invalid replacement", name+" does not treat a false replacement value like nil: string.gsub(s, p, function(w) return w == 'bb' and 'X' end) raises 'invalid replacement value (a boolean)' for the matches the function declines instead of keeping them (the table form and the function form disagree)")
	}
}

// ruleUnsignedZeroFlag: C15g. The '#' flag is dropped for a zero VALUE AS PRINTED: the zero test that
// feeds the flag wrapper is made on the converted integer, not on the number before conversion (0.5
// prints as 0 and must not get the 0x prefix).
func ruleUnsignedZeroFlag(c *Ctx) {
	const R = "R15-flags"
	p := c.P
	nf := c.need(R, "lua", "(LNumber).Format")
	if nf == nil {
		return
	}
	n, okc := 0, true
	allInstrs(nf, func(in ssa.Instruction) {
		st, ok := in.(*ssa.Store)
		if !ok {
			return
		}
		fa, ok := st.Addr.(*ssa.FieldAddr)
		if !ok || typeName(fa.X.Type()) != "unsignedState" {
			return
		}
		if b, ok := st.Val.Type().Underlying().(*types.Basic); !ok || b.Kind() != types.Bool {
			return
		}
		if k, isK := constBool(st.Val); isK && !k {
			return // the constant false of %u
		}
		n++
		cmp, ok := st.Val.(*ssa.BinOp)
		if !ok {
			okc = false
			return
		}
		xt, _ := cmp.X.Type().Underlying().(*types.Basic)
		if xt == nil || xt.Info()&types.IsInteger == 0 {
			okc = false
		}
	})
	c.Sites++
	c.check(n > 0 && okc, R, "LNumber.Format:zero-test-on-the-converted-integer", p.pos(nf.Pos()), "the '#'-suppressing zero test compares the integer that is printed", "LNumber.Format decides that the value is zero (no prefix under '#') by looking at the number before it is converted to an integer: string.format('%#x', 0.5) prints 0x0 where C prints 0")
}

// ruleSignBeforePrefix: C16g. tonumber(s, 16) reads [blanks][sign][0x]digits: the sign is looked for
// before the 0x prefix is stripped ("-0x10" is -16, "0x-10" is not a numeral), as parseNumber does.
func ruleSignBeforePrefix(c *Ctx) {
	const R = "R16-onereader"
	p := c.P
	fn := c.need(R, "lua", "parseInteger")
	if fn == nil {
		return
	}
	g := p.G(fn)
	var signCmp, prefCmp ssa.Instruction
	allInstrs(fn, func(in ssa.Instruction) {
		b, ok := in.(*ssa.BinOp)
		if !ok || b.Op != token.EQL {
			return
		}
		k, isK := constInt(b.Y)
		if !isK {
			return
		}
		switch stripConv(b.X).(type) {
		case *ssa.Lookup, *ssa.Index:
		default:
			return
		}
		if (k == '-' || k == '+') && signCmp == nil {
			signCmp = in
		}
		if (k == 'x' || k == 'X') && prefCmp == nil {
			prefCmp = in
		}
	})
	c.Sites++
	_ = g
	c.check(signCmp != nil && prefCmp != nil && signCmp.Block() != prefCmp.Block() && canReach(signCmp.Block(), prefCmp.Block()) && !canReach(prefCmp.Block(), signCmp.Block()), R, "parseInteger:sign-before-the-0x-prefix", p.pos(fn.Pos()), "the test for a sign comes before the test for the prefix, never after it", "parseInteger strips the 0x prefix before it looks for a sign: tonumber('-0x10', 16) is nil and tonumber('0x-10', 16) is -16, while tonumber('-0x10'), '-0x10' + 0 and the literal agree on -16 and reject '0x-10'")
}

// ruleSetlistBatchNumber: C02g / F18. The batch number of a SETLIST is (number of items stored before
// this flush)/FieldsPerFlush + 1. In this compiler the items stored before are arraycount − pending — two
// counters of positional items, the open-ended last item counted by neither: the dividend of the division
// by FieldsPerFlush is a difference of counters (or a single counter) WITHOUT a constant correction.
// The reference's (na−1)/50+1 counts the open item in na; with this compiler's counters it numbers the
// open-ended flush after exactly 50·k items like the batch before it ({1,…,50, f()} stores f's results at t[1…]).
func ruleSetlistBatchNumber(c *Ctx) {
	const R = "R01-constructor"
	p := c.P
	fn := c.need(R, "lua", "compileTableExpr")
	if fn == nil {
		return
	}
	fpfG := p.Global("lua", "FieldsPerFlush")
	if fpfG == nil {
		c.und(R, "compileTableExpr:batch-number-from-the-items-stored-before", p.pos(fn.Pos()), "FieldsPerFlush not found")
		return
	}
	n, okc := 0, true
	var where ssa.Instruction
	allInstrs(fn, func(in ssa.Instruction) {
		b, ok := in.(*ssa.BinOp)
		if !ok || b.Op != token.QUO {
			return
		}
		if u, isLoad := stripConv(b.Y).(*ssa.UnOp); !isLoad || u.X != ssa.Value(fpfG) {
			return
		}
		n++
		l := lin(b.X)
		if l.K != 0 || len(l.T) == 0 || len(l.T) > 2 {
			okc = false
			if where == nil {
				where = in
			}
		}
	})
	pos := p.pos(fn.Pos())
	if where != nil {
		pos = p.ipos(where)
	}
	c.Sites++
	c.check(n > 0 && okc, R, "compileTableExpr:batch-number-from-the-items-stored-before", pos, fmt.Sprintf("%d division(s) by FieldsPerFlush, the dividend a difference of counters without a constant", n), "the batch number of a SETLIST is computed from a counter with a constant correction: with this compiler's counters (the open-ended last item is not counted) the flush of a call or '...' after exactly 50·k positional items gets the number of the batch before it — {1, …, 50, f()} stores the results of f() at t[1…]")
}

// ruleNoIntegerDivisionByUnknown: C08g. Constant folding evaluates arithmetic at load time with the
// VM's own helpers: a Go integer division or remainder whose divisor is not known to be non-zero panics
// with 'integer divide by zero' — a Go run-time error that leaves Load/LoadString as a panic
// (`return 7 % 0`). Every integer / or % with a non-constant divisor in a function the folding can reach
// is guarded by a test of the divisor against zero.
func ruleNoIntegerDivisionByUnknown(c *Ctx) {
	const R = "R08-panics"
	p := c.P
	root := p.Fn("lua", "constFold")
	if root == nil {
		c.und(R, "constFold:no-integer-division-by-an-unchecked-value", "-", "constFold not found")
		return
	}
	seen := map[*ssa.Function]bool{}
	var order []*ssa.Function
	var visit func(f *ssa.Function, d int)
	visit = func(f *ssa.Function, d int) {
		if f == nil || seen[f] || f.Blocks == nil || d > 4 || f.Pkg == nil || f.Pkg.Pkg.Path() != luaPath {
			return
		}
		seen[f] = true
		order = append(order, f)
		allInstrs(f, func(in ssa.Instruction) {
			if sc := staticCallee(in); sc != nil {
				visit(sc, d+1)
			}
		})
	}
	visit(root, 0)
	var bad ssa.Instruction
	who := ""
	for _, f := range order {
		g := p.G(f)
		allInstrs(f, func(in ssa.Instruction) {
			b, ok := in.(*ssa.BinOp)
			if !ok || (b.Op != token.QUO && b.Op != token.REM) {
				return
			}
			bt, ok := b.X.Type().Underlying().(*types.Basic)
			if !ok || bt.Info()&types.IsInteger == 0 {
				return
			}
			if _, isK := constInt(b.Y); isK {
				return
			}
			// a divisor that is a Lua number turned into an integer: the script (or the folded source
			// text) decides its value. Divisors that are Go-side quantities (a numeral base, a segment size)
			// are bounded by their callers and not judged here
			cvd, isCv := b.Y.(*ssa.Convert)
			if !isCv {
				return
			}
			if ft, ok := cvd.X.Type().Underlying().(*types.Basic); !ok || ft.Info()&types.IsFloat == 0 {
				return
			}
			nonzero := false
			for _, cd := range g.expandAnd(g.CondsAtInstr(in)) {
				cmp, ok := cd.V.(*ssa.BinOp)
				if !ok {
					continue
				}
				k, isK := constInt(cmp.Y)
				if !isK || k != 0 || vkey(stripConv(cmp.X)) != vkey(stripConv(b.Y)) {
					continue
				}
				if (cmp.Op == token.NEQ && cd.Sense) || (neHolds(cmp, cd)) || (cmp.Op == token.GTR && cd.Sense) {
					nonzero = true
				}
			}
			if !nonzero && bad == nil {
				bad, who = in, fname(f)
			}
		})
	}
	pos := "-"
	if bad != nil {
		pos = p.ipos(bad)
	}
	c.Sites += len(order)
	c.check(bad == nil, R, "constFold:no-integer-division-by-an-unchecked-value", pos, fmt.Sprintf("%d functions reachable from constFold, no integer / or %% by an unchecked divisor", len(order)), who+" divides integers by a value that is not known to be non-zero and is reachable from constant folding: `return 7 % 0` panics with 'integer divide by zero' inside the compiler, which Compile does not convert — LoadString leaves as a Go panic instead of yielding a function (nan at run time)")
}

// ruleFloatKeyToIndex: C09g. A numeric key addresses the array part only when it is integral: in the
// table's own methods a float is converted to an int (to index, or to compare with the array length)
// only on paths where isInteger / isArrayKey has answered true for that value. Truncating 1.5 to 1 makes
// Next resume inside the array part from a key that lives in the hash part — pairs never terminates.
func ruleFloatKeyToIndex(c *Ctx) {
	const R = "R09-route"
	p := c.P
	isInt, isArr := p.Fn("lua", "isInteger"), p.Fn("lua", "isArrayKey")
	n := 0
	for _, fn := range p.srcFuncs {
		if fn.Pkg == nil || fn.Pkg.Pkg.Path() != luaPath || recvNamed(fn) != "LTable" {
			continue
		}
		var g *PCFG
		k := 0
		allInstrs(fn, func(in ssa.Instruction) {
			cv, ok := in.(*ssa.Convert)
			if !ok {
				return
			}
			from, ok1 := cv.X.Type().Underlying().(*types.Basic)
			to, ok2 := cv.Type().Underlying().(*types.Basic)
			if !ok1 || !ok2 || from.Info()&types.IsFloat == 0 || to.Info()&types.IsInteger == 0 {
				return
			}
			if _, isK := cv.X.(*ssa.Const); isK {
				return
			}
			if g == nil {
				g = p.G(fn)
			}
			if !g.Live(in) {
				return
			}
			n++
			k++
			integral := g.holdsOnAllPaths(in.Block(), func(cd Cond) bool {
				cl, ok := cd.V.(*ssa.Call)
				if !ok || !cd.Sense {
					return false
				}
				sc := cl.Call.StaticCallee()
				if sc != isInt && sc != isArr {
					return false
				}
				return vkey(stripConv(cl.Call.Args[0])) == vkey(stripConv(cv.X)) || stripConv(cl.Call.Args[0]) == stripConv(cv.X)
			}, 0)
			c.Sites++
			c.check(integral, R, fmt.Sprintf("%s:float-key-converted-only-when-integral#%d", fname(fn), k), p.ipos(in), "isInteger/isArrayKey holds for the key on every path to the conversion", fname(fn)+" converts a numeric key to an int without having established that it is integral: a fractional key (t[1.5]), which lives in the hash part, is truncated to an array position — next/pairs resumes inside the array part, revisits keys and never reaches the rest (pairs does not terminate)")
		})
	}
	if n == 0 {
		c.okT(R, "float-key-converted-only-when-integral", "-", "no float-to-int conversion of a key in the table methods")
	}
}

// ruleHandlerLoopsBounded: C11g. The context is polled between dispatches: the work of one instruction
// must be bounded by the instruction's operands (a SETLIST batch, a VARARG count), never by values the
// script computes. A loop inside a VM handler whose exit test compares floating-point values (Lua
// numbers: a for loop's limit and step) runs the script's loop inside one dispatch — no cancellation,
// and with a zero step no end.
func ruleHandlerLoopsBounded(c *Ctx) {
	const R = "R11-poll"
	p := c.P
	t := p.vmTable()
	n := 0
	for _, oi := range t.Ops {
		if oi.Handler == nil {
			continue
		}
		g := p.G(oi.Handler)
		for i, li := range g.loops() {
			n++
			floatExit := false
			codeExit := false
			for blk := range li.Body {
				iff, ok := blk.Instrs[len(blk.Instrs)-1].(*ssa.If)
				if !ok {
					continue
				}
				exits := false
				for _, s := range blk.Succs {
					if !li.Body[s] {
						exits = true
					}
				}
				if !exits {
					continue
				}
				var hasFloat func(v ssa.Value, d int) bool
				hasFloat = func(v ssa.Value, d int) bool {
					if d > 4 {
						return false
					}
					if b, ok := v.(*ssa.BinOp); ok {
						if bt, ok := b.X.Type().Underlying().(*types.Basic); ok && bt.Info()&types.IsFloat != 0 {
							return true
						}
						return hasFloat(b.X, d+1) || hasFloat(b.Y, d+1)
					}
					if ph, ok := v.(*ssa.Phi); ok {
						for _, e := range ph.Edges {
							if hasFloat(e, d+1) {
								return true
							}
						}
					}
					if u, ok := v.(*ssa.UnOp); ok {
						return hasFloat(u.X, d+1)
					}
					return false
				}
				if hasFloat(iff.Cond, 0) {
					floatExit = true
				}
				// …or on an instruction word fetched in the loop: the loop follows byte-code (a chain or a
				// cycle of jumps) inside one dispatch
				var onCodeWord func(v ssa.Value, d int) bool
				onCodeWord = func(v ssa.Value, d int) bool {
					if d > 6 {
						return false
					}
					if u, ok := v.(*ssa.UnOp); ok && u.Op == token.MUL {
						if ia, ok := u.X.(*ssa.IndexAddr); ok {
							if sl, ok := ia.X.Type().Underlying().(*types.Slice); ok {
								if bt, ok := sl.Elem().Underlying().(*types.Basic); ok && bt.Kind() == types.Uint32 {
									return true
								}
							}
						}
					}
					in, ok := v.(ssa.Instruction)
					if !ok {
						return false
					}
					for _, op := range in.Operands(nil) {
						if *op != nil && onCodeWord(*op, d+1) {
							return true
						}
					}
					return false
				}
				if onCodeWord(iff.Cond, 0) {
					codeExit = true
				}
			}
			c.Sites++
			c.check(!codeExit, R, fmt.Sprintf("handler[%s]:loop#%d:does-not-follow-byte-code", oi.Name, i+1), p.pos(oi.Handler.Pos()), "the loop's exit does not depend on an instruction word fetched in the loop", fmt.Sprintf("the handler of %s contains a loop that goes on while the instruction word it fetches satisfies a test: it follows byte-code inside one dispatch — a jump that lands on itself (`while true do end`, `::l:: goto l`) spins there for ever, between two polls of the context", oi.Name))
			c.check(!floatExit, R, fmt.Sprintf("handler[%s]:loop#%d:bounded-by-operands", oi.Name, i+1), p.pos(oi.Handler.Pos()), "the loop's exit does not compare Lua numbers", fmt.Sprintf("the handler of %s contains a loop whose exit compares floating-point values: the iterations of a script-level loop run inside one dispatch, between two polls of the context — `for i = 1, 1e13 do end` cannot be cancelled and `for i = 1, 0, 0 do end` never returns", oi.Name))
		}
	}
	if n == 0 {
		c.okT(R, "handler-loops", "-", "no loop in any VM handler")
	}
}

// ruleSelectDispatchesFiredCase: C13g. channel.select hands the outcome to the handler of the case that
// fired, with the arguments of that case's direction: the direction is read from the very element of the
// case list that reflect.Select reported — the list is indexed by the position Select returned, not by a
// corrected copy of it (a list that got the cancellation case in front while the index was shifted back
// dispatches every case with the direction of its neighbour).
func ruleSelectDispatchesFiredCase(c *Ctx) {
	const R = "R13-sendguard"
	p := c.P
	fn := c.need(R, "lua", "channelSelect")
	if fn == nil {
		return
	}
	var sel *ssa.Call
	allInstrs(fn, func(in ssa.Instruction) {
		if pk, n, ok := stdCall(in); ok && pk == "reflect" && n == "Select" {
			sel = in.(*ssa.Call)
		}
	})
	if sel == nil {
		c.und(R, "channelSelect:direction-of-the-case-that-fired", p.pos(fn.Pos()), "reflect.Select not found")
		return
	}
	var posEx ssa.Value
	for _, r := range *sel.Referrers() {
		if ex, ok := r.(*ssa.Extract); ok && ex.Index == 0 {
			posEx = ex
		}
	}
	g := p.G(fn)
	n, okc := 0, true
	var where ssa.Instruction
	allInstrs(fn, func(in ssa.Instruction) {
		ia, ok := in.(*ssa.IndexAddr)
		if !ok || posEx == nil || !g.Dominates(sel, in) {
			return
		}
		if typeName(ia.X.Type()) != "reflect.SelectCase" {
			if sl, ok := ia.X.Type().Underlying().(*types.Slice); !ok || typeName(sl.Elem()) != "reflect.SelectCase" {
				return
			}
		}
		n++
		if stripConv(ia.Index) != posEx {
			l := lin(ia.Index)
			le := lin(posEx)
			if sameTerms(l, le) != 1 || l.K != le.K {
				okc = false
				if where == nil {
					where = in
				}
			}
		}
	})
	pos := p.ipos(sel)
	if where != nil {
		pos = p.ipos(where)
	}
	c.Sites++
	c.check(n > 0 && okc, R, "channelSelect:direction-of-the-case-that-fired", pos, "the case list is indexed by the position reflect.Select returned", "channel.select reads the direction of the fired case from a different element of the case list than the one reflect.Select reported (the index was corrected, the list was not): under a context the receive handler is called with the arguments of a send case — the message is taken from the channel and never reaches the receiver")
}

// ruleYieldRoomForOwnConvention: C12g. The room asked for before a yield covers what is pushed: the
// values and, unless THIS thread was resumed through a wrapper, the leading true. Every read of the
// result-convention flag in switchToParentThread is a read of the yielding thread's own flag.
func ruleYieldRoomForOwnConvention(c *Ctx) {
	const R = "R06-killarg"
	p := c.P
	fn := c.need(R, "lua", "switchToParentThread")
	wF := p.Field("lua", "LState", "wrapped")
	if fn == nil || wF == nil {
		return
	}
	n, okc := 0, true
	var where ssa.Instruction
	allInstrs(fn, func(in ssa.Instruction) {
		u, ok := in.(*ssa.UnOp)
		if !ok || u.Op != token.MUL {
			return
		}
		fa, ok := u.X.(*ssa.FieldAddr)
		if !ok || fieldOf(fa) != wF {
			return
		}
		n++
		if fa.X != ssa.Value(fn.Params[0]) {
			okc = false
			if where == nil {
				where = in
			}
		}
	})
	pos := p.pos(fn.Pos())
	if where != nil {
		pos = p.ipos(where)
	}
	c.Sites++
	c.check(n > 0 && okc, R, "switchToParentThread:convention-read-from-the-yielding-thread", pos, fmt.Sprintf("%d read(s) of the convention flag, all of the thread that hands over", n), "switchToParentThread consults the result-convention flag of another thread (the resumer's) when it sizes or performs the hand-over: the room check and the pushes disagree by one slot when a coroutine started by coroutine.wrap resumes a child with coroutine.resume — the overflow is raised half-way again, the child stays suspended with its yield pending")
}

// ruleResumeRoomChecked: F118. The values of a resume are moved onto a suspended thread only after its
// registry was found to hold them: in every function that runs a thread, the path that pads the values
// of a later resume (the thread had started) has passed a canHold test on that thread's registry.
func ruleResumeRoomChecked(c *Ctx) {
	const R = "R06-resumeapi"
	p := c.P
	run := p.Fn("lua", "threadRun")
	pad := p.Fn("lua", "(*LState).padResumeValues")
	can := p.Fn("lua", "(*registry).canHold")
	if run == nil || pad == nil {
		return
	}
	for _, fn := range p.srcFuncs {
		if fn.Pkg == nil || fn.Pkg.Pkg.Path() != luaPath || len(callsTo(fn, run)) == 0 {
			continue
		}
		g := p.G(fn)
		for i, pc := range callsTo(fn, pad) {
			okc := can != nil && g.holdsOnAllPaths(pc.Block(), func(cd Cond) bool {
				v, neg := cd.V, false
				if u, ok := v.(*ssa.UnOp); ok && u.Op == token.NOT {
					v, neg = u.X, true
				}
				cl, ok := v.(*ssa.Call)
				return ok && cl.Call.StaticCallee() == can && cd.Sense != neg
			}, 0)
			c.Sites++
			c.check(okc, R, fmt.Sprintf("%s:room-checked-before-the-values-move#%d", fname(fn), i+1), p.ipos(pc), "canHold answered true on every path to the hand-over of a later resume", fname(fn)+" moves the values of a resume onto a suspended thread without having asked whether its registry can hold them: when it overflows half-way the error leaves resume as a raise, the values already moved stay on the coroutine's stack and every later resume overflows again")
		}
	}
}

// ruleTemporaryNeedsPositiveIndex: F119. findLocal names a slot "(*temporary)" only for an index of at
// least 1: index 0 and negative indices address registers below the frame (the function being called).
func ruleTemporaryNeedsPositiveIndex(c *Ctx) {
	const R = "R17-scope"
	p := c.P
	fn := c.need(R, "lua", "(*LState).findLocal")
	if fn == nil {
		return
	}
	g := p.G(fn)
	ints := paramsOfType(fn, "int")
	if len(ints) == 0 {
		return
	}
	no := ints[len(ints)-1]
	n, okc := 0, true
	allInstrs(fn, func(in ssa.Instruction) {
		ret, ok := in.(*ssa.Return)
		if !ok || len(ret.Results) != 1 {
			return
		}
		if s, isS := constStr(ret.Results[0]); !isS || s == "" {
			return
		}
		n++
		_, lo, _, hasLo := bounds(g, in, no)
		if !hasLo || lo < 1 {
			// also through a value-form conjunction
			ok2 := false
			for _, cd := range g.expandAnd(g.CondsAtInstr(in)) {
				if b, ok := cd.V.(*ssa.BinOp); ok && cd.Sense && b.X == ssa.Value(no) {
					if k, isK := constInt(b.Y); isK && ((b.Op == token.GTR && k >= 0) || (b.Op == token.GEQ && k >= 1)) {
						ok2 = true
					}
				}
			}
			if !ok2 {
				okc = false
			}
		}
	})
	c.Sites++
	c.check(n > 0 && okc, R, "findLocal:temporary-only-for-a-positive-index", p.pos(fn.Pos()), "the constant name is returned only where the index is known to be >= 1", "findLocal names a slot '(*temporary)' without having checked that the index is positive: debug.getlocal(1, 0) returns '(*temporary)' and the function being called, a register below the frame")
}

// ruleAbsoluteTopRestoredAbsolutely: C05g (and C10e). reg.Top() is an absolute registry index,
// LState.SetTop takes a frame-relative one: a stack height captured with reg.Top() is restored with
// reg.SetTop. At top level the two coincide (no frame, base 0), inside a host function they differ by the
// frame's base — the restore lands LocalBase slots too high, or overflows inside the recovery.
func ruleAbsoluteTopRestoredAbsolutely(c *Ctx) {
	const R = "R05-restore"
	p := c.P
	relSet := p.Fn("lua", "(*LState).SetTop")
	absTop := p.Fn("lua", "(*registry).Top")
	if relSet == nil || absTop == nil {
		c.und(R, "absolute-top-restored-absolutely", "-", "LState.SetTop / registry.Top not found")
		return
	}
	// resolve a value through a captured single-assignment variable to what was stored into it
	var origin func(v ssa.Value, f *ssa.Function, d int) ssa.Value
	origin = func(v ssa.Value, f *ssa.Function, d int) ssa.Value {
		v = stripConv(v)
		if d > 4 {
			return v
		}
		u, ok := v.(*ssa.UnOp)
		if !ok || u.Op != token.MUL {
			return v
		}
		var cell ssa.Value = u.X
		owner := f
		if fv, ok := cell.(*ssa.FreeVar); ok && f.Parent() != nil {
			// the binding in the enclosing function
			idx := -1
			for i, x := range f.FreeVars {
				if x == fv {
					idx = i
				}
			}
			owner = f.Parent()
			cell = nil
			allInstrs(owner, func(in ssa.Instruction) {
				if mc, ok := in.(*ssa.MakeClosure); ok && mc.Fn == ssa.Value(f) && idx >= 0 && idx < len(mc.Bindings) {
					cell = mc.Bindings[idx]
				}
			})
			if cell == nil {
				return v
			}
			if _, isFV := cell.(*ssa.FreeVar); isFV {
				return origin(&ssa.UnOp{Op: token.MUL, X: cell}, owner, d+1)
			}
		}
		al, ok := cell.(*ssa.Alloc)
		if !ok {
			return v
		}
		var stored []ssa.Value
		for _, r := range *al.Referrers() {
			if st, ok := r.(*ssa.Store); ok && st.Addr == ssa.Value(al) {
				stored = append(stored, st.Val)
			}
		}
		if len(stored) == 1 {
			return origin(stored[0], owner, d+1)
		}
		return v
	}
	n := 0
	var bad ssa.Instruction
	who := ""
	for _, fn := range p.srcFuncs {
		if fn.Pkg == nil || fn.Pkg.Pkg.Path() != luaPath {
			continue
		}
		for _, cl := range callsTo(fn, relSet) {
			n++
			o := origin(cl.Call.Args[1], fn, 0)
			if oc, ok := o.(*ssa.Call); ok && oc.Call.StaticCallee() == absTop && bad == nil {
				bad, who = cl, fname(fn)
			}
		}
	}
	pos := "-"
	if bad != nil {
		pos = p.ipos(bad)
	}
	c.Sites += n
	c.check(n > 10 && bad == nil, R, "absolute-top-restored-absolutely", pos, fmt.Sprintf("%d calls of LState.SetTop, none with a height taken from reg.Top()", n), who+" restores a stack height captured with reg.Top() (an absolute registry index) through LState.SetTop (a frame-relative one): inside a host function the restore is off by the frame's base — the value stack is left too high, or the restore overflows inside the recovery and the protected call is left as a Go panic")
}
