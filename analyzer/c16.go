package main

// C16 — text <-> value round trips.

import (
	"fmt"
	"go/ast"
	"go/constant"
	"go/token"
	"go/types"
	"sort"
	"strings"

	"golang.org/x/tools/go/ssa"
)

func init() {
	register(&propInfo{
		ID:    "C16",
		Title: "Text<->value round-trips: literals, %q, tostring/tonumber, coercions, dates",
		Explanation: "Decided: R16-onereader — 'tonumber, coercion and the lexer agree' holds structurally iff there is one numeral reader: strconv.Parse*/fmt scan functions are called only from parseNumber, from the explicit-base arm of tonumber and from two allow-listed sites outside C16's statement (io.read('*n'), decimal escapes); parseNumber never calls ParseInt with base 0 (Go's base-0 language — 0b, 0o, leading-zero octal, '_' — is not Lua's); a reader error in the compiler raises a compile error instead of being replaced by a constant; tonumber without a base, LVAsNumber, CheckNumber, arithmetic and getIntField all go through parseNumber; " +
			"R16-q — in LString.Format the 'q' verb cannot reach package fmt (Go's %q writes \\x00, \\u… which the Lua reader does not understand); R16-print — LNumber.String renders every integral value with plain digits (extra range conditions only beyond 2^53); R16-strftime — every layout in cDateFlagToGo tokenises completely into Go reference-time tokens and separators and, for directives with a fixed C-locale meaning, equals that meaning (table from ISO C 7.27.3.5); R16-time — the field names os.date('*t') writes include every name os.time reads, os.time builds the time in the local zone and os.date converts to UTC only under '!'. " +
			"R16-errsense — every user of parseNumber uses the number only on paths where the error is nil. R08-comment shared — a decimal escape \\ddd is written only after an effective check against 255. NOT decided: escape decoding, long brackets, shortest-round-trip printing, integral printing below 2^53 — value properties of strconv/fmt.",
		Trusted: []string{"C-locale strftime meanings (ISO C) and Go reference-time tokens written out in the checker"},
		Rules:   []func(*Ctx){ruleLookaheadGuardIsTight, ruleDateFromWholeSeconds, ruleTimeAcceptsEveryField, ruleZeroFieldIsZero, ruleHexPrefixOnce, ruleIsIntegerBounded, ruleOneReader, ruleQ, rulePrintInt, ruleStrftime, ruleTime, ruleErrSense, ruleLongComment, ruleNumeralValidatedWhereSkipped, ruleToNumberBase, ruleDigitsOverflowGuard, ruleNumeralTextUnfiltered, ruleWeekNumberFloor, ruleSignBeforePrefix},
	})
}

func ruleOneReader(c *Ctx) {
	const R = "R16-onereader"
	c.floor(R, 9)
	p := c.P
	p.computeNoReturn()
	readers := map[string]bool{"strconv.ParseFloat": true, "strconv.ParseInt": true, "strconv.ParseUint": true, "strconv.Atoi": true,
		"fmt.Sscan": true, "fmt.Sscanf": true, "fmt.Sscanln": true, "fmt.Fscan": true, "fmt.Fscanf": true, "fmt.Fscanln": true}
	allow := map[string]string{
		"parseNumber":           "the numeral reader",
		"baseToNumber":          "explicit-base arm only (checked below)",
		"fileReadAux":           "io.read('*n') reads a number from a stream: outside C16's statement",
		"(*Scanner).scanEscape": "decimal byte escape \\ddd in string literals: not a numeral",
	}
	parseNumber := c.need(R, "lua", "parseNumber")
	if parseNumber == nil {
		return
	}
	// the reader strips C-locale blanks only: no rune-aware helper (TrimSpace also strips U+00A0, U+0085,
	// U+2000…, which the lexer rejects — the readers would no longer agree)
	{
		var bad []string
		var first ssa.Instruction
		withClosures(parseNumber, func(f *ssa.Function) {
			allInstrs(f, func(in ssa.Instruction) {
				if pk, n, ok := stdCall(in); ok && (runeAware[pk+"."+n] || pk == "unicode" || pk == "unicode/utf8") {
					bad = append(bad, pk+"."+n)
					if first == nil {
						first = in
					}
				}
			})
		})
		pos := p.pos(parseNumber.Pos())
		if first != nil {
			pos = p.ipos(first)
		}
		c.check(len(bad) == 0, R, "parseNumber:c-locale-blanks-only", pos, "the numeral reader uses no rune-aware helper", "parseNumber uses "+strings.Join(bad, ", ")+": a numeral padded with a Unicode space (U+00A0, U+0085, U+2000…) is accepted by tonumber and by arithmetic coercion although the lexer rejects the same text")
	}
	for _, fn := range p.srcFuncs {
		if fn.Pkg == nil || !(fn.Pkg.Pkg.Path() == luaPath || fn.Pkg.Pkg.Path() == luaPath+"/parse") {
			continue
		}
		var g *PCFG
		allInstrs(fn, func(in ssa.Instruction) {
			pk, n, ok := stdCall(in)
			if !ok || !readers[pk+"."+n] {
				return
			}
			if g == nil {
				g = p.G(fn)
			}
			c.touch(fn)
			c.Sites++
			call := in.(*ssa.Call)
			key := fmt.Sprintf("%s:%s.%s#%d", fname(fn), pk, n, countKey(c, R, fname(fn)+n))
			why, ok := allow[fname(fn)]
			if !ok {
				c.bad(R, key, p.ipos(in), "a second numeral reader: "+pk+"."+n+" is called outside parseNumber, so this conversion can disagree with the lexer and with arithmetic coercion on spellings such as '1e2', '0x10', '010'")
				return
			}
			switch fname(fn) {
			case "parseNumber":
				if n == "ParseInt" || n == "ParseUint" {
					if b, isc := constInt(call.Call.Args[1]); isc && b == 0 {
						c.bad(R, key, p.ipos(in), "parseNumber calls strconv."+n+" with base 0: Go's base-0 syntax accepts 0b11, 0o17, leading-zero octal (0010 = 8) and '_' separators, none of which are Lua numerals")
						return
					}
				}
				c.ok(R, key, p.ipos(in), why)
			case "baseToNumber":
				// must be on a path where the base argument was given
				explicit := false
				for _, cd := range g.CondsAtInstr(in) {
					k := vkey(cd.V)
					if strings.Contains(k, "g:LNil") && strings.Contains(k, "Get(") && !cd.Sense {
						explicit = true
					}
					if ph, ok := cd.V.(*ssa.Phi); ok {
						_ = ph
					}
					// `noBase` may be a plain bool value
					if b, ok := cd.V.(*ssa.BinOp); ok && neHolds(b, cd) && strings.Contains(vkey(b), "LNil") {
						explicit = true
					}
				}
				c.check(explicit, R, key, p.ipos(in), "used only when an explicit base was given", "tonumber without a base does not use the shared numeral reader: tonumber('1e2') is nil while '1e2'+0 is 100, tonumber('010') is 10 while '010'+0 is 8")
			default:
				c.okT(R, key, p.ipos(in), why)
			}
		})
	}
	// everyone else goes through parseNumber
	for _, name := range []string{"LVAsNumber", "(*LState).CheckNumber", "(*LState).ToInt", "(*LState).ToInt64", "objectArith", "getIntField", "baseToNumber", "compileExpr", "lnumberValue"} {
		fn := c.need(R, "lua", name)
		if fn == nil {
			continue
		}
		via := len(callsTo(fn, parseNumber)) > 0
		// …possibly through a shared conversion helper of the package (argNumber)
		allInstrs(fn, func(in ssa.Instruction) {
			if sc := staticCallee(in); sc != nil && sc.Pkg != nil && sc.Pkg.Pkg.Path() == luaPath && sc.Blocks != nil && len(callsTo(sc, parseNumber)) > 0 {
				via = true
			}
		})
		c.check(via, R, "via-parseNumber:"+name, p.pos(fn.Pos()), "converts numerals through parseNumber", name+" does not convert numerals through parseNumber")
	}
	// compiler: reader error must raise
	for _, name := range []string{"compileExpr", "lnumberValue"} {
		fn := p.Fn("lua", name)
		if fn == nil {
			continue
		}
		g := p.G(fn)
		for _, cl := range callsTo(fn, parseNumber) {
			okc := false
			found := false
			for _, r := range *cl.Referrers() {
				ex, ok := r.(*ssa.Extract)
				if !ok || ex.Index != 1 {
					continue
				}
				for _, r2 := range *ex.Referrers() {
					b, ok := r2.(*ssa.BinOp)
					if !ok || b.Op != token.NEQ {
						continue
					}
					for _, r3 := range *b.Referrers() {
						if iff, ok := r3.(*ssa.If); ok {
							found = true
							arm := iff.Block().Succs[0]
							okc = g.Cut[arm] >= 0
							// or the helper declines: returns (…, false) so that the caller compiles the literal itself
							if ret, isRet := arm.Instrs[len(arm.Instrs)-1].(*ssa.Return); isRet && len(ret.Results) == 2 {
								if b, isc := constBool(ret.Results[1]); isc && !b {
									okc = true
								}
							}
						}
					}
				}
			}
			c.check(found && okc, R, "compiler-error-raises:"+name, p.ipos(cl), "a malformed numeral raises a compile error (or the folding helper declines it)", "a numeral the reader rejects (e.g. 1ex) is silently replaced by a constant (NaN) instead of being a syntax error")
		}
	}
}

// rulePrintInt: 'integral values below 2^53 print without exponent or fraction' — LNumber.String takes
// the integer rendering for every integral value; additional range conditions are only acceptable when
// their bounds are at least 2^53 in magnitude.
func rulePrintInt(c *Ctx) {
	const R = "R16-print"
	c.floor(R, 1)
	p := c.P
	fn := c.need(R, "lua", "(LNumber).String")
	if fn == nil {
		return
	}
	g := p.G(fn)
	isInt := p.Fn("lua", "isInteger")
	okc, found := false, false
	why := ""
	allInstrs(fn, func(in ssa.Instruction) {
		call, ok := in.(*ssa.Call)
		if !ok {
			return
		}
		pk, n, okc2 := stdCall(in)
		if !okc2 || pk != "fmt" || !strings.HasPrefix(n, "Sprint") {
			return
		}
		// the integer rendering: an argument converted to int64
		intArg := false
		for _, a := range call.Call.Args {
			if strings.Contains(vkey(a), "p:nm") {
				if sl, ok := a.(*ssa.Slice); ok {
					_ = sl
				}
			}
		}
		allInstrs(fn, func(x ssa.Instruction) {
			if cv, ok := x.(*ssa.Convert); ok && x.Block() == in.Block() {
				if bt, ok := cv.Type().Underlying().(*types.Basic); ok && bt.Kind() == types.Int64 {
					intArg = true
				}
			}
		})
		if !intArg {
			return
		}
		found = true
		okc = false
		hasIsInt := false
		extraOK := true
		for _, cd := range g.CondsAtInstr(in) {
			if cl, ok := cd.V.(*ssa.Call); ok && cl.Call.StaticCallee() == isInt && cd.Sense {
				hasIsInt = true
				continue
			}
			if b, ok := cd.V.(*ssa.BinOp); ok {
				f1, ok1 := constFloat(b.X)
				f2, ok2 := constFloat(b.Y)
				bound := f1
				if ok2 {
					bound = f2
				}
				if (ok1 || ok2) && (bound >= 9007199254740992 || bound <= -9007199254740992) {
					continue
				}
				extraOK = false
				why = shortKey(vkey(b))
			} else {
				extraOK = false
			}
		}
		okc = hasIsInt && extraOK
	})
	c.check(found && okc, R, "LNumber.String:integral→digits", p.pos(fn.Pos()), "every integral value takes the plain-digits rendering", "LNumber.String renders an integral value through the float path unless an extra condition holds ("+why+"): integral values below 2^53 print with an exponent (tostring(2^52) = 4.503599627370496e+15)")
}

func ruleQ(c *Ctx) {
	const R = "R16-q"
	c.floor(R, 1)
	p := c.P
	fn := c.need(R, "lua", "(LString).Format")
	if fn == nil {
		return
	}
	df := p.Fn("lua", "defaultFormat")
	g := p.G(fn)
	var verbParam *ssa.Parameter
	for _, pm := range fn.Params {
		if pm.Name() == "c" {
			verbParam = pm
		}
	}
	if verbParam == nil && len(fn.Params) == 3 {
		verbParam = fn.Params[2]
	}
	n := 0
	for _, cl := range callsTo(fn, df) {
		n++
		verb := cl.Call.Args[2]
		key := fmt.Sprintf("LString.Format:defaultFormat#%d", n)
		if k, ok := constInt(verb); ok {
			c.check(k != 'q', R, key, p.ipos(cl), fmt.Sprintf("constant verb %q", rune(k)), "the q verb is forwarded to package fmt")
			continue
		}
		if verb != ssa.Value(verbParam) {
			c.und(R, key, p.ipos(cl), "verb operand is neither a constant nor the verb parameter")
			continue
		}
		excluded := false
		for _, cd := range g.CondsAtInstr(cl) {
			if b, ok := cd.V.(*ssa.BinOp); ok && neHolds(b, cd) && b.X == ssa.Value(verbParam) {
				if k, ok := constInt(b.Y); ok && k == 'q' {
					excluded = true
				}
			}
		}
		c.check(excluded, R, key, p.ipos(cl), "reached only when the verb is not 'q'", "the 'q' verb of a string falls through to Go's fmt: %q renders control and non-ASCII bytes as \\x00, \\xc8, \\u… which the Lua reader does not understand, so loadstring('return '..string.format('%q', s))() ~= s")
	}
	if n == 0 {
		c.und(R, "LString.Format:calls", p.pos(fn.Pos()), "no defaultFormat call found")
	}
	ruleQuoteWidth(c)
}

// constAppendSeqs: for every append(x, c0, c1, …) with constant variadic bytes in fn, the byte sequence.
func constAppendSeqs(fn *ssa.Function) map[ssa.Instruction][]int64 {
	out := map[ssa.Instruction][]int64{}
	allInstrs(fn, func(in ssa.Instruction) {
		call, ok := in.(*ssa.Call)
		if !ok {
			return
		}
		bi, ok := call.Call.Value.(*ssa.Builtin)
		if !ok || bi.Name() != "append" || len(call.Call.Args) != 2 {
			return
		}
		sl, ok := call.Call.Args[1].(*ssa.Slice)
		if !ok {
			return
		}
		al, ok := sl.X.(*ssa.Alloc)
		if !ok {
			return
		}
		vals := map[int64]int64{}
		complete := true
		for _, r := range *al.Referrers() {
			ia, ok := r.(*ssa.IndexAddr)
			if !ok {
				continue
			}
			idx, ok := constInt(ia.Index)
			if !ok {
				complete = false
				continue
			}
			for _, r2 := range *ia.Referrers() {
				if st, ok := r2.(*ssa.Store); ok {
					if k, ok := constInt(st.Val); ok {
						vals[idx] = k
					} else {
						vals[idx] = -1
					}
				}
			}
		}
		if !complete {
			return
		}
		seq := make([]int64, len(vals))
		for i := range seq {
			seq[i] = vals[int64(i)]
		}
		out[in] = seq
	})
	return out
}

// ruleQuoteWidth: writer/reader agreement on decimal escapes — the reader (scanEscape) consumes up to
// 1+K digits after a backslash, so the quoter must always emit exactly that many.
func ruleQuoteWidth(c *Ctx) {
	const R = "R16-q"
	p := c.P
	q := p.Fn("lua", "quoteLuaString")
	se := p.Fn("parse", "(*Scanner).scanEscape")
	if q == nil || se == nil {
		return // the quoter only exists once %q no longer goes through fmt
	}
	// reader: loop `for i := 0; i < K && isDecimal(peek)`
	readerMax := int64(-1)
	allInstrs(se, func(in ssa.Instruction) {
		if b, ok := in.(*ssa.BinOp); ok && b.Op == token.LSS {
			if ph, ok := b.X.(*ssa.Phi); ok && isInduction(ph) {
				if k, ok := constInt(b.Y); ok {
					// the iteration count: bound minus the constant the counter starts from (`i := 0; i < 2`
					// and `i := 1; i < 3` both take two more digits)
					start := int64(0)
					for _, e := range ph.Edges {
						if s0, isK := constInt(e); isK {
							start = s0
						}
					}
					readerMax = 1 + k - start
				}
			}
		}
	})
	if readerMax < 0 {
		c.und(R, "scanEscape:decimal-width", p.pos(se.Pos()), "cannot derive how many digits the reader takes for a decimal escape")
		return
	}
	n := 0
	for in, seq := range constAppendSeqs(q) {
		if len(seq) < 2 || seq[0] != '\\' || seq[1] < '0' || seq[1] > '9' {
			continue
		}
		n++
		digits := int64(0)
		for _, b := range seq[1:] {
			if b >= '0' && b <= '9' {
				digits++
			}
		}
		c.check(digits == readerMax && int64(len(seq)) == 1+readerMax, R, fmt.Sprintf("quoteLuaString:decimal-escape-width#%d", n), p.ipos(in),
			fmt.Sprintf("decimal escapes are written with %d digits, as many as the reader consumes", readerMax),
			fmt.Sprintf("the quoter writes a decimal escape with %d digit(s) but the reader takes up to %d: when the next character of the string is a digit it is absorbed into the escape (%%q of \"\\0\" .. \"1\" reads back as one byte)", digits, readerMax))
	}
}

// Go reference-time tokens, longest first.
var goLayoutTokens = []string{"January", "Monday", "2006", "-07:00:00", "Z07:00:00", "-07:00", "Z07:00", "-0700", "Z0700", "MST", "Jan", "Mon", "002", "-07", "Z07",
	"01", "02", "03", "04", "05", "06", "15", "_2", "PM", "pm", "1", "2", "3", "4", "5"}

func tokeniseLayout(l string) (tokens []string, leftover string) {
	for len(l) > 0 {
		matched := false
		for _, t := range goLayoutTokens {
			if strings.HasPrefix(l, t) {
				tokens = append(tokens, t)
				l = l[len(t):]
				matched = true
				break
			}
		}
		if matched {
			continue
		}
		ch := l[0]
		isAlnum := ch >= '0' && ch <= '9' || ch >= 'a' && ch <= 'z' || ch >= 'A' && ch <= 'Z'
		if isAlnum {
			leftover += string(ch)
		} else {
			tokens = append(tokens, string(ch))
		}
		l = l[1:]
	}
	return
}

func ruleStrftime(c *Ctx) {
	const R = "R16-strftime"
	c.floor(R, 18)
	p := c.P
	pk := p.Pkg("lua")
	obj := p.Obj("lua", "cDateFlagToGo")
	if obj == nil {
		c.und(R, "anchor:cDateFlagToGo", "-", "not found")
		return
	}
	// ISO C strftime in the "C" locale
	want := map[byte]string{'a': "Mon", 'A': "Monday", 'b': "Jan", 'B': "January", 'd': "02", 'H': "15", 'I': "03", 'm': "01", 'M': "04",
		'p': "PM", 'S': "05", 'y': "06", 'Y': "2006", 'x': "01/02/06", 'X': "15:04:05", 'F': "2006-01-02", 'z': "-0700", 'Z': "MST"}
	table := map[byte]string{}
	var pos token.Pos
	for _, f := range pk.Syntax {
		ast.Inspect(f, func(n ast.Node) bool {
			vs, ok := n.(*ast.ValueSpec)
			if !ok {
				return true
			}
			for i, id := range vs.Names {
				if pk.TypesInfo.Defs[id] != obj || i >= len(vs.Values) {
					continue
				}
				cl, ok := vs.Values[i].(*ast.CompositeLit)
				if !ok {
					continue
				}
				pos = cl.Pos()
				for _, e := range cl.Elts {
					kv, ok := e.(*ast.KeyValueExpr)
					if !ok {
						continue
					}
					ktv, vtv := pk.TypesInfo.Types[kv.Key], pk.TypesInfo.Types[kv.Value]
					if ktv.Value == nil || vtv.Value == nil {
						continue
					}
					k, _ := constant.Int64Val(constant.ToInt(ktv.Value))
					table[byte(k)] = constant.StringVal(vtv.Value)
				}
			}
			return true
		})
	}
	if len(table) == 0 {
		c.und(R, "table", "-", "cannot read cDateFlagToGo")
		return
	}
	keys := []int{}
	for k := range table {
		keys = append(keys, int(k))
	}
	sort.Ints(keys)
	for _, ki := range keys {
		k := byte(ki)
		lay := table[k]
		key := fmt.Sprintf("%%%c", k)
		_, left := tokeniseLayout(lay)
		if left != "" {
			c.bad(R, key+":tokens", p.pos(pos), fmt.Sprintf("layout %q for %%%c contains %q, which is not a Go reference-time token: time.Format prints it literally instead of the field", lay, k, left))
			continue
		}
		c.ok(R, key+":tokens", p.pos(pos), fmt.Sprintf("layout %q consists of reference-time tokens and separators", lay))
		if w, ok := want[k]; ok {
			c.check(lay == w, R, key+":meaning", p.pos(pos), "equals the C-locale meaning "+w, fmt.Sprintf("%%%c is rendered with layout %q but its C-locale meaning is %q (a different field is printed)", k, lay, w))
		}
	}
	// strftime consults the table for every directive and falls back to the literal for unknown ones
	if fn := c.need(R, "lua", "strftime"); fn != nil {
		okc := false
		allInstrs(fn, func(in ssa.Instruction) {
			if lk, ok := in.(*ssa.Lookup); ok {
				if u, ok := lk.X.(*ssa.UnOp); ok {
					if gl, ok := u.X.(*ssa.Global); ok && gl.Name() == "cDateFlagToGo" {
						okc = true
					}
				}
			}
		})
		c.check(okc, R, "strftime:uses-table", p.pos(fn.Pos()), "directives are looked up in cDateFlagToGo", "strftime no longer consults cDateFlagToGo")
	}
}

func ruleTime(c *Ctx) {
	const R = "R16-time"
	c.floor(R, 4)
	p := c.P
	od, ot := c.need(R, "lua", "osDate"), c.need(R, "lua", "osTime")
	if od == nil || ot == nil {
		return
	}
	rss := p.Fn("lua", "(*LTable).RawSetString")
	gif := p.Fn("lua", "getIntField")
	written := map[string]string{} // name -> time.Time method
	for _, cl := range callsTo(od, rss) {
		if s, ok := constStr(cl.Call.Args[1]); ok {
			k := vkey(cl.Call.Args[2])
			m := ""
			for _, meth := range []string{"Year", "Month", "Day", "Hour", "Minute", "Second", "Weekday", "YearDay"} {
				if strings.Contains(k, "Time."+meth+"(") || strings.Contains(k, "."+meth+"(") {
					m = meth
				}
			}
			written[s] = m
		}
	}
	read := map[string]int{} // name -> argument position in time.Date
	var dateCall *ssa.Call
	allInstrs(ot, func(in ssa.Instruction) {
		if pk, n, ok := stdCall(in); ok && pk == "time" && n == "Date" {
			dateCall = in.(*ssa.Call)
		}
	})
	for _, cl := range callsTo(ot, gif) {
		if s, ok := constStr(cl.Call.Args[2]); ok {
			read[s] = -1
			if dateCall != nil {
				for i, a := range dateCall.Call.Args {
					if stripConv(a) == ssa.Value(cl) {
						read[s] = i
					}
				}
			}
		}
	}
	var missing []string
	for n := range read {
		if _, ok := written[n]; !ok {
			missing = append(missing, n)
		}
	}
	sort.Strings(missing)
	c.check(len(read) >= 6 && len(missing) == 0, R, "fields:writer⊇reader", p.pos(ot.Pos()), fmt.Sprintf("os.date('*t') writes every field os.time reads (%v)", sortedKeys(read)), fmt.Sprintf("os.time reads fields that os.date('*t') does not write: %v", missing))
	// field ↔ component agreement
	wantMeth := map[string]string{"year": "Year", "month": "Month", "day": "Day", "hour": "Hour", "min": "Minute", "sec": "Second"}
	wantPos := map[string]int{"year": 0, "month": 1, "day": 2, "hour": 3, "min": 4, "sec": 5}
	okW, okR := true, true
	var why []string
	// the two derived fields exist on the writer's side only (os.time ignores them)
	for n, m := range map[string]string{"wday": "Weekday", "yday": "YearDay"} {
		if written[n] != m {
			okW = false
			why = append(why, fmt.Sprintf("'%s' is written from %q instead of %s() (F93: yday was the constant 0)", n, written[n], m))
		}
	}
	for n, m := range wantMeth {
		if written[n] != m {
			okW = false
			why = append(why, fmt.Sprintf("'%s' is written from %s()", n, written[n]))
		}
		if pos, has := read[n]; !has || pos != wantPos[n] {
			okR = false
			why = append(why, fmt.Sprintf("'%s' is passed to time.Date at position %d", n, pos))
		}
	}
	sort.Strings(why)
	c.check(okW, R, "osDate:field-components", p.pos(od.Pos()), "each broken-down field is written from the matching time.Time component", "os.date('*t') fills a field from the wrong component: "+strings.Join(why, "; "))
	c.check(okR, R, "osTime:field-components", p.pos(ot.Pos()), "each field is passed to time.Date in the matching position", "os.time passes a field in the wrong time.Date position: "+strings.Join(why, "; "))
	// zone: os.time uses time.Local; os.date converts to UTC only under the '!' flag
	if dateCall != nil {
		loc := dateCall.Call.Args[len(dateCall.Call.Args)-1]
		c.check(strings.Contains(vkey(loc), "g:Local"), R, "osTime:local-zone", p.ipos(dateCall), "os.time interprets the fields in the local zone", "os.time does not interpret the broken-down fields in the local zone (round trip with os.date('*t') shifts by the zone offset)")
	} else {
		c.und(R, "osTime:time.Date", p.pos(ot.Pos()), "no time.Date call found")
	}
	g := p.G(od)
	nUTC := 0
	okU := true
	allInstrs(od, func(in ssa.Instruction) {
		if pk, n, ok := stdCall(in); ok && pk == "time" && n == "Time.UTC" {
			nUTC++
			conds := g.CondsAtInstr(in)
			if len(conds) == 0 {
				okU = false
			}
		}
	})
	c.check(okU && nUTC <= 1, R, "osDate:utc-only-with-bang", p.pos(od.Pos()), "conversion to UTC is conditional (the '!' prefix)", "os.date converts to UTC unconditionally")
}
