package main

// controls.go — positive controls: tiny fixtures with one seeded violation each that a rule's matcher
// must report on every run (DESIGN §1.3 "Floors").  Registered per property.

var controls = map[string][]func(*Ctx){}

func runControls(c *Ctx) {
	for _, f := range controls[c.Prop] {
		f(c)
	}
}
