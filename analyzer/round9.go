package main

// round9.go — R08-index: run-time indexed accesses on the load path.

import (
	"fmt"
	"go/token"
	"go/types"
	"os"
	"sort"
	"strings"

	"golang.org/x/tools/go/ssa"
)

// indexSiteClass explains why an indexed access cannot be out of range, or returns "".
func indexSiteClass(p *Prog, g *PCFG, in ssa.Instruction, base, idx ssa.Value, isSliceOp bool) string {
	idx0 := stripConv(idx)
	// constant index into an array (or pointer to array) of sufficient length
	if k, ok := constInt(idx0); ok {
		t := base.Type().Underlying()
		if pt, ok := t.(*types.Pointer); ok {
			t = pt.Elem().Underlying()
		}
		if at, ok := t.(*types.Array); ok && k >= 0 && (k < at.Len() || (isSliceOp && k <= at.Len())) {
			return "const-in-array"
		}
		if k == 0 && isSliceOp {
			return "slice-from-0"
		}
	}
	// masked / remainder index
	if b, ok := idx0.(*ssa.BinOp); ok && (b.Op == token.AND || b.Op == token.REM || b.Op == token.SHR) {
		return "masked"
	}
	isLenOf := func(v ssa.Value, s ssa.Value) bool {
		cl, ok := stripConv(v).(*ssa.Call)
		if !ok {
			return false
		}
		bi, ok := cl.Call.Value.(*ssa.Builtin)
		if !ok || (bi.Name() != "len" && bi.Name() != "cap") {
			return false
		}
		return vkey(cl.Call.Args[0]) == vkey(s)
	}
	// len(S)-k form
	l := lin(idx0)
	for tk, co := range l.T {
		if co == 1 && len(l.T) == 1 && strings.HasPrefix(tk, "len(") && strings.Contains(tk, vkey(base)) {
			if l.K < 0 || (isSliceOp && l.K <= 0) {
				return "len-derived"
			}
		}
	}
	// range index over the same slice, or a counted loop bounded by its length, or a guard on the path
	for _, cd := range g.expandAnd(g.CondsAtInstr(in)) {
		b, ok := cd.V.(*ssa.BinOp)
		if !ok {
			continue
		}
		op := b.Op
		if !cd.Sense {
			op = negate(op)
		}
		x, y := stripConv(b.X), stripConv(b.Y)
		if vkey(y) == vkey(idx0) {
			x, y, op = y, x, flipOp(op)
		}
		if vkey(x) != vkey(idx0) {
			// idx = x + k with the guard on x? compare linear forms
			lx, li := lin(x), lin(idx0)
			if sameTerms(lx, li) != 1 {
				continue
			}
			// x <op> y and idx = x + d
			d := li.K - lx.K
			if (op == token.LSS && d <= 0 || op == token.LEQ && d < 0) && isLenOf(y, base) {
				return "guarded-by-len"
			}
			continue
		}
		if (op == token.LSS || (isSliceOp && op == token.LEQ)) && isLenOf(y, base) {
			return "guarded-by-len"
		}
		if op == token.LSS || op == token.LEQ {
			if k, ok := constInt(y); ok {
				t := base.Type().Underlying()
				if pt, ok := t.(*types.Pointer); ok {
					t = pt.Elem().Underlying()
				}
				if at, ok := t.(*types.Array); ok && (k < at.Len() || (op == token.LSS && k <= at.Len())) {
					return "guarded-by-const"
				}
			}
		}
	}
	// rangeindex phi over this very slice
	if b, ok := idx0.(*ssa.BinOp); ok && b.Op == token.ADD {
		if ph, ok := b.X.(*ssa.Phi); ok && ph.Comment == "rangeindex" {
			for _, r := range *b.Referrers() {
				if cmp, ok := r.(*ssa.BinOp); ok && cmp.Op == token.LSS && isLenOf(cmp.Y, base) {
					return "range-index"
				}
			}
		}
	}
	return ""
}

// ruleLoadPathIndexing: census (used while designing; prints with VERIF_DEBUG_INDEX=1).
func loadPathIndexCensus(c *Ctx) map[string]string {
	p := c.P
	out := map[string]string{}
	roots := []*ssa.Function{p.Fn("lua", "Compile"), p.Fn("parse", "Parse")}
	seen := reachableFrom(p.CallGraph(), roots)
	var fns []*ssa.Function
	for fn := range seen {
		if fn == nil || fn.Pkg == nil || fn.Blocks == nil {
			continue
		}
		pn := fn.Pkg.Pkg.Name()
		if pn != "lua" && pn != "parse" && pn != "ast" {
			continue
		}
		if pn == "lua" && !strings.HasPrefix(p.pos(fn.Pos()), "compile.go:") {
			continue
		}
		fns = append(fns, fn)
	}
	sort.Slice(fns, func(i, j int) bool { return fname(fns[i]) < fname(fns[j]) })
	for _, fn := range fns {
		g := p.G(fn)
		n := 0
		allInstrs(fn, func(in ssa.Instruction) {
			if !g.Live(in) {
				return
			}
			var base, idx ssa.Value
			sl := false
			switch x := in.(type) {
			case *ssa.IndexAddr:
				base, idx = x.X, x.Index
			case *ssa.Index:
				base, idx = x.X, x.Index
			case *ssa.Slice:
				sl = true
				base = x.X
				if x.High != nil {
					idx = x.High
				} else if x.Low != nil {
					idx = x.Low
				} else {
					return
				}
			default:
				return
			}
			if _, isMap := base.Type().Underlying().(*types.Map); isMap {
				return
			}
			n++
			cls := indexSiteClass(p, g, in, base, idx, sl)
			key := fmt.Sprintf("%s#%d", fname(fn), n)
			out[key] = cls
			if os.Getenv("VERIF_DEBUG_INDEX") != "" {
				fmt.Fprintf(os.Stderr, "index-site %-60s %-16s %s  base=%s idx=%s\n", key, cls, p.ipos(in), shortKey(vkey(base)), shortKey(vkey(idx)))
			}
		})
	}
	return out
}

// ruleCallResultIndexing: R08-index. C08 "loading arbitrary bytes never crashes": Compile's recover
// re-panics everything that is not a *CompileError, so an index out of range in the compiler leaves
// Load as a Go panic. Deciding every indexed access is out of reach (most rest on invariants kept
// elsewhere: codeStore.pc <= len(codes), the parser's value stack). Decided here is the local case: a
// slice that a function obtains as the RESULT OF A CALL — nothing in the function ties another quantity
// to its length — is indexed only by a constant into an array, by an expression derived from its own
// length, under a guard against its own length, or by a range over it. Exceptions are listed with a
// reason.
var callResultIndexAllowed = map[string]string{
	// compileAssignStmtRight returns acs unchanged in length; compileAssignStmtLeft built it with one entry per stmt.Lhs, which is what the loop ranges over
	"compileAssignStmt|call compileAssignStmtRight(": "one assignContext per left-hand side: the index ranges over stmt.Lhs",
}

func ruleCallResultIndexing(c *Ctx) {
	const R = "R08-index"
	c.floor(R, 3)
	p := c.P
	roots := []*ssa.Function{p.Fn("lua", "Compile"), p.Fn("parse", "Parse")}
	if roots[0] == nil || roots[1] == nil {
		c.und(R, "anchors", "-", "lua.Compile / parse.Parse not found")
		return
	}
	seen := reachableFrom(p.CallGraph(), roots)
	var fns []*ssa.Function
	for fn := range seen {
		if fn == nil || fn.Pkg == nil || fn.Blocks == nil {
			continue
		}
		pn := fn.Pkg.Pkg.Name()
		if pn != "lua" && pn != "parse" && pn != "ast" {
			continue
		}
		if pn == "lua" && !strings.HasPrefix(p.pos(fn.Pos()), "compile.go:") {
			continue
		}
		fns = append(fns, fn)
	}
	sort.Slice(fns, func(i, j int) bool { return fname(fns[i]) < fname(fns[j]) })
	for _, fn := range fns {
		g := p.G(fn)
		n := 0
		allInstrs(fn, func(in ssa.Instruction) {
			if !g.Live(in) {
				return
			}
			var base, idx ssa.Value
			sl := false
			switch x := in.(type) {
			case *ssa.IndexAddr:
				base, idx = x.X, x.Index
			case *ssa.Index:
				base, idx = x.X, x.Index
			case *ssa.Slice:
				sl = true
				base = x.X
				if x.High != nil {
					idx = x.High
				} else if x.Low != nil {
					idx = x.Low
				} else {
					return
				}
			default:
				return
			}
			cl, ok := base.(*ssa.Call)
			if ex, isEx := base.(*ssa.Extract); isEx {
				cl, ok = ex.Tuple.(*ssa.Call)
			}
			if !ok {
				return
			}
			if _, isB := cl.Call.Value.(*ssa.Builtin); isB {
				return
			}
			if _, isMap := base.Type().Underlying().(*types.Map); isMap {
				return
			}
			n++
			c.Sites++
			c.touch(fn)
			callee := "?"
			if sc := cl.Call.StaticCallee(); sc != nil {
				callee = sc.Name()
			}
			key := fmt.Sprintf("%s:result-of-%s#%d:indexed-within-its-own-length", fn.Name(), callee, n)
			cls := indexSiteClass(p, g, in, base, idx, sl)
			if cls == "" {
				for k, why := range callResultIndexAllowed {
					parts := strings.SplitN(k, "|", 2)
					if fn.Name() == parts[0] && strings.HasPrefix(vkey(base), parts[1]) {
						cls = "listed: " + why
					}
				}
			}
			c.check(cls != "", R, key, p.ipos(in), cls,
				fmt.Sprintf("%s indexes the slice returned by %s with %s, which nothing in the function ties to that slice's length (not derived from len of it, not compared with it, not a range over it): an index out of range in the compiler is re-panicked by Compile's recover and leaves Load/DoString as a Go panic", fname(fn), callee, shortKey(vkey(idx))))
		})
	}
}

func ruleIndexCensusDebug(c *Ctx) {
	if os.Getenv("VERIF_DEBUG_INDEX") == "" {
		return
	}
	m := loadPathIndexCensus(c)
	by := map[string]int{}
	for _, v := range m {
		by[v]++
	}
	fmt.Fprintln(os.Stderr, "index-census:", by)
}

// ruleLoopMarkerPrivate: C20 "a module requiring itself directly or indirectly is reported as a loop
// error … each module's loader runs at most once": the marker require leaves in package.loaded[name]
// while a module is loading is require's private protocol. No other function of the library reads
// Global.loopDetection — whoever compares a package.loaded entry with it can act on it (clear a
// "stale" marker) while the module is in fact mid-load.
func ruleLoopMarkerPrivate(c *Ctx) {
	const R = "R20-sentinel"
	p := c.P
	sentF := p.Field("lua", "Global", "loopDetection")
	req := c.need(R, "lua", "loRequire")
	if sentF == nil || req == nil {
		c.und(R, "marker:anchors", "-", "Global.loopDetection / loRequire not found")
		return
	}
	var foreign []string
	var where ssa.Instruction
	readers := 0
	for _, fn := range p.srcFuncs {
		if fn.Blocks == nil {
			continue
		}
		allInstrs(fn, func(in ssa.Instruction) {
			u, ok := in.(*ssa.UnOp)
			if !ok || u.Op != token.MUL {
				return
			}
			fa, ok := u.X.(*ssa.FieldAddr)
			if !ok || fieldOf(fa) != sentF {
				return
			}
			readers++
			if fn != req {
				foreign = append(foreign, fname(fn))
				if where == nil {
					where = in
				}
			}
		})
	}
	pos := p.pos(req.Pos())
	if where != nil {
		pos = p.ipos(where)
	}
	sort.Strings(foreign)
	c.Sites++
	c.check(len(foreign) == 0 && readers > 0, R, "marker:read-only-by-require", pos, fmt.Sprintf("%d read(s) of Global.loopDetection, all in loRequire", readers),
		fmt.Sprintf("require's loading marker (Global.loopDetection) is read outside loRequire, in %v: a function that recognises the marker in package.loaded can remove or replace it while the module is loading — the loop is no longer reported, the loader runs again and require returns a different value", foreign))
}

// rulePresentMeansNotNil: C04 "assignment consults __newindex only for absent keys (and indexing
// consults __index only for absent keys)": absent means nil — a key that holds false is present. In
// setField/setFieldString (and the get twins) the raw lookup that decides "present" is used only in
// comparisons with LNil (or handed on as the result), never through a truthiness helper.
func rulePresentMeansNotNil(c *Ctx) {
	const R = "R04-siblings"
	p := c.P
	isNil := func(v ssa.Value) bool {
		u, ok := v.(*ssa.UnOp)
		if !ok {
			return false
		}
		gl, ok := u.X.(*ssa.Global)
		return ok && gl.Name() == "LNil"
	}
	for _, name := range []string{"(*LState).setField", "(*LState).setFieldString", "(*LState).getField", "(*LState).getFieldString"} {
		fn := c.need(R, "lua", name)
		if fn == nil {
			continue
		}
		n := 0
		var bad ssa.Instruction
		allInstrs(fn, func(in ssa.Instruction) {
			cl, ok := in.(*ssa.Call)
			if !ok {
				return
			}
			sc := cl.Call.StaticCallee()
			if sc == nil || recvNamed(sc) != "LTable" || (sc.Name() != "RawGet" && sc.Name() != "RawGetString" && sc.Name() != "RawGetH" && sc.Name() != "RawGetInt") {
				return
			}
			n++
			for _, r := range *cl.Referrers() {
				switch x := r.(type) {
				case *ssa.BinOp:
					if (x.Op == token.EQL || x.Op == token.NEQ) && (isNil(x.X) || isNil(x.Y)) {
						continue
					}
				case *ssa.Return, *ssa.Phi:
					continue
				case *ssa.DebugRef:
					continue
				}
				if bad == nil {
					bad = r
				}
			}
		})
		pos := p.pos(fn.Pos())
		if bad != nil {
			pos = p.ipos(bad)
		}
		c.Sites++
		c.check(n > 0 && bad == nil, R, strings.TrimPrefix(name, "(*LState).")+":present-means-not-nil", pos, fmt.Sprintf("%d raw lookup(s), compared with LNil only", n),
			fname(fn)+" decides whether the key is present by something other than a comparison of the raw value with LNil: a key that holds false counts as absent — t[k] = v calls __newindex (or t[k] consults __index) for a key that is there")
	}
}
