package main

// round9.go — R08-index: run-time indexed accesses on the load path.

import (
	"fmt"
	"go/token"
	"go/types"
	"os"
	"sort"
	"strings"

	"golang.org/x/tools/go/ssa"
)

// indexSiteClass explains why an indexed access cannot be out of range, or returns "".
func indexSiteClass(p *Prog, g *PCFG, in ssa.Instruction, base, idx ssa.Value, isSliceOp bool) string {
	idx0 := stripConv(idx)
	// constant index into an array (or pointer to array) of sufficient length
	if k, ok := constInt(idx0); ok {
		t := base.Type().Underlying()
		if pt, ok := t.(*types.Pointer); ok {
			t = pt.Elem().Underlying()
		}
		if at, ok := t.(*types.Array); ok && k >= 0 && (k < at.Len() || (isSliceOp && k <= at.Len())) {
			return "const-in-array"
		}
		if k == 0 && isSliceOp {
			return "slice-from-0"
		}
	}
	// masked / remainder index
	if b, ok := idx0.(*ssa.BinOp); ok && (b.Op == token.AND || b.Op == token.REM || b.Op == token.SHR) {
		return "masked"
	}
	isLenOf := func(v ssa.Value, s ssa.Value) bool {
		cl, ok := stripConv(v).(*ssa.Call)
		if !ok {
			return false
		}
		bi, ok := cl.Call.Value.(*ssa.Builtin)
		if !ok || (bi.Name() != "len" && bi.Name() != "cap") {
			return false
		}
		return vkey(cl.Call.Args[0]) == vkey(s)
	}
	// len(S)-k form
	l := lin(idx0)
	for tk, co := range l.T {
		if co == 1 && len(l.T) == 1 && strings.HasPrefix(tk, "len(") && strings.Contains(tk, vkey(base)) {
			if l.K < 0 || (isSliceOp && l.K <= 0) {
				return "len-derived"
			}
		}
	}
	// range index over the same slice, or a counted loop bounded by its length, or a guard on the path
	for _, cd := range g.expandAnd(g.CondsAtInstr(in)) {
		b, ok := cd.V.(*ssa.BinOp)
		if !ok {
			continue
		}
		op := b.Op
		if !cd.Sense {
			op = negate(op)
		}
		x, y := stripConv(b.X), stripConv(b.Y)
		if vkey(y) == vkey(idx0) {
			x, y, op = y, x, flipOp(op)
		}
		if vkey(x) != vkey(idx0) {
			// idx = x + k with the guard on x? compare linear forms
			lx, li := lin(x), lin(idx0)
			if sameTerms(lx, li) != 1 {
				continue
			}
			// x <op> y and idx = x + d
			d := li.K - lx.K
			if (op == token.LSS && d <= 0 || op == token.LEQ && d < 0) && isLenOf(y, base) {
				return "guarded-by-len"
			}
			continue
		}
		if (op == token.LSS || (isSliceOp && op == token.LEQ)) && isLenOf(y, base) {
			return "guarded-by-len"
		}
		if op == token.LSS || op == token.LEQ {
			if k, ok := constInt(y); ok {
				t := base.Type().Underlying()
				if pt, ok := t.(*types.Pointer); ok {
					t = pt.Elem().Underlying()
				}
				if at, ok := t.(*types.Array); ok && (k < at.Len() || (op == token.LSS && k <= at.Len())) {
					return "guarded-by-const"
				}
			}
		}
	}
	// rangeindex phi over this very slice
	if b, ok := idx0.(*ssa.BinOp); ok && b.Op == token.ADD {
		if ph, ok := b.X.(*ssa.Phi); ok && ph.Comment == "rangeindex" {
			for _, r := range *b.Referrers() {
				if cmp, ok := r.(*ssa.BinOp); ok && cmp.Op == token.LSS && isLenOf(cmp.Y, base) {
					return "range-index"
				}
			}
		}
	}
	return ""
}

// ruleLoadPathIndexing: census (used while designing; prints with VERIF_DEBUG_INDEX=1).
func loadPathIndexCensus(c *Ctx) map[string]string {
	p := c.P
	out := map[string]string{}
	roots := []*ssa.Function{p.Fn("lua", "Compile"), p.Fn("parse", "Parse")}
	seen := reachableFrom(p.CallGraph(), roots)
	var fns []*ssa.Function
	for fn := range seen {
		if fn == nil || fn.Pkg == nil || fn.Blocks == nil {
			continue
		}
		pn := fn.Pkg.Pkg.Name()
		if pn != "lua" && pn != "parse" && pn != "ast" {
			continue
		}
		if pn == "lua" && !strings.HasPrefix(p.pos(fn.Pos()), "compile.go:") {
			continue
		}
		fns = append(fns, fn)
	}
	sort.Slice(fns, func(i, j int) bool { return fname(fns[i]) < fname(fns[j]) })
	for _, fn := range fns {
		g := p.G(fn)
		n := 0
		allInstrs(fn, func(in ssa.Instruction) {
			if !g.Live(in) {
				return
			}
			var base, idx ssa.Value
			sl := false
			switch x := in.(type) {
			case *ssa.IndexAddr:
				base, idx = x.X, x.Index
			case *ssa.Index:
				base, idx = x.X, x.Index
			case *ssa.Slice:
				sl = true
				base = x.X
				if x.High != nil {
					idx = x.High
				} else if x.Low != nil {
					idx = x.Low
				} else {
					return
				}
			default:
				return
			}
			if _, isMap := base.Type().Underlying().(*types.Map); isMap {
				return
			}
			n++
			cls := indexSiteClass(p, g, in, base, idx, sl)
			key := fmt.Sprintf("%s#%d", fname(fn), n)
			out[key] = cls
			if os.Getenv("VERIF_DEBUG_INDEX") != "" {
				fmt.Fprintf(os.Stderr, "index-site %-60s %-16s %s  base=%s idx=%s\n", key, cls, p.ipos(in), shortKey(vkey(base)), shortKey(vkey(idx)))
			}
		})
	}
	return out
}

// ruleCallResultIndexing: R08-index. C08 "loading arbitrary bytes never crashes": Compile's recover
// re-panics everything that is not a *CompileError, so an index out of range in the compiler leaves
// Load as a Go panic. Deciding every indexed access is out of reach (most rest on invariants kept
// elsewhere: codeStore.pc <= len(codes), the parser's value stack). Decided here is the local case: a
// slice that a function obtains as the RESULT OF A CALL — nothing in the function ties another quantity
// to its length — is indexed only by a constant into an array, by an expression derived from its own
// length, under a guard against its own length, or by a range over it. Exceptions are listed with a
// reason.
var callResultIndexAllowed = map[string]string{
	// compileAssignStmtRight returns acs unchanged in length; compileAssignStmtLeft built it with one entry per stmt.Lhs, which is what the loop ranges over
	"compileAssignStmt|call compileAssignStmtRight(": "one assignContext per left-hand side: the index ranges over stmt.Lhs",
}

func ruleCallResultIndexing(c *Ctx) {
	const R = "R08-index"
	c.floor(R, 3)
	p := c.P
	roots := []*ssa.Function{p.Fn("lua", "Compile"), p.Fn("parse", "Parse")}
	if roots[0] == nil || roots[1] == nil {
		c.und(R, "anchors", "-", "lua.Compile / parse.Parse not found")
		return
	}
	seen := reachableFrom(p.CallGraph(), roots)
	var fns []*ssa.Function
	for fn := range seen {
		if fn == nil || fn.Pkg == nil || fn.Blocks == nil {
			continue
		}
		pn := fn.Pkg.Pkg.Name()
		if pn != "lua" && pn != "parse" && pn != "ast" {
			continue
		}
		if pn == "lua" && !strings.HasPrefix(p.pos(fn.Pos()), "compile.go:") {
			continue
		}
		fns = append(fns, fn)
	}
	sort.Slice(fns, func(i, j int) bool { return fname(fns[i]) < fname(fns[j]) })
	for _, fn := range fns {
		g := p.G(fn)
		n := 0
		allInstrs(fn, func(in ssa.Instruction) {
			if !g.Live(in) {
				return
			}
			var base, idx ssa.Value
			sl := false
			switch x := in.(type) {
			case *ssa.IndexAddr:
				base, idx = x.X, x.Index
			case *ssa.Index:
				base, idx = x.X, x.Index
			case *ssa.Slice:
				sl = true
				base = x.X
				if x.High != nil {
					idx = x.High
				} else if x.Low != nil {
					idx = x.Low
				} else {
					return
				}
			default:
				return
			}
			cl, ok := base.(*ssa.Call)
			if ex, isEx := base.(*ssa.Extract); isEx {
				cl, ok = ex.Tuple.(*ssa.Call)
			}
			if !ok {
				return
			}
			if _, isB := cl.Call.Value.(*ssa.Builtin); isB {
				return
			}
			if _, isMap := base.Type().Underlying().(*types.Map); isMap {
				return
			}
			n++
			c.Sites++
			c.touch(fn)
			callee := "?"
			if sc := cl.Call.StaticCallee(); sc != nil {
				callee = sc.Name()
			}
			key := fmt.Sprintf("%s:result-of-%s#%d:indexed-within-its-own-length", fn.Name(), callee, n)
			cls := indexSiteClass(p, g, in, base, idx, sl)
			if cls == "" {
				for k, why := range callResultIndexAllowed {
					parts := strings.SplitN(k, "|", 2)
					if fn.Name() == parts[0] && strings.HasPrefix(vkey(base), parts[1]) {
						cls = "listed: " + why
					}
				}
			}
			c.check(cls != "", R, key, p.ipos(in), cls,
				fmt.Sprintf("%s indexes the slice returned by %s with %s, which nothing in the function ties to that slice's length (not derived from len of it, not compared with it, not a range over it): an index out of range in the compiler is re-panicked by Compile's recover and leaves Load/DoString as a Go panic", fname(fn), callee, shortKey(vkey(idx))))
		})
	}
}

func ruleIndexCensusDebug(c *Ctx) {
	if os.Getenv("VERIF_DEBUG_INDEX") == "" {
		return
	}
	m := loadPathIndexCensus(c)
	by := map[string]int{}
	for _, v := range m {
		by[v]++
	}
	fmt.Fprintln(os.Stderr, "index-census:", by)
}

// ruleLoopMarkerPrivate: C20 "a module requiring itself directly or indirectly is reported as a loop
// error … each module's loader runs at most once": the marker require leaves in package.loaded[name]
// while a module is loading is require's private protocol. No other function of the library reads
// Global.loopDetection — whoever compares a package.loaded entry with it can act on it (clear a
// "stale" marker) while the module is in fact mid-load.
func ruleLoopMarkerPrivate(c *Ctx) {
	const R = "R20-sentinel"
	p := c.P
	sentF := p.Field("lua", "Global", "loopDetection")
	req := c.need(R, "lua", "loRequire")
	if sentF == nil || req == nil {
		c.und(R, "marker:anchors", "-", "Global.loopDetection / loRequire not found")
		return
	}
	var foreign []string
	var where ssa.Instruction
	readers := 0
	for _, fn := range p.srcFuncs {
		if fn.Blocks == nil {
			continue
		}
		allInstrs(fn, func(in ssa.Instruction) {
			u, ok := in.(*ssa.UnOp)
			if !ok || u.Op != token.MUL {
				return
			}
			fa, ok := u.X.(*ssa.FieldAddr)
			if !ok || fieldOf(fa) != sentF {
				return
			}
			readers++
			if fn != req {
				foreign = append(foreign, fname(fn))
				if where == nil {
					where = in
				}
			}
		})
	}
	pos := p.pos(req.Pos())
	if where != nil {
		pos = p.ipos(where)
	}
	sort.Strings(foreign)
	c.Sites++
	c.check(len(foreign) == 0 && readers > 0, R, "marker:read-only-by-require", pos, fmt.Sprintf("%d read(s) of Global.loopDetection, all in loRequire", readers),
		fmt.Sprintf("require's loading marker (Global.loopDetection) is read outside loRequire, in %v: a function that recognises the marker in package.loaded can remove or replace it while the module is loading — the loop is no longer reported, the loader runs again and require returns a different value", foreign))
}

// rulePresentMeansNotNil: C04 "assignment consults __newindex only for absent keys (and indexing
// consults __index only for absent keys)": absent means nil — a key that holds false is present. In
// setField/setFieldString (and the get twins) the raw lookup that decides "present" is used only in
// comparisons with LNil (or handed on as the result), never through a truthiness helper.
func rulePresentMeansNotNil(c *Ctx) {
	const R = "R04-siblings"
	p := c.P
	isNil := func(v ssa.Value) bool {
		u, ok := v.(*ssa.UnOp)
		if !ok {
			return false
		}
		gl, ok := u.X.(*ssa.Global)
		return ok && gl.Name() == "LNil"
	}
	for _, name := range []string{"(*LState).setField", "(*LState).setFieldString", "(*LState).getField", "(*LState).getFieldString"} {
		fn := c.need(R, "lua", name)
		if fn == nil {
			continue
		}
		n := 0
		var bad ssa.Instruction
		allInstrs(fn, func(in ssa.Instruction) {
			cl, ok := in.(*ssa.Call)
			if !ok {
				return
			}
			sc := cl.Call.StaticCallee()
			if sc == nil || recvNamed(sc) != "LTable" || (sc.Name() != "RawGet" && sc.Name() != "RawGetString" && sc.Name() != "RawGetH" && sc.Name() != "RawGetInt") {
				return
			}
			n++
			for _, r := range *cl.Referrers() {
				switch x := r.(type) {
				case *ssa.BinOp:
					if (x.Op == token.EQL || x.Op == token.NEQ) && (isNil(x.X) || isNil(x.Y)) {
						continue
					}
				case *ssa.Return, *ssa.Phi:
					continue
				case *ssa.DebugRef:
					continue
				}
				if bad == nil {
					bad = r
				}
			}
		})
		pos := p.pos(fn.Pos())
		if bad != nil {
			pos = p.ipos(bad)
		}
		c.Sites++
		c.check(n > 0 && bad == nil, R, strings.TrimPrefix(name, "(*LState).")+":present-means-not-nil", pos, fmt.Sprintf("%d raw lookup(s), compared with LNil only", n),
			fname(fn)+" decides whether the key is present by something other than a comparison of the raw value with LNil: a key that holds false counts as absent — t[k] = v calls __newindex (or t[k] consults __index) for a key that is there")
	}
}

// ruleCompilerDecodes: C01 (R01-decode for the compiler's own readers). The peephole passes of the
// compiler read operands back out of instructions they have emitted. Where the path pins the opcode of
// the instruction (a case of a switch over opGetOpCode), the accessor used belongs to that opcode's
// declared format: B and C exist in ABC instructions only, Bx in ABx, sBx in AsBx — LOADK's constant
// index read with opGetArgB is the low 9 bits of it (equal below 512 constants, wrong beyond).
func ruleCompilerDecodes(c *Ctx) {
	const R = "R01-decode"
	p := c.P
	t := p.vmTable()
	rows := p.opPropsRows()
	if !t.TableOK || len(rows) == 0 {
		c.und(R, "compiler:table", "-", "opcode table not available")
		return
	}
	want := map[string]string{"opGetArgB": "opTypeABC", "opGetArgC": "opTypeABC", "opGetArgBx": "opTypeABx", "opGetArgSbx": "opTypeASbx"}
	getOp := p.Fn("lua", "opGetOpCode")
	n := 0
	for _, fn := range p.srcFuncs {
		if fn.Pkg == nil || fn.Pkg.Pkg.Path() != luaPath || fn.Blocks == nil || !strings.HasPrefix(p.pos(fn.Pos()), "compile.go:") {
			continue
		}
		var g *PCFG
		ord := map[string]int{}
		allInstrs(fn, func(in ssa.Instruction) {
			sc := staticCallee(in)
			if sc == nil {
				return
			}
			format, ok := want[sc.Name()]
			if !ok {
				return
			}
			if g == nil {
				g = p.G(fn)
			}
			if !g.Live(in) {
				return
			}
			inst := in.(*ssa.Call).Call.Args[0]
			// the opcode the path pins for this instruction word
			pinned := int64(-1)
			for _, cd := range g.expandAnd(g.CondsAtInstr(in)) {
				b, ok := cd.V.(*ssa.BinOp)
				if !ok || !((eqHolds(b, cd)) || (b.Op == token.NEQ && !cd.Sense)) {
					continue
				}
				x, y := b.X, b.Y
				if _, isK := constInt(x); isK {
					x, y = y, x
				}
				k, isK := constInt(y)
				oc, isCall := stripConv(x).(*ssa.Call)
				if !isK || !isCall || oc.Call.StaticCallee() != getOp || vkey(oc.Call.Args[0]) != vkey(inst) {
					continue
				}
				pinned = k
			}
			if pinned < 0 || int(pinned) >= len(rows) || int(pinned) >= len(t.Ops) {
				return
			}
			n++
			c.Sites++
			c.touch(fn)
			name := t.Ops[pinned].Name
			ord[name+sc.Name()]++
			key := fmt.Sprintf("compiler:%s:%s(%s)#%d", fn.Name(), sc.Name(), name, ord[name+sc.Name()])
			if name == "OP_SETLIST" {
				// the marker of the two-word form is C == 0 (VM, patchCode, compileTableExpr): a zero test of
				// another operand of a SETLIST is a different question (B == 0: open-ended)
				for _, r := range *in.(*ssa.Call).Referrers() {
					if b, ok := r.(*ssa.BinOp); ok && (b.Op == token.EQL || b.Op == token.NEQ) {
						if k, isK := constInt(b.Y); isK && k == 0 && fn.Name() == "Last" {
							c.check(sc.Name() == "opGetArgC", R, "compiler:Last:extended-SETLIST-told-by-C", p.ipos(in), "the data word of a SETLIST is recognised by C == 0",
								"(*codeStore).Last recognises the two-word SETLIST by a zero test of "+strings.TrimPrefix(sc.Name(), "opGetArg")+" instead of C (C == 0 means 'the batch number is in the next word', B == 0 means 'up to the top'): the batch word of a large constructor is handed to the peepholes as an instruction and can be popped — the word after the SETLIST is then a real instruction the VM skips as data")
						}
					}
				}
			}
			c.check(rows[pinned].Type == format, R, key, p.ipos(in), "accessor of the opcode's declared format "+rows[pinned].Type,
				fmt.Sprintf("%s reads %s of an instruction the path knows to be %s, whose declared format is %s: the field overlaps only part of the operand that was written (LOADK's constant index read as B is its low 9 bits: right below 512 constants, a different constant beyond)", fname(fn), strings.TrimPrefix(sc.Name(), "opGetArg"), name, rows[pinned].Type))
		})
	}
	c.check(n >= 5, R, "compiler:decode-sites", "-", fmt.Sprintf("%d operand reads with a pinned opcode in compile.go", n), "no operand read with a pinned opcode found in compile.go (the rule lost its anchors)")
}

// ruleYieldRoomCoversPushes: C06/C12. The room switchToParentThread asks of the resumer before a yield
// covers what it then pushes: nargs values plus the leading status unless this thread was resumed
// through a wrapper. Evaluated for both conventions with a concrete count: the argument of canHold is
// at least the number of pushes (an over-estimate — nargs+1 always — is fine).
func ruleYieldRoomCoversPushes(c *Ctx) {
	const R = "R06-killarg"
	p := c.P
	fn := c.need(R, "lua", "switchToParentThread")
	wF := p.Field("lua", "LState", "wrapped")
	canHold := p.Fn("lua", "(*registry).canHold")
	if fn == nil || wF == nil || canHold == nil {
		c.und(R, "switchToParentThread:room-covers-pushes", "-", "LState.wrapped / registry.canHold not found")
		return
	}
	p.computeNoReturn()
	var nargs, kill *ssa.Parameter
	// by position and type, never by name: (L *LState, nargs int, haserror bool, kill bool)
	if len(fn.Params) == 4 && fn.Params[1].Type().String() == "int" && fn.Params[3].Type().String() == "bool" {
		nargs, kill = fn.Params[1], fn.Params[3]
	}
	calls := callsTo(fn, canHold)
	if nargs == nil || kill == nil || len(calls) == 0 {
		c.und(R, "switchToParentThread:room-covers-pushes", p.pos(fn.Pos()), "parameters nargs/kill or the canHold call not found")
		return
	}
	okc, evaluated := true, 0
	worst := ""
	for _, wrapped := range []bool{false, true} {
		const N = 7
		need := int64(N)
		if !wrapped {
			need++
		}
		min, have := int64(0), false
		reachGivenW(fn, func(v ssa.Value) (aval, bool) {
			if v == ssa.Value(nargs) {
				return aInt(N), true
			}
			if v == ssa.Value(kill) {
				return aBool(false), true
			}
			if _, ok := loadsField(v, wF); ok {
				return aBool(wrapped), true
			}
			return aval{}, false
		}, func(v ssa.Value, a aval) {
			for _, cl := range calls {
				if v == cl.Call.Args[1] && a.isInt {
					if !have || a.i < min {
						min, have = a.i, true
					}
				}
			}
		}, p.isNoReturnCall)
		if !have {
			// the argument is a constant expression of nargs the watcher does not see as an instruction
			for _, cl := range calls {
				l := lin(cl.Call.Args[1])
				if len(l.T) == 1 && l.T[leafKey(nargs)] == 1 {
					min, have = N+l.K, true
				}
			}
		}
		if !have {
			continue
		}
		evaluated++
		if min < need {
			okc = false
			worst = fmt.Sprintf("resumed %s: room for %d asked, %d pushed", map[bool]string{false: "by coroutine.resume", true: "through a wrapper"}[wrapped], min, need)
		}
	}
	c.Sites++
	c.check(evaluated == 2 && okc, R, "switchToParentThread:room-covers-pushes", p.ipos(calls[0]), "for both result conventions the room asked for is at least the number of values pushed",
		"the room switchToParentThread asks of the resumer before a yield is smaller than what it pushes ("+worst+" for a yield of 7 values): with exactly that much room left the overflow is raised half-way, in the resumer — the coroutine stays suspended with the same yield pending and delivers it again")
}

// ruleAssignResultsByPosition: C02 "all of them in the last position of a multiple assignment": when
// the last right-hand expression supplies several targets, target i takes the result in register
// regstart + (i - first): the register stored for a table-field target is linear in the target's own
// index with coefficient 1 — not a counter that advances only for some kinds of target.
func ruleAssignResultsByPosition(c *Ctx) {
	const R = "R01-assign"
	p := c.P
	fn := c.need(R, "lua", "compileAssignStmtRight")
	vF := p.Field("lua", "assigncontext", "valuerk")
	if fn == nil || vF == nil {
		c.und(R, "compileAssignStmtRight:results-by-target-position", "-", "assigncontext.valuerk not found")
		return
	}
	g := p.G(fn)
	// the inner loop (over the targets fed by one multi-valued expression) is nested in the loop over the
	// right-hand expressions
	depth := map[*ssa.BasicBlock]int{}
	for _, li := range g.loops() {
		for b := range li.Body {
			depth[b]++
		}
	}
	inLoop := map[*ssa.BasicBlock]bool{}
	for b, d := range depth {
		if d >= 2 {
			inLoop[b] = true
		}
	}
	n, okc := 0, true
	var where ssa.Instruction
	allInstrs(fn, func(in ssa.Instruction) {
		st, ok := isFieldStore(in, vF)
		if !ok || !inLoop[in.Block()] || !g.Live(in) {
			return
		}
		fa := st.Addr.(*ssa.FieldAddr)
		// acs[i] is a slice of pointers: fa.X = *(&acs[i])
		var idx ssa.Value
		x := fa.X
		if u, ok := x.(*ssa.UnOp); ok {
			x = u.X
		}
		if ia, ok := x.(*ssa.IndexAddr); ok {
			idx = ia.Index
		}
		if idx == nil {
			return
		}
		if _, isK := constInt(st.Val); isK {
			return
		}
		n++
		if lin(st.Val).T[leafKey(stripConv(idx))] != 1 {
			okc = false
			where = in
		}
	})
	pos := p.pos(fn.Pos())
	if where != nil {
		pos = p.ipos(where)
	}
	c.Sites++
	c.check(n > 0 && okc, R, "compileAssignStmtRight:results-by-target-position", pos, fmt.Sprintf("%d store(s) of a result register in a loop over the targets, each linear in the target's index", n),
		"compileAssignStmtRight gives a table-field target of a multiple assignment a result register that does not follow the target's own position (a separate counter, advanced for some targets only): in `x, t.a = f()` the field receives the first result instead of the second")
}

// ruleDepthCounterBalanced: C08 "every text the grammar accepts is accepted" (up to the documented
// nesting limit): the syntax-level counter funcContext.exprDepth is stepped back on every way out of a
// function that stepped it up — the decrement is deferred before anything can return. A return between
// the increment and the defer leaks a level per call, and a long flat program runs into the limit.
func ruleDepthCounterBalanced(c *Ctx) {
	const R = "R08-terminate"
	p := c.P
	dF := p.Field("lua", "funcContext", "exprDepth")
	leave := p.Fn("lua", "leaveExpr")
	if dF == nil || leave == nil {
		c.und(R, "depth-counter:anchors", "-", "funcContext.exprDepth / leaveExpr not found")
		return
	}
	n := 0
	for _, fn := range p.srcFuncs {
		if fn.Pkg == nil || fn.Pkg.Pkg.Path() != luaPath || fn.Blocks == nil || fn == leave {
			continue
		}
		var ups []ssa.Instruction
		allInstrs(fn, func(in ssa.Instruction) {
			st, ok := isFieldStore(in, dF)
			if !ok {
				return
			}
			if b, ok := st.Val.(*ssa.BinOp); ok && b.Op == token.ADD {
				ups = append(ups, in)
			}
		})
		if len(ups) == 0 {
			continue
		}
		g := p.G(fn)
		for i, up := range ups {
			n++
			c.Sites++
			c.touch(fn)
			b, idx := after(up)
			isDefer := func(in ssa.Instruction) bool {
				d, ok := in.(*ssa.Defer)
				return ok && d.Call.StaticCallee() == leave
			}
			isDown := func(in ssa.Instruction) bool {
				if isDefer(in) {
					return true
				}
				st, ok := isFieldStore(in, dF)
				if !ok {
					return false
				}
				bo, ok := st.Val.(*ssa.BinOp)
				return ok && bo.Op == token.SUB
			}
			exit := func(in ssa.Instruction) bool {
				if isReturn(in) {
					return true
				}
				_, isPanic := in.(*ssa.Panic)
				return isPanic || p.isNoReturnCall(in)
			}
			okc, wit := g.MustPassBefore(b, idx, isDown, exit)
			pos := p.ipos(up)
			if wit != nil {
				pos = p.ipos(wit)
			}
			c.check(okc, R, fmt.Sprintf("depth-counter:%s#%d:stepped-back-on-every-way-out", fn.Name(), i+1), pos, "the decrement (or its defer) lies on every way from the increment to a return or a raise",
				fname(fn)+" steps funcContext.exprDepth up and can leave (return or raise) before the decrement is deferred: every such call leaks a syntax level for the rest of the function being compiled — a flat program with enough of them is rejected with 'chunk has too many syntax levels'")
		}
	}
	c.check(n >= 2, R, "depth-counter:sites", "-", fmt.Sprintf("%d increments of funcContext.exprDepth examined", n), "increments of funcContext.exprDepth not found")
}

// ruleInsertShiftsWhateverTheValue: C09/C18 "storing nil deletes" is about keyed stores; a positional
// insert moves the elements at and after the position up whatever is inserted (table.insert(t, pos, nil)
// leaves a hole at pos). LTable.Insert does not decide anything by its value argument: no branch of the
// function depends on it.
func ruleInsertShiftsWhateverTheValue(c *Ctx) {
	const R = "R18-insert"
	p := c.P
	fn := c.need(R, "lua", "(*LTable).Insert")
	if fn == nil || len(fn.Params) < 3 {
		return
	}
	val := ssa.Value(fn.Params[2])
	var bad ssa.Instruction
	allInstrs(fn, func(in ssa.Instruction) {
		iff, ok := in.(*ssa.If)
		if !ok || bad != nil {
			return
		}
		if dependsOnValue(iff.Cond, val, 0) {
			bad = in
		}
	})
	pos := p.pos(fn.Pos())
	if bad != nil {
		pos = p.ipos(bad)
	}
	c.Sites++
	c.check(bad == nil, R, "Insert:no-branch-on-the-inserted-value", pos, "no branch of LTable.Insert depends on the value being inserted",
		"LTable.Insert branches on the value it is given: a positional insert has to shift t[pos..#t] up whatever is inserted — with an early return for nil, table.insert(t, pos, nil) leaves the list unshifted and every element at or after pos reads back one key too low")
}

// ruleParenthesisedReturnCount: F131. C02 "one [result] in a … parenthesised position": `return (f())`
// emits a RETURN that names exactly one value (B = 2). An open RETURN (B = 0, up to the top) after the
// one-result call relies on where the call left the top — a resume with surplus values leaves it higher
// and `return (coroutine.yield())` hands them all on.
func ruleParenthesisedReturnCount(c *Ctx) {
	const R = "R02-full"
	p := c.P
	fn := c.need(R, "lua", "compileReturnStmt")
	adjF := p.Field("ast", "FuncCallExpr", "AdjustRet")
	addABC := p.Fn("lua", "(*codeStore).AddABC")
	if fn == nil || adjF == nil || addABC == nil {
		c.und(R, "compileReturnStmt:parenthesised-call-returns-one", "-", "FuncCallExpr.AdjustRet / AddABC not found")
		return
	}
	g := p.G(fn)
	n, okc := 0, true
	var where ssa.Instruction
	for _, cl := range callsTo(fn, addABC) {
		if !g.Live(cl) {
			continue
		}
		under := false
		for _, cd := range g.expandAnd(g.CondsAtInstr(cl)) {
			if _, ok := loadsField(cd.V, adjF); ok && cd.Sense {
				under = true
			}
		}
		if !under {
			continue
		}
		n++
		if k, ok := constInt(cl.Call.Args[3]); !ok || k != 2 {
			okc = false
			where = cl
		}
	}
	pos := p.pos(fn.Pos())
	if where != nil {
		pos = p.ipos(where)
	}
	c.Sites++
	c.check(n > 0 && okc, R, "compileReturnStmt:parenthesised-call-returns-one", pos, fmt.Sprintf("%d RETURN emission(s) on the parenthesised arm, B = 2", n),
		"compileReturnStmt does not emit RETURN with B = 2 (one value) for `return (f())`: an open RETURN hands on whatever lies above the call's single result — `return (coroutine.yield())` resumed with three values returns three")
}

// ruleResumeRefusesBeforeItPushes: F132. C06 "a … coroutine cannot be resumed [when refused] and is
// left as it was": LState.Resume builds the first frame of a thread that has not started only after
// every refusal (running, dead, normal, depth): no refusal return — a return that builds its own error
// with newApiErrorS — is reachable once the frame has been pushed.
func ruleResumeRefusesBeforeItPushes(c *Ctx) {
	const R = "R06-resumeapi"
	p := c.P
	fn := c.need(R, "lua", "(*LState).Resume")
	mk := p.Fn("lua", "newApiErrorS")
	if fn == nil || mk == nil {
		c.und(R, "Resume:first-frame-after-the-refusals", "-", "newApiErrorS not found")
		return
	}
	g := p.G(fn)
	n, okc := 0, true
	var where ssa.Instruction
	allInstrs(fn, func(in ssa.Instruction) {
		if !g.Live(in) {
			return
		}
		cc := callOf(in)
		if cc == nil {
			return
		}
		isPush := false
		if cc.IsInvoke() && cc.Method.Name() == "Push" && strings.Contains(cc.Value.Type().String(), "callFrameStack") {
			isPush = true
		}
		if sc := cc.StaticCallee(); sc != nil && sc.Name() == "Push" && strings.Contains(recvNamed(sc), "CallFrameStack") {
			isPush = true
		}
		if !isPush {
			return
		}
		n++
		b, i := after(in)
		// (what is reported once the thread has run — threadRun — is a result, not a refusal)
		run := p.Fn("lua", "threadRun")
		if g.walk(b, i, func(x ssa.Instruction) bool { return run != nil && isCallTo(x, run) }, func(x ssa.Instruction) bool { return isCallTo(x, mk) }) {
			okc = false
			where = in
		}
	})
	pos := p.pos(fn.Pos())
	if where != nil {
		pos = p.ipos(where)
	}
	c.Sites++
	c.check(n > 0 && okc, R, "Resume:first-frame-after-the-refusals", pos, fmt.Sprintf("%d frame push(es), no refusal reachable after them", n),
		"LState.Resume pushes the first frame of a thread that has not started and can still refuse the resume afterwards: the refusal leaves the frame behind, the next Resume pushes a second one and the body runs twice for one successful resume")
}

// rulePseudoIndexNeedsFrame: F133. C10 "within any host function or at top level … reads outside the
// list give nil": at top level no function runs and LState.currentFrame is nil. In Get and Replace the
// environment arm tests for that; every other use of the current frame in these two functions is under
// the same test (the arm for upvalue indices dereferenced it unconditionally and crashed the host).
func rulePseudoIndexNeedsFrame(c *Ctx) {
	const R = "R10-bounds"
	p := c.P
	cfF := p.Field("lua", "LState", "currentFrame")
	if cfF == nil {
		c.und(R, "pseudo-index:anchors", "-", "LState.currentFrame not found")
		return
	}
	for _, name := range []string{"(*LState).Get", "(*LState).Replace"} {
		fn := c.need(R, "lua", name)
		if fn == nil {
			continue
		}
		g := p.G(fn)
		n := 0
		var bad ssa.Instruction
		allInstrs(fn, func(in ssa.Instruction) {
			fa, ok := in.(*ssa.FieldAddr)
			if !ok || !g.Live(in) {
				return
			}
			if _, isCF := loadsField(fa.X, cfF); !isCF {
				return
			}
			n++
			guarded := g.holdsOnAllPaths(in.Block(), func(cd Cond) bool {
				b, ok := cd.V.(*ssa.BinOp)
				if !ok {
					return false
				}
				_, lx := loadsField(b.X, cfF)
				_, ly := loadsField(b.Y, cfF)
				if !lx && !ly {
					return false
				}
				other := b.Y
				if ly {
					other = b.X
				}
				if cst, ok := other.(*ssa.Const); !ok || !cst.IsNil() {
					return false
				}
				return (b.Op == token.NEQ && cd.Sense) || (neHolds(b, cd))
			}, 0)
			if !guarded && bad == nil {
				bad = in
			}
		})
		pos := p.pos(fn.Pos())
		if bad != nil {
			pos = p.ipos(bad)
		}
		c.Sites++
		c.check(n > 0 && bad == nil, R, strings.TrimPrefix(name, "(*LState).")+":current-frame-used-only-where-there-is-one", pos, fmt.Sprintf("%d use(s) of the current frame, each under currentFrame != nil", n),
			fname(fn)+" dereferences LState.currentFrame on a path that has not tested it: at top level (no function running) it is nil — L.Get(UpvalueIndex(1)) from the host crashes the process instead of answering nil")
	}
}
