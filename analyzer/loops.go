package main

import (
	"fmt"
	"go/token"
	"go/types"
	"sort"
	"strings"

	"golang.org/x/tools/go/ssa"
)

// Natural loops of the pruned flow graph and a small classifier of their termination argument.
//
//	counter   an exit test that every iteration evaluates compares an induction value (a header phi
//	          whose in-loop updates all add a constant of one sign, possibly through phis of the branches
//	          inside the body) with a bound that the body does not compute from that value
//	chain     a header phi x whose in-loop update is a field of x (block = block.Parent) left on x == nil
//	range     the exit is the ok of a Next on a map/string iterator
//	other     none of the above

type loopInfo struct {
	Header    *ssa.BasicBlock
	Body      map[*ssa.BasicBlock]bool
	Latches   []*ssa.BasicBlock
	Class     string
	bound     ssa.Value // while an exit test 'phi < bound' is examined: the bound, and the direction towards it
	boundSign int
	Why       string // the recognised bound, for the evidence
	ExitPos   token.Pos
}

func (g *PCFG) loops() []*loopInfo {
	var out []*loopInfo
	byHeader := map[*ssa.BasicBlock]*loopInfo{}
	for _, b := range g.Fn.Blocks {
		if !g.LiveBlock(b) {
			continue
		}
		for _, s := range g.Succs(b) {
			if g.BlockDom(s, b) { // back edge b → s
				li := byHeader[s]
				if li == nil {
					li = &loopInfo{Header: s, Body: map[*ssa.BasicBlock]bool{s: true}}
					byHeader[s] = li
					out = append(out, li)
				}
				li.Latches = append(li.Latches, b)
				// body: everything that reaches the latch without passing the header
				stack := []*ssa.BasicBlock{b}
				for len(stack) > 0 {
					x := stack[len(stack)-1]
					stack = stack[:len(stack)-1]
					if li.Body[x] {
						continue
					}
					li.Body[x] = true
					stack = append(stack, g.Preds(x)...)
				}
			}
		}
	}
	sort.Slice(out, func(i, j int) bool { return out[i].Header.Index < out[j].Header.Index })
	for _, li := range out {
		g.classify(li)
	}
	return out
}

// LiveBlock reports whether the pruned graph reaches b.
func (g *PCFG) LiveBlock(b *ssa.BasicBlock) bool {
	return len(b.Instrs) > 0 && g.Reach[b]
}

// step describes how v relates to the header phi ph along the in-loop definitions: sign +1/-1 (0 when
// every path leaves it unchanged), strict when every path adds a non-zero constant of that sign.
type step struct {
	sign   int
	strict bool
	ok     bool
}

func stepOf(v ssa.Value, ph *ssa.Phi, li *loopInfo, seen map[ssa.Value]bool) step {
	v = stripConv(v)
	if v == ph {
		return step{0, false, true}
	}
	if li.bound != nil && (v == li.bound || vkey(v) == vkey(li.bound)) {
		// the counter is set to the bound itself: the strict test fails next time round
		return step{li.boundSign, true, true}
	}
	if seen[v] {
		return step{}
	}
	seen[v] = true
	defer delete(seen, v)
	switch x := v.(type) {
	case *ssa.BinOp:
		if x.Op != token.ADD && x.Op != token.SUB {
			return step{}
		}
		k, ok := constInt(x.Y)
		if !ok && x.Op == token.ADD && unsignedSource(x.Y) {
			// adding a value converted from an unsigned type: never moves backwards
			inner := stepOf(x.X, ph, li, seen)
			if !inner.ok || inner.sign < 0 {
				return step{}
			}
			return step{1, inner.strict && inner.sign > 0, true}
		}
		if !ok || k == 0 {
			return step{}
		}
		inner := stepOf(x.X, ph, li, seen)
		if !inner.ok {
			return step{}
		}
		s := 1
		if (x.Op == token.SUB) != (k < 0) {
			s = -1
		}
		if inner.sign != 0 && inner.sign != s {
			return step{}
		}
		return step{s, true, true}
	case *ssa.Phi:
		if !li.Body[x.Block()] {
			return step{}
		}
		res := step{0, true, true}
		for _, e := range x.Edges {
			st := stepOf(e, ph, li, seen)
			if !st.ok {
				return step{}
			}
			if st.sign != 0 {
				if res.sign != 0 && res.sign != st.sign {
					return step{}
				}
				res.sign = st.sign
			}
			if !st.strict {
				res.strict = false
			}
		}
		return res
	}
	return step{}
}

// induction: v is a header phi (or a header phi plus a constant) that every trip round the loop moves
// by a non-zero constant in one direction.
func (g *PCFG) induction(v ssa.Value, li *loopInfo) (int, *ssa.Phi) {
	v = stripConv(v)
	if b, ok := v.(*ssa.BinOp); ok && (b.Op == token.ADD || b.Op == token.SUB) {
		if _, isC := constInt(b.Y); isC {
			v = stripConv(b.X)
		}
	}
	ph, ok := v.(*ssa.Phi)
	if !ok || ph.Block() != li.Header {
		return 0, nil
	}
	sign := 0
	for i, e := range ph.Edges {
		pred := ph.Block().Preds[i]
		if !li.Body[pred] {
			continue
		}
		if !g.edgeLive(pred, ph.Block()) {
			continue
		}
		st := stepOf(e, ph, li, map[ssa.Value]bool{})
		if !st.ok || !st.strict || st.sign == 0 {
			return 0, nil
		}
		if sign == 0 {
			sign = st.sign
		} else if sign != st.sign {
			return 0, nil
		}
	}
	return sign, ph
}

func (g *PCFG) edgeLive(pred, succ *ssa.BasicBlock) bool {
	for _, s := range g.Succs(pred) {
		if s == succ {
			return true
		}
	}
	return false
}

// dependsOn: v is computed from ph.
func dependsOn(v ssa.Value, ph *ssa.Phi, d int) bool {
	if v == ph {
		return true
	}
	if d > 6 {
		return false
	}
	in, ok := v.(ssa.Instruction)
	if !ok {
		return false
	}
	if _, isPhi := v.(*ssa.Phi); isPhi {
		return false
	}
	for _, op := range in.Operands(nil) {
		if *op != nil && dependsOn(*op, ph, d+1) {
			return true
		}
	}
	return false
}

func (g *PCFG) classify(li *loopInfo) {
	li.Class = "other"
	for _, b := range g.Fn.Blocks {
		if !li.Body[b] {
			continue
		}
		iff, ok := b.Instrs[len(b.Instrs)-1].(*ssa.If)
		if !ok {
			continue
		}
		succs := g.Succs(b)
		exits := false
		exitOnTrue := false
		for i, s := range b.Succs {
			live := false
			for _, t := range succs {
				if t == s {
					live = true
				}
			}
			if !li.Body[s] || !live {
				if !li.Body[s] {
					exits = true
					exitOnTrue = i == 0
				}
			}
		}
		if !exits {
			continue
		}
		// every iteration evaluates this test
		all := true
		for _, l := range li.Latches {
			if !g.BlockDom(b, l) {
				all = false
			}
		}
		if !all {
			continue
		}
		switch cv := iff.Cond.(type) {
		case *ssa.BinOp:
			op := cv.Op
			if exitOnTrue {
				op = negate(op)
			}
			// op is the condition for staying in the loop
			for side, v := range []ssa.Value{cv.X, cv.Y} {
				other := cv.Y
				o := op
				if side == 1 {
					other = cv.X
					o = flip(op)
				}
				// pointer chain: x != nil with x = x.f
				if k, isC := other.(*ssa.Const); isC && k.IsNil() && o == token.NEQ {
					if ph, ok := v.(*ssa.Phi); ok && ph.Block() == li.Header {
						okc := true
						n := 0
						for i, e := range ph.Edges {
							if !li.Body[ph.Block().Preds[i]] {
								continue
							}
							n++
							if !linkOf(e, ph, li, 0) {
								okc = false
							}
						}
						if okc && n > 0 {
							li.Class, li.Why, li.ExitPos = "chain", "follows a link field until nil", iff.Pos()
							return
						}
					}
				}
				li.bound, li.boundSign = nil, 0
				if o == token.LSS || o == token.GTR {
					li.bound = stripConv(other)
					li.boundSign = 1
					if o == token.GTR {
						li.boundSign = -1
					}
				}
				sign, ph := g.induction(v, li)
				li.bound = nil
				if sign == 0 {
					continue
				}
				if dependsOn(other, ph, 0) {
					continue
				}
				up := o == token.LSS || o == token.LEQ || o == token.NEQ
				down := o == token.GTR || o == token.GEQ || o == token.NEQ
				if (sign > 0 && up) || (sign < 0 && down) {
					li.Class, li.Why, li.ExitPos = "counter", fmt.Sprintf("%s %s %s, step %+d", shortKey(vkey(ph)), o, shortKey(vkey(other)), sign), iff.Pos()
					return
				}
			}
		case *ssa.Extract:
			if nx, ok := cv.Tuple.(*ssa.Next); ok && cv.Index == 0 {
				_ = nx
				li.Class, li.Why, li.ExitPos = "range", "iterator exhausted", iff.Pos()
				return
			}
		}
	}
}

func flip(op token.Token) token.Token {
	switch op {
	case token.LSS:
		return token.GTR
	case token.LEQ:
		return token.GEQ
	case token.GTR:
		return token.LSS
	case token.GEQ:
		return token.LEQ
	}
	return op
}

func loopKey(fn *ssa.Function, k int) string {
	return fmt.Sprintf("%s:loop#%d", strings.ReplaceAll(fname(fn), " ", ""), k)
}

// linkOf: e is nil, or a field of the node ph denotes (through type assertions), or a phi of such.
func linkOf(e ssa.Value, ph *ssa.Phi, li *loopInfo, d int) bool {
	if d > 4 {
		return false
	}
	switch x := e.(type) {
	case *ssa.Const:
		return x.IsNil()
	case *ssa.MakeInterface:
		return linkOf(x.X, ph, li, d+1)
	case *ssa.Phi:
		if !li.Body[x.Block()] || x == ph {
			return false
		}
		for _, y := range x.Edges {
			if !linkOf(y, ph, li, d+1) {
				return false
			}
		}
		return true
	case *ssa.UnOp:
		if x.Op != token.MUL {
			return false
		}
		fa, ok := x.X.(*ssa.FieldAddr)
		if !ok {
			return false
		}
		base := fa.X
		for i := 0; i < 4; i++ {
			switch b := base.(type) {
			case *ssa.Extract:
				base = b.Tuple
				continue
			case *ssa.TypeAssert:
				base = b.X
				continue
			case *ssa.ChangeInterface:
				base = b.X
				continue
			}
			break
		}
		return base == ph
	}
	return false
}

func unsignedSource(v ssa.Value) bool {
	for i := 0; i < 3; i++ {
		if bt, ok := v.Type().Underlying().(*types.Basic); ok && bt.Info()&types.IsUnsigned != 0 {
			return true
		}
		cv, ok := v.(*ssa.Convert)
		if !ok {
			return false
		}
		v = cv.X
	}
	return false
}
