package main

// C05 — errors are contained by protected calls and leave state intact.

import (
	"fmt"
	"go/token"
	"go/types"
	"sort"
	"strings"

	"golang.org/x/tools/go/ssa"
)

func init() {
	register(&propInfo{
		ID:    "C05",
		Title: "Errors at any point are contained by protected calls and leave state intact",
		Explanation: "Decided: R05-restore — in each recover() arm of PCall (the outer deferred closure and the inner one that protects the error handler) every path from the recovered-panic test to the closure's return restores the call-stack pointer to the value captured before the call, re-derives currentFrame, closes up-values at and reclaims registers down to the captured base (R03-close shared), and LState.Panic is restored from the captured old value on every path, success or failure; the captured values are single-assignment cells defined before the call; the handler call is not inside a loop (runs once) and precedes the restoration; " +
			"R05-convert — no panic instruction is reachable inside PCall's recover arms, foreign panics are converted to ApiErrorPanic, threadRun re-panics only when there is no parent thread, the deferred recover is installed before the call, and DoString/DoFile/GPCall/protected CallByParam reach execution only through PCall; R05-raise — raiseError/Error reach the panic through LState.Panic after pushing the error object, and every Lua-level error entry (error, assert) goes through them; R05-handlerarm — inside PCall's recovery closure every call that can itself raise a Lua error (pushing the handler can overflow the registry, the handler can fail) runs after the inner recover has been deferred, so a second failure is still delivered to this protected call; R05-tracesafe — the traceback code (stackTrace and its static callees in the package) runs inside PCall's recovery closure but outside its inner recover, so a Go run-time panic there leaves PCall: every slice/string index in it is guarded by a length test on the path (or listed with the invariant that bounds it); R17-where shared — the position prefix is read at Pc-1 only when Pc > 0 (an error raised before a frame executed anything must not index -1 and escape as a Go panic). " +
			"NOT decided: 'delivered exactly once', side-effect prefix, later behaviour — trace properties of executions.",
		Trusted: []string{"a deferred closure runs on every exit of its function (Go semantics)"},
		Rules:   []func(*Ctx){ruleXpcallCountsFromItsTop, ruleSetSpAdjustsBeforeFreeing, ruleHandlerFramesFromTheFailedCall, ruleRaiseGuardUnconditional, ruleHandlerHasFrames, ruleYieldRoomForOwnConvention, ruleInlineCopies, ruleRaisedValueFits, ruleProtectedCallConsultsContext, ruleCountersSurviveErrors, ruleRestore, ruleConvert, ruleRaise, ruleClose, ruleWhere, ruleHandlerArm, ruleTraceSafe, ruleRaiseOnOwnState, ruleProtectedPreparation, ruleRaiseErrorFormats, ruleAbsoluteTopRestoredAbsolutely},
	})
}

// armEntry finds the entry block of the `rcv != nil` arm of a closure that calls recover.
func armEntries(p *Prog, fn *ssa.Function) []*ssa.BasicBlock {
	var out []*ssa.BasicBlock
	rcs := recoverCalls(fn)
	for _, b := range fn.Blocks {
		if len(b.Instrs) == 0 {
			continue
		}
		iff, ok := b.Instrs[len(b.Instrs)-1].(*ssa.If)
		if !ok {
			continue
		}
		bin, ok := iff.Cond.(*ssa.BinOp)
		if !ok {
			continue
		}
		for _, rc := range rcs {
			isNil := func(x ssa.Value) bool { c, ok := x.(*ssa.Const); return ok && c.Value == nil }
			if (bin.X == ssa.Value(rc) && isNil(bin.Y)) || (bin.Y == ssa.Value(rc) && isNil(bin.X)) {
				if bin.Op == token.NEQ {
					out = append(out, b.Succs[0])
				} else if bin.Op == token.EQL {
					out = append(out, b.Succs[1])
				}
			}
		}
	}
	return out
}

func ruleRestore(c *Ctx) {
	const R = "R05-restore"
	c.floor(R, 14)
	p := c.P
	pcall := c.need(R, "lua", "(*LState).PCall")
	if pcall == nil {
		return
	}
	panicF := p.Field("lua", "LState", "Panic")
	cfF := p.Field("lua", "LState", "currentFrame")
	regSetTop := p.Fn("lua", "(*registry).SetTop")
	lsCall := p.Fn("lua", "(*LState).Call")

	isSetSp := func(in ssa.Instruction) (ssa.Value, bool) {
		if tn, m := invokeName(in); tn == "callFrameStack" && m == "SetSp" {
			return in.(*ssa.Call).Call.Args[0], true
		}
		return nil, false
	}
	// captured cells: sp := stack.Sp(), base := reg.Top()-nargs-1, oldpanic := ls.Panic
	isSpCell := func(v ssa.Value) bool {
		d := cellDef(v)
		if d == nil {
			return false
		}
		call, ok := d.(*ssa.Call)
		if !ok {
			return false
		}
		tn, m := invokeName(call)
		return tn == "callFrameStack" && m == "Sp" && call.Parent() == pcall
	}
	isBaseCell := func(v ssa.Value) bool {
		d := cellDef(v)
		if d == nil {
			return false
		}
		k := vkey(d)
		// reg.Top() - nargs - 1, defined in PCall
		top := p.Fn("lua", "(*registry).Top")
		found := false
		var walk func(x ssa.Value, depth int)
		walk = func(x ssa.Value, depth int) {
			if depth > 4 {
				return
			}
			if call, ok := x.(*ssa.Call); ok && call.Call.StaticCallee() == top {
				found = true
			}
			if b, ok := x.(*ssa.BinOp); ok && b.Op == token.SUB {
				walk(b.X, depth+1)
			}
		}
		walk(d, 0)
		_ = k
		if in, ok := d.(ssa.Instruction); ok && in.Parent() != pcall {
			return false
		}
		return found
	}
	isOldPanicCell := func(v ssa.Value) bool {
		d := cellDef(v)
		if d == nil {
			return false
		}
		_, ok := loadsField(d, panicF)
		if in, isIn := d.(ssa.Instruction); isIn && in.Parent() != pcall {
			return false
		}
		return ok
	}

	// PCall body: defer installed before the call; cells defined before the call
	{
		g := p.G(pcall)
		var deferIn ssa.Instruction
		allInstrs(pcall, func(in ssa.Instruction) {
			if d, ok := in.(*ssa.Defer); ok {
				if mc, ok := d.Call.Value.(*ssa.MakeClosure); ok {
					if fn, ok := mc.Fn.(*ssa.Function); ok && len(recoverCalls(fn)) > 0 {
						deferIn = in
					}
				}
			}
		})
		calls := callsTo(pcall, lsCall)
		ok := deferIn != nil && len(calls) > 0
		for _, cl := range calls {
			if deferIn == nil || !g.Dominates(deferIn, cl) {
				ok = false
			}
		}
		c.check(ok, R, "PCall:defer-before-call", p.pos(pcall.Pos()), "the recovering defer dominates the protected Call", "the protected Call can run without the recovering defer installed")
		// ls.Panic = panicWithoutTraceback before the call
		okp := false
		allInstrs(pcall, func(in ssa.Instruction) {
			if st, is := isFieldStore(in, panicF); is {
				if f, isf := st.Val.(*ssa.Function); isf && f.Name() == "panicWithoutTraceback" {
					for _, cl := range calls {
						if g.Dominates(in, cl) {
							okp = true
						}
					}
				}
			}
		})
		c.check(okp, R, "PCall:panic-mode", p.pos(pcall.Pos()), "Panic is switched to the non-traceback mode before the call", "PCall does not switch LState.Panic before the call")
	}

	closures := []*ssa.Function{}
	withClosures(pcall, func(fn *ssa.Function) {
		if fn != pcall && len(recoverCalls(fn)) > 0 {
			closures = append(closures, fn)
		}
	})
	if len(closures) < 2 {
		c.und(R, "PCall:closures", p.pos(pcall.Pos()), fmt.Sprintf("expected two recovering closures in PCall, found %d", len(closures)))
	}
	for _, fn := range closures {
		c.touch(fn)
		g := p.G(fn)
		name := fname(fn)
		arms := armEntries(p, fn)
		if len(arms) != 1 {
			c.und(R, name+":arm", p.pos(fn.Pos()), "cannot identify the recovered-panic arm")
			continue
		}
		arm := arms[0]
		type ev struct {
			key, okMsg, badMsg string
			match              func(ssa.Instruction) bool
		}
		evs := []ev{
			{"SetSp(sp)", "call stack pointer restored to the captured depth", "the call-stack pointer is not restored to its pre-call value on some path out of the recovered arm",
				func(in ssa.Instruction) bool { a, ok := isSetSp(in); return ok && isSpCell(a) }},
			{"currentFrame=", "currentFrame re-derived", "currentFrame is not re-derived on some path out of the recovered arm (it keeps pointing at a discarded frame)",
				func(in ssa.Instruction) bool { _, ok := isFieldStore(in, cfF); return ok }},
			{"reg.SetTop(base)", "registers reclaimed down to the captured base", "the value stack is not cut back to the captured base on some path out of the recovered arm (arguments / partial results stay)",
				func(in ssa.Instruction) bool {
					return isCallTo(in, regSetTop) && isBaseCell(in.(*ssa.Call).Call.Args[1])
				}},
		}
		for _, e := range evs {
			okAll, hit := g.MustPassBefore(arm, 0, e.match, isReturn)
			pos := p.pos(fn.Pos())
			if hit != nil {
				pos = p.ipos(hit)
			}
			c.Sites++
			c.check(okAll, R, name+":"+e.key, pos, e.okMsg+" on every path from the recovered-panic test to return", e.badMsg)
		}
		// ordering: SetSp before the currentFrame store (Last() must see the restored depth)
		{
			bad := false
			allInstrs(fn, func(in ssa.Instruction) {
				if _, ok := isFieldStore(in, cfF); !ok || !g.Live(in) {
					return
				}
				if !condNonNil(g.CondsAtInstr(in), recoverCalls(fn)[0]) {
					return
				}
				dom := false
				allInstrs(fn, func(s ssa.Instruction) {
					if a, ok := isSetSp(s); ok && isSpCell(a) && g.Dominates(s, in) {
						dom = true
					}
				})
				if !dom {
					// …or it follows, in its own block, a SetSp of another depth (frames given up for the
					// message handler, F136): the frame is derived from the pointer just written; the final
					// restore to the captured depth is demanded by the must-pass obligations above
					b := in.Block()
					for i := idxIn(b, in) - 1; i >= 0; i-- {
						if _, ok := isSetSp(b.Instrs[i]); ok {
							dom = true
							break
						}
					}
				}
				if !dom {
					bad = true
				}
			})
			c.check(!bad, R, name+":SetSp-before-currentFrame", p.pos(fn.Pos()), "currentFrame is derived after the stack pointer is restored", "currentFrame is derived before the stack pointer is restored: it points at a frame that is about to be discarded")
		}
		// Panic restored from oldpanic on every path from entry
		okP, hit := g.MustPassBefore(fn.Blocks[0], 0, func(in ssa.Instruction) bool {
			st, ok := isFieldStore(in, panicF)
			return ok && isOldPanicCell(st.Val)
		}, isReturn)
		pos := p.pos(fn.Pos())
		if hit != nil {
			pos = p.ipos(hit)
		}
		c.check(okP, R, name+":Panic=oldpanic", pos, "LState.Panic restored from the captured value on every path (success or failure)", "LState.Panic is not restored on some path through the deferred closure")
		// any other store to Panic must be followed by a defer of a closure that restores it
		allInstrs(fn, func(in ssa.Instruction) {
			st, ok := isFieldStore(in, panicF)
			if !ok || isOldPanicCell(st.Val) || !g.Live(in) {
				return
			}
			b, i := after(in)
			okD, _ := g.MustPassBefore(b, i, func(x ssa.Instruction) bool {
				d, ok := x.(*ssa.Defer)
				if !ok {
					return false
				}
				mc, ok := d.Call.Value.(*ssa.MakeClosure)
				if !ok {
					return false
				}
				inner, ok := mc.Fn.(*ssa.Function)
				if !ok {
					return false
				}
				gi := p.G(inner)
				r, _ := gi.MustPassBefore(inner.Blocks[0], 0, func(y ssa.Instruction) bool {
					s2, ok := isFieldStore(y, panicF)
					return ok && isOldPanicCell(s2.Val)
				}, isReturn)
				return r
			}, isReturn)
			c.check(okD, R, name+":Panic-override-restored", p.ipos(in), "the temporary Panic mode for the error handler is undone by a deferred closure on all paths", "LState.Panic is overridden in the recover arm and not restored by a deferred closure on every path")
		})
		// handler call not in a loop
		for _, cl := range callsTo(fn, lsCall) {
			inLoop := false
			b, i := after(cl)
			g.walk(b, i, nil, func(x ssa.Instruction) bool {
				if x == ssa.Instruction(cl) {
					inLoop = true
					return true
				}
				return false
			})
			c.check(!inLoop, R, name+":handler-once", p.ipos(cl), "the error handler call is not inside a loop", "the error handler can be called more than once")
			// handler before restoration
			early := false
			allInstrs(fn, func(s ssa.Instruction) {
				if a, ok := isSetSp(s); ok && isSpCell(a) && g.Dominates(s, cl) {
					early = true
				}
			})
			c.check(!early, R, name+":handler-before-unwind", p.ipos(cl), "the handler runs before the stack is unwound", "the stack is unwound before the error handler runs (it cannot see the failing frames)")
		}
	}
}

func ruleConvert(c *Ctx) {
	const R = "R05-convert"
	c.floor(R, 9)
	p := c.P
	pcall := c.need(R, "lua", "(*LState).PCall")
	trun := c.need(R, "lua", "threadRun")
	if pcall == nil || trun == nil {
		return
	}
	apiErrS := p.Fn("lua", "newApiErrorS")
	panicKind, _ := p.intConst("lua", "ApiErrorPanic")
	withClosures(pcall, func(fn *ssa.Function) {
		if fn == pcall || len(recoverCalls(fn)) == 0 {
			return
		}
		c.touch(fn)
		g := p.G(fn)
		np := 0
		allInstrs(fn, func(in ssa.Instruction) {
			if _, ok := in.(*ssa.Panic); ok && g.Live(in) {
				np++
				c.bad(R, fmt.Sprintf("%s:panic#%d", fname(fn), np), p.ipos(in), "a panic instruction is reachable inside PCall's recover arm: the error leaves the protected call as a Go panic")
			}
		})
		if np == 0 {
			c.ok(R, fname(fn)+":no-repanic", p.pos(fn.Pos()), "no panic instruction reachable in the recover arm")
		}
		conv := false
		for _, cl := range callsTo(fn, apiErrS) {
			if k, ok := constInt(cl.Call.Args[0]); ok && k == panicKind {
				// under the failed *ApiError assertion
				for _, cd := range g.CondsAtInstr(cl) {
					if ex, ok := cd.V.(*ssa.Extract); ok && !cd.Sense {
						if ta, ok := ex.Tuple.(*ssa.TypeAssert); ok && ta.CommaOk {
							if pt, ok := ta.AssertedType.(*types.Pointer); ok {
								if nt, ok := pt.Elem().(*types.Named); ok && nt.Obj().Name() == "ApiError" {
									conv = true
								}
							}
						}
					}
				}
			}
		}
		c.check(conv, R, fname(fn)+":foreign→ApiErrorPanic", p.pos(fn.Pos()), "a recovered value that is not *ApiError is converted to ApiErrorPanic", "foreign panics are not converted to an ApiErrorPanic error value")
		// err result cell is assigned on every path of the recovered arm
		arms := armEntries(p, fn)
		if len(arms) == 1 {
			okE, _ := g.MustPassBefore(arms[0], 0, func(in ssa.Instruction) bool {
				st, ok := in.(*ssa.Store)
				if !ok {
					return false
				}
				root := rootCell(st.Addr)
				a, ok := root.(*ssa.Alloc)
				return ok && a.Comment == "err" && a.Parent() == pcall
			}, isReturn)
			c.check(okE, R, fname(fn)+":err-assigned", p.pos(fn.Pos()), "PCall's error result is assigned on every path of the recovered arm", "a recovered panic can leave PCall's error result nil (the failure is reported as success)")
		}
	})
	// threadRun: re-panic only without parent
	withClosures(trun, func(fn *ssa.Function) {
		if fn == trun || len(recoverCalls(fn)) == 0 {
			return
		}
		c.touch(fn)
		g := p.G(fn)
		parentF := p.Field("lua", "LState", "Parent")
		n := 0
		allInstrs(fn, func(in ssa.Instruction) {
			if _, ok := in.(*ssa.Panic); !ok || !g.Live(in) {
				return
			}
			n++
			okc := false
			for _, cd := range g.CondsAtInstr(in) {
				b, ok := cd.V.(*ssa.BinOp)
				if !ok {
					continue
				}
				if _, isP := loadsField(b.X, parentF); isP {
					if (b.Op == token.NEQ && !cd.Sense) || (eqHolds(b, cd)) {
						okc = true
					}
				}
			}
			c.check(okc, R, fmt.Sprintf("%s:repanic#%d", fname(fn), n), p.ipos(in), "re-panics only when the thread has no parent", "a coroutine error is re-raised as a Go panic although a resumer exists")
		})
	})
	// entry points reach execution only through PCall
	lsCall := p.Fn("lua", "(*LState).Call")
	callR := p.Fn("lua", "(*LState).callR")
	for _, name := range []string{"(*LState).DoString", "(*LState).DoFile", "(*LState).GPCall"} {
		fn := c.need(R, "lua", name)
		if fn == nil {
			continue
		}
		okc := len(callsTo(fn, pcall)) > 0 && len(callsTo(fn, lsCall)) == 0 && len(callsTo(fn, callR)) == 0
		c.check(okc, R, name+":via-PCall", p.pos(fn.Pos()), "executes only through PCall", "entry point executes Lua code outside PCall: an error leaves it as a Go panic")
	}
	if fn := c.need(R, "lua", "(*LState).CallByParam"); fn != nil {
		g := p.G(fn)
		protF := p.Field("lua", "P", "Protect")
		okc := len(callsTo(fn, pcall)) > 0
		condOnProtect := func(in ssa.Instruction, sense bool) bool {
			for _, cd := range g.CondsAtInstr(in) {
				if f, ok := cd.V.(*ssa.Field); ok && fieldOfVal(f) == protF && cd.Sense == sense {
					return true
				}
				if _, ok := loadsField(cd.V, protF); ok && cd.Sense == sense {
					return true
				}
			}
			return false
		}
		for _, cl := range callsTo(fn, pcall) {
			if !condOnProtect(cl, true) {
				okc = false
			}
		}
		for _, cl := range callsTo(fn, lsCall) {
			if !condOnProtect(cl, false) {
				okc = false
			}
		}
		c.check(okc, R, "(*LState).CallByParam:Protect→PCall", p.pos(fn.Pos()), "Protect=true goes through PCall; the unprotected Call only when Protect=false", "CallByParam with Protect set does not go through PCall on every path")
	}
	// Lua-level pcall/xpcall use PCall and report (false, err)
	for _, name := range []string{"basePCall", "baseXPCall"} {
		fn := c.need(R, "lua", name)
		if fn == nil {
			continue
		}
		g := p.G(fn)
		calls := callsTo(fn, pcall)
		okc := len(calls) == 1 && len(callsTo(fn, lsCall)) == 0
		if okc && name == "baseXPCall" {
			// handler argument must be the checked function #2, not nil
			if cst, isC := calls[0].Call.Args[3].(*ssa.Const); isC && cst.Value == nil {
				okc = false
			}
		}
		c.check(okc, R, name+":via-PCall", p.pos(fn.Pos()), "runs the function through PCall", "Lua-level protected call does not go through PCall (or xpcall drops its handler)")
		// on err != nil pushes LFalse first
		okF := false
		allInstrs(fn, func(in ssa.Instruction) {
			if sc := staticCallee(in); sc != nil && fname(sc) == "(*LState).Push" && g.Live(in) {
				arg := in.(*ssa.Call).Call.Args[1]
				if mi, ok := arg.(*ssa.MakeInterface); ok {
					arg = mi.X
				}
				if u, ok := arg.(*ssa.UnOp); ok {
					if gl, ok := u.X.(*ssa.Global); ok && gl.Name() == "LFalse" && len(calls) == 1 {
						for _, cd := range g.CondsAtInstr(in) {
							if b, ok := cd.V.(*ssa.BinOp); ok && b.Op == token.NEQ && cd.Sense && b.X == ssa.Value(calls[0]) {
								okF = true
							}
						}
					}
				}
			}
		})
		c.check(okF, R, name+":false-on-error", p.pos(fn.Pos()), "pushes false when PCall reports an error", "does not report failure as (false, err)")
	}
}

// ruleRaise: the raise path pushes the error object and panics through LState.Panic.
func ruleRaise(c *Ctx) {
	const R = "R05-raise"
	c.floor(R, 5)
	p := c.P
	p.computeNoReturn()
	for _, name := range []string{"(*LState).raiseError", "(*LState).RaiseError", "(*LState).Error", "(*LState).ArgError", "(*LState).TypeError"} {
		fn := c.need(R, "lua", name)
		if fn == nil {
			continue
		}
		c.check(p.noret[fn], R, name+":never-returns", p.pos(fn.Pos()), "every path ends in a raise (computed no-return set)", "an error-raising API function can return to its caller: code after 'guard then raise' runs with the invalid value")
	}
	// raiseError: message pushed before Panic; forced slot when registry full
	if fn := c.need(R, "lua", "(*LState).raiseError"); fn != nil {
		g := p.G(fn)
		regPush := p.Fn("lua", "(*registry).Push")
		okc := false
		allInstrs(fn, func(in ssa.Instruction) {
			if p.isAxiomCall(in) {
				for _, pu := range callsTo(fn, regPush) {
					if g.Dominates(pu, in) {
						okc = true
					}
				}
			}
		})
		c.check(okc, R, "raiseError:push-before-panic", p.pos(fn.Pos()), "the message is pushed before LState.Panic is invoked (panicWith*Traceback read it from the stack top)", "LState.Panic is invoked without the error message on the stack")
	}
	// base library error()/assert() go through Error / RaiseError
	for name, callee := range map[string]string{"baseError": "(*LState).Error", "baseAssert": "(*LState).RaiseError"} {
		fn := c.need(R, "lua", name)
		if fn == nil {
			continue
		}
		c.check(len(callsTo(fn, p.Fn("lua", callee))) > 0, R, name+"→"+callee, p.pos(fn.Pos()), "raises through the state's error API", "does not raise through "+callee)
	}
}

// ruleHandlerArm: the recovery closure of PCall is itself running in a deferred function; anything in it
// that can raise a Lua error before the inner 'defer … recover()' is installed unwinds past this PCall
// to the next enclosing one (F29: ls.Push(errfunc) with a full registry).
func ruleHandlerArm(c *Ctx) {
	const R = "R05-handlerarm"
	c.floor(R, 3)
	p := c.P
	pcall := c.need(R, "lua", "(*LState).PCall")
	if pcall == nil {
		return
	}
	var outer *ssa.Function
	for _, an := range pcall.AnonFuncs {
		if len(recoverCalls(an)) > 0 {
			outer = an
		}
	}
	if outer == nil {
		c.und(R, "PCall:recovery-closure", p.pos(pcall.Pos()), "no deferred closure with recover() found in PCall")
		return
	}
	g := p.G(outer)
	var inner ssa.Instruction
	allInstrs(outer, func(in ssa.Instruction) {
		if d, ok := in.(*ssa.Defer); ok {
			if mc, ok := d.Call.Value.(*ssa.MakeClosure); ok {
				if f, ok := mc.Fn.(*ssa.Function); ok && len(recoverCalls(f)) > 0 {
					inner = in
				}
			} else if f, ok := d.Call.Value.(*ssa.Function); ok && len(recoverCalls(f)) > 0 {
				inner = in
			}
		}
	})
	if inner == nil {
		c.und(R, "PCall$1:inner-recover", p.pos(outer.Pos()), "the recovery closure defers no inner recover")
		return
	}
	n := 0
	allInstrs(outer, func(in ssa.Instruction) {
		if _, isDefer := in.(*ssa.Defer); isDefer || !g.Live(in) {
			return
		}
		may, via := p.siteMayRaise(in)
		if !may {
			return
		}
		// only the handler arm (errfunc != nil): the unwinding common to both arms only shrinks the
		// registry and the frame stack
		inArm := false
		for _, cd := range g.CondsAtInstr(in) {
			if b, ok := cd.V.(*ssa.BinOp); ok && b.Op == token.NEQ && cd.Sense {
				if k, ok := b.Y.(*ssa.Const); ok && k.IsNil() && strings.Contains(vkey(b.X), "errfunc") {
					inArm = true
				}
			}
		}
		if !inArm {
			return
		}
		n++
		c.Sites++
		key := fmt.Sprintf("PCall$1:%s#%d", via, countKey(c, R, via))
		c.check(g.Dominates(inner, in), R, key, p.ipos(in), "runs under the inner recover", fmt.Sprintf("PCall's recovery closure calls %s, which can raise a Lua error, before its inner recover is deferred: the second error unwinds past this protected call (xpcall with a full registry: the overflow raised by pushing the handler reaches the next enclosing pcall or DoString)", via))
	})
}

// ruleTraceSafe: PCall's recovery closure calls ls.stackTrace(0) outside any recover. An index out of
// range in stackTrace or its callees therefore turns a caught Lua error into a Go panic that leaves
// PCall/DoString (F34: name[0] of an empty call-site name). Every index operation in that code must be
// dominated by a length guard; the ones bounded by an interpreter invariant are listed.
var traceIndexTrusted = map[string]string{
	"(*LState).where:DbgSourcePositions": "Pc-1 with Pc > 0 tested (R17-where:pc-guard) and Pc <= len(Code) == len(DbgSourcePositions) by construction of the line table (R17 parallel arrays)",
}

func ruleTraceSafe(c *Ctx) {
	const R = "R05-tracesafe"
	c.floor(R, 2)
	p := c.P
	root := c.need(R, "lua", "(*LState).stackTrace")
	if root == nil {
		return
	}
	// static callees inside the package
	seen := map[*ssa.Function]bool{root: true}
	work := []*ssa.Function{root}
	for len(work) > 0 {
		f := work[len(work)-1]
		work = work[:len(work)-1]
		allInstrs(f, func(in ssa.Instruction) {
			if sc := staticCallee(in); sc != nil && sc.Pkg != nil && sc.Pkg.Pkg.Path() == luaPath && sc.Blocks != nil && !seen[sc] {
				seen[sc] = true
				work = append(work, sc)
			}
		})
	}
	var fns []*ssa.Function
	for f := range seen {
		fns = append(fns, f)
	}
	sort.Slice(fns, func(i, j int) bool { return fname(fns[i]) < fname(fns[j]) })
	for _, fn := range fns {
		g := p.G(fn)
		n := 0
		allInstrs(fn, func(in ssa.Instruction) {
			var x, idx ssa.Value
			switch v := in.(type) {
			case *ssa.IndexAddr:
				x, idx = v.X, v.Index
			case *ssa.Index:
				x, idx = v.X, v.Index
			default:
				return
			}
			if !g.Live(in) {
				return
			}
			// fixed-size arrays with a constant index are checked by the compiler
			if k, ok := constInt(idx); ok {
				t := x.Type().Underlying()
				if pt, ok := t.(*types.Pointer); ok {
					t = pt.Elem().Underlying()
				}
				if at, ok := t.(*types.Array); ok && k < at.Len() {
					return
				}
			}
			n++
			c.Sites++
			coll := shortKey(vkey(x))
			key := fmt.Sprintf("%s:index#%d", fname(fn), n)
			if guarded, how := indexGuarded(g, in, x, idx); guarded {
				c.ok(R, key, p.ipos(in), how)
				return
			}
			for tk, why := range traceIndexTrusted {
				parts := strings.SplitN(tk, ":", 2)
				if parts[0] == fname(fn) && strings.Contains(coll, parts[1]) {
					c.okT(R, key, p.ipos(in), "listed: "+why)
					return
				}
			}
			c.bad(R, key, p.ipos(in), fmt.Sprintf("%s indexes %s[%s] without a length test on the path; it runs inside PCall's recovery closure outside the inner recover (PCall → stackTrace → …), so an index out of range there turns the error being delivered into a Go panic that leaves PCall/DoString", fname(fn), coll, shortKey(vkey(idx))))
		})
	}
}

// indexGuarded: the path condition at 'at' implies 0 <= idx < len(x) by one of the recognised forms.
func indexGuarded(g *PCFG, at ssa.Instruction, x, idx ssa.Value) (bool, string) {
	xk := vkey(x)
	isLenOfX := func(v ssa.Value) bool {
		cl, ok := stripConv(v).(*ssa.Call)
		if !ok {
			return false
		}
		if b, ok := cl.Call.Value.(*ssa.Builtin); !ok || b.Name() != "len" {
			return false
		}
		return vkey(cl.Call.Args[0]) == xk
	}
	c, isConst := constInt(idx)
	for _, cd := range g.CondsAtInstr(at) {
		b, ok := cd.V.(*ssa.BinOp)
		if !ok {
			continue
		}
		op := b.Op
		if !cd.Sense {
			op = negate(op)
		}
		l, r := b.X, b.Y
		if isLenOfX(r) && !isLenOfX(l) {
			l, r = r, l
			op = flip(op)
		}
		if isLenOfX(l) {
			// len(x) op r
			if vkey(stripConv(r)) == vkey(stripConv(idx)) && op == token.GTR {
				return true, "guarded by idx < len(x)"
			}
			if k, ok := constInt(r); ok && isConst {
				switch {
				case op == token.GTR && k >= c, op == token.GEQ && k >= c+1, op == token.NEQ && k == 0 && c == 0, op == token.EQL && k > c:
					return true, fmt.Sprintf("guarded by a length test that implies len > %d", c)
				}
			}
			continue
		}
		// s != "" for s[0]
		if isConst && c == 0 && op == token.NEQ {
			if (vkey(b.X) == xk && isEmptyStr(b.Y)) || (vkey(b.Y) == xk && isEmptyStr(b.X)) {
				return true, "guarded by s != \"\""
			}
		}
		// idx < len(x) with idx on the left
		if vkey(stripConv(b.X)) == vkey(stripConv(idx)) && isLenOfX(b.Y) && op == token.LSS {
			return true, "guarded by idx < len(x)"
		}
	}
	return false, ""
}

func isEmptyStr(v ssa.Value) bool { s, ok := constStr(v); return ok && s == "" }
