package main

// vmtable.go — resolves opcode constants, the jumpTable handler for each opcode and the instruction
// field layout from opcode.go (DESIGN §1.3 "Handlers").

import (
	"go/ast"
	"go/constant"
	"go/token"
	"go/types"
	"sort"
	"strings"

	"golang.org/x/tools/go/ssa"
)

type opInfo struct {
	Name    string
	Val     int
	Handler *ssa.Function
	Shared  bool // handler shared by several opcodes (opArith)
}

type vmTable struct {
	Ops     []*opInfo // by value
	ByName  map[string]*opInfo
	Max     int
	TableOK bool
	Err     string
	LitLen  int
}

// intConst returns the integer value of a package-level constant.
func (p *Prog) intConst(pkg, name string) (int64, bool) {
	o := p.Obj(pkg, name)
	c, ok := o.(*types.Const)
	if !ok {
		return 0, false
	}
	v := constant.ToInt(c.Val())
	if v.Kind() != constant.Int {
		return 0, false
	}
	return constant.Int64Val(v)
}

var vmTableMemo = map[*Prog]*vmTable{}

func (p *Prog) vmTable() *vmTable {
	if t, ok := vmTableMemo[p]; ok {
		return t
	}
	t := p.vmTable0()
	vmTableMemo[p] = t
	// anonymous handlers get a stable name derived from their opcode
	for _, o := range t.Ops {
		if o.Handler != nil && o.Handler.Parent() != nil && !o.Shared {
			handlerNames[o.Handler] = "handler[" + o.Name + "]"
		}
	}
	return t
}

func (p *Prog) vmTable0() *vmTable {
	t := &vmTable{ByName: map[string]*opInfo{}}
	pk := p.Pkg("lua")
	scope := pk.Types.Scope()
	for _, n := range scope.Names() {
		if !strings.HasPrefix(n, "OP_") {
			continue
		}
		c, ok := scope.Lookup(n).(*types.Const)
		if !ok {
			continue
		}
		v, ok := constant.Int64Val(constant.ToInt(c.Val()))
		if !ok {
			continue
		}
		oi := &opInfo{Name: n, Val: int(v)}
		t.Ops = append(t.Ops, oi)
		t.ByName[n] = oi
	}
	sort.Slice(t.Ops, func(i, j int) bool { return t.Ops[i].Val < t.Ops[j].Val })
	if m, ok := p.intConst("lua", "opCodeMax"); ok {
		t.Max = int(m)
	} else {
		t.Err = "opCodeMax not found"
		return t
	}
	// find `jumpTable = [...]instFunc{...}` assignment in an init function
	jt := p.Obj("lua", "jumpTable")
	if jt == nil {
		t.Err = "jumpTable not found"
		return t
	}
	var lit *ast.CompositeLit
	for _, f := range pk.Syntax {
		ast.Inspect(f, func(n ast.Node) bool {
			switch as := n.(type) {
			case *ast.AssignStmt:
				if len(as.Lhs) == 1 && len(as.Rhs) == 1 {
					if id, ok := as.Lhs[0].(*ast.Ident); ok && pk.TypesInfo.Uses[id] == jt {
						if cl, ok := as.Rhs[0].(*ast.CompositeLit); ok {
							lit = cl
						}
					}
				}
			case *ast.ValueSpec:
				for i, id := range as.Names {
					if pk.TypesInfo.Defs[id] == jt && i < len(as.Values) {
						if cl, ok := as.Values[i].(*ast.CompositeLit); ok {
							lit = cl
						}
					}
				}
			}
			return true
		})
	}
	if lit == nil {
		t.Err = "no composite literal assigned to jumpTable"
		return t
	}
	t.LitLen = len(lit.Elts)
	count := map[*ssa.Function]int{}
	idx := 0
	for _, e := range lit.Elts {
		if kv, ok := e.(*ast.KeyValueExpr); ok {
			if tv, ok := pk.TypesInfo.Types[kv.Key]; ok && tv.Value != nil {
				if k, ok := constant.Int64Val(constant.ToInt(tv.Value)); ok {
					idx = int(k)
				}
			}
			e = kv.Value
		}
		var h *ssa.Function
		switch x := e.(type) {
		case *ast.FuncLit:
			h = p.declOf[x]
		case *ast.Ident:
			if fo, ok := pk.TypesInfo.Uses[x].(*types.Func); ok {
				h = p.SSA.FuncValue(fo)
			}
		}
		if idx < len(t.Ops) && t.Ops[idx].Val == idx {
			t.Ops[idx].Handler = h
		}
		if h != nil {
			count[h]++
		}
		idx++
	}
	for _, o := range t.Ops {
		if o.Handler != nil && count[o.Handler] > 1 {
			o.Shared = true
		}
	}
	t.TableOK = true
	return t
}

// handlerOps returns the opcodes served by a handler function.
func (t *vmTable) handlerOps(fn *ssa.Function) []*opInfo {
	var out []*opInfo
	for _, o := range t.Ops {
		if o.Handler == fn {
			out = append(out, o)
		}
	}
	return out
}

// fieldLayout: instruction operand fields derived from opcode.go's getters.
type instField struct {
	Name  string
	Shift int64
	Mask  int64
}

// matchExtract recognises (x >> s) & m, x & m, x >> s (over conversions) on a uint32-derived value
// and returns the root value, shift and mask (mask -1 = none).
func matchExtract(v ssa.Value) (root ssa.Value, shift int64, mask int64, ok bool) {
	v = stripConv(v)
	mask = -1
	if b, isb := v.(*ssa.BinOp); isb && b.Op == token.AND {
		if m, okc := constInt(b.Y); okc {
			mask = m
			v = stripConv(b.X)
		} else if m, okc := constInt(b.X); okc {
			mask = m
			v = stripConv(b.Y)
		} else {
			return nil, 0, 0, false
		}
	}
	if b, isb := v.(*ssa.BinOp); isb && b.Op == token.SHR {
		s, okc := constInt(b.Y)
		if !okc {
			return nil, 0, 0, false
		}
		shift = s
		v = stripConv(b.X)
	}
	if mask == -1 && shift == 0 {
		return nil, 0, 0, false
	}
	return v, shift, mask, true
}
