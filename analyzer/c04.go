package main

// C04 — metamethod selection: raw ops reach no handler; event names and operand order.

import (
	"fmt"
	"go/constant"
	"go/token"
	"go/types"
	"strconv"
	"strings"

	"golang.org/x/tools/go/ssa"
)

func init() {
	register(&propInfo{
		ID:    "C04",
		Title: "Metamethods are selected and applied by the Lua 5.1 rules",
		Explanation: "Decided: R04-raw — 'rawget, rawset and rawequal never invoke handlers': in the VTA call graph no function reachable from baseRawGet/baseRawSet/baseRawEqual or from the (*LTable).Raw* accessors is part of the metamethod machinery (callR, Call, PCall, metaOp1, metaOp2, metaCall, metatable, getField*, setField*), and in equals() the handler lookup is on the !raw arm only; " +
			"R04-events — the event name that reaches metaOp1/metaOp2/objectRational* from each operation equals the Lua 5.1 manual §2.8 table (arithmetic per opcode, __unm, __len, __concat, __eq, __lt, __le with the 'not (b < a)' fallback using swapped operands and negation, __index, __newindex, __call, __tostring, __metatable), operands are passed in source order, the handler is pushed before its operands and exactly one result is requested; binary lookups try the left operand first; comparison handlers are called only when both operands supply the identical handler, and == consults __eq on the table/userdata arm only. " +
			"R04-siblings — the generic and the string-keyed index/assignment helpers (getField/getFieldString, setField/setFieldString) perform the same sequence of raw lookups, stores, handler calls and raises. R04-callself — wherever a __call handler is entered, the value inserted as its first argument is the called object itself (the operand metaCall was applied to), at the call instruction, the tail call and the host-side call path alike. NOT decided: raw-first lookup order, __newindex only for absent keys, chain depth — visible only as 'this is how it is written'.",
		Trusted: []string{"Lua 5.1 manual §2.8 event table written out in the checker"},
		Rules:   []func(*Ctx){ruleOrderNeverByIdentity, ruleLessThanSameType, ruleInsertTopWithinCheckedCapacity, rulePresentMeansNotNil, ruleRaw, ruleEvents, ruleSiblings, ruleCallSelf, ruleCoerceBeforeHandler, ruleDebugMetatableAndHuge, ruleUnaryHandlerArgs, ruleIndexHandlerGetsCurrentLink},
	})
}

func ruleRaw(c *Ctx) {
	const R = "R04-raw"
	c.floor(R, 9)
	p := c.P
	cg := p.CallGraph()
	forbidden := []string{"(*LState).callR", "(*LState).Call", "(*LState).PCall", "(*LState).metaOp1", "(*LState).metaOp2", "(*LState).metaCall",
		"(*LState).metatable", "(*LState).getField", "(*LState).getFieldString", "(*LState).setField", "(*LState).setFieldString", "objectRational", "objectArith", "(*LState).CallMeta"}
	var forb []*ssa.Function
	for _, n := range forbidden {
		if f := p.Fn("lua", n); f != nil {
			forb = append(forb, f)
		} else {
			c.und(R, "anchor:"+n, "-", "not found")
		}
	}
	roots := []string{"baseRawGet", "baseRawSet", "baseRawEqual", "(*LTable).RawGet", "(*LTable).RawGetInt", "(*LTable).RawGetH", "(*LTable).RawGetString",
		"(*LTable).RawSet", "(*LTable).RawSetInt", "(*LTable).RawSetH", "(*LTable).RawSetString", "(*LState).RawGet", "(*LState).RawSet", "(*LState).RawGetInt", "(*LState).RawSetInt"}
	for _, rn := range roots {
		fn := c.need(R, "lua", rn)
		if fn == nil {
			continue
		}
		reach := reachableFrom(cg, []*ssa.Function{fn})
		c.Sites += len(reach)
		var hit *ssa.Function
		for _, f := range forb {
			if reach[f] {
				hit = f
				break
			}
		}
		if hit == nil {
			c.ok(R, "root:"+rn, p.pos(fn.Pos()), fmt.Sprintf("%d reachable functions, none in the metamethod machinery", len(reach)))
		} else {
			c.bad(R, "root:"+rn, p.pos(fn.Pos()), fmt.Sprintf("a raw operation can invoke a metamethod: %s", strings.Join(pathTo(cg, []*ssa.Function{fn}, hit), " → ")))
		}
	}
	// equals: objectRational only when !raw
	if fn := c.need(R, "lua", "equals"); fn != nil {
		g := p.G(fn)
		or := p.Fn("lua", "objectRational")
		var raw *ssa.Parameter
		for _, pm := range fn.Params {
			if raw == nil && types.Identical(pm.Type(), types.Typ[types.Bool]) {
				raw = pm
			}
		}
		okc := raw != nil
		n := 0
		for _, cl := range callsTo(fn, or) {
			n++
			guard := false
			for _, cd := range g.CondsAtInstr(cl) {
				if cd.V == ssa.Value(raw) && !cd.Sense {
					guard = true
				}
			}
			if !guard {
				okc = false
			}
		}
		c.check(okc && n > 0, R, "equals:handler-only-when-not-raw", p.pos(fn.Pos()), "the __eq lookup is on the !raw arm", "equals() consults __eq even for raw comparisons (RawEqual invokes a handler)")
		// LState.RawEqual passes true, Equal passes false
		for name, want := range map[string]bool{"(*LState).RawEqual": true, "(*LState).Equal": false} {
			f := c.need(R, "lua", name)
			if f == nil {
				continue
			}
			okw := false
			for _, cl := range callsTo(f, fn) {
				if b, ok := constBool(cl.Call.Args[3]); ok && b == want {
					okw = true
				}
			}
			c.check(okw, R, name+":raw-flag", p.pos(f.Pos()), fmt.Sprintf("passes raw=%v", want), fmt.Sprintf("%s does not pass raw=%v to equals", name, want))
		}
	}
}

type eventSpec struct {
	fn      string // function (or OP_xxx for a handler)
	callee  string
	event   string
	argIdx  int      // index of the event string among the callee's call args
	order   []string // expected vkey substrings of the operand args in order ("" = don't care)
	comment string
}

var anyTypeEvent = map[string]bool{"__len": true, "__unm": true, "__call": true, "__tostring": true, "__index": true, "__newindex": true}

// positiveTypeTest names the type a true condition establishes: the ok of v.(T), or v.Type() == LTx.
func positiveTypeTest(v ssa.Value) string {
	if ex, ok := v.(*ssa.Extract); ok && ex.Index == 1 {
		if ta, ok := ex.Tuple.(*ssa.TypeAssert); ok && ta.CommaOk {
			return types.TypeString(ta.AssertedType, func(*types.Package) string { return "" })
		}
	}
	if b, ok := v.(*ssa.BinOp); ok && b.Op == token.EQL {
		for _, side := range []ssa.Value{b.X, b.Y} {
			if k, ok := side.(*ssa.Const); ok {
				if nt, ok := k.Type().(*types.Named); ok && nt.Obj().Name() == "LValueType" {
					if n, ok := constInt(k); ok {
						sc := nt.Obj().Pkg().Scope()
						for _, nm := range sc.Names() {
							if cst, ok := sc.Lookup(nm).(*types.Const); ok && types.Identical(cst.Type(), nt) {
								if v, ok := constant.Int64Val(cst.Val()); ok && v == n {
									return nm
								}
							}
						}
					}
				}
			}
		}
	}
	return ""
}

func ruleEvents(c *Ctx) {
	const R = "R04-events"
	c.floor(R, 30)
	p := c.P
	t := p.vmTable()
	resolve := func(name string) *ssa.Function {
		if strings.HasPrefix(name, "OP_") {
			if o := t.ByName[name]; o != nil {
				return o.Handler
			}
			return nil
		}
		return p.Fn("lua", name)
	}
	specs := []eventSpec{
		{"OP_UNM", "(*LState).metaOp1", "__unm", 2, nil, ""},
		{"OP_LEN", "(*LState).metaOp1", "__len", 2, nil, ""},
		{"(*LState).ObjLen", "(*LState).metaOp1", "__len", 2, []string{"#0"}, ""},
		{"stringConcat", "(*LState).metaOp2", "__concat", 3, nil, ""},
		{"equals", "objectRational", "__eq", 3, []string{"#0", "#1"}, ""},
		{"lessThan", "objectRationalWithError", "__lt", 3, []string{"#0", "#1"}, ""},
		{"OP_LE", "objectRational", "__le", 3, nil, ""},
		{"OP_LE", "objectRationalWithError", "__lt", 3, nil, "fallback not (b < a)"},
		{"(*LState).getField", "(*LState).metaOp1", "__index", 2, nil, ""},
		{"(*LState).getFieldString", "(*LState).metaOp1", "__index", 2, nil, ""},
		{"(*LState).setField", "(*LState).metaOp1", "__newindex", 2, nil, ""},
		{"(*LState).setFieldString", "(*LState).metaOp1", "__newindex", 2, nil, ""},
		{"(*LState).metaCall", "(*LState).metaOp1", "__call", 2, []string{"#0"}, ""},
		{"(*LState).ToStringMeta", "(*LState).metaOp1", "__tostring", 2, []string{"#0"}, ""},
		{"(*LState).metatable", "(*LTable).RawGetString", "__metatable", 1, nil, ""},
		{"baseSetMetatable", "(*LTable).RawGetString", "__metatable", 1, nil, "protected metatable guard"},
		{"basePCall", "(*LState).GetMetaField", "__call", 2, nil, ""},
	}
	for _, s := range specs {
		fn := resolve(s.fn)
		callee := p.Fn("lua", s.callee)
		if fn == nil || callee == nil {
			c.und(R, s.fn+"→"+s.callee, "-", "anchor not found")
			continue
		}
		c.touch(fn)
		var hit *ssa.Call
		var got []string
		for _, cl := range callsTo(fn, callee) {
			if ev, ok := constStr(cl.Call.Args[s.argIdx]); ok {
				got = append(got, ev)
				if ev == s.event {
					hit = cl
				}
			}
		}
		key := fmt.Sprintf("%s:%s", s.fn, s.event)
		if hit == nil {
			c.bad(R, key, p.pos(fn.Pos()), fmt.Sprintf("%s does not look up the event %q through %s (events used: %v); Lua 5.1 §2.8 prescribes %q here", s.fn, s.event, s.callee, got, s.event))
			continue
		}
		okOrder := true
		for i, want := range s.order {
			if want == "" {
				continue
			}
			k := vkey(hit.Call.Args[1+i])
			if strings.HasPrefix(want, "#") { // the n-th LValue parameter of the function
				n, _ := strconv.Atoi(want[1:])
				want = pkeyAt(paramsOfType(fn, "LValue"), n)
			}
			if !strings.Contains(k, want) {
				okOrder = false
			}
		}
		c.Sites++
		c.check(okOrder, R, key, p.ipos(hit), "event name and operand order as in the manual", fmt.Sprintf("%s passes its operands to %s in the wrong order", s.fn, s.callee))
		// …and through that helper only: a second lookup of the same event by another helper (one operand
		// instead of both) selects a different handler on the paths it serves
		var stray *ssa.Call
		for _, other := range []string{"(*LState).metaOp1", "(*LState).metaOp2", "objectRational", "objectRationalWithError", "(*LState).GetMetaField"} {
			if other == s.callee {
				continue
			}
			of := p.Fn("lua", other)
			if of == nil {
				continue
			}
			for _, cl := range callsTo(fn, of) {
				for _, a := range cl.Call.Args {
					if ev, ok := constStr(a); ok && ev == s.event {
						stray = cl
					}
				}
			}
		}
		if stray != nil {
			c.bad(R, key+":looked-up-one-way", p.ipos(stray), fmt.Sprintf("%s also looks up %q through %s: on the paths that take this lookup the handler is selected from other operands than §2.8 prescribes (for a binary event: the left operand first, then the right)", s.fn, s.event, fname(stray.Call.StaticCallee())))
		} else {
			c.okT(R, key+":looked-up-one-way", p.ipos(hit), "no second lookup of the event through another helper")
		}
		// events every type of value may define (through its type's metatable): the lookup is not placed
		// under a test that admits only tables or only userdata
		if anyTypeEvent[s.event] && s.callee == "(*LState).metaOp1" {
			narrowed := ""
			for _, cd := range p.G(fn).CondsAtInstr(hit) {
				if !cd.Sense {
					continue
				}
				if tn := positiveTypeTest(cd.V); tn == "*LTable" || tn == "*LUserData" || tn == "LTTable" || tn == "LTUserData" {
					narrowed = tn
				}
			}
			c.check(narrowed == "", R, key+":any-operand-type", p.ipos(hit), "the event is looked up for every operand type the fast path did not take", fmt.Sprintf("%s looks up %q only when the operand is a %s: a value of another type with that metamethod (a userdata with __len, say) is answered without calling it, unlike the VM instruction", s.fn, s.event, narrowed))
		}
	}
	// OP_LE fallback: swapped operands and negation
	if h := resolve("OP_LE"); h != nil {
		owe := p.Fn("lua", "objectRationalWithError")
		or := p.Fn("lua", "objectRational")
		okc := false
		var le, lt *ssa.Call
		for _, cl := range callsTo(h, or) {
			le = cl
		}
		for _, cl := range callsTo(h, owe) {
			lt = cl
		}
		if le != nil && lt != nil {
			swapped := vkey(le.Call.Args[1]) == vkey(lt.Call.Args[2]) && vkey(le.Call.Args[2]) == vkey(lt.Call.Args[1])
			negated := false
			for _, r := range *lt.Referrers() {
				if u, ok := r.(*ssa.UnOp); ok && u.Op.String() == "!" {
					negated = true
				}
			}
			okc = swapped && negated
		}
		c.check(okc, R, "OP_LE:fallback-swapped-negated", p.pos(h.Pos()), "a <= b falls back to not (b < a): operands swapped, result negated", "the __le → __lt fallback does not swap the operands and negate the result")
	}
	// objectArith: opcode → event
	if fn := c.need(R, "lua", "objectArith"); fn != nil {
		g := p.G(fn)
		want := map[string]string{"OP_ADD": "__add", "OP_SUB": "__sub", "OP_MUL": "__mul", "OP_DIV": "__div", "OP_MOD": "__mod", "OP_POW": "__pow"}
		got := map[int64]string{}
		var opParam ssa.Value
		for _, pm := range fn.Params {
			if opParam == nil && types.Identical(pm.Type(), types.Typ[types.Int]) {
				opParam = pm
			}
		}
		mo2 := p.Fn("lua", "(*LState).metaOp2")
		for _, cl := range callsTo(fn, mo2) {
			if ph, ok := cl.Call.Args[3].(*ssa.Phi); ok {
				for i, e := range ph.Edges {
					s, ok := constStr(e)
					if !ok {
						continue
					}
					if k, ok := posCondInt(g.CondsAt(ph.Block().Preds[i]), opParam); ok {
						got[k] = s
					}
				}
			}
			// … or the table lives in a helper the baseline does not know: event := eventName(opcode), each
			// constant returned under a test of the helper's own parameter
			if hc, ok := cl.Call.Args[3].(*ssa.Call); ok && isNewHelper(hc.Call.StaticCallee()) && len(hc.Call.Args) == 1 && hc.Call.Args[0] == opParam {
				h := hc.Call.StaticCallee()
				hg := p.G(h)
				for _, hb := range h.Blocks {
					for _, hin := range hb.Instrs {
						if r, isRet := hin.(*ssa.Return); isRet && len(r.Results) == 1 && len(h.Params) == 1 {
							if ev, isK := constStr(r.Results[0]); isK {
								if k, ok := posCondInt(hg.CondsAt(hb), h.Params[0]); ok {
									got[k] = ev
								}
							}
						}
					}
				}
			}
			// … or in a package-level map indexed by the opcode, filled once by the package initialiser and
			// written nowhere else
			if lk, ok := cl.Call.Args[3].(*ssa.Lookup); ok && lk.Index == opParam {
				if ld, ok := lk.X.(*ssa.UnOp); ok {
					if gl, ok := ld.X.(*ssa.Global); ok {
						writers := 0
						for _, f2 := range p.srcFuncs {
							if f2.Pkg != fn.Pkg {
								continue
							}
							for _, b2 := range f2.Blocks {
								for _, in2 := range b2.Instrs {
									mu, ok := in2.(*ssa.MapUpdate)
									if !ok {
										continue
									}
									if u2, ok := mu.Map.(*ssa.UnOp); ok && u2.X == ssa.Value(gl) {
										writers++
									}
								}
							}
						}
						if initFn := fn.Pkg.Func("init"); initFn != nil && writers == 0 {
							for _, b2 := range initFn.Blocks {
								for _, in2 := range b2.Instrs {
									st, ok := in2.(*ssa.Store)
									if !ok || st.Addr != ssa.Value(gl) {
										continue
									}
									mm, ok := st.Val.(*ssa.MakeMap)
									if !ok || mm.Referrers() == nil {
										continue
									}
									for _, r := range *mm.Referrers() {
										if mu, ok := r.(*ssa.MapUpdate); ok {
											k, okk := constInt(mu.Key)
											ev, okv := constStr(mu.Value)
											if okk && okv {
												got[k] = ev
											}
										}
									}
								}
							}
						}
					}
				}
			}
			// operand order
			lvs := paramsOfType(fn, "LValue")
			ok12 := len(lvs) == 2 && cl.Call.Args[1] == ssa.Value(lvs[0]) && cl.Call.Args[2] == ssa.Value(lvs[1])
			c.check(ok12, R, "objectArith:operands", p.ipos(cl), "metaOp2(lhs, rhs, event)", "objectArith looks the handler up with its operands swapped (the right operand's handler wins)")
		}
		for name, ev := range want {
			o := t.ByName[name]
			if o == nil {
				continue
			}
			c.check(got[int64(o.Val)] == ev, R, "objectArith:"+name, p.pos(fn.Pos()), ev, fmt.Sprintf("%s looks up %q, the manual prescribes %q", name, got[int64(o.Val)], ev))
		}
	}
	// comparison handlers are used only when both operands supply the identical handler
	if fn := c.need(R, "lua", "objectRational"); fn != nil {
		g := p.G(fn)
		mo1 := p.Fn("lua", "(*LState).metaOp1")
		looks := callsTo(fn, mo1)
		okc := false
		for _, cl := range callsTo(fn, p.Fn("lua", "(*LState).Call")) {
			for _, cd := range g.CondsAtInstr(cl) {
				b, ok := cd.V.(*ssa.BinOp)
				// `m1 == m2` holding, spelled either way (== taken, or != not taken after an early return)
				if !ok || len(looks) != 2 || !((b.Op.String() == "==" && cd.Sense) || (b.Op.String() == "!=" && !cd.Sense)) {
					continue
				}
				if (b.X == ssa.Value(looks[0]) && b.Y == ssa.Value(looks[1])) || (b.X == ssa.Value(looks[1]) && b.Y == ssa.Value(looks[0])) {
					okc = true
				}
			}
		}
		sameEvent := len(looks) == 2 && vkey(looks[0].Call.Args[2]) == vkey(looks[1].Call.Args[2]) && vkey(looks[0].Call.Args[1]) == pkeyAt(paramsOfType(fn, "LValue"), 0) && vkey(looks[1].Call.Args[1]) == pkeyAt(paramsOfType(fn, "LValue"), 1)
		c.check(okc && sameEvent, R, "objectRational:identical-handler", p.pos(fn.Pos()), "the handler is called only when the left and the right operand's handlers for the event are the same value", "comparison metamethods (__eq, __lt, __le) are applied although the two operands do not supply the identical handler: a == b calls the left handler for objects with different __eq functions")
	}
	// equals: only tables and userdata reach the handler
	if fn := c.need(R, "lua", "equals"); fn != nil {
		g := p.G(fn)
		okc := false
		ltT, _ := p.intConst("lua", "LTTable")
		ltU, _ := p.intConst("lua", "LTUserData")
		for _, cl := range callsTo(fn, p.Fn("lua", "objectRational")) {
			ks := map[int64]bool{}
			// multi-value case arm: collect the constants of the tests leading here (through the chain of blocks)
			seen := map[*ssa.BasicBlock]bool{}
			var up func(b *ssa.BasicBlock, d int)
			up = func(b *ssa.BasicBlock, d int) {
				if seen[b] || d > 4 {
					return
				}
				seen[b] = true
				for _, k := range caseValuesReachingAny(b) {
					ks[k] = true
				}
				for _, pr := range g.Preds(b) {
					up(pr, d+1)
				}
			}
			up(cl.Block(), 0)
			if ks[ltT] && ks[ltU] && len(ks) <= 3 {
				okc = true
			}
		}
		c.check(okc, R, "equals:handler-for-table-userdata-only", p.pos(fn.Pos()), "__eq is consulted on the table/userdata arm only", "__eq is consulted for types other than table and userdata")
	}
	// handler lookup reads the real metatable: (*LState).metatable(v, rawget=true). GetMetatable (and
	// metatable(v, false)) answer with the __metatable field of a protected metatable, which is what
	// getmetatable() shows to scripts, not where handlers live
	for _, name := range []string{"(*LState).metaOp1", "(*LState).metaOp2"} {
		fn := p.Fn("lua", name)
		if fn == nil {
			continue
		}
		mt := p.Fn("lua", "(*LState).metatable")
		gm := p.Fn("lua", "(*LState).GetMetatable")
		okRaw := len(callsTo(fn, mt)) > 0 && len(callsTo(fn, gm)) == 0
		// metaOp2 written as two metaOp1 lookups reads the metatable where metaOp1 does (checked for metaOp1)
		if mo1 := p.Fn("lua", "(*LState).metaOp1"); name == "(*LState).metaOp2" && mo1 != nil && len(callsTo(fn, mt)) == 0 && len(callsTo(fn, mo1)) == 2 && len(callsTo(fn, gm)) == 0 {
			okRaw = true
		}
		for _, cl := range callsTo(fn, mt) {
			if b, ok := constBool(cl.Call.Args[2]); !ok || !b {
				okRaw = false
			}
		}
		c.Sites++
		c.check(okRaw, R, strings.TrimPrefix(name, "(*LState).")+":reads-the-real-metatable", p.pos(fn.Pos()), "handlers are looked up with metatable(v, true)", name+" looks a handler up through the __metatable-honouring accessor: for an operand whose metatable is protected the handler is searched in the __metatable value (or not found at all) — 1 + obj fails although obj + 1 works")
	}
	// metaOp2 tries value1 first
	if fn := c.need(R, "lua", "(*LState).metaOp2"); fn != nil {
		mt := p.Fn("lua", "(*LState).metatable")
		calls := callsTo(fn, mt)
		g := p.G(fn)
		if len(calls) == 0 {
			// … or two metaOp1 lookups, the left operand's first
			calls = callsTo(fn, p.Fn("lua", "(*LState).metaOp1"))
		}
		okc := len(calls) == 2 && vkey(calls[0].Call.Args[1]) == pkeyAt(paramsOfType(fn, "LValue"), 0) && vkey(calls[1].Call.Args[1]) == pkeyAt(paramsOfType(fn, "LValue"), 1) && (g.Dominates(calls[0], calls[1]))
		c.check(okc, R, "metaOp2:left-first", p.pos(fn.Pos()), "the left operand's metatable is consulted before the right one's", "metaOp2 does not try the left operand first")
	}
	// handler invocation: handler pushed first, operands in parameter order, one result
	lsCall := p.Fn("lua", "(*LState).Call")
	regPush := p.Fn("lua", "(*registry).Push")
	lsPush := p.Fn("lua", "(*LState).Push")
	for _, name := range []string{"objectArith", "objectRational", "(*LState).getField", "(*LState).getFieldString", "(*LState).setField", "(*LState).setFieldString", "(*LState).CallMeta", "(*LState).ObjLen", "(*LState).ToStringMeta"} {
		fn := c.need(R, "lua", name)
		if fn == nil {
			continue
		}
		for _, cl := range callsTo(fn, lsCall) {
			blk := cl.Block()
			var pushed []ssa.Value
			for _, in := range blk.Instrs {
				if in == ssa.Instruction(cl) {
					break
				}
				if isCallTo(in, regPush, lsPush) {
					pushed = append(pushed, in.(*ssa.Call).Call.Args[1])
				}
			}
			nargs, _ := constInt(cl.Call.Args[1])
			okc := int64(len(pushed)) == nargs+1
			// params among operands must be in increasing order
			last := -1
			for _, v := range pushed[min(1, len(pushed)):] {
				v = stripMI(v)
				for i, pm := range fn.Params {
					if v == ssa.Value(pm) {
						if i < last {
							okc = false
						}
						last = i
					}
				}
			}
			// first pushed value is not a parameter (it is the looked-up handler)
			if len(pushed) > 0 {
				if _, isP := stripMI(pushed[0]).(*ssa.Parameter); isP {
					okc = false
				}
			}
			c.check(okc, R, fmt.Sprintf("%s:handler-call#%d", name, countKey(c, R, "hc"+name)), p.ipos(cl), fmt.Sprintf("handler then %d operand(s) in source order", nargs), "the handler is not called with (handler, operands in source order) / the argument count does not match what was pushed")
		}
	}
}

// ruleSiblings: the string-keyed and the generic field accessors are siblings (Engler-style
// cross-check): the same lookups, stores, handler calls and raises in the same order.
func ruleSiblings(c *Ctx) {
	const R = "R04-siblings"
	c.floor(R, 2)
	p := c.P
	canon := func(fn *ssa.Function) []string {
		var out []string
		g := p.G(fn)
		for _, b := range fn.Blocks {
			if !g.Reach[b] {
				continue
			}
			for _, in := range b.Instrs {
				if !g.Live(in) {
					break
				}
				switch x := in.(type) {
				case *ssa.Call:
					sc := x.Call.StaticCallee()
					if sc == nil {
						continue
					}
					switch fname(sc) {
					case "(*LTable).RawGet", "(*LTable).RawGetString":
						out = append(out, "rawget")
					case "(*LState).RawSet", "(*LTable).RawSetString", "(*LTable).RawSet":
						out = append(out, "rawset")
					case "(*LState).metaOp1":
						ev, _ := constStr(x.Call.Args[2])
						out = append(out, "meta("+ev+")")
					case "(*registry).Push":
						out = append(out, "push")
					case "(*registry).Pop":
						out = append(out, "pop")
					case "(*LState).Call":
						a, _ := constInt(x.Call.Args[1])
						r, _ := constInt(x.Call.Args[2])
						out = append(out, fmt.Sprintf("call(%d,%d)", a, r))
					case "(*LState).RaiseError":
						out = append(out, "raise")
					}
				case *ssa.TypeAssert:
					out = append(out, "assert("+types.TypeString(x.AssertedType, func(*types.Package) string { return "" })+")")
				case *ssa.Return:
					out = append(out, "ret")
				}
			}
		}
		return out
	}
	for _, pair := range [][2]string{{"(*LState).getField", "(*LState).getFieldString"}, {"(*LState).setField", "(*LState).setFieldString"}} {
		a, b := c.need(R, "lua", pair[0]), c.need(R, "lua", pair[1])
		if a == nil || b == nil {
			continue
		}
		sa, sb := canon(a), canon(b)
		same := len(sa) == len(sb)
		diff := ""
		for i := 0; i < len(sa) && i < len(sb); i++ {
			if sa[i] != sb[i] {
				same = false
				if diff == "" {
					diff = fmt.Sprintf("step %d: %s vs %s", i+1, sa[i], sb[i])
				}
			}
		}
		if !same && diff == "" {
			diff = fmt.Sprintf("%d vs %d steps (%s | %s)", len(sa), len(sb), strings.Join(sa, " "), strings.Join(sb, " "))
		}
		c.check(same, R, pair[0]+"≡"+pair[1], p.pos(b.Pos()), fmt.Sprintf("both perform the same %d lookup/store/handler steps", len(sa)),
			"the generic and the string-keyed accessor no longer follow the same metamethod chain ("+diff+"): t[k] and t.name select different handlers")
	}
}

// caseValuesReachingAny: constants k such that an edge `x == k` (true) leads into b, for any x.
func caseValuesReachingAny(b *ssa.BasicBlock) []int64 {
	var out []int64
	for _, pr := range b.Preds {
		if len(pr.Instrs) == 0 {
			continue
		}
		iff, ok := pr.Instrs[len(pr.Instrs)-1].(*ssa.If)
		if !ok || pr.Succs[0] != b {
			continue
		}
		bin, ok := iff.Cond.(*ssa.BinOp)
		if !ok || bin.Op.String() != "==" {
			continue
		}
		if k, ok := constInt(bin.Y); ok {
			out = append(out, k)
		}
	}
	return out
}

func min(a, b int) int {
	if a < b {
		return a
	}
	return b
}

// ruleCallSelf: "__call: the handler is called with the object as first argument". Three entries into a
// call share the shape: (handler, meta) := metaCall(obj); if meta { insert obj in front of the arguments }.
// The go-inlined copies in the CALL/TAILCALL handlers and callR → pushCallFrame must all insert obj.
func ruleCallSelf(c *Ctx) {
	const R = "R04-callself"
	c.floor(R, 4)
	p := c.P
	metaCall := p.Fn("lua", "(*LState).metaCall")
	insert := p.Fn("lua", "(*registry).Insert")
	push := p.Fn("lua", "(*LState).pushCallFrame")
	if metaCall == nil || insert == nil || push == nil {
		c.und(R, "anchors", "-", "metaCall / registry.Insert / pushCallFrame not found")
		return
	}
	// the metaCall a boolean flag comes from
	var flagSource func(v ssa.Value, d int) *ssa.Call
	flagSource = func(v ssa.Value, d int) *ssa.Call {
		if d > 4 {
			return nil
		}
		switch x := v.(type) {
		case *ssa.Extract:
			if cl, ok := x.Tuple.(*ssa.Call); ok && cl.Call.StaticCallee() == metaCall && x.Index == 1 {
				return cl
			}
		case *ssa.Phi:
			for _, e := range x.Edges {
				if cl := flagSource(e, d+1); cl != nil {
					return cl
				}
			}
		}
		return nil
	}
	sameObj := func(v ssa.Value, mc *ssa.Call) bool {
		a, b := stripMI(v), stripMI(mc.Call.Args[1])
		return a == b || vkey(a) == vkey(b)
	}
	for _, fn := range p.srcFuncs {
		if fn.Pkg == nil || fn.Pkg.Pkg.Path() != luaPath {
			continue
		}
		var g *PCFG
		for _, cl := range callsTo(fn, insert) {
			if g == nil {
				g = p.G(fn)
			}
			for _, cd := range g.CondsAtInstr(cl) {
				if !cd.Sense {
					continue
				}
				if pm, ok := cd.V.(*ssa.Parameter); ok && fn == push {
					// pushCallFrame itself: inserts its LValue parameter under its bool parameter
					lvs := paramsOfType(fn, "LValue")
					c.Sites++
					c.check(len(lvs) == 1 && stripMI(cl.Call.Args[1]) == ssa.Value(lvs[0]) && types.Identical(pm.Type(), types.Typ[types.Bool]), R, "pushCallFrame:inserts-its-object-parameter", p.ipos(cl), "under the meta flag the object parameter is inserted in front of the arguments", "pushCallFrame inserts something other than the called object as the handler's first argument")
					continue
				}
				if mc := flagSource(cd.V, 0); mc != nil {
					c.Sites++
					c.check(sameObj(cl.Call.Args[1], mc), R, fname(fn)+":inserts-called-object", p.ipos(cl), "the __call handler's first argument is the operand metaCall was applied to", fname(fn)+" enters a __call handler with a first argument that is not the called object (the handler receives itself or another value): obj(...) behaves differently on this call path")
				}
			}
		}
		for _, cl := range callsTo(fn, push) {
			if mc := flagSource(cl.Call.Args[3], 0); mc != nil {
				c.Sites++
				c.check(sameObj(cl.Call.Args[2], mc), R, fname(fn)+":passes-called-object", p.ipos(cl), "pushCallFrame receives the operand metaCall was applied to", fname(fn)+" hands pushCallFrame a value other than the called object (for instance the resolved handler): on this path — pcall(obj), a callable generic-for iterator, the host API — a __call handler receives itself instead of the object")
			}
		}
		// exactly once: the object is put in front of the arguments either by an insertion under the
		// flag or by handing the flag to pushCallFrame — never both on one path (handler(obj, obj, …))
		if fn != push {
			var events []ssa.Instruction
			for _, cl := range callsTo(fn, insert) {
				if g == nil {
					g = p.G(fn)
				}
				for _, cd := range g.CondsAtInstr(cl) {
					if cd.Sense && flagSource(cd.V, 0) != nil {
						events = append(events, cl)
						break
					}
				}
			}
			for _, cl := range callsTo(fn, push) {
				if flagSource(cl.Call.Args[3], 0) != nil {
					events = append(events, cl)
				}
			}
			if len(events) > 0 {
				if g == nil {
					g = p.G(fn)
				}
				var first, second ssa.Instruction
				for _, e1 := range events {
					b, i := after(e1)
					g.walk(b, i, nil, func(in ssa.Instruction) bool {
						for _, e2 := range events {
							if in == e2 && first == nil {
								first, second = e1, e2
							}
						}
						return false
					})
				}
				c.Sites++
				pos := p.pos(fn.Pos())
				if second != nil {
					pos = p.ipos(second)
				}
				c.check(first == nil, R, fname(fn)+":object-inserted-once", pos, fmt.Sprintf("%d insertion sites, no path passes two of them", len(events)), fname(fn)+" puts the called object in front of the arguments twice on one path (an insertion under the __call flag is followed by pushCallFrame with the same flag): a __call handler that is a host function receives handler(obj, obj, args…) on this call path")
			}
		}
	}
}
