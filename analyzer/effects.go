package main

// effects.go — effect matchers shared by several properties: close-upvalues sites (called or
// go-inlined), registry writes and grow checks, call-frame pushes, emission sites in the compiler.

import (
	"go/ast"
	"go/token"
	"go/types"

	"golang.org/x/tools/go/ssa"
)

// ---------------------------------------------------------------------------------------------
// close-upvalues sites

type closeSite struct {
	Fn    *ssa.Function
	Head  ssa.Instruction // instruction every path through the site passes (the call, or the first uvcache load)
	Bound ssa.Value       // close everything with index >= Bound (nil: unknown)
	Kind  string          // "call:closeUpvalues" | "call:closeAllUpvalues" | "inlined" | "inlined-all"
}

// closeSites finds every place in fn that closes open up-values.
func (p *Prog) closeSites(fn *ssa.Function) []closeSite {
	var out []closeSite
	cu := p.Fn("lua", "(*LState).closeUpvalues")
	cau := p.Fn("lua", "(*LState).closeAllUpvalues")
	uvClose := p.Fn("lua", "(*Upvalue).Close")
	uvcache := p.Field("lua", "LState", "uvcache")
	idxF := p.Field("lua", "Upvalue", "index")
	g := p.G(fn)
	// loads of uvcache in this function
	var cacheLoads []ssa.Instruction
	allInstrs(fn, func(in ssa.Instruction) {
		if u, ok := in.(*ssa.UnOp); ok {
			if _, ok := loadsField(u, uvcache); ok {
				cacheLoads = append(cacheLoads, in)
			}
		}
	})
	seenHead := map[ssa.Instruction]bool{}
	allInstrs(fn, func(in ssa.Instruction) {
		if !g.Live(in) {
			return
		}
		switch {
		case isCallTo(in, cu):
			out = append(out, closeSite{Fn: fn, Head: in, Bound: in.(*ssa.Call).Call.Args[1], Kind: "call:closeUpvalues"})
		case isCallTo(in, cau):
			out = append(out, closeSite{Fn: fn, Head: in, Kind: "call:closeAllUpvalues"})
		case isCallTo(in, uvClose):
			// inlined loop: find the guarding `uv.index >= X`
			var bound ssa.Value
			for _, cd := range g.CondsAtInstr(in) {
				b, ok := cd.V.(*ssa.BinOp)
				if !ok {
					continue
				}
				if _, ok := loadsField(b.X, idxF); ok && ((b.Op == token.GEQ && cd.Sense) || (b.Op == token.LSS && !cd.Sense)) {
					bound = b.Y
					break
				}
			}
			// head: earliest uvcache load dominating the Close call
			var head ssa.Instruction
			for _, l := range cacheLoads {
				if g.Dominates(l, in) && (head == nil || g.Dominates(l, head)) {
					head = l
				}
			}
			if head == nil {
				return // Close() of a single upvalue (NewClosure) — not a close-upvalues site
			}
			if seenHead[head] {
				return
			}
			seenHead[head] = true
			out = append(out, closeSite{Fn: fn, Head: head, Bound: bound, Kind: "inlined"})
		}
	})
	return out
}

// ---------------------------------------------------------------------------------------------
// registry

func (p *Prog) regArrayField() *types.Var { return p.Field("lua", "registry", "array") }
func (p *Prog) regTopField() *types.Var   { return p.Field("lua", "registry", "top") }

var regWriteMethods = map[string]bool{"Set": true, "SetNumber": true, "SetTop": true, "Push": true, "Insert": true,
	"CopyRange": true, "FillNil": true, "Pop": true, "forceResize": true, "resize": true}

// isRegElemStore: store into an element of registry.array; returns the index value.
func (p *Prog) isRegElemStore(in ssa.Instruction) (*ssa.Store, ssa.Value, bool) {
	st, ok := in.(*ssa.Store)
	if !ok {
		return nil, nil, false
	}
	ia, ok := st.Addr.(*ssa.IndexAddr)
	if !ok {
		return nil, nil, false
	}
	if _, ok := loadsField(ia.X, p.regArrayField()); ok {
		return st, ia.Index, true
	}
	// nilRange := rg.array[a:b]; nilRange[i] = nil
	if sl, ok := stripConv(ia.X).(*ssa.Slice); ok {
		if _, ok := loadsField(sl.X, p.regArrayField()); ok {
			return st, ia.Index, true
		}
	}
	return nil, nil, false
}

// isRegWrite: any instruction that modifies the register file.
func (p *Prog) isRegWrite(in ssa.Instruction) bool {
	if _, _, ok := p.isRegElemStore(in); ok {
		return true
	}
	if _, ok := isFieldStore(in, p.regTopField()); ok {
		return true
	}
	if sc := staticCallee(in); sc != nil {
		if recvNamed(sc) == "registry" && regWriteMethods[sc.Name()] {
			return true
		}
		switch fname(sc) {
		case "(*LState).pushCallFrame", "(*LState).initCallFrame", "copyReturnValues", "(*LState).Push", "(*LState).SetTop",
			"(*LState).Insert", "(*LState).Remove", "(*LState).Replace", "(*LState).Pop", "(*LState).XMoveTo":
			return true
		}
	}
	return false
}

// ---------------------------------------------------------------------------------------------
// compiler emission sites

type emitSite struct {
	In   *ssa.Call
	Kind string // AddABC | AddABx | AddASbx | Add
	Ops  []int64
	Args []ssa.Value // after receiver
}

func (p *Prog) emitSites(fn *ssa.Function) []emitSite {
	var out []emitSite
	allInstrs(fn, func(in ssa.Instruction) {
		sc := staticCallee(in)
		if sc == nil || recvNamed(sc) != "codeStore" {
			return
		}
		switch sc.Name() {
		case "AddABC", "AddABx", "AddASbx":
			call := in.(*ssa.Call)
			out = append(out, emitSite{In: call, Kind: sc.Name(), Ops: constsOf(call.Call.Args[1]), Args: call.Call.Args[1:]})
		case "Add":
			call := in.(*ssa.Call)
			out = append(out, emitSite{In: call, Kind: "Add", Args: call.Call.Args[1:]})
		case "AddLoadNil":
			call := in.(*ssa.Call)
			if k, ok := p.intConst("lua", "OP_LOADNIL"); ok {
				out = append(out, emitSite{In: call, Kind: "AddLoadNil", Ops: []int64{k}, Args: call.Call.Args[1:]})
			}
		}
	})
	return out
}

func (e emitSite) emits(op int64) bool {
	for _, k := range e.Ops {
		if k == op {
			return true
		}
	}
	return false
}

func (p *Prog) op(name string) int64 {
	k, ok := p.intConst("lua", name)
	if !ok {
		return -1
	}
	return k
}

// callsTo lists the static calls of callee inside fn.
func callsTo(fn *ssa.Function, callee *ssa.Function) []*ssa.Call {
	var out []*ssa.Call
	if callee == nil {
		return nil
	}
	allInstrs(fn, func(in ssa.Instruction) {
		if isCallTo(in, callee) {
			out = append(out, in.(*ssa.Call))
		}
	})
	return out
}

// recoverCalls lists calls of the builtin recover in fn.
func recoverCalls(fn *ssa.Function) []*ssa.Call {
	var out []*ssa.Call
	allInstrs(fn, func(in ssa.Instruction) {
		if c, ok := in.(*ssa.Call); ok {
			if b, ok := c.Call.Value.(*ssa.Builtin); ok && b.Name() == "recover" {
				out = append(out, c)
			}
		}
	})
	return out
}

// condNonNil: conds contain `v != nil` (true) for the given value.
func condNonNil(conds []Cond, v ssa.Value) bool {
	for _, cd := range conds {
		b, ok := cd.V.(*ssa.BinOp)
		if !ok {
			continue
		}
		isNil := func(x ssa.Value) bool {
			c, ok := x.(*ssa.Const)
			return ok && c.Value == nil
		}
		if (b.X == v && isNil(b.Y)) || (b.Y == v && isNil(b.X)) {
			if (b.Op == token.NEQ && cd.Sense) || (neHolds(b, cd)) {
				return true
			}
		}
	}
	return false
}

// isNewHelper: a repository function the frozen baseline (baseline_funcs.txt) does not know — a helper
// some edit extracted. Where the source inliner could not put it back (normalize.go), presence rules
// look through it with reachesThroughNewHelpers.
func isNewHelper(fn *ssa.Function) bool {
	if fn == nil || fn.Pkg == nil || !repoPkg(fn.Pkg.Pkg.Path()) || fn.Parent() != nil {
		return false
	}
	fd, ok := fn.Syntax().(*ast.FuncDecl)
	if !ok {
		return false
	}
	k := declKey(fn.Pkg.Pkg.Path(), fd)
	return !baselineFuncs[k] && renamedTo[k] == ""
}

// reachesThroughNewHelpers: fn calls callee itself, or calls (to depth 3) a new helper that does.
func reachesThroughNewHelpers(fn *ssa.Function, callee *ssa.Function) bool {
	var rec func(f *ssa.Function, d int) bool
	rec = func(f *ssa.Function, d int) bool {
		if len(callsTo(f, callee)) > 0 {
			return true
		}
		if d >= 3 {
			return false
		}
		found := false
		allInstrs(f, func(in ssa.Instruction) {
			if sc := staticCallee(in); !found && sc != nil && sc != f && isNewHelper(sc) && rec(sc, d+1) {
				found = true
			}
		})
		return found
	}
	return callee != nil && rec(fn, 0)
}
