package main

import (
	"encoding/json"
	"flag"
	"fmt"
	"os"
	"path/filepath"
	"runtime/debug"
	"sort"
	"strconv"
	"strings"
	"time"

	"golang.org/x/tools/go/ssa"
)

var pcfgMemo = map[*ssa.Function]*PCFG{}

// G returns the memoised pruned CFG of fn (after the no-return set is final).
func (p *Prog) G(fn *ssa.Function) *PCFG {
	p.computeNoReturn()
	if g, ok := pcfgMemo[fn]; ok && g.P == p {
		return g
	}
	g := p.pruned(fn)
	pcfgMemo[fn] = g
	return g
}

func main() {
	prop := flag.String("prop", "", "property id (C01..C20) or 'all'")
	tier := flag.String("tier", "quick", "quick|thorough")
	repo := flag.String("repo", "/repo", "repository root")
	verif := flag.String("verif", "/verif", "verif root (evidence, known findings)")
	goos := flag.String("goos", "", "GOOS override")
	goarch := flag.String("goarch", "", "GOARCH override")
	list := flag.Bool("list", false, "list registered properties and rules")
	dumpKeys := flag.Bool("keys", false, "print all obligation keys with status")
	noEvidence := flag.Bool("no-evidence", false, "do not write evidence (used for variant/self-validation runs)")
	describe := flag.Bool("describe", false, "print the registered properties with their decided / not decided clauses as JSON")
	flag.BoolVar(&dumpFieldsMode, "dump-fields", false, "with -dump-funcs: print the struct fields of the repository packages (baseline_fields.txt) instead")
	flag.BoolVar(&dumpFuncsMode, "dump-funcs", false, "print the declared functions of the repository packages (baseline_funcs.txt) and exit")
	flag.Parse()

	if *describe {
		out := map[string]map[string]string{}
		for id, pi := range props {
			out[id] = map[string]string{"title": pi.Title, "explanation": pi.Explanation, "rules": fmt.Sprint(len(pi.Rules))}
		}
		b, _ := json.MarshalIndent(out, "", " ")
		fmt.Println(string(b))
		return
	}
	if *list {
		ids := sortedKeys(props)
		for _, id := range ids {
			fmt.Printf("%s %s\n", id, props[id].Title)
		}
		return
	}
	if t := os.Getenv("VERIF_TIER"); t != "" && *tier == "" {
		*tier = t
	}
	seed := int64(0)
	if s := os.Getenv("VERIF_SEED"); s != "" {
		seed, _ = strconv.ParseInt(s, 10, 64)
	}
	start := time.Now()
	if *prop == "all" {
		// variant / self-validation mode: one load, every property, verdict lines only
		code := 0
		func() {
			defer func() {
				if r := recover(); r != nil {
					fmt.Printf("CHECKER-BROKEN: analyser panic: %v\n%s\n", r, debug.Stack())
					code = 2
				}
			}()
			p, err := loadProg(*repo, *goos, *goarch)
			if err != nil {
				fmt.Printf("UNDECIDED: cannot load %s: %v\n", *repo, err)
				code = 2
				return
			}
			p.vmTable()
			for _, id := range sortedKeys(props) {
				func() {
					defer func() {
						if r := recover(); r != nil {
							fmt.Printf("CHECKER-BROKEN: %s: analyser panic: %v\n", id, r)
							code = 2
						}
					}()
					c := runRules(p, id, *tier, props[id].Rules)
					runControls(c)
					if rc := finishNoEvidence(c, *verif); rc > code {
						code = rc
					}
				}()
			}
		}()
		os.Exit(code)
	}
	pi := props[*prop]
	if pi == nil {
		fmt.Printf("CHECKER-BROKEN: unknown property %q\n", *prop)
		os.Exit(2)
	}
	code := 2
	func() {
		defer func() {
			if r := recover(); r != nil {
				fmt.Printf("CHECKER-BROKEN: analyser panic: %v\n%s\n", r, debug.Stack())
				code = 2
			}
		}()
		p, err := loadProg(*repo, *goos, *goarch)
		if err != nil {
			fmt.Printf("UNDECIDED: cannot load %s: %v\n", *repo, err)
			code = 2
			return
		}
		p.vmTable() // names the VM handlers by opcode before any key is built
		c := runRules(p, *prop, *tier, pi.Rules)
		runControls(c)
		var extra map[string]interface{}
		if *tier == "thorough" && !*noEvidence {
			extra = runThorough(c, *repo, *verif)
		}
		if *dumpKeys {
			keys := []string{}
			for _, o := range c.Obls {
				keys = append(keys, o.Status+"\t"+o.Key+"\t"+o.Pos+"\t"+o.Detail)
			}
			sort.Strings(keys)
			fmt.Println(strings.Join(keys, "\n"))
		}
		cmdline := "cd /verif && ./check " + *prop + " " + *tier
		if *noEvidence {
			code = finishNoEvidence(c, *verif)
			return
		}
		code = finish(c, *verif, start, seed, cmdline, extra)
	}()
	_ = filepath.Join
	os.Exit(code)
}

// finishNoEvidence prints verdict lines only (used by the self-validation driver on scratch copies).
func finishNoEvidence(c *Ctx, verifDir string) int {
	known, _ := loadKnown(filepath.Join(verifDir, "KNOWN_FINDINGS.txt"))
	ks := map[string]bool{}
	for _, k := range known {
		if k.Kind == "known" && k.Prop == c.Prop {
			ks[k.Key] = true
		}
	}
	for r, st := range c.Stats {
		if st.Instances < st.Floor {
			c.und(r, "floor", "-", fmt.Sprintf("rule matched %d instances, floor %d", st.Instances, st.Floor))
		}
	}
	v, u := 0, 0
	for _, o := range c.Obls {
		switch o.Status {
		case "violated":
			if ks[o.Key] {
				fmt.Printf("KNOWN-FINDING: property=%s %s\n", c.Prop, o.Key)
				continue
			}
			v++
			fmt.Printf("violation: %s at %s — %s\n", o.Key, o.Pos, o.Detail)
		case "undecided":
			u++
			fmt.Printf("UNDECIDED: %s at %s — %s\n", o.Key, o.Pos, o.Detail)
		}
	}
	fmt.Printf("%s: %d obligations, %d violated, %d undecided\n", c.Prop, len(c.Obls), v, u)
	if v > 0 {
		return 1
	}
	if u > 0 {
		return 2
	}
	return 0
}

// runRules runs a property's rules. When the tree declares helper functions the baseline does not know
// and the source inliner could not put back (normalize.go), an obligation that is not discharged is
// decided a second time under the virtual view (ssax.go, allInstrs: the helpers' bodies are read as part
// of the baseline functions that call them); it is reported only if it fails under both readings of the
// same program. On a tree without such helpers (today's) there is one run.
func runRules(p *Prog, id, tier string, rules []func(*Ctx)) *Ctx {
	virtualView = false
	c1 := newCtx(p, id, tier)
	for _, r := range rules {
		r(c1)
	}
	if !anyNewHelpers {
		return c1
	}
	open := false
	for _, o := range c1.Obls {
		if o.Status != "discharged" {
			open = true
		}
	}
	for _, st := range c1.Stats {
		if st.Instances < st.Floor {
			open = true
		}
	}
	if !open {
		return c1
	}
	c2 := newCtx(p, id, tier)
	func() {
		defer func() {
			virtualView = false
			if r := recover(); r != nil {
				c2 = nil
			}
		}()
		virtualView = true
		for _, r := range rules {
			r(c2)
		}
	}()
	if c2 == nil {
		return c1
	}
	good := map[string]Obl{}
	bad2 := map[string]bool{}
	for _, o := range c2.Obls {
		if o.Status == "discharged" {
			good[o.Key] = o
		} else {
			bad2[o.Key] = true
		}
	}
	for i, o := range c1.Obls {
		if o.Status != "discharged" {
			if g, ok := good[o.Key]; ok && !bad2[o.Key] {
				g.Detail += " (read with the bodies of new helper functions in place)"
				c1.Obls[i] = g
			}
		}
	}
	for rule, st2 := range c2.Stats {
		if st1 := c1.Stats[rule]; st1 != nil && st2.Instances > st1.Instances {
			st1.Instances = st2.Instances
		}
	}
	return c1
}
