package main

// C12 — limits surface as catchable errors; Options never change behaviour.

import (
	"fmt"
	"go/token"
	"go/types"
	"sort"
	"strings"

	"golang.org/x/tools/go/ssa"
)

func init() {
	register(&propInfo{
		ID:    "C12",
		Title: "Limits surface as catchable errors; below them Options never change behaviour",
		Explanation: "Decided: R12-isfull — for each call-frame stack implementation, IsFull() is true exactly in the state in which its own Push cannot accept a frame (atom-by-atom comparison of IsFull's returned conjunction with the path condition of Push's overflow exit / the bounds of its element store), and Push records Idx equal to the implementation's own Sp() expression; " +
			"R12-full — every callFrameStack.Push is dominated by an IsFull() test whose true arm raises a Lua error, or pushes the first frame of a fresh thread; R12-grow — every store to an element of registry.array is dominated in its function by a grow check against cap(array) that reaches resize (or is a shrink/pop store), resize raises through the handler when maxSize is exceeded, registryOverflow raises a Lua error, and raiseError forces one slot when the registry is full before pushing the message; " +
			"R12-loops — mainLoop and mainLoopWithContext perform the same sequence of effects apart from the context poll; R12-options — NewThread passes the parent's Options unchanged, newLState selects the stack implementation only from MinimizeStackMemory and sizes registry and stack from the Options fields. " +
			"R13-poolrelease shared — the segmented stack never uses a segment after handing it back to the pool (Pop/SetSp return frames of segments it still owns). R12-deadpush — when a coroutine dies, threadRun's recover arms empty its registry (SetTop(0)) before pushing the error value that is handed to the resumer: the registry may be full (the limit that killed it), and a second overflow inside the deferred function would skip the hand-over. R02-copies shared — the stand-alone frame/registry helpers (used when a coroutine starts) and their inlined copies (used by calls) have the same statements, so growth and nil-filling behave alike on every path. NOT decided: that behaviour below the limits is identical across configurations (segment arithmetic of SetSp/Pop/At, copy of the live prefix on resize) — run-time quantities.",
		Trusted: []string{"Go bounds checks make an element store at index i fail exactly when i >= len(slice)"},
		Rules:   []func(*Ctx){ruleCanHoldAgreesWithResize, ruleSetSpAdjustsBeforeFreeing, ruleHandlerFramesFromTheFailedCall, ruleInsertTopWithinCheckedCapacity, ruleRaiseGuardUnconditional, ruleSegmentsIndexedByOwnCursor, ruleXMoveAbsolute, ruleYieldRoomCoversPushes, ruleRaisedValueFits, ruleSegmentsCeil, ruleIsFull, ruleFull, ruleGrow, ruleLoops, ruleOptions, rulePoolRelease, ruleDeadThreadPush, ruleInlineCopies, ruleSegIdxWidth, ruleThreadCtx, ruleProtectedPreparation, ruleNestedCallDepth, ruleBulkWritesChecked, ruleYieldHandOver, ruleYieldRoomForOwnConvention, ruleResumeRoomChecked},
	})
}

// ikey: structural key of an integer expression with commutative + and * canonicalised.
func ikey(v ssa.Value) string {
	v = stripConv(v)
	if b, ok := v.(*ssa.BinOp); ok && (b.Op == token.ADD || b.Op == token.MUL) {
		parts := []string{ikey(b.X), ikey(b.Y)}
		sort.Strings(parts)
		return "(" + parts[0] + " " + b.Op.String() + " " + parts[1] + ")"
	}
	if b, ok := v.(*ssa.BinOp); ok {
		return "(" + ikey(b.X) + " " + b.Op.String() + " " + ikey(b.Y) + ")"
	}
	if c, ok := v.(*ssa.Call); ok {
		if bi, ok := c.Call.Value.(*ssa.Builtin); ok {
			var a []string
			for _, x := range c.Call.Args {
				a = append(a, ikey(x))
			}
			return bi.Name() + "(" + strings.Join(a, ",") + ")"
		}
	}
	return vkey(v)
}

type atom struct {
	L   string // lhs key
	Op  token.Token
	B   string // bound base key
	Off int64  // bound offset
}

func (a atom) String() string { return fmt.Sprintf("%s %s %s%+d", a.L, a.Op, a.B, a.Off) }

func negate(op token.Token) token.Token {
	switch op {
	case token.LSS:
		return token.GEQ
	case token.GEQ:
		return token.LSS
	case token.GTR:
		return token.LEQ
	case token.LEQ:
		return token.GTR
	case token.EQL:
		return token.NEQ
	case token.NEQ:
		return token.EQL
	}
	return op
}

func mkAtom(cd Cond) (atom, bool) {
	b, ok := cd.V.(*ssa.BinOp)
	if !ok {
		return atom{}, false
	}
	op := b.Op
	switch op {
	case token.LSS, token.GEQ, token.GTR, token.LEQ, token.EQL, token.NEQ:
	default:
		return atom{}, false
	}
	if !cd.Sense {
		op = negate(op)
	}
	a := atom{L: ikey(b.X), Op: op}
	y := stripConv(b.Y)
	if k, ok := constInt(y); ok {
		a.B, a.Off = "", k
		return a, true
	}
	if s, ok := y.(*ssa.BinOp); ok && (s.Op == token.SUB || s.Op == token.ADD) {
		if k, ok := constInt(s.Y); ok {
			a.B = ikey(s.X)
			a.Off = k
			if s.Op == token.SUB {
				a.Off = -k
			}
			return a, true
		}
	}
	a.B = ikey(y)
	return a, true
}

// truthAtoms: the conjunction under which a bool function returns true.
func truthAtoms(p *Prog, fn *ssa.Function) ([]atom, bool) {
	var ret *ssa.Return
	n := 0
	allInstrs(fn, func(in ssa.Instruction) {
		if r, ok := in.(*ssa.Return); ok {
			ret = r
			n++
		}
	})
	if n != 1 || len(ret.Results) != 1 {
		return nil, false
	}
	return truthAtomsOf(p, fn, ret.Results[0])
}

// truthAtomsOf: the conjunction under which the bool value v (a phi of a short-circuit && or a
// single comparison) is true.
func truthAtomsOf(p *Prog, fn *ssa.Function, v ssa.Value) ([]atom, bool) {
	conds, ok := truthCondsOf(p, fn, v)
	if !ok {
		return nil, false
	}
	var out []atom
	for _, cd := range conds {
		a, ok := mkAtom(cd)
		if !ok {
			return nil, false
		}
		out = append(out, a)
	}
	return out, true
}

// truthCondsOf: the same conjunction as truthAtomsOf, as the SSA conditions themselves.
func truthCondsOf(p *Prog, fn *ssa.Function, v ssa.Value) ([]Cond, bool) {
	g := p.G(fn)
	var conds []Cond
	if ph, ok := v.(*ssa.Phi); ok {
		nonFalse := 0
		for i, e := range ph.Edges {
			if b, isc := constBool(e); isc && !b {
				continue
			}
			nonFalse++
			conds = append(conds, g.CondsAt(ph.Block().Preds[i])...)
			if b, isc := constBool(e); isc && b {
				continue
			}
			conds = append(conds, Cond{V: e, Sense: true})
		}
		if nonFalse != 1 {
			return nil, false
		}
	} else {
		conds = append(conds, Cond{V: v, Sense: true})
	}
	return conds, true
}

func ruleIsFull(c *Ctx) {
	const R = "R12-isfull"
	c.floor(R, 4)
	p := c.P
	for _, impl := range []string{"fixedCallFrameStack", "autoGrowingCallFrameStack"} {
		isFull := c.need(R, "lua", "(*"+impl+").IsFull")
		push := c.need(R, "lua", "(*"+impl+").Push")
		spFn := c.need(R, "lua", "(*"+impl+").Sp")
		if isFull == nil || push == nil || spFn == nil {
			continue
		}
		full, ok := truthAtoms(p, isFull)
		if !ok {
			c.und(R, impl+":IsFull", p.pos(isFull.Pos()), "cannot reduce IsFull to a conjunction of comparisons")
			continue
		}
		// Push's overflow condition
		g := p.G(push)
		var over []atom
		var explicit ssa.Instruction
		allInstrs(push, func(in ssa.Instruction) {
			if _, ok := in.(*ssa.Panic); ok && g.Reach[in.Block()] {
				explicit = in
			}
		})
		if explicit != nil {
			for _, cd := range g.CondsAtInstr(explicit) {
				if a, ok := mkAtom(cd); ok {
					over = append(over, a)
				}
			}
		} else {
			// implicit: first element store  array[idx] = v  fails when idx >= len(array)
			allInstrs(push, func(in ssa.Instruction) {
				st, ok := in.(*ssa.Store)
				if !ok || len(over) > 0 {
					return
				}
				if ia, ok := st.Addr.(*ssa.IndexAddr); ok {
					if _, isSlice := ia.X.Type().Underlying().(*types.Slice); isSlice {
						over = append(over, atom{L: ikey(ia.Index), Op: token.GEQ, B: "len(" + ikey(ia.X) + ")"})
					}
				}
			})
		}
		if len(over) == 0 {
			c.und(R, impl+":Push", p.pos(push.Pos()), "cannot find Push's overflow condition")
			continue
		}
		// compare
		byL := map[string]atom{}
		for _, a := range full {
			byL[a.L] = a
		}
		okAll := len(full) == len(over)
		var why []string
		for _, o := range over {
			f, has := byL[o.L]
			if !has {
				okAll = false
				why = append(why, "IsFull does not test "+o.L)
				continue
			}
			sameOp := f.Op == o.Op || (f.Op == token.EQL && o.Op == token.GEQ) || (f.Op == token.GEQ && o.Op == token.EQL)
			if !sameOp || f.B != o.B || f.Off != o.Off {
				okAll = false
				why = append(why, fmt.Sprintf("Push overflows when [%s] but IsFull tests [%s]", o, f))
			}
		}
		c.check(okAll, R, impl+":IsFull≡Push-overflow", p.pos(isFull.Pos()),
			fmt.Sprintf("IsFull %v ≡ Push overflow %v", full, over),
			"IsFull disagrees with its own Push: "+strings.Join(why, "; ")+" — a stack overflow bypasses the 'stack overflow' Lua error and surfaces as a raw Go panic")
		// Push stores Idx = Sp()-expression
		idxF := p.Field("lua", "callFrame", "Idx")
		var spExpr string
		allInstrs(spFn, func(in ssa.Instruction) {
			if r, ok := in.(*ssa.Return); ok && len(r.Results) == 1 {
				spExpr = ikey(r.Results[0])
			}
		})
		okIdx := false
		got := ""
		allInstrs(push, func(in ssa.Instruction) {
			if st, ok := isFieldStore(in, idxF); ok {
				got = ikey(st.Val)
				if got == spExpr {
					okIdx = true
				}
			}
		})
		c.check(okIdx, R, impl+":Push.Idx=Sp()", p.pos(push.Pos()), "Push records Idx = "+shortKey(spExpr)+" (the implementation's own depth expression)",
			fmt.Sprintf("Push records Idx = %s but Sp() = %s: frame indices differ between stack implementations", shortKey(got), shortKey(spExpr)))
	}
}

func ruleFull(c *Ctx) {
	const R = "R12-full"
	c.floor(R, 4)
	p := c.P
	p.computeNoReturn()
	n := 0
	for _, fn := range p.srcFuncs {
		g := (*PCFG)(nil)
		allInstrs(fn, func(in ssa.Instruction) {
			tn, m := invokeName(in)
			if tn != "callFrameStack" || m != "Push" {
				return
			}
			if g == nil {
				g = p.G(fn)
			}
			if !g.Live(in) {
				return
			}
			n++
			c.touch(fn)
			c.Sites++
			recv := in.(*ssa.Call).Call.Value
			key := fmt.Sprintf("%s:Push#%d", fname(fn), countKey(c, R, fname(fn)))
			// guarded: conds contain IsFull() == false on the same stack expression
			guarded := false
			for _, cd := range g.CondsAtInstr(in) {
				call, ok := cd.V.(*ssa.Call)
				if !ok || cd.Sense {
					continue
				}
				if tn2, m2 := invokeName(call); tn2 == "callFrameStack" && m2 == "IsFull" && vkey(call.Call.Value) == vkey(recv) {
					// the true arm must raise: the If block's true successor is cut
					tb := cd.At.Succs[0]
					if g.Cut[tb] >= 0 || !g.Reach[tb] {
						guarded = true
					} else {
						// any path from tb reaching the Push?
						reaches := g.walk(tb, 0, nil, func(x ssa.Instruction) bool { return x == in })
						guarded = !reaches
					}
				}
			}
			if guarded {
				c.ok(R, key, p.ipos(in), "dominated by an IsFull() test whose true arm raises")
				return
			}
			// exempt: first frame of a fresh thread
			k := vkey(recv)
			fresh := strings.Contains(k, "call (*LState).NewThread(")
			if !fresh {
				for _, cd := range g.CondsAtInstr(in) {
					if call, ok := cd.V.(*ssa.Call); ok && !cd.Sense {
						if sc := call.Call.StaticCallee(); sc != nil && sc.Name() == "isStarted" {
							fresh = true
						}
					}
					// isStarted written in place: th.currentFrame == nil holds
					if b, ok := cd.V.(*ssa.BinOp); ok && eqHolds(b, cd) {
						cfF := p.Field("lua", "LState", "currentFrame")
						isNil := func(v ssa.Value) bool { k, ok := v.(*ssa.Const); return ok && k.IsNil() }
						if _, ok := loadsField(b.X, cfF); ok && isNil(b.Y) {
							fresh = true
						}
					}
				}
			}
			c.check(fresh, R, key, p.ipos(in), "first frame of a thread that has not started (empty stack)", "a call frame is pushed without an IsFull() test that raises: overflow reaches the stack implementation's raw panic / index error instead of a catchable 'stack overflow' error")
		})
	}
}

// growCheck: BinOp X > cap(rg.array) whose true arm calls resize.
func (p *Prog) isGrowCheck(in ssa.Instruction) bool {
	b, ok := in.(*ssa.BinOp)
	if !ok || (b.Op != token.GTR && b.Op != token.GEQ) {
		return false
	}
	call, ok := stripConv(b.Y).(*ssa.Call)
	if !ok {
		return false
	}
	bi, ok := call.Call.Value.(*ssa.Builtin)
	if !ok || bi.Name() != "cap" {
		return false
	}
	if _, ok := loadsField(call.Call.Args[0], p.regArrayField()); !ok {
		return false
	}
	// consumer If whose true arm calls resize
	for _, r := range *b.Referrers() {
		iff, ok := r.(*ssa.If)
		if !ok {
			continue
		}
		tb := iff.Block().Succs[0]
		for _, x := range tb.Instrs {
			if sc := staticCallee(x); sc != nil && recvNamed(sc) == "registry" && (sc.Name() == "resize" || sc.Name() == "forceResize") {
				return true
			}
		}
	}
	return false
}

var regGrowingMethods = map[string]bool{"Set": true, "SetNumber": true, "SetTop": true, "Push": true, "Insert": true, "CopyRange": true, "FillNil": true, "checkSize": true}

func ruleGrow(c *Ctx) {
	const R = "R12-grow"
	c.floor(R, 80)
	p := c.P
	p.computeNoReturn()
	for _, fn := range p.srcFuncs {
		if fn.Pkg == nil || fn.Pkg.Pkg.Path() != luaPath {
			continue
		}
		var g *PCFG
		var checks []ssa.Instruction
		allInstrs(fn, func(in ssa.Instruction) {
			st, idx, ok := p.isRegElemStore(in)
			if !ok {
				return
			}
			if g == nil {
				g = p.G(fn)
				allInstrs(fn, func(x ssa.Instruction) {
					if p.isGrowCheck(x) {
						checks = append(checks, x)
					} else if sc := staticCallee(x); sc != nil && recvNamed(sc) == "registry" && regGrowingMethods[sc.Name()] {
						checks = append(checks, x)
					}
				})
			}
			if !g.Live(in) {
				return
			}
			c.touch(fn)
			c.Sites++
			key := fmt.Sprintf("%s:store#%d", fname(fn), countKey(c, R, fname(fn)))
			// shrink stores: through a sub-slice of the array (nilRange) or value nil
			ia := st.Addr.(*ssa.IndexAddr)
			if _, isSub := stripConv(ia.X).(*ssa.Slice); isSub {
				c.okT(R, key, p.ipos(in), "store through a sub-slice of the live range (clearing on shrink)")
				return
			}
			if fname(fn) == "(*registry).Pop" {
				// index top-1 of an existing slot
				if b, ok := stripConv(idx).(*ssa.BinOp); ok && b.Op == token.SUB {
					if _, isTop := loadsField(b.X, p.regTopField()); isTop {
						c.okT(R, key, p.ipos(in), "Pop clears slot top-1, which exists")
						return
					}
				}
			}
			dom := false
			for _, ch := range checks {
				if g.Dominates(ch, in) {
					dom = true
				}
			}
			c.check(dom, R, key, p.ipos(in), "dominated by a grow check against cap(array) that reaches resize", "register store is not dominated by a registry grow check: a frame near the end of the registry writes past cap(array) and the process dies with an index-out-of-range panic instead of 'registry overflow'")
		})
	}
	// resize raises through the handler; registryOverflow raises
	if fn := c.need(R, "lua", "(*registry).resize"); fn != nil {
		g := p.G(fn)
		okc := false
		force := p.Fn("lua", "(*registry).forceResize")
		allInstrs(fn, func(in ssa.Instruction) {
			if tn, m := invokeName(in); tn == "registryHandler" && m == "registryOverflow" {
				// forceResize must not be reachable after it without re-test: overflow arm returns
				reaches := false
				b, i := after(in)
				g.walk(b, i, nil, func(x ssa.Instruction) bool {
					if isCallTo(x, force) {
						reaches = true
						return true
					}
					return false
				})
				okc = !reaches
			}
		})
		c.check(okc, R, "resize:overflow→handler", p.pos(fn.Pos()), "exceeding maxSize calls the overflow handler and does not grow", "resize no longer reports overflow through the handler (or grows past maxSize)")
		// the new size is clamped to maxSize
		maxF := p.Field("lua", "registry", "maxSize")
		clamp := false
		allInstrs(fn, func(in ssa.Instruction) {
			if b, ok := in.(*ssa.BinOp); ok && (b.Op == token.GTR || b.Op == token.GEQ || b.Op == token.LSS || b.Op == token.LEQ) {
				_, l := loadsField(b.X, maxF)
				_, r := loadsField(b.Y, maxF)
				if l || r {
					clamp = true
				}
			}
		})
		c.check(clamp, R, "resize:clamp-maxSize", p.pos(fn.Pos()), "the grown size is compared with maxSize", "resize ignores RegistryMaxSize")
	}
	if fn := c.need(R, "lua", "(*registry).resize"); fn != nil {
		// every candidate for the new size is maxSize or requiredSize + padding, so that the overflow
		// test (newSize < requiredSize) can only fire when requiredSize exceeds maxSize
		maxF := p.Field("lua", "registry", "maxSize")
		force := p.Fn("lua", "(*registry).forceResize")
		okc := false
		why := ""
		for _, cl := range callsTo(fn, force) {
			okc = true
			var cands []ssa.Value
			var collect func(v ssa.Value, d int)
			collect = func(v ssa.Value, d int) {
				if ph, ok := v.(*ssa.Phi); ok && d < 4 {
					for _, e := range ph.Edges {
						collect(e, d+1)
					}
					return
				}
				cands = append(cands, v)
			}
			collect(cl.Call.Args[1], 0)
			for _, cand := range cands {
				if _, isMax := loadsField(cand, maxF); isMax {
					continue
				}
				l := lin(cand)
				if len(fn.Params) > 1 && l.T["p:"+fn.Params[1].Name()] == 1 { // resize(requiredSize)
					continue
				}
				okc = false
				why = shortKey(vkey(cand))
			}
		}
		c.check(okc, R, "resize:grows-from-required", p.pos(fn.Pos()), "the new size is maxSize or requiredSize + padding", "resize derives the new size from "+why+" instead of the required size: a single operation that needs more than one grow step raises a spurious 'registry overflow' far below RegistryMaxSize (Options change the behaviour of a program within the limits)")
	}
	if fn := c.need(R, "lua", "(*LState).registryOverflow"); fn != nil {
		c.check(p.noret[fn], R, "registryOverflow:raises", p.pos(fn.Pos()), "raises a Lua error (never returns)", "registryOverflow can return: the store that needed the space proceeds out of range")
	}
	if fn := c.need(R, "lua", "(*LState).raiseError"); fn != nil {
		g := p.G(fn)
		regPush := p.Fn("lua", "(*registry).Push")
		isFull := p.Fn("lua", "(*registry).IsFull")
		force := p.Fn("lua", "(*registry).forceResize")
		okc := false
		for _, pu := range callsTo(fn, regPush) {
			for _, f := range callsTo(fn, force) {
				for _, cd := range g.CondsAtInstr(f) {
					if call, ok := cd.V.(*ssa.Call); ok && cd.Sense && call.Call.StaticCallee() == isFull && g.Dominates(call, pu) {
						okc = true
					}
				}
			}
		}
		c.check(okc, R, "raiseError:forced-slot", p.pos(fn.Pos()), "a full registry is force-grown by one slot before the message is pushed", "raiseError pushes its message into a full registry without forcing a slot: 'registry overflow' recurses into itself until the Go stack is exhausted (uncatchable)")
	}
}

// effectSeq lists calls and field stores of a function in block order with names normalised.
func effectSeq(p *Prog, fn *ssa.Function, drop func(ssa.Instruction) bool) []string {
	var out []string
	norm := func(s string) string { return strings.ReplaceAll(s, fname(fn)+".", "F.") }
	g := p.G(fn)
	for _, b := range fn.Blocks {
		if !g.Reach[b] {
			continue
		}
		for _, in := range b.Instrs {
			if !g.Live(in) {
				break
			}
			if drop != nil && drop(in) {
				continue
			}
			switch x := in.(type) {
			case *ssa.Call:
				out = append(out, norm(vkey(x)))
			case *ssa.Store:
				out = append(out, norm("store "+vkey(x.Addr)+" = "+vkey(x.Val)))
			case *ssa.Return:
				out = append(out, "return")
			}
		}
	}
	return out
}

func ruleLoops(c *Ctx) {
	const R = "R12-loops"
	c.floor(R, 1)
	p := c.P
	a := c.need(R, "lua", "mainLoop")
	b := c.need(R, "lua", "mainLoopWithContext")
	if a == nil || b == nil {
		return
	}
	ctxF := p.Field("lua", "LState", "ctx")
	drop := func(in ssa.Instruction) bool {
		call, ok := in.(*ssa.Call)
		if !ok {
			return false
		}
		k := vkey(call)
		if ctxF != nil && strings.Contains(k, ").ctx") {
			return true
		}
		if sc := call.Call.StaticCallee(); sc != nil && fname(sc) == "(*LState).RaiseError" {
			return true
		}
		return false
	}
	sa, sb := effectSeq(p, a, drop), effectSeq(p, b, drop)
	same := len(sa) == len(sb)
	diff := ""
	for i := 0; same && i < len(sa); i++ {
		if sa[i] != sb[i] {
			same = false
			diff = fmt.Sprintf("effect #%d differs: %s vs %s", i+1, shortKey(sa[i]), shortKey(sb[i]))
		}
	}
	if !same && diff == "" {
		diff = fmt.Sprintf("%d vs %d effects", len(sa), len(sb))
	}
	c.check(same, R, "mainLoop≡mainLoopWithContext", p.pos(b.Pos()), fmt.Sprintf("both loops perform the same %d effects apart from the context poll", len(sa)),
		"the context-aware loop is not the plain loop plus a poll: "+diff)
}

func ruleOptions(c *Ctx) {
	const R = "R12-options"
	c.floor(R, 4)
	p := c.P
	if fn := c.need(R, "lua", "(*LState).NewThread"); fn != nil {
		nls := p.Fn("lua", "newLState")
		optF := p.Field("lua", "LState", "Options")
		okc := false
		for _, cl := range callsTo(fn, nls) {
			if base, ok := loadsField(cl.Call.Args[0], optF); ok {
				if _, isRecv := base.(*ssa.Parameter); isRecv {
					okc = true
				}
			}
		}
		c.check(okc, R, "NewThread:inherits-Options", p.pos(fn.Pos()), "the child thread is created with the parent's Options", "coroutines are created with Options other than the parent's: limits differ inside coroutines")
	}
	if fn := c.need(R, "lua", "newLState"); fn != nil {
		g := p.G(fn)
		auto := p.Fn("lua", "newAutoGrowingCallFrameStack")
		fixed := p.Fn("lua", "newFixedCallFrameStack")
		newReg := p.Fn("lua", "newRegistry")
		fieldArg := func(v ssa.Value, name string) bool {
			v = stripConv(v)
			if f, ok := v.(*ssa.Field); ok {
				if fv := fieldOfVal(f); fv != nil && fv.Name() == name {
					return true
				}
			}
			if u, ok := v.(*ssa.UnOp); ok {
				if fa, ok := u.X.(*ssa.FieldAddr); ok {
					if fv := fieldOf(fa); fv != nil && fv.Name() == name {
						return true
					}
				}
			}
			return false
		}
		condMin := func(in ssa.Instruction, sense bool) bool {
			for _, cd := range g.CondsAtInstr(in) {
				if fieldArg(cd.V, "MinimizeStackMemory") && cd.Sense == sense {
					return true
				}
			}
			return false
		}
		ok1, ok2 := false, false
		for _, cl := range callsTo(fn, auto) {
			ok1 = condMin(cl, true) && fieldArg(cl.Call.Args[0], "CallStackSize")
		}
		for _, cl := range callsTo(fn, fixed) {
			ok2 = condMin(cl, false) && fieldArg(cl.Call.Args[0], "CallStackSize")
		}
		c.check(ok1 && ok2, R, "newLState:stack-selection", p.pos(fn.Pos()), "MinimizeStackMemory selects the implementation; both are sized by CallStackSize", "the two call-stack implementations are not selected by MinimizeStackMemory alone or are sized differently")
		ok3 := false
		// which parameter of newRegistry initialises which field (the parameter list may be in any order)
		growIdx, maxIdx := 2, 3
		if newReg != nil {
			gF, mF := p.Field("lua", "registry", "growBy"), p.Field("lua", "registry", "maxSize")
			allInstrs(newReg, func(in ssa.Instruction) {
				st, ok := in.(*ssa.Store)
				if !ok {
					return
				}
				fa, ok := st.Addr.(*ssa.FieldAddr)
				pm, isP := st.Val.(*ssa.Parameter)
				if !ok || !isP {
					return
				}
				for i, q := range newReg.Params {
					if q == pm && fieldOf(fa) == gF && gF != nil {
						growIdx = i
					}
					if q == pm && fieldOf(fa) == mF && mF != nil {
						maxIdx = i
					}
				}
			})
		}
		for _, cl := range callsTo(fn, newReg) {
			a := cl.Call.Args
			sizeOK := false
			for i := range a {
				if i != growIdx && i != maxIdx && fieldArg(a[i], "RegistrySize") {
					sizeOK = true
				}
			}
			ok3 = len(a) > growIdx && len(a) > maxIdx && sizeOK && fieldArg(a[growIdx], "RegistryGrowStep") && fieldArg(a[maxIdx], "RegistryMaxSize")
		}
		c.check(ok3, R, "newLState:registry-options", p.pos(fn.Pos()), "registry created from RegistrySize / RegistryGrowStep / RegistryMaxSize in that order", "registry options are not passed to newRegistry in the order (size, growBy, maxSize)")
	}
	if fn := c.need(R, "lua", "newRegistry"); fn != nil {
		// struct literal field order: array(make size), top 0, growBy, maxSize
		okc := true
		// each of the two fields is initialised from a parameter of its own (which one: checked at the caller,
		// newLState:registry-options, through the same correspondence)
		gF, mF := p.Field("lua", "registry", "growBy"), p.Field("lua", "registry", "maxSize")
		from := map[*types.Var]*ssa.Parameter{}
		allInstrs(fn, func(in ssa.Instruction) {
			st, ok := in.(*ssa.Store)
			if !ok {
				return
			}
			fa, ok := st.Addr.(*ssa.FieldAddr)
			if !ok {
				return
			}
			f := fieldOf(fa)
			if f == nil || (f != gF && f != mF) {
				return
			}
			pm, isP := st.Val.(*ssa.Parameter)
			if !isP {
				okc = false
				return
			}
			from[f] = pm
		})
		if from[gF] == nil || from[mF] == nil || from[gF] == from[mF] {
			okc = false
		}
		c.check(okc, R, "newRegistry:fields", p.pos(fn.Pos()), "growBy and maxSize are initialised from the matching parameters", "newRegistry swaps growBy / maxSize")
	}
	// fixed stack: array sized by the parameter; auto: ceil(maxSize/FramesPerSegment) segments
	if fn := c.need(R, "lua", "newFixedCallFrameStack"); fn != nil {
		okc := false
		allInstrs(fn, func(in ssa.Instruction) {
			if ms, ok := in.(*ssa.MakeSlice); ok {
				if _, isP := stripConv(ms.Len).(*ssa.Parameter); isP {
					okc = true
				}
			}
		})
		c.check(okc, R, "newFixedCallFrameStack:size", p.pos(fn.Pos()), "array length = requested size", "fixed call stack is not sized by its parameter")
	}
}

// ruleDeadThreadPush: threadRun's deferred recover pushes the error value on the dying thread before
// handing it to the resumer. If the thread died of a registry overflow that push overflows again —
// inside the deferred function — and the hand-over (CurrentThread, Parent, kill) never happens (F33).
// Every such push is therefore dominated by SetTop(0).
func ruleDeadThreadPush(c *Ctx) {
	const R = "R12-deadpush"
	c.floor(R, 1)
	p := c.P
	tr := c.need(R, "lua", "threadRun")
	if tr == nil {
		return
	}
	push := p.Fn("lua", "(*LState).Push")
	setTop := p.Fn("lua", "(*LState).SetTop")
	for _, an := range tr.AnonFuncs {
		if len(recoverCalls(an)) == 0 {
			continue
		}
		g := p.G(an)
		var clears []*ssa.Call
		for _, cl := range callsTo(an, setTop) {
			if k, ok := constInt(cl.Call.Args[1]); ok && k == 0 {
				clears = append(clears, cl)
			}
		}
		for i, cl := range callsTo(an, push) {
			c.Sites++
			okc := false
			for _, st := range clears {
				if vkey(st.Call.Args[0]) == vkey(cl.Call.Args[0]) && g.Dominates(st, cl) {
					okc = true
				}
			}
			c.check(okc, R, fmt.Sprintf("%s:push#%d", fname(an), i+1), p.ipos(cl), "the dead thread's registry is emptied before the error value is pushed", "threadRun's recover arm pushes the error value onto the dead thread's registers without emptying them first: a coroutine killed by 'registry overflow' overflows again inside the deferred function, the error is not handed over as (false, msg) and the coroutine stays the current thread")
		}
	}
}
