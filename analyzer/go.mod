// the module path lies under golang.org/x/tools so that normalize.go may import the source inliner
// golang.org/x/tools/internal/refactor/inline (as gopls, a separate module, does)
module golang.org/x/tools/verifanalyzer

go 1.23

require golang.org/x/tools v0.29.0

require (
	golang.org/x/mod v0.22.0 // indirect
	golang.org/x/sync v0.10.0 // indirect
)
