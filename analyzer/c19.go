package main

// C19 — io handles: closed-handle typestate, reader/writer reconciliation, open modes.

import (
	"fmt"
	"go/ast"
	"go/constant"
	"go/token"
	"go/types"
	"sort"
	"strings"

	"golang.org/x/tools/go/ssa"
)

func init() {
	register(&propInfo{
		ID:    "C19",
		Title: "io handles act as a byte sequence with one cursor under any read/write/seek",
		Explanation: "Decided: R19-closed (typestate) — in every function that handles an *lFile, each instruction that touches the underlying descriptor, reader, writer or process (a call on a value loaded from fp/reader/writer/pp/stdout, a store to one of those fields, AbandonReadBuffer, or a call of a helper that does so unguarded) is dominated by errorIfFileIsClosed on that same file (or by a raising test of .closed); exempt with reasons: constructors, the close transition itself, pure observers (Type, Name, nil-ness tests); " +
			"R19-reconcile — every path through fileWriteAux reaches AbandonReadBuffer before returning, fileSeek abandons the read buffer before fp.Seek, fileCloseAux flushes a buffered writer before closing, AbandonReadBuffer seeks back by exactly the buffered amount relative to the current position and replaces the reader; " +
			"R19-eofdata — the buffered read helpers report end-of-file only when they collected no bytes; R19-modes — ioOpenFile's mode switch equals the ISO C fopen table (flags per mode from the os package's constants for the analysed GOOS; 'r' not writable, 'w' not readable). " +
			"R19-buffers — flush gives the read-ahead back (so that a write after read+flush lands at the cursor), seek and setvbuf write buffered output out before they move the file or replace the buffer, lines are read by one helper that ends a line at the newline only and joins pieces longer than the buffer (bufio's ReadLine, which also strips a carriage return and splits long lines, is not called), io.output truncates like fopen(name, w), and a byte count handed to the reader is not negative. NOT decided: the byte-sequence model itself (what is read after which writes).",
		Trusted: []string{"ISO C fopen mode table (C11 7.21.5.3) written out in the checker"},
		Rules:   []func(*Ctx){ruleOnlyCloseCloses, ruleReadsAfterFlush, ruleWriteOneSink, ruleAbandonAlwaysReplacesTheReader, ruleOptionLists, ruleReadFormatByOneCharacter, ruleClosed, ruleReconcile, ruleEofData, ruleModes, ruleIoBuffers, ruleWriterWraps, ruleClosedFirst, ruleStdStreams, ruleReadBounded},
	})
}

var lfileTouchFields = map[string]bool{"fp": true, "reader": true, "writer": true, "pp": true, "stdout": true}

func isLFilePtr(t types.Type) bool {
	pt, ok := t.(*types.Pointer)
	if !ok {
		return false
	}
	nt, ok := pt.Elem().(*types.Named)
	return ok && nt.Obj().Name() == "lFile" && nt.Obj().Pkg() != nil && nt.Obj().Pkg().Path() == luaPath
}

type touch struct {
	In   ssa.Instruction
	File ssa.Value
	What string
}

// fileTouches lists the instructions of fn that touch an lFile's resources.
func (p *Prog) fileTouches(fn *ssa.Function, needs map[*ssa.Function]bool) []touch {
	var out []touch
	abandon := p.Fn("lua", "(*lFile).AbandonReadBuffer")
	isNilCmpOnly := func(v ssa.Value) bool {
		refs := v.Referrers()
		if refs == nil {
			return true
		}
		for _, r := range *refs {
			switch x := r.(type) {
			case *ssa.BinOp:
				// comparison with nil
				continue
			case *ssa.DebugRef:
				continue
			case *ssa.TypeAssert:
				// file.writer.(*bufio.Writer): the asserted value is a use; treat as touch via its users
				_ = x
				return false
			default:
				return false
			}
		}
		return true
	}
	allInstrs(fn, func(in ssa.Instruction) {
		switch x := in.(type) {
		case *ssa.UnOp:
			fa, ok := x.X.(*ssa.FieldAddr)
			if !ok || !isLFilePtr(fa.X.Type()) {
				return
			}
			f := fieldOf(fa)
			if f == nil || !lfileTouchFields[f.Name()] {
				return
			}
			if isNilCmpOnly(x) {
				return
			}
			out = append(out, touch{In: in, File: fa.X, What: "uses ." + f.Name()})
		case *ssa.Store:
			fa, ok := x.Addr.(*ssa.FieldAddr)
			if !ok || !isLFilePtr(fa.X.Type()) {
				return
			}
			f := fieldOf(fa)
			if f == nil || !lfileTouchFields[f.Name()] {
				return
			}
			if _, fresh := fa.X.(*ssa.Alloc); fresh {
				return // constructor
			}
			out = append(out, touch{In: in, File: fa.X, What: "assigns ." + f.Name()})
		case *ssa.Call:
			sc := x.Call.StaticCallee()
			if sc == nil {
				return
			}
			if sc == abandon {
				out = append(out, touch{In: in, File: x.Call.Args[0], What: "AbandonReadBuffer"})
				return
			}
			if needs[sc] {
				for _, a := range x.Call.Args {
					if isLFilePtr(a.Type()) {
						out = append(out, touch{In: in, File: a, What: "calls " + fname(sc)})
					}
				}
			}
		}
	})
	return out
}

// fileRoot: canonical key of an lFile value (parameter, checkFile result, ud.Value assertion…).
func fileRoot(v ssa.Value) string { return vkey(v) }

func ruleClosed(c *Ctx) {
	const R = "R19-closed"
	c.floor(R, 10)
	p := c.P
	p.computeNoReturn()
	// the guard helper may have been inlined into its callers: the rule then reads the test in place (below,
	// "raising test of .closed")
	guardFn := p.Fn("lua", "errorIfFileIsClosed")
	closedF := p.Field("lua", "lFile", "closed")
	if closedF == nil {
		c.und(R, "anchor:lFile.closed", "-", "field not found")
		return
	}
	// errorIfFileIsClosed itself: raises when .closed
	if guardFn != nil {
		g := p.G(guardFn)
		okg := false
		allInstrs(guardFn, func(in ssa.Instruction) {
			if iff, ok := in.(*ssa.If); ok {
				if _, ok := loadsField(iff.Cond, closedF); ok && g.Cut[iff.Block().Succs[0]] >= 0 {
					okg = true
				}
			}
		})
		c.check(okg, R, "errorIfFileIsClosed:raises", p.pos(guardFn.Pos()), "raises when file.closed", "errorIfFileIsClosed no longer raises for a closed file")
	}
	exempt := map[string]string{
		"newFile":                    "constructor of a fresh handle",
		"newProcess":                 "constructor of a fresh handle",
		"fileCloseAux":               "the close transition itself (a second close reaches fp.Close's own error and raises it)",
		"(*lFile).Type":              "observer: compares fp with nil only",
		"(*lFile).Name":              "observer: reads the stored name",
		"(*lFile).AbandonReadBuffer": "helper: callers are checked at their call sites",
		"fileToString":               "observer: reads .closed and Type()",
		"ioType":                     "observer: reads .closed",
		"fileIsWritable":             "observer: nil-ness of writer",
		"fileIsReadable":             "observer: nil-ness of reader",
		"errorIfFileIsClosed":        "the guard itself",
	}
	// functions that handle lFile values
	var fns []*ssa.Function
	for _, fn := range p.srcFuncs {
		if fn.Pkg == nil || fn.Pkg.Pkg.Path() != luaPath {
			continue
		}
		has := false
		for _, pm := range fn.Params {
			if isLFilePtr(pm.Type()) {
				has = true
			}
		}
		if !has {
			allInstrs(fn, func(in ssa.Instruction) {
				if v, ok := in.(ssa.Value); ok && isLFilePtr(v.Type()) {
					has = true
				}
			})
		}
		if has {
			fns = append(fns, fn)
		}
	}
	guardedAt := func(fn *ssa.Function, g *PCFG, t touch) bool {
		root := fileRoot(t.File)
		okd := false
		allInstrs(fn, func(in ssa.Instruction) {
			if okd || !g.Live(in) {
				return
			}
			if guardFn != nil && isCallTo(in, guardFn) {
				args := in.(*ssa.Call).Call.Args
				if len(args) == 2 && fileRoot(args[1]) == root && g.Dominates(in, t.In) {
					okd = true
				}
			}
		})
		if okd {
			return true
		}
		// raising test of .closed
		for _, cd := range g.CondsAtInstr(t.In) {
			if base, ok := loadsField(cd.V, closedF); ok && !cd.Sense && fileRoot(base) == root {
				return true
			}
		}
		return false
	}
	// summaries: needs[F] = F touches a file parameter without guarding it itself
	needs := map[*ssa.Function]bool{}
	for changed := true; changed; {
		changed = false
		for _, fn := range fns {
			if needs[fn] || exempt[fname(fn)] != "" {
				continue
			}
			g := p.G(fn)
			for _, t := range p.fileTouches(fn, needs) {
				if _, isParam := t.File.(*ssa.Parameter); !isParam || !g.Live(t.In) {
					continue
				}
				if !guardedAt(fn, g, t) {
					needs[fn] = true
					changed = true
					break
				}
			}
		}
	}
	// fileCloseAux etc. are exempt as callees too
	for _, fn := range fns {
		if exempt[fname(fn)] != "" {
			delete(needs, fn)
		}
	}
	for _, fn := range fns {
		name := fname(fn)
		if why, ok := exempt[name]; ok {
			c.okT(R, name+":exempt", p.pos(fn.Pos()), why)
			continue
		}
		c.touch(fn)
		g := p.G(fn)
		ts := p.fileTouches(fn, needs)
		bad := 0
		var first touch
		n := 0
		for _, t := range ts {
			if !g.Live(t.In) {
				continue
			}
			if _, isParam := t.File.(*ssa.Parameter); isParam && needs[fn] {
				continue // reported at the callers
			}
			n++
			c.Sites++
			if !guardedAt(fn, g, t) {
				if bad == 0 {
					first = t
				}
				bad++
			}
		}
		if n == 0 {
			continue
		}
		pos := p.pos(fn.Pos())
		if bad > 0 {
			pos = p.ipos(first.In)
		}
		c.check(bad == 0, R, name, pos, fmt.Sprintf("all %d touches of the handle's resources are dominated by the closed-file guard", n),
			fmt.Sprintf("%d of %d touches of the handle's resources (first: %s) are reachable on a closed handle: the operation does not raise 'file is closed' and works on the stale descriptor", bad, n, first.What))
	}
}

func ruleReconcile(c *Ctx) {
	const R = "R19-reconcile"
	c.floor(R, 5)
	p := c.P
	abandon := c.need(R, "lua", "(*lFile).AbandonReadBuffer")
	if abandon == nil {
		return
	}
	isAbandon := func(in ssa.Instruction) bool { return isCallTo(in, abandon) }
	isStd := func(in ssa.Instruction, pkg, name string) bool {
		pk, n, ok := stdCall(in)
		return ok && pk == pkg && n == name
	}
	if fn := c.need(R, "lua", "fileWriteAux"); fn != nil {
		g := p.G(fn)
		// from the first Write call, every path to a return passes AbandonReadBuffer
		var writes []ssa.Instruction
		allInstrs(fn, func(in ssa.Instruction) {
			if call, ok := in.(*ssa.Call); ok && call.Call.IsInvoke() && call.Call.Method.Name() == "Write" {
				writes = append(writes, in)
			}
		})
		okc := len(writes) > 0
		var hit ssa.Instruction
		for _, w := range writes {
			b, i := after(w)
			r, h := g.MustPassBefore(b, i, isAbandon, isReturn)
			if !r {
				okc, hit = false, h
			}
		}
		pos := p.pos(fn.Pos())
		if hit != nil {
			pos = p.ipos(hit)
		}
		c.check(okc, R, "fileWriteAux:abandon-after-write", pos, "every exit after a write abandons the read buffer (success and error exits)", "a write can return without abandoning the read buffer: a following read returns stale buffered bytes instead of what is at the cursor")
	}
	if fn := c.need(R, "lua", "fileSeek"); fn != nil {
		g := p.G(fn)
		okc := false
		n := 0
		allInstrs(fn, func(in ssa.Instruction) {
			if isStd(in, "os", "File.Seek") {
				n++
				dom := false
				allInstrs(fn, func(a ssa.Instruction) {
					if isAbandon(a) && g.Dominates(a, in) {
						dom = true
					}
				})
				okc = dom
			}
		})
		c.check(okc && n == 1, R, "fileSeek:abandon-before-seek", p.pos(fn.Pos()), "the read buffer is abandoned before the descriptor is repositioned", "fileSeek repositions the descriptor while buffered read-ahead is still pending: 'cur'-relative seeks and the returned offset are off by the buffered amount")
		// the reported offset is fp.Seek's result
		retOK := false
		allInstrs(fn, func(in ssa.Instruction) {
			if sc := staticCallee(in); sc != nil && fname(sc) == "(*LState).Push" {
				k := vkey(in.(*ssa.Call).Call.Args[1])
				if strings.Contains(k, "Seek(") && strings.Contains(k, "#0") {
					retOK = true
				}
			}
		})
		c.check(retOK, R, "fileSeek:returns-offset", p.pos(fn.Pos()), "seek returns the offset reported by the descriptor", "seek does not return the resulting offset")
	}
	if fn := c.need(R, "lua", "fileCloseAux"); fn != nil {
		g := p.G(fn)
		var flush, closeCall ssa.Instruction
		allInstrs(fn, func(in ssa.Instruction) {
			if isStd(in, "bufio", "Writer.Flush") {
				flush = in
			}
			if isStd(in, "os", "File.Close") {
				closeCall = in
			}
		})
		okc := false
		if flush != nil && closeCall != nil {
			// Flush is the first thing done once the writer is known to be a *bufio.Writer …
			conds := g.CondsAtInstr(flush)
			if len(conds) > 0 {
				if ex, ok := conds[0].V.(*ssa.Extract); ok && conds[0].Sense {
					if _, ok := ex.Tuple.(*ssa.TypeAssert); ok && conds[0].At.Succs[0] == flush.Block() {
						okc = true
					}
				}
			}
			// … and never happens after the descriptor was closed
			b, i := after(closeCall)
			if g.walk(b, i, nil, func(x ssa.Instruction) bool { return x == flush }) {
				okc = false
			}
			// Close is reachable from Flush (same call)
			b2, i2 := after(flush)
			if !g.walk(b2, i2, nil, func(x ssa.Instruction) bool { return x == closeCall }) {
				okc = false
			}
		}
		c.check(okc, R, "fileCloseAux:flush-before-close", p.pos(fn.Pos()), "a buffered writer is flushed before the descriptor is closed", "close does not flush a buffered writer first: buffered bytes are lost")
		// closed flag set on every path
		closedF := p.Field("lua", "lFile", "closed")
		okf, _ := g.MustPassBefore(fn.Blocks[0], 0, func(in ssa.Instruction) bool {
			st, ok := isFieldStore(in, closedF)
			if !ok {
				return false
			}
			b, isc := constBool(st.Val)
			return isc && b
		}, func(in ssa.Instruction) bool {
			// every release of an underlying resource: the descriptor, a pipe end, the child process
			if in == closeCall {
				return true
			}
			if pk, n, ok := stdCall(in); ok && ((pk == "os/exec" && strings.HasSuffix(n, "Wait")) || (pk == "io" && strings.HasSuffix(n, "Close"))) {
				return true
			}
			return false
		})
		c.check(okf, R, "fileCloseAux:marks-closed", p.pos(fn.Pos()), "the handle is marked closed before the descriptor is released", "a handle can be closed without being marked closed")
	}
	// AbandonReadBuffer: Seek(-Buffered(), io.SeekCurrent) then a fresh reader
	{
		fn := abandon
		g := p.G(fn)
		var seek *ssa.Call
		allInstrs(fn, func(in ssa.Instruction) {
			if isStd(in, "os", "File.Seek") {
				seek = in.(*ssa.Call)
			}
		})
		okc := false
		if seek != nil && len(seek.Call.Args) == 3 {
			off := vkey(seek.Call.Args[1])
			wh, okw := constInt(seek.Call.Args[2])
			okc = strings.HasPrefix(off, "-") && strings.Contains(off, "Buffered(") && okw && wh == 1
		}
		c.check(okc, R, "AbandonReadBuffer:seek-back", p.pos(fn.Pos()), "seeks by -reader.Buffered() relative to the current position", "AbandonReadBuffer does not move the descriptor back by exactly the buffered read-ahead")
		readerF := p.Field("lua", "lFile", "reader")
		okr := false
		allInstrs(fn, func(in ssa.Instruction) {
			if st, ok := isFieldStore(in, readerF); ok && seek != nil && g.Dominates(seek, in) {
				if call, ok := st.Val.(*ssa.Call); ok {
					if pk, n, ok := stdCall(call); ok && pk == "bufio" && strings.HasPrefix(n, "NewReader") {
						okr = true
					}
				}
			}
		})
		c.check(okr, R, "AbandonReadBuffer:fresh-reader", p.pos(fn.Pos()), "the stale reader is replaced after the seek", "the stale buffered reader is kept after the descriptor moved")
	}
}

// ruleEofData: the buffered read helpers report end-of-file only when no data was collected.
func ruleEofData(c *Ctx) {
	const R = "R19-eofdata"
	c.floor(R, 4)
	p := c.P
	for _, name := range []string{"readBufioLine", "readBufioSize"} {
		fn := c.need(R, "lua", name)
		if fn == nil {
			continue
		}
		okc := false
		whole := false
		n := 0
		allInstrs(fn, func(in ssa.Instruction) {
			r, ok := in.(*ssa.Return)
			if !ok || len(r.Results) != 3 {
				return
			}
			n++
			atoms, ok := truthAtomsOf(p, fn, r.Results[2])
			if !ok {
				return
			}
			for _, a := range atoms {
				if strings.HasPrefix(a.L, "len(") && a.Op == token.EQL && a.B == "" && a.Off == 0 {
					okc = true
				}
			}
			// ... and the bytes whose count is tested are the bytes handed back (not the last piece of them)
			conds, _ := truthCondsOf(p, fn, r.Results[2])
			bases := func(v ssa.Value) map[ssa.Value]bool {
				out := map[ssa.Value]bool{}
				seen := map[ssa.Value]bool{}
				var walk func(v ssa.Value)
				walk = func(v ssa.Value) {
					if seen[v] {
						return
					}
					seen[v] = true
					switch x := v.(type) {
					case *ssa.Phi:
						for _, e := range x.Edges {
							walk(e)
						}
					case *ssa.Slice:
						walk(x.X)
					default:
						out[v] = true
					}
				}
				walk(v)
				return out
			}
			counted := map[ssa.Value]bool{}
			for _, cd := range conds {
				b, isb := cd.V.(*ssa.BinOp)
				if !isb || !eqHolds(b, cd) {
					continue
				}
				if k, isk := constInt(b.Y); !isk || k != 0 {
					continue
				}
				if cl, isc := b.X.(*ssa.Call); isc {
					if bi, isbi := cl.Call.Value.(*ssa.Builtin); isbi && bi.Name() == "len" {
						for v := range bases(cl.Call.Args[0]) {
							counted[v] = true
						}
					}
				}
			}
			whole = true
			for v := range bases(r.Results[0]) {
				if !counted[v] {
					whole = false
				}
			}
		})
		c.check(whole, R, name+":eof-tests-the-bytes-handed-back", p.pos(fn.Pos()), "the slice whose emptiness makes the result end-of-file is the slice returned (up to trimming)", name+" decides end-of-file on the length of a piece of what it collected, not of the bytes it returns: a final line or block that ends exactly at a buffer boundary is consumed and reported as end-of-file")
		c.check(okc && n == 1, R, name+":eof-only-when-empty", p.pos(fn.Pos()), "the end-of-file result requires len(result) == 0", name+" can report end-of-file although it already collected bytes: a final chunk that ends exactly at a buffer boundary is dropped (read returns nil and the cursor has moved)")
	}
}

func ruleModes(c *Ctx) {
	const R = "R19-modes"
	c.floor(R, 12)
	p := c.P
	pk := p.Pkg("lua")
	osPkg := p.Pkgs["os"]
	if osPkg == nil {
		// find through imports
		for _, imp := range pk.Imports {
			if imp.PkgPath == "os" {
				osPkg = imp
			}
		}
	}
	if osPkg == nil {
		c.und(R, "anchor:os", "-", "package os not loaded")
		return
	}
	flag := func(n string) int64 {
		cst, ok := osPkg.Types.Scope().Lookup(n).(*types.Const)
		if !ok {
			return -1
		}
		v, _ := constant.Int64Val(constant.ToInt(cst.Val()))
		return v
	}
	rd, wr, rw, ap, cr, tr := flag("O_RDONLY"), flag("O_WRONLY"), flag("O_RDWR"), flag("O_APPEND"), flag("O_CREATE"), flag("O_TRUNC")
	want := map[string]int64{
		"r": rd, "rb": rd,
		"w": wr | tr | cr, "wb": wr | tr | cr,
		"a": wr | ap | cr, "ab": wr | ap | cr,
		"r+": rw, "rb+": rw,
		"w+": rw | tr | cr, "wb+": rw | tr | cr,
		"a+": rw | ap | cr, "ab+": rw | ap | cr,
	}
	notWritable := map[string]bool{"r": true, "rb": true}
	notReadable := map[string]bool{"w": true, "wb": true}
	var fd *ast.FuncDecl
	for _, f := range pk.Syntax {
		for _, d := range f.Decls {
			if x, ok := d.(*ast.FuncDecl); ok && x.Name.Name == "ioOpenFile" {
				fd = x
			}
		}
	}
	if fd == nil {
		c.und(R, "anchor:ioOpenFile", "-", "function not found")
		return
	}
	got := map[string]int64{}
	gotW, gotR := map[string]string{}, map[string]string{}
	var sw *ast.SwitchStmt
	ast.Inspect(fd, func(n ast.Node) bool {
		if s, ok := n.(*ast.SwitchStmt); ok && sw == nil {
			sw = s
		}
		return true
	})
	if sw == nil {
		// the switch may have been moved into a helper the baseline does not know (ioOpenFlags(option)):
		// read it there
		ast.Inspect(fd, func(n ast.Node) bool {
			ce, ok := n.(*ast.CallExpr)
			if !ok || sw != nil {
				return true
			}
			id, ok := ce.Fun.(*ast.Ident)
			if !ok {
				return true
			}
			for _, f := range pk.Syntax {
				for _, d := range f.Decls {
					if x, ok := d.(*ast.FuncDecl); ok && x.Recv == nil && x.Name.Name == id.Name && x.Body != nil && !baselineFuncs[declKey(pk.PkgPath, x)] {
						ast.Inspect(x, func(m ast.Node) bool {
							if s, ok := m.(*ast.SwitchStmt); ok && sw == nil {
								sw = s
							}
							return true
						})
					}
				}
			}
			return true
		})
	}
	if sw == nil {
		c.und(R, "ioOpenFile:switch", p.pos(fd.Pos()), "mode switch not found")
		return
	}
	for _, st := range sw.Body.List {
		cc, ok := st.(*ast.CaseClause)
		if !ok {
			continue
		}
		var labels []string
		for _, e := range cc.List {
			if tv, ok := pk.TypesInfo.Types[e]; ok && tv.Value != nil && tv.Value.Kind() == constant.String {
				labels = append(labels, constant.StringVal(tv.Value))
			}
		}
		for _, b := range cc.Body {
			as, ok := b.(*ast.AssignStmt)
			if !ok || len(as.Lhs) != 1 || len(as.Rhs) != 1 {
				continue
			}
			id, ok := as.Lhs[0].(*ast.Ident)
			if !ok {
				continue
			}
			tv := pk.TypesInfo.Types[as.Rhs[0]]
			for _, l := range labels {
				switch id.Name {
				case "mode":
					if tv.Value != nil {
						v, _ := constant.Int64Val(constant.ToInt(tv.Value))
						got[l] = v
					} else {
						got[l] = -2
					}
				case "writable":
					gotW[l] = types.ExprString(as.Rhs[0])
				case "readable":
					gotR[l] = types.ExprString(as.Rhs[0])
				}
			}
		}
	}
	modes := make([]string, 0, len(want))
	for m := range want {
		modes = append(modes, m)
	}
	sort.Strings(modes)
	for _, m := range modes {
		g, has := got[m]
		if !has {
			c.bad(R, "mode:"+m, p.pos(sw.Pos()), "fopen mode \""+m+"\" has no case in ioOpenFile")
			continue
		}
		c.check(g == want[m], R, "mode:"+m, p.pos(sw.Pos()), fmt.Sprintf("flags %#x as ISO C prescribes", g), fmt.Sprintf("mode %q opens with flags %#x, ISO C fopen prescribes %#x (RDONLY/WRONLY/RDWR, APPEND, CREATE, TRUNC)", m, g, want[m]))
		if notWritable[m] {
			c.check(gotW[m] == "false", R, "mode:"+m+":not-writable", p.pos(sw.Pos()), "read mode has no writer", "a file opened for reading only gets a writer")
		} else {
			c.check(gotW[m] == "", R, "mode:"+m+":writable", p.pos(sw.Pos()), "has a writer", "a writable mode is marked not writable")
		}
		if notReadable[m] {
			c.check(gotR[m] == "false", R, "mode:"+m+":not-readable", p.pos(sw.Pos()), "write mode has no reader", "a file opened for writing only gets a reader")
		} else if strings.Contains(m, "+") || strings.HasPrefix(m, "r") {
			c.check(gotR[m] == "", R, "mode:"+m+":readable", p.pos(sw.Pos()), "has a reader", "a readable mode is marked not readable")
		}
	}
	// defaults before the switch: writable/readable true
}

// ruleIoBuffers: F63–F69.
func ruleIoBuffers(c *Ctx) {
	const R = "R19-buffers"
	c.floor(R, 6)
	p := c.P
	abandon := p.Fn("lua", "(*lFile).AbandonReadBuffer")
	writerF := p.Field("lua", "lFile", "writer")
	isFlush := func(in ssa.Instruction) bool {
		pk, n, ok := stdCall(in)
		return ok && pk == "bufio" && n == "Writer.Flush"
	}
	// flush: every normal return passes AbandonReadBuffer
	if fn := c.need(R, "lua", "fileFlushAux"); fn != nil && abandon != nil {
		n := len(callsTo(fn, abandon))
		if n > 0 {
			// …on every path to the successful return (the one that answers with a single value)
			g := p.G(fn)
			okAll, _ := g.MustPassBefore(fn.Blocks[0], 0, func(in ssa.Instruction) bool { return isCallTo(in, abandon) }, func(in ssa.Instruction) bool {
				ret, ok := in.(*ssa.Return)
				if !ok || len(ret.Results) != 1 {
					return false
				}
				k, isK := constInt(ret.Results[0])
				return isK && k == 1
			})
			if !okAll {
				n = 0
			}
		}
		c.check(n > 0, R, "fileFlushAux:gives-read-ahead-back", p.pos(fn.Pos()), "flush abandons the read buffer", "flush does not give the read-ahead back: after read(2); flush() on an r+ handle a write lands behind what was read ahead (at the end of a short file) instead of at offset 2")
	}
	// seek: Flush precedes the file seek
	if fn := c.need(R, "lua", "fileSeek"); fn != nil {
		g := p.G(fn)
		okc := false
		allInstrs(fn, func(in ssa.Instruction) {
			if pk, n, ok := stdCall(in); ok && pk == "os" && n == "File.Seek" {
				allInstrs(fn, func(f ssa.Instruction) {
					if isFlush(f) {
						b, i := after(f)
						if g.walk(b, i, nil, func(x ssa.Instruction) bool { return x == in }) {
							okc = true
						}
					}
				})
			}
		})
		c.check(okc, R, "fileSeek:flushes-buffered-output-first", p.pos(fn.Pos()), "a buffered writer is flushed before the file is repositioned", "seek does not flush a buffered writer: setvbuf('full'); write('abc'); seek('set', 0); write('X') leaves 'abcX' instead of 'Xbc'")
	}
	// setvbuf: Flush dominates every replacement of the writer
	if fn := c.need(R, "lua", "fileSetVBuf"); fn != nil {
		g := p.G(fn)
		var flushes []ssa.Instruction
		allInstrs(fn, func(in ssa.Instruction) {
			if isFlush(in) {
				flushes = append(flushes, in)
			}
		})
		okc, n := true, 0
		allInstrs(fn, func(in ssa.Instruction) {
			if _, ok := isFieldStore(in, writerF); ok {
				n++
				reached := false
				for _, f := range flushes {
					b, i := after(f)
					if g.walk(b, i, nil, func(x ssa.Instruction) bool { return x == in }) {
						reached = true
					}
				}
				// and no path from entry to the store avoids the flush test
				if !reached {
					okc = false
				}
			}
		})
		c.check(n > 0 && okc && len(flushes) > 0, R, "fileSetVBuf:flushes-the-buffer-it-replaces", p.pos(fn.Pos()), "the old writer is flushed before it is replaced", "setvbuf replaces a buffered writer without flushing it: output written since the last flush is lost")
	}
	ruleOneLineReader(c)
	// io.output truncates
	if fn := c.need(R, "lua", "ioOutput"); fn != nil {
		nf := p.Fn("lua", "newFile")
		okc := false
		for _, cl := range callsTo(fn, nf) {
			if k, ok := constInt(cl.Call.Args[3]); ok && k&int64(0x200) != 0 && k&int64(0x40) != 0 && k&3 == 1 { // O_TRUNC, O_CREATE, O_WRONLY (linux)
				okc = true
			}
		}
		if p.GOOS != "linux" && p.GOOS != "" {
			okc = true // flag values differ; decided on linux
		}
		c.check(okc, R, "ioOutput:opens-like-fopen-w", p.pos(fn.Pos()), "O_WRONLY|O_CREATE|O_TRUNC", "io.output(name) opens the file without O_TRUNC: writing 'X' over 'hello world' leaves 'Xello world'")
	}
	// byte count not negative
	if fn := c.need(R, "lua", "fileReadAux"); fn != nil {
		g := p.G(fn)
		rs := p.Fn("lua", "readBufioSize")
		okc := len(callsTo(fn, rs)) > 0
		for _, cl := range callsTo(fn, rs) {
			_, lo, _, hasLo := bounds(g, cl, cl.Call.Args[1])
			if !hasLo || lo < 0 {
				okc = false
			}
		}
		c.check(okc, R, "fileReadAux:count-not-negative", p.pos(fn.Pos()), "the byte count is tested against 0 before the buffer is made", "read(n) hands a negative count to readBufioSize: make([]byte, n) panics ('makeslice: len out of range')")
	}
}

// ruleOneLineReader: only readBufioLine reads lines, and not through bufio's ReadLine (which strips a
// carriage return and returns a line longer than its buffer in pieces). Shared by the io library (C19)
// and LoadFile's skipping of a first '#' line (C08: a 5000-byte #-line must be skipped whole; C17).
func ruleOneLineReader(c *Ctx) {
	const R = "R19-buffers"
	p := c.P
	okLines := true
	who := ""
	for _, fn := range p.srcFuncs {
		if fn.Pkg == nil || fn.Pkg.Pkg.Path() != luaPath {
			continue
		}
		allInstrs(fn, func(in ssa.Instruction) {
			pk, n, ok := stdCall(in)
			if !ok || pk != "bufio" {
				return
			}
			if n == "Reader.ReadLine" || ((n == "Reader.ReadSlice" || n == "Reader.ReadBytes" || n == "Reader.ReadString") && fname(fn) != "readBufioLine") {
				okLines = false
				who = fname(fn) + " calls bufio." + n
			}
		})
	}
	c.check(okLines, R, "lines:one-reader-ending-at-newline-only", "-", "only readBufioLine reads lines, and not through bufio's ReadLine", who+": bufio.Reader.ReadLine strips a carriage return before the newline and returns lines longer than its buffer in pieces; the line functions must go through readBufioLine (read('*l') of 'ab\\r\\n' is 'ab\\r'; a 5000-byte line is one line)")
}
