package main

// C14 — Lua patterns: exhaustiveness, panic typing, recursion cap, progress, read-only subject.

import (
	"fmt"
	"go/constant"
	"go/token"
	"go/types"
	"sort"
	"strings"

	"golang.org/x/tools/go/ssa"
)

func init() {
	register(&propInfo{
		ID:    "C14",
		Title: "Lua patterns match as the 5.1 matcher does; bad patterns are errors, not crashes",
		Explanation: "Decided: R14-exhaust — every pattern-VM opcode constant is a case of recursiveVM's dispatch, every pattern node type parsePattern constructs is a case of compilePattern's type switch, and every repeat kind the parser produces has a compile arm (this is what makes the trailing 'should not reach here' unreachable); " +
			"R14-panics — every explicit panic in package pm carries *pm.Error (Find re-panics anything else), the one raw panic is the exhaustiveness sentinel, and every pm.Find call site in the string library raises its error result; R14-depth — recursiveVM increments its level, tests it against maxRecursionLevel with a raising arm before any recursive call, and every recursive call passes the incremented level; " +
			"R14-progress — Find's scan position strictly increases on every iteration of its loop; R14-readonly — nothing reachable from Find writes through the subject slice (which aliases the Lua string's bytes through unsafeFastStringToReadOnlyBytes), and that unsafe view is only ever handed to pm.Find or io.Writer.Write. " +
			"R14-bytes — no function of package pm calls a rune-aware API (character classes are C-locale byte classes). R14-repl — the replacement-string scanner's one-character lookahead (the %% escape) is guarded by exactly 'the next position exists': neither unguarded (index panic) nor stricter (an escape at the very end of the replacement is left undecoded). R14-index — the matcher's back-reference instruction slices the subject only under lo <= hi <= len(src), and the gmatch iterator indexes its match list only under a length test; R10-retcount shared — a library function does not drop a result it pushed (string.match returns nil, one value, when nothing matches). NOT decided: match extents, captures, gsub assembly; run-time slice/index panics inside the matcher (e.g. a back-reference to a still-open capture).",
		Trusted: []string{"io.Writer.Write does not modify its argument (io.Writer contract)"},
		Rules:   []func(*Ctx){ruleRangeBySignedComparisons, ruleNestingCapMeansDeepestAccepted, ruleGsubTableLooksUpLikeLua, ruleParserRecursionCapped, ruleNoSentinelDefaults, ruleRecursionCapFitsTheStack, ruleGsubAnswersAString, ruleOptionalNilAlike, ruleExhaust, rulePmPanics, ruleDepth, ruleProgress, ruleReadonly, rulePmBytes, ruleFlagLookahead, ruleMatchIndexing, ruleRetCount, ruleCaptureIndex, rulePatternSets, ruleRangeEndInsideSet, ruleSearchStartClamped, ruleGsubFalseKeepsMatch},
	})
}

func ruleExhaust(c *Ctx) {
	const R = "R14-exhaust"
	c.floor(R, 16)
	p := c.P
	vm := c.need(R, "pm", "recursiveVM")
	cp := c.need(R, "pm", "compilePattern")
	pp := c.need(R, "pm", "parsePattern")
	if vm == nil || cp == nil || pp == nil {
		return
	}
	pk := p.Pkg("pm")
	opT := p.Obj("pm", "opCode")
	ops := map[int64]string{}
	for _, n := range pk.Types.Scope().Names() {
		if cst, ok := pk.Types.Scope().Lookup(n).(*types.Const); ok && opT != nil && types.Identical(cst.Type(), opT.Type()) {
			v, _ := constant.Int64Val(constant.ToInt(cst.Val()))
			ops[v] = n
		}
	}
	handled := map[int64]bool{}
	opF := p.Field("pm", "inst", "OpCode")
	allInstrs(vm, func(in ssa.Instruction) {
		b, ok := in.(*ssa.BinOp)
		if !ok || b.Op != token.EQL {
			return
		}
		x := stripConv(b.X)
		isOp := false
		if f, ok := x.(*ssa.Field); ok && fieldOfVal(f) == opF {
			isOp = true
		}
		if _, ok := loadsField(x, opF); ok {
			isOp = true
		}
		if isOp {
			if k, ok := constInt(b.Y); ok {
				handled[k] = true
			}
		}
	})
	vals := []int{}
	for v := range ops {
		vals = append(vals, int(v))
	}
	sort.Ints(vals)
	for _, v := range vals {
		c.check(handled[int64(v)], R, "vm-case:"+ops[int64(v)], p.pos(vm.Pos()), "has a case in recursiveVM", "pattern opcode "+ops[int64(v)]+" has no case in recursiveVM: executing it reaches panic(\"should not reach here\"), which Find re-panics out of string.find/match/gsub")
	}
	// node types constructed by the parser
	built := map[string]bool{}
	for _, fn := range []*ssa.Function{pp, p.Fn("pm", "parseClass"), p.Fn("pm", "parseClassSet")} {
		if fn == nil {
			continue
		}
		allInstrs(fn, func(in ssa.Instruction) {
			mi, ok := in.(*ssa.MakeInterface)
			if !ok {
				return
			}
			if nt, ok := mi.Type().(*types.Named); !ok || nt.Obj().Name() != "pattern" {
				return
			}
			if pt, ok := mi.X.Type().(*types.Pointer); ok {
				if nt, ok := pt.Elem().(*types.Named); ok {
					built[nt.Obj().Name()] = true
				}
			}
		})
	}
	// Find passes parsePattern's *seqPattern result to compilePattern
	built["seqPattern"] = true
	cased := map[string]bool{}
	allInstrs(cp, func(in ssa.Instruction) {
		if ta, ok := in.(*ssa.TypeAssert); ok && ta.CommaOk {
			if pt, ok := ta.AssertedType.(*types.Pointer); ok {
				if nt, ok := pt.Elem().(*types.Named); ok {
					cased[nt.Obj().Name()] = true
				}
			}
		}
	})
	for _, n := range sortedKeys(built) {
		c.check(cased[n], R, "compile-case:"+n, p.pos(cp.Pos()), "has a case in compilePattern", "pattern node "+n+" is produced by the parser but compilePattern has no case for it: that construct silently matches nothing")
	}
	// repeat kinds
	typeF := p.Field("pm", "repeatPattern", "Type")
	kinds := map[int64]bool{}
	allInstrs(cp, func(in ssa.Instruction) {
		if b, ok := in.(*ssa.BinOp); ok && b.Op == token.EQL {
			if _, ok := loadsField(b.X, typeF); ok {
				if k, ok := constInt(b.Y); ok {
					kinds[k] = true
				}
			}
		}
	})
	for _, ch := range []int64{'*', '+', '-', '?'} {
		c.check(kinds[ch], R, fmt.Sprintf("repeat-kind:%c", rune(ch)), p.pos(cp.Pos()), "compiled", fmt.Sprintf("the quantifier %c has no arm in compilePattern", rune(ch)))
	}
}

func rulePmPanics(c *Ctx) {
	const R = "R14-panics"
	c.floor(R, 10)
	p := c.P
	p.computeNoReturn()
	sp := p.SPkg("pm")
	if sp == nil {
		c.und(R, "anchor:pm", "-", "package not loaded")
		return
	}
	newErr := p.Fn("pm", "newError")
	raw := 0
	for _, fn := range p.srcFuncs {
		if fn.Pkg != sp {
			continue
		}
		allInstrs(fn, func(in ssa.Instruction) {
			pn, ok := in.(*ssa.Panic)
			if !ok {
				return
			}
			c.touch(fn)
			c.Sites++
			key := fmt.Sprintf("%s:panic#%d", fname(fn), countKey(c, R, fname(fn)))
			v := stripMI(pn.X)
			if call, ok := v.(*ssa.Call); ok && call.Call.StaticCallee() == newErr {
				c.ok(R, key, p.ipos(in), "panics with *pm.Error (converted to a Lua error by Find's callers)")
				return
			}
			if fname(fn) == "Find$1" {
				c.okT(R, key, p.ipos(in), "Find's re-panic of foreign values")
				return
			}
			if cst, ok := v.(*ssa.Const); ok && cst.Value != nil && cst.Value.Kind() == constant.String && fname(fn) == "recursiveVM" {
				raw++
				c.check(raw == 1, R, key, p.ipos(in), "the exhaustiveness sentinel (unreachable by R14-exhaust)", "a second raw panic in recursiveVM")
				return
			}
			c.bad(R, key, p.ipos(in), "package pm panics with a value that is not *pm.Error: Find re-panics it and the Go panic escapes string.find/match/gmatch/gsub")
		})
	}
	// Find: recover converts *Error into the error result
	if fn := c.need(R, "pm", "Find"); fn != nil {
		okc := false
		withClosures(fn, func(f *ssa.Function) {
			if len(recoverCalls(f)) > 0 {
				allInstrs(f, func(in ssa.Instruction) {
					if ta, ok := in.(*ssa.TypeAssert); ok && ta.CommaOk {
						if pt, ok := ta.AssertedType.(*types.Pointer); ok {
							if nt, ok := pt.Elem().(*types.Named); ok && nt.Obj().Name() == "Error" {
								okc = true
							}
						}
					}
				})
			}
		})
		c.check(okc, R, "Find:recover-converts", p.pos(fn.Pos()), "a recovered *pm.Error becomes Find's error result", "Find no longer converts *pm.Error panics into its error result")
	}
	// call sites in the string library raise the error
	find := p.Fn("pm", "Find")
	for _, fn := range p.srcFuncs {
		if fn.Pkg == nil || fn.Pkg.Pkg.Path() != luaPath {
			continue
		}
		for _, cl := range callsTo(fn, find) {
			g := p.G(fn)
			c.touch(fn)
			okc := false
			for _, r := range *cl.Referrers() {
				ex, ok := r.(*ssa.Extract)
				if !ok || ex.Index != 1 {
					continue
				}
				for _, r2 := range *ex.Referrers() {
					if b, ok := r2.(*ssa.BinOp); ok && b.Op == token.NEQ {
						for _, r3 := range *b.Referrers() {
							if iff, ok := r3.(*ssa.If); ok && g.Cut[iff.Block().Succs[0]] >= 0 {
								okc = true
							}
						}
					}
				}
			}
			c.check(okc, R, "Find-error-raised:"+fname(fn), p.ipos(cl), "a malformed pattern is raised as a Lua error", "the error result of pm.Find is not raised: a malformed pattern is treated as 'no match' or the nil match list is used")
		}
	}
}

// rulePmBytes: the matcher works on bytes in the C locale: no rune-aware API in package pm.
func rulePmBytes(c *Ctx) {
	const R = "R14-bytes"
	c.floor(R, 10)
	p := c.P
	sp := p.SPkg("pm")
	for _, fn := range p.srcFuncs {
		if fn.Pkg != sp {
			continue
		}
		c.touch(fn)
		var bad []string
		var first ssa.Instruction
		allInstrs(fn, func(in ssa.Instruction) {
			if pk, n, ok := stdCall(in); ok {
				if runeAware[pk+"."+n] || pk == "unicode" || pk == "unicode/utf8" {
					bad = append(bad, pk+"."+n)
					if first == nil {
						first = in
					}
				}
			}
			if r, ok := in.(*ssa.Range); ok {
				if bt, ok := r.X.Type().Underlying().(*types.Basic); ok && bt.Info()&types.IsString != 0 {
					bad = append(bad, "range over a string")
					if first == nil {
						first = in
					}
				}
			}
		})
		if len(bad) == 0 {
			c.ok(R, fname(fn), p.pos(fn.Pos()), "byte-wise")
		} else {
			c.bad(R, fname(fn), p.ipos(first), fmt.Sprintf("%s uses %s: character classes and pattern items are defined on bytes in the C locale; a Unicode predicate also accepts bytes such as 0x85 / 0xA0 (%%s) or decodes multi-byte sequences", fname(fn), strings.Join(bad, ", ")))
		}
	}
}

func ruleDepth(c *Ctx) {
	const R = "R14-depth"
	c.floor(R, 3)
	p := c.P
	p.computeNoReturn()
	vm := c.need(R, "pm", "recursiveVM")
	if vm == nil {
		return
	}
	g := p.G(vm)
	maxLvl, _ := p.intConst("pm", "maxRecursionLevel")
	var lvl *ssa.Parameter
	for _, pm := range vm.Params {
		// the recursion depth is the parameter compared with maxRecursionLevel: the last int parameter
		if types.Identical(pm.Type(), types.Typ[types.Int]) {
			lvl = pm
		}
	}
	if lvl == nil {
		c.und(R, "recLevel", p.pos(vm.Pos()), "parameter recLevel not found")
		return
	}
	var inc ssa.Value
	allInstrs(vm, func(in ssa.Instruction) {
		if b, ok := in.(*ssa.BinOp); ok && b.Op == token.ADD && b.X == ssa.Value(lvl) {
			if k, ok := constInt(b.Y); ok && k >= 1 {
				inc = b
			}
		}
	})
	if inc == nil {
		c.bad(R, "increment", p.pos(vm.Pos()), "the recursion level is not incremented")
		return
	}
	// guard: inc > max → panic, dominating every recursive call
	var guard ssa.Instruction
	allInstrs(vm, func(in ssa.Instruction) {
		if iff, ok := in.(*ssa.If); ok {
			if b, ok := iff.Cond.(*ssa.BinOp); ok && (b.Op == token.GTR || b.Op == token.GEQ) && b.X == inc {
				if k, ok := constInt(b.Y); ok && k <= maxLvl && k > 0 {
					tb := iff.Block().Succs[0]
					if _, isPanic := tb.Instrs[len(tb.Instrs)-1].(*ssa.Panic); isPanic || g.Cut[tb] >= 0 {
						guard = in
					}
				}
			}
		}
	})
	c.check(guard != nil, R, "cap", p.pos(vm.Pos()), fmt.Sprintf("level+1 is tested against maxRecursionLevel (%d) with a raising arm", maxLvl), "the recursion level is not tested against maxRecursionLevel with a raising arm")
	n := 0
	for _, cl := range callsTo(vm, vm) {
		n++
		key := fmt.Sprintf("recursive-call#%d", n)
		okc := guard != nil && g.Dominates(guard, cl)
		// argument in the recLevel position
		idx := -1
		for i, pm := range vm.Params {
			if pm == lvl {
				idx = i
			}
		}
		pass := idx >= 0 && idx < len(cl.Call.Args) && cl.Call.Args[idx] == inc
		c.check(okc && pass, R, key, p.ipos(cl), "dominated by the cap test and passes the incremented level", "a recursive call of the pattern VM is not bounded: it does not pass the incremented level (or is not dominated by the cap test), so pathological patterns recurse until the Go stack is exhausted (fatal, uncatchable)")
	}
	c.check(n >= 2, R, "recursive-calls", p.pos(vm.Pos()), fmt.Sprintf("%d recursive calls analysed", n), "recursive calls not found")
}

func ruleProgress(c *Ctx) {
	const R = "R14-progress"
	c.floor(R, 4)
	p := c.P
	fn := c.need(R, "pm", "Find")
	if fn == nil {
		return
	}
	g := p.G(fn)
	// loop phi compared with len(src)
	var sp *ssa.Phi
	allInstrs(fn, func(in ssa.Instruction) {
		b, ok := in.(*ssa.BinOp)
		if !ok || (b.Op != token.LEQ && b.Op != token.LSS) {
			return
		}
		ph, ok := b.X.(*ssa.Phi)
		if !ok {
			return
		}
		if call, ok := b.Y.(*ssa.Call); ok {
			if bi, ok := call.Call.Value.(*ssa.Builtin); ok && bi.Name() == "len" {
				sp = ph
			}
		}
	})
	if sp == nil {
		c.und(R, "Find:scan-index", p.pos(fn.Pos()), "scan loop not found")
		return
	}
	var inc ssa.Value
	for _, r := range *sp.Referrers() {
		if b, ok := r.(*ssa.BinOp); ok && b.Op == token.ADD && b.X == ssa.Value(sp) {
			if k, ok := constInt(b.Y); ok && k >= 1 {
				inc = b
			}
		}
	}
	var advances func(v ssa.Value, edgeConds []Cond, depth int) bool
	advances = func(v ssa.Value, edgeConds []Cond, depth int) bool {
		if depth > 4 {
			return false
		}
		if inc != nil && v == inc {
			return true
		}
		// v with a condition inc < v on the edge
		for _, cd := range edgeConds {
			if b, ok := cd.V.(*ssa.BinOp); ok && inc != nil {
				if b.Op == token.LSS && cd.Sense && b.X == inc && b.Y == v {
					return true
				}
				if b.Op == token.GTR && cd.Sense && b.Y == inc && b.X == v {
					return true
				}
			}
		}
		if ph, ok := v.(*ssa.Phi); ok && ph != sp {
			for i, e := range ph.Edges {
				if !advances(e, g.CondsOnEdge(ph.Block().Preds[i], ph.Block()), depth+1) {
					return false
				}
			}
			return true
		}
		return false
	}
	okc := inc != nil
	nback := 0
	for i, e := range sp.Edges {
		pred := sp.Block().Preds[i]
		if !g.BlockDom(sp.Block(), pred) {
			continue // entry edge
		}
		nback++
		if !advances(e, g.CondsOnEdge(pred, sp.Block()), 0) {
			okc = false
		}
	}
	c.check(okc && nback > 0, R, "Find:scan-advances", p.ipos(sp), "every back edge of the scan loop carries a position strictly greater than the previous one", "Find's scan loop can repeat without advancing the subject position (an empty match would loop forever)")

	// exits of the scan loop: every position up to and including len(src) must be tried unless the
	// match limit is reached or the pattern is anchored — no other reason to stop scanning exists.
	h := sp.Block()
	body := map[*ssa.BasicBlock]bool{h: true}
	var back func(b *ssa.BasicBlock)
	back = func(b *ssa.BasicBlock) {
		if body[b] {
			return
		}
		body[b] = true
		for _, pr := range g.Preds(b) {
			back(pr)
		}
	}
	for _, pr := range g.Preds(h) {
		if g.BlockDom(h, pr) {
			back(pr)
		}
	}
	headF := p.Field("pm", "seqPattern", "MustHead")
	nexit := 0
	nother := 0
	for _, b := range fn.Blocks {
		if !body[b] || g.Cut[b] >= 0 || len(b.Succs) != 2 {
			continue
		}
		iff, ok := b.Instrs[len(b.Instrs)-1].(*ssa.If)
		if !ok {
			continue
		}
		for si, s := range b.Succs {
			if body[s] {
				continue
			}
			nexit++
			sense := si == 0
			why := ""
			switch cv := iff.Cond.(type) {
			case *ssa.BinOp:
				k := vkey(cv)
				switch {
				case cv.X == ssa.Value(sp) && strings.HasPrefix(vkey(cv.Y), "len("+pkeyAt(paramsOfType(fn, "[]byte"), 0)) && ((cv.Op == token.LEQ && !sense) || (cv.Op == token.GTR && sense)):
					why = "position beyond the end of the subject"
				case strings.Contains(k, "len(") && strings.Contains(k, pkeyAt(paramsOfType(fn, "int"), 1)) && (cv.Op == token.EQL || cv.Op == token.GEQ) && sense:
					why = "match limit reached"
				}
			case *ssa.UnOp:
				if _, ok := loadsField(cv, headF); ok && sense {
					why = "anchored pattern (^): only the first position is tried"
				}
			}
			key := ""
			if why == "" {
				nother++
				key = fmt.Sprintf("Find:scan-exit:other#%d", nother)
			} else {
				key = "Find:scan-exit:" + strings.Fields(why)[0] + "-" + strings.Fields(why)[1]
			}
			c.check(why != "", R, key, p.ipos(iff), "the scan stops because: "+why, "Find's scan loop has an exit that is neither 'position beyond the end', 'match limit reached' nor 'anchored pattern': positions up to and including len(subject) are skipped, so gsub/gmatch lose matches (e.g. the empty match at the end after a match that consumed the rest)")
		}
	}
	c.check(nexit >= 3, R, "Find:scan-exits", p.ipos(sp), fmt.Sprintf("%d loop exits classified", nexit), "scan loop exits not found")
}

func ruleReadonly(c *Ctx) {
	const R = "R14-readonly"
	c.floor(R, 5)
	p := c.P
	sp := p.SPkg("pm")
	// in pm: no write through a []byte parameter
	for _, fn := range p.srcFuncs {
		if fn.Pkg != sp {
			continue
		}
		for _, pm := range fn.Params {
			sl, ok := pm.Type().Underlying().(*types.Slice)
			if !ok || !types.Identical(sl.Elem(), types.Typ[types.Byte]) {
				continue
			}
			tainted := map[ssa.Value]bool{pm: true}
			for changed := true; changed; {
				changed = false
				allInstrs(fn, func(in ssa.Instruction) {
					switch x := in.(type) {
					case *ssa.Slice:
						if tainted[x.X] && !tainted[x] {
							tainted[x] = true
							changed = true
						}
					case *ssa.Phi:
						for _, e := range x.Edges {
							if tainted[e] && !tainted[x] {
								tainted[x] = true
								changed = true
							}
						}
					}
				})
			}
			writes := 0
			var first ssa.Instruction
			allInstrs(fn, func(in ssa.Instruction) {
				switch x := in.(type) {
				case *ssa.Store:
					if ia, ok := x.Addr.(*ssa.IndexAddr); ok && tainted[ia.X] {
						writes++
						first = in
					}
				case *ssa.Call:
					if bi, ok := x.Call.Value.(*ssa.Builtin); ok {
						if (bi.Name() == "copy" || bi.Name() == "append" || bi.Name() == "clear") && tainted[x.Call.Args[0]] {
							writes++
							first = in
						}
					}
					if sc := x.Call.StaticCallee(); sc != nil && sc.Pkg != sp {
						for _, a := range x.Call.Args {
							if tainted[a] {
								writes++ // handed to foreign code
								first = in
							}
						}
					}
				}
			})
			c.touch(fn)
			pos := p.pos(fn.Pos())
			if first != nil {
				pos = p.ipos(first)
			}
			c.check(writes == 0, R, fmt.Sprintf("%s:%s", fname(fn), pm.Name()), pos, "the byte-slice parameter is only read (indexing, slicing, passing on within pm)", "the pattern matcher writes through (or hands to foreign code) its subject slice, which aliases the bytes of an immutable Lua string")
		}
	}
	// scanner.src is a private copy: Find converts the pattern string itself
	// unsafe view consumers
	unsafeFn := c.need(R, "lua", "unsafeFastStringToReadOnlyBytes")
	find := p.Fn("pm", "Find")
	if unsafeFn == nil {
		return
	}
	for _, fn := range p.srcFuncs {
		for _, cl := range callsTo(fn, unsafeFn) {
			c.touch(fn)
			okc := true
			n := 0
			for _, r := range *cl.Referrers() {
				n++
				call, ok := r.(*ssa.Call)
				if !ok {
					if _, isDbg := r.(*ssa.DebugRef); isDbg {
						continue
					}
					okc = false
					continue
				}
				if call.Call.StaticCallee() == find && len(call.Call.Args) > 1 && call.Call.Args[1] == ssa.Value(cl) {
					continue
				}
				if call.Call.IsInvoke() && call.Call.Method.Name() == "Write" && strings.HasSuffix(call.Call.Value.Type().String(), "io.Writer") {
					continue
				}
				okc = false
			}
			c.check(okc && n > 0, R, fmt.Sprintf("unsafe-view:%s#%d", fname(fn), countKey(c, R, "uv"+fname(fn))), p.ipos(cl), "the aliasing byte view goes only to pm.Find's subject or io.Writer.Write", "the unsafe byte view of a Lua string flows somewhere other than pm.Find / io.Writer.Write: a write through it would modify an immutable string in place")
		}
	}
}

// ruleFlagLookahead: flagScanner.Next decodes "%%" by looking one character ahead. The guard of that
// read must be exactly Pos+1 <= Length-1: weaker and the read can leave the string, stricter and the
// escape is not recognised when it ends the replacement string ("%1%%" → "…%%").
func ruleFlagLookahead(c *Ctx) {
	const R = "R14-repl"
	c.floor(R, 1)
	p := c.P
	fn := c.need(R, "lua", "(*flagScanner).Next")
	if fn == nil {
		return
	}
	g := p.G(fn)
	posF := p.Field("lua", "flagScanner", "Pos")
	lenF := p.Field("lua", "flagScanner", "Length")
	strF := p.Field("lua", "flagScanner", "str")
	n := 0
	allInstrs(fn, func(in ssa.Instruction) {
		lk, ok := in.(*ssa.Index) // s[i] on a string
		if !ok {
			return
		}
		if _, ok := loadsField(lk.X, strF); !ok {
			return
		}
		il := lin(lk.Index)
		if il.K < 1 || len(il.T) != 1 {
			return // not a lookahead
		}
		var posKey string
		for k := range il.T {
			posKey = k
		}
		if b, ok := stripConv(lk.Index).(*ssa.BinOp); !ok {
			return
		} else if _, ok := loadsField(b.X, posF); !ok {
			return
		}
		n++
		// strongest bound on Pos - Length from the path condition
		best, have := int64(0), false
		for _, cd := range g.CondsAtInstr(in) {
			b, ok := cd.V.(*ssa.BinOp)
			if !ok {
				continue
			}
			op := b.Op
			if !cd.Sense {
				op = negate(op)
			}
			lx, ly := lin(b.X), lin(b.Y)
			// d = X - Y
			d := linform{T: map[string]int64{}, K: lx.K - ly.K}
			for k, v := range lx.T {
				d.T[k] += v
			}
			for k, v := range ly.T {
				d.T[k] -= v
			}
			var lenKey string
			okShape := len(d.T) == 2 && d.T[posKey] != 0
			for k, v := range d.T {
				if v == 0 {
					okShape = false
				}
				if k != posKey {
					lenKey = k
				}
			}
			if !okShape || !strings.Contains(lenKey, lenF.Name()) {
				continue
			}
			sgn := d.T[posKey] // +1: Pos - Length + K op 0 ; -1: Length - Pos + K op 0
			var ub int64       // Pos - Length <= ub
			switch {
			case sgn == 1 && op == token.LSS:
				ub = -d.K - 1
			case sgn == 1 && op == token.LEQ:
				ub = -d.K
			case sgn == -1 && op == token.GTR:
				ub = d.K - 1
			case sgn == -1 && op == token.GEQ:
				ub = d.K
			case sgn == 1 && op == token.NEQ, sgn == -1 && op == token.NEQ:
				continue
			default:
				continue
			}
			if !have || ub < best {
				best, have = ub, true
			}
		}
		key := fmt.Sprintf("flagScanner.Next:lookahead+%d", il.K)
		want := -il.K - 1 // Pos + K <= Length - 1
		switch {
		case !have || best > want:
			c.bad(R, key, p.ipos(in), fmt.Sprintf("the read of str[Pos+%d] is not guarded by Pos+%d < Length: a replacement string ending in a lone %% indexes past its end", il.K, il.K))
		case best < want:
			c.bad(R, key, p.ipos(in), fmt.Sprintf("the guard of str[Pos+%d] is stricter than 'that position exists' (it requires Pos <= Length%+d, the last valid Pos is Length%+d): an escape that ends the replacement string is not decoded (gsub(s, p, \"%%1%%%%\") appends two percent signs)", il.K, best, want))
		default:
			c.ok(R, key, p.ipos(in), "guarded by exactly Pos+k < Length")
		}
	})
	if n == 0 {
		c.und(R, "flagScanner.Next:lookahead", p.pos(fn.Pos()), "no lookahead read of the scanned string found")
	}
}
