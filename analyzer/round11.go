package main

// round11.go — rules added after seeding round 11.

import (
	"fmt"
	"go/token"
	"strings"

	"golang.org/x/tools/go/ssa"
)

// ruleVarargTempGuard: C02 "one [value] in a middle or parenthesised position": OP_VARARG cuts the
// register top just above its last result. Where `...` supplies one value to a local that is not the
// topmost, the compiler fetches it into a temporary and MOVEs it: the test that decides this compares
// the register top with the register the MOVE writes (the target), not with the temporary.
func ruleVarargTempGuard(c *Ctx) {
	const R = "R02-full"
	p := c.P
	fn := c.need(R, "lua", "compileExpr")
	addABC := p.Fn("lua", "(*codeStore).AddABC")
	regTop := p.Fn("lua", "(*funcContext).RegTop")
	t := p.vmTable()
	if fn == nil || addABC == nil || regTop == nil || t.ByName["OP_VARARG"] == nil || t.ByName["OP_MOVE"] == nil {
		c.und(R, "compileExpr:vararg-temporary-guard", "-", "anchors not found")
		return
	}
	opVar, opMove := int64(t.ByName["OP_VARARG"].Val), int64(t.ByName["OP_MOVE"].Val)
	g := p.G(fn)
	n, okc := 0, true
	var where ssa.Instruction
	calls := callsTo(fn, addABC)
	for _, mv := range calls {
		if k, ok := constInt(mv.Call.Args[1]); !ok || k != opMove || !g.Live(mv) {
			continue
		}
		// preceded in its block by a VARARG into the register the MOVE reads
		var va *ssa.Call
		for _, cand := range calls {
			if k, ok := constInt(cand.Call.Args[1]); ok && k == opVar && cand.Block() == mv.Block() && idxIn(cand.Block(), cand) < idxIn(mv.Block(), mv) && vkey(cand.Call.Args[2]) == vkey(mv.Call.Args[3]) {
				va = cand
			}
		}
		if va == nil {
			continue
		}
		n++
		target := lin(mv.Call.Args[2])
		guarded := false
		for _, cd := range g.expandAnd(g.CondsAtInstr(mv)) {
			b, ok := cd.V.(*ssa.BinOp)
			if !ok || !cd.Sense || b.Op != token.GTR {
				continue
			}
			if cl, ok := b.X.(*ssa.Call); !ok || cl.Call.StaticCallee() != regTop {
				continue
			}
			y := lin(b.Y)
			if sameTerms(y, target) == 1 && y.K-target.K == 1 {
				guarded = true
			}
		}
		if !guarded {
			okc = false
			where = mv
		}
	}
	pos := p.pos(fn.Pos())
	if where != nil {
		pos = p.ipos(where)
	}
	c.Sites++
	c.check(n > 0 && okc, R, "compileExpr:vararg-temporary-guard", pos, fmt.Sprintf("%d VARARG-into-temporary emission(s), each under RegTop() > target+1", n),
		"compileExpr decides whether a single value of `...` goes through a temporary by comparing the register top with something other than the target register + 1: with locals declared after the target, `x = (...)` emits VARARG straight into x, which cuts the register top there — every later local is wiped")
}

// ruleRaiseGuardUnconditional (extension of R12-grow raise sites, C05k): the slot for the raised value is
// forced whenever the registry is full — the forcing call stands under the IsFull test alone, not under
// a further condition (a growable registry that has reached its maximum is full in the same way).
func ruleRaiseGuardUnconditional(c *Ctx) {
	const R = "R12-grow"
	p := c.P
	isFull := p.Fn("lua", "(*registry).IsFull")
	force := p.Fn("lua", "(*registry).forceResize")
	regPush := p.Fn("lua", "(*registry).Push")
	if isFull == nil || force == nil || regPush == nil {
		return
	}
	for _, name := range []string{"(*LState).raiseError", "(*LState).Error"} {
		fn := c.need(R, "lua", name)
		if fn == nil {
			continue
		}
		g := p.G(fn)
		n, okc := 0, true
		var where ssa.Instruction
		for _, f := range callsTo(fn, force) {
			n++
			for _, cd := range g.expandAnd(g.CondsAtInstr(f)) {
				if call, ok := cd.V.(*ssa.Call); ok && call.Call.StaticCallee() == isFull {
					continue
				}
				// a condition shared with the push itself (the arm of the function) is fine
				shared := false
				for _, pu := range callsTo(fn, regPush) {
					for _, cd2 := range g.CondsAtInstr(pu) {
						if cd2.V == cd.V && cd2.Sense == cd.Sense {
							shared = true
						}
					}
				}
				if _, isPhi := cd.V.(*ssa.Phi); isPhi {
					continue // the value form of the conjunction itself; its operands are judged
				}
				if !shared {
					okc = false
					where = f
				}
			}
		}
		pos := p.pos(fn.Pos())
		if where != nil {
			pos = p.ipos(where)
		}
		c.Sites++
		c.check(n > 0 && okc, R, "raise-sites:"+strings.TrimPrefix(name, "(*LState).")+":slot-forced-whenever-full", pos, "forceResize stands under IsFull() alone",
			fname(fn)+" forces the slot for the raised value only under a further condition besides IsFull(): a growable registry that has grown to its maximum is full in the same way, Push cannot grow it, and error({}) reaches pcall as the string 'registry overflow'")
	}
}

// ruleXMoveAbsolute: C06 "payload transfer": XMoveTo addresses the values it moves from the top it read
// (top - i + 1, a positive index): a negative index -i is a pseudo-index from -10000 on (registry,
// environment, globals, upvalues), so a hand-over of 10000 values or more would move those instead.
func ruleXMoveAbsolute(c *Ctx) {
	const R = "R06-killarg"
	p := c.P
	fn := c.need(R, "lua", "(*LState).XMoveTo")
	get := p.Fn("lua", "(*LState).Get")
	getTop := p.Fn("lua", "(*LState).GetTop")
	if fn == nil || get == nil || getTop == nil {
		return
	}
	n, okc := 0, true
	var where ssa.Instruction
	for _, cl := range callsTo(fn, get) {
		n++
		l := lin(cl.Call.Args[1])
		pos := false
		for _, tc := range callsTo(fn, getTop) {
			if l.T[leafKey(tc)] == 1 {
				pos = true
			}
		}
		if !pos {
			okc = false
			where = cl
		}
	}
	at := p.pos(fn.Pos())
	if where != nil {
		at = p.ipos(where)
	}
	c.Sites++
	c.check(n > 0 && okc, R, "XMoveTo:values-addressed-from-the-top-read", at, fmt.Sprintf("%d read(s), each at an index of the form top - i + k", n),
		"XMoveTo reads the values it moves at an index that is not derived from the top it read (a negated counter): indices from -10000 downwards are pseudo-indices, so a resume, yield or return that carries 10000 values or more hands over the registry, the environment and the globals table instead of the first values")
}

// ruleLogicalTailRequested: C07 "every jump lands on an instruction boundary": in
// compileLogicalOpExprAux a jump to one of the two shared labels (lb.t, lb.f) obliges the caller to emit
// the boolean tail those labels stand for; the request flag lb.b is set (to true, unconditionally) on
// every path that emits such a jump — a label that never gets a pc resolves to 0 and the jump lands on
// instruction 1 of the function, possibly inside a multi-word group.
func ruleLogicalTailRequested(c *Ctx) {
	const R = "R07-skipgroup"
	p := c.P
	fn := c.need(R, "lua", "compileLogicalOpExprAux")
	addASbx := p.Fn("lua", "(*codeStore).AddASbx")
	tF, fF, bF := p.Field("lua", "lblabels", "t"), p.Field("lua", "lblabels", "f"), p.Field("lua", "lblabels", "b")
	if fn == nil || addASbx == nil || tF == nil || fF == nil || bF == nil {
		c.und(R, "compileLogicalOpExprAux:tail-requested-with-every-jump-to-it", "-", "lblabels fields not found")
		return
	}
	g := p.G(fn)
	n, okc := 0, true
	var where ssa.Instruction
	setsTrue := func(in ssa.Instruction) bool {
		st, ok := isFieldStore(in, bF)
		if !ok {
			return false
		}
		b, isK := constBool(st.Val)
		return isK && b
	}
	for _, cl := range callsTo(fn, addASbx) {
		if !g.Live(cl) {
			continue
		}
		_, toT := loadsField(cl.Call.Args[3], tF)
		_, toF := loadsField(cl.Call.Args[3], fF)
		if !toT && !toF {
			continue
		}
		n++
		dominated := false
		allInstrs(fn, func(in ssa.Instruction) {
			if setsTrue(in) && g.Dominates(in, cl) {
				dominated = true
			}
		})
		b, i := after(cl)
		after, _ := g.MustPassBefore(b, i, setsTrue, isReturn)
		if !dominated && !after {
			okc = false
			where = cl
		}
	}
	pos := p.pos(fn.Pos())
	if where != nil {
		pos = p.ipos(where)
	}
	c.Sites++
	c.check(n > 0 && okc, R, "compileLogicalOpExprAux:tail-requested-with-every-jump-to-it", pos, fmt.Sprintf("%d jump(s) to the shared labels, each with lb.b = true on its path", n),
		"compileLogicalOpExprAux emits a jump to a shared label (lb.t / lb.f) on a path that does not set lb.b to true: the boolean tail is not emitted, the label never gets a pc, resolves to 0, and the jump lands on instruction 1 of the function — inside the capture list of a leading CLOSURE")
}

// ruleSegmentsIndexedByOwnCursor: C12. The segment table of the auto-growing call-frame stack is indexed
// by the stack's own cursor (segIdx, segIdx-1 under a test) — an invariant position below len(segments).
// An index computed from the caller's depth (sp / FramesPerSegment) reaches len(segments) when the depth
// is the full capacity; only At, whose contract is sp < Sp(), may use one.
func ruleSegmentsIndexedByOwnCursor(c *Ctx) {
	const R = "R12-isfull"
	p := c.P
	segF := p.Field("lua", "autoGrowingCallFrameStack", "segments")
	idxF := p.Field("lua", "autoGrowingCallFrameStack", "segIdx")
	if segF == nil || idxF == nil {
		c.und(R, "segments:anchors", "-", "autoGrowingCallFrameStack fields not found")
		return
	}
	n := 0
	for _, fn := range p.srcFuncs {
		if fn.Pkg == nil || fn.Pkg.Pkg.Path() != luaPath || recvNamed(fn) != "autoGrowingCallFrameStack" || fn.Blocks == nil || fn.Name() == "At" {
			continue
		}
		g := p.G(fn)
		ord := 0
		allInstrs(fn, func(in ssa.Instruction) {
			ia, ok := in.(*ssa.IndexAddr)
			if !ok || !g.Live(in) {
				return
			}
			if _, isSeg := loadsField(ia.X, segF); !isSeg {
				return
			}
			n++
			ord++
			c.Sites++
			c.touch(fn)
			okc := false
			l := lin(ia.Index)
			if len(l.T) == 1 {
				for k, co := range l.T {
					if co == 1 && strings.Contains(k, "segIdx") && strings.Contains(k, "&") {
						okc = true
					}
				}
			}
			if !okc && indexSiteClass(p, g, in, ia.X, ia.Index, false) != "" {
				okc = true
			}
			if !okc {
				// a counted loop up to the cursor: i <= segIdx
				for _, cd := range g.expandAnd(g.CondsAtInstr(in)) {
					b, ok := cd.V.(*ssa.BinOp)
					if !ok {
						continue
					}
					op := b.Op
					if !cd.Sense {
						op = negate(op)
					}
					if (op == token.LEQ || op == token.LSS) && vkey(stripConv(b.X)) == vkey(stripConv(ia.Index)) {
						if _, isIdx := loadsField(stripConv(b.Y), idxF); isIdx {
							okc = true
						}
					}
				}
			}
			c.check(okc, R, fmt.Sprintf("segments:%s#%d:indexed-by-the-stack's-own-cursor", fn.Name(), ord), p.ipos(in), "index is segIdx (± constant), a range over the table or guarded by its length",
				fname(fn)+" indexes the segment table with a value that is neither the stack's own cursor nor guarded by the table's length (computed from the caller's depth): at a depth equal to the stack's capacity the index is len(segments) — unwinding a protected call made from the last frame panics with 'index out of range' instead of delivering 'stack overflow'")
		})
	}
	c.check(n >= 8, R, "segments:sites", "-", fmt.Sprintf("%d indexed accesses of the segment table examined", n), "indexed accesses of autoGrowingCallFrameStack.segments not found")
}

// ruleGsubTableLooksUpLikeLua: C14 "gsub … the same result … for table replacements": the replacement
// table is read with the metamethod-aware lookup for every kind of key (lua_gettable in the reference):
// strGsubTable does not read its table argument through a raw accessor.
func ruleGsubTableLooksUpLikeLua(c *Ctx) {
	const R = "R14-repl"
	p := c.P
	fn := c.need(R, "lua", "strGsubTable")
	if fn == nil {
		return
	}
	var repl *ssa.Parameter
	for _, pm := range fn.Params {
		if typeName(pm.Type()) == "LTable" {
			repl = pm
		}
	}
	var bad ssa.Instruction
	n := 0
	allInstrs(fn, func(in ssa.Instruction) {
		cl, ok := in.(*ssa.Call)
		if !ok {
			return
		}
		sc := cl.Call.StaticCallee()
		if sc == nil {
			return
		}
		if recvNamed(sc) == "LState" && (sc.Name() == "GetTable" || sc.Name() == "GetField") {
			n++
		}
		if recvNamed(sc) == "LTable" && strings.HasPrefix(sc.Name(), "RawGet") && repl != nil && cl.Call.Args[0] == ssa.Value(repl) && bad == nil {
			bad = in
		}
	})
	pos := p.pos(fn.Pos())
	if bad != nil {
		pos = p.ipos(bad)
	}
	c.Sites++
	c.check(repl != nil && bad == nil && n >= 2, R, "strGsubTable:replacement-table-read-with-metamethods", pos, fmt.Sprintf("%d metamethod-aware lookup(s), no raw read of the replacement table", n),
		"strGsubTable reads the replacement table through a raw accessor for one kind of key: a table that serves those keys through __index is ignored there — string.gsub('abc', '().', setmetatable({}, {__index = f})) leaves the subject unchanged")
}

// rulePaddingIsBlanks: C15 "format renders … with flags, width and precision as C printf does": the
// fields writePadded fills (%s, %c and the inf/nan spellings of the floating directives) are padded with
// blanks only — C99 7.19.6.1: the 0 flag does not zero-fill an infinity or a NaN.
func rulePaddingIsBlanks(c *Ctx) {
	const R = "R15-flags"
	p := c.P
	fn := c.need(R, "lua", "writePadded")
	if fn == nil {
		return
	}
	n, okc := 0, true
	var where ssa.Instruction
	allInstrs(fn, func(in ssa.Instruction) {
		pk, nm, ok := stdCall(in)
		if !ok || pk != "strings" || nm != "Repeat" {
			return
		}
		n++
		if s, isK := constStr(callOf(in).Args[0]); !isK || s != " " {
			okc = false
			where = in
		}
	})
	pos := p.pos(fn.Pos())
	if where != nil {
		pos = p.ipos(where)
	}
	c.Sites++
	c.check(n > 0 && okc, R, "writePadded:pads-with-blanks-only", pos, fmt.Sprintf("%d padding(s), all of blanks", n),
		"writePadded fills a field with something other than blanks: it also renders the inf/nan spellings of %e %f %g, which C never zero-fills — string.format('%010f', math.huge) gives '0000000inf' where printf gives '       inf'")
}

// ruleZeroFieldIsZero: C16 "coercion of strings … agree on the value of every numeral": getIntField
// strips the leading zeros of a date-table field before it reads the rest as a number; a field that
// consisted of zeros only is the number 0 — the function returns the constant 0 under the test that
// nothing is left.
func ruleZeroFieldIsZero(c *Ctx) {
	const R = "R16-time"
	p := c.P
	fn := c.need(R, "lua", "getIntField")
	if fn == nil {
		return
	}
	g := p.G(fn)
	trims := false
	allInstrs(fn, func(in ssa.Instruction) {
		if pk, nm, ok := stdCall(in); ok && pk == "strings" && nm == "TrimLeft" {
			if s, isK := constStr(callOf(in).Args[1]); isK && s == "0" {
				trims = true
			}
		}
	})
	if !trims {
		c.okT(R, "getIntField:all-zero-field-is-zero", p.pos(fn.Pos()), "the field's text is not stripped of zeros before it is read")
		return
	}
	okc := false
	allInstrs(fn, func(in ssa.Instruction) {
		r, ok := in.(*ssa.Return)
		if !ok || len(r.Results) != 1 || !g.Live(in) {
			return
		}
		if k, isK := constInt(r.Results[0]); !isK || k != 0 {
			return
		}
		for _, cd := range g.CondsAtInstr(in) {
			if b, ok := cd.V.(*ssa.BinOp); ok && eqHolds(b, cd) {
				if s, isK := constStr(b.Y); isK && s == "" {
					okc = true
				}
			}
		}
	})
	c.Sites++
	c.check(okc, R, "getIntField:all-zero-field-is-zero", p.pos(fn.Pos()), "returns 0 where stripping the zeros leaves nothing",
		"getIntField strips the leading zeros of a string field and does not answer 0 when nothing is left: os.time{…, hour = \"0\"} reads the hour as its default 12 — 43200 s later than hour = 0, although tonumber(\"0\") is 0")
}

// ruleWriteOneSink: C19 "writes land at the cursor … the same history applied to a byte sequence": all
// pieces of one write call go to the same sink in order. In fileWriteAux every Write is made on the one
// writer selected for the handle (file.writer), not on a second destination chosen per piece: a piece
// written around the buffer overtakes the pieces still in it.
func ruleWriteOneSink(c *Ctx) {
	const R = "R19-reconcile"
	p := c.P
	fn := c.need(R, "lua", "fileWriteAux")
	wF := p.Field("lua", "lFile", "writer")
	if fn == nil || wF == nil {
		return
	}
	n, okc := 0, true
	var where ssa.Instruction
	allInstrs(fn, func(in ssa.Instruction) {
		cc := callOf(in)
		if cc == nil || !cc.IsInvoke() || cc.Method.Name() != "Write" {
			return
		}
		n++
		if _, ok := loadsField(cc.Value, wF); !ok {
			okc = false
			where = in
		}
	})
	pos := p.pos(fn.Pos())
	if where != nil {
		pos = p.ipos(where)
	}
	c.Sites++
	c.check(n > 0 && okc, R, "fileWriteAux:every-piece-through-the-handle's-writer", pos, fmt.Sprintf("%d Write call(s), all on file.writer", n),
		"fileWriteAux writes a piece to something other than the handle's one writer (a value selected per piece): with buffered output a piece sent around the buffer reaches the file before the pieces still buffered — f:write('head:', big, ':tail') leaves big .. 'head::tail'")
}

// ruleInsertTopWithinCheckedCapacity: C04/C12 (a __call object is put in front of its arguments with
// registry.Insert): the top registry.Insert stores lies within the capacity it has checked — every store
// of registry.top in Insert is dominated by a size test `required > cap(array)` (whose true arm grows)
// with required >= the stored top. One slot short, a growable registry whose last argument sits in the
// last slot is not grown: the shift cuts the argument off and the top points past the array.
func ruleInsertTopWithinCheckedCapacity(c *Ctx) {
	const R = "R12-grow"
	p := c.P
	fn := c.need(R, "lua", "(*registry).Insert")
	topF := p.Field("lua", "registry", "top")
	if fn == nil || topF == nil {
		return
	}
	g := p.G(fn)
	n, okc := 0, true
	var where ssa.Instruction
	allInstrs(fn, func(in ssa.Instruction) {
		st, ok := isFieldStore(in, topF)
		if !ok || !g.Live(in) {
			return
		}
		n++
		v := lin(st.Val)
		covered := false
		allInstrs(fn, func(x ssa.Instruction) {
			iff, ok := x.(*ssa.If)
			if !ok || !g.Dominates(x, in) {
				return
			}
			b, ok := iff.Cond.(*ssa.BinOp)
			if !ok || b.Op != token.GTR {
				return
			}
			cl, ok := b.Y.(*ssa.Call)
			if !ok {
				return
			}
			if bi, ok := cl.Call.Value.(*ssa.Builtin); !ok || bi.Name() != "cap" {
				return
			}
			req := lin(b.X)
			if sameTerms(req, v) == 1 && req.K >= v.K {
				covered = true
			}
		})
		if !covered {
			okc = false
			where = in
		}
	})
	pos := p.pos(fn.Pos())
	if where != nil {
		pos = p.ipos(where)
	}
	c.Sites++
	c.check(n > 0 && okc, R, "Insert:top-within-the-checked-capacity", pos, fmt.Sprintf("%d store(s) of registry.top, each under a capacity test for at least that size", n),
		"registry.Insert stores a top that the capacity test before it does not cover (the test asks for fewer slots than the top it then sets): in a growable registry whose last value sits in the last slot the array is not grown — calling an object through __call there loses its last argument and dies with 'slice bounds out of range'")
}

// ruleReadsAfterFlush: F138. C19 "the same history applied to an in-memory byte sequence with a single
// cursor": output still held in the handle's bufio.Writer is written out before the handle is read —
// every call that consumes from file.reader in the io library is dominated by flushBeforeRead (or by
// fileIsReadable, which calls it).
func ruleReadsAfterFlush(c *Ctx) {
	const R = "R19-reconcile"
	p := c.P
	flush := c.need(R, "lua", "(*lFile).flushBeforeRead")
	readable := p.Fn("lua", "fileIsReadable")
	rF := p.Field("lua", "lFile", "reader")
	if flush == nil || readable == nil || rF == nil {
		return
	}
	c.Sites++
	c.check(len(callsTo(readable, flush)) > 0, R, "fileIsReadable:flushes-pending-output", p.pos(readable.Pos()), "fileIsReadable calls flushBeforeRead", "fileIsReadable does not flush pending output: a read that follows a buffered write happens at the descriptor's old position")
	n := 0
	for _, fn := range p.srcFuncs {
		if fn.Pkg == nil || fn.Pkg.Pkg.Path() != luaPath || fn.Blocks == nil || !strings.HasPrefix(p.pos(fn.Pos()), "iolib.go:") || fn == flush {
			continue
		}
		if fn.Name() == "AbandonReadBuffer" {
			continue // gives read-ahead back; consumes nothing
		}
		g := p.G(fn)
		var first ssa.Instruction
		allInstrs(fn, func(in ssa.Instruction) {
			cc := callOf(in)
			if cc == nil || !g.Live(in) || first != nil {
				return
			}
			consumes := false
			for _, a := range cc.Args {
				if _, ok := loadsField(a, rF); ok {
					consumes = true
				}
				if mi, ok := a.(*ssa.MakeInterface); ok {
					if _, ok := loadsField(mi.X, rF); ok {
						consumes = true
					}
				}
			}
			if cc.IsInvoke() {
				if _, ok := loadsField(cc.Value, rF); ok {
					consumes = true
				}
			}
			if sc := cc.StaticCallee(); sc != nil && (sc.Name() == "Buffered" || sc.Name() == "NewReaderSize") {
				consumes = false
			}
			if consumes {
				first = in
			}
		})
		if first == nil {
			continue
		}
		n++
		c.Sites++
		c.touch(fn)
		dom := false
		for _, f := range append(callsTo(fn, flush), callsTo(fn, readable)...) {
			if g.Dominates(f, first) {
				dom = true
			}
		}
		c.check(dom, R, fn.Name()+":pending-output-flushed-before-the-read", p.ipos(first), "the first use of the reader follows flushBeforeRead / fileIsReadable",
			fname(fn)+" reads from the handle without flushing pending buffered output first: with setvbuf('full') a write followed directly by a read reads at the old position, and the written bytes land later wherever the read left the descriptor")
	}
	c.check(n >= 3, R, "read-entry-points", "-", fmt.Sprintf("%d functions that consume from file.reader examined", n), "functions that read from file.reader not found")
}
