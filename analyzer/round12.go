package main

// round12.go — rules added after seeding round 12.

import (
	"fmt"
	"go/token"
	"go/types"
	"strings"

	"golang.org/x/tools/go/ssa"
)

// ruleLessThanSameType: C10/C04 "LessThan … gives exactly what the Lua expression gives": a < b consults
// __lt only for two operands of the same type (two numbers and two strings are compared directly; any
// other mixed pair is an error, whatever metatables they share). In lessThan the handler lookup is
// dominated by a test that the operands' Type() values are equal.
func ruleLessThanSameType(c *Ctx) {
	const R = "R04-events"
	p := c.P
	fn := c.need(R, "lua", "lessThan")
	owe := p.Fn("lua", "objectRationalWithError")
	if fn == nil || owe == nil {
		return
	}
	g := p.G(fn)
	n, okc := 0, true
	var where ssa.Instruction
	isType := func(v ssa.Value) bool {
		cl, ok := stripConv(v).(*ssa.Call)
		return ok && cl.Call.IsInvoke() && cl.Call.Method.Name() == "Type"
	}
	for _, cl := range callsTo(fn, owe) {
		if !g.Live(cl) {
			continue
		}
		n++
		same := g.holdsOnAllPaths(cl.Block(), func(cd Cond) bool {
			b, ok := cd.V.(*ssa.BinOp)
			if !ok || !isType(b.X) || !isType(b.Y) {
				return false
			}
			return (eqHolds(b, cd)) || (b.Op == token.NEQ && !cd.Sense)
		}, 0)
		if !same {
			okc = false
			where = cl
		}
	}
	pos := p.pos(fn.Pos())
	if where != nil {
		pos = p.ipos(where)
	}
	c.Sites++
	c.check(n > 0 && okc, R, "lessThan:__lt:same-type-operands-only", pos, fmt.Sprintf("%d handler lookup(s), each under lhs.Type() == rhs.Type()", n),
		"lessThan looks up __lt without having found the operands of the same type: a table and a userdata that share one metatable are ordered by its __lt, where Lua raises 'attempt to compare table with userdata' (and a <= b, which tests the types itself, still raises)")
}

// ruleStringResultsAreBuilt: C15 "string functions return exactly what the manual defines … a string":
// an argument read with CheckString may be a number; the functions of the string library answer with
// strings they built (LString values), never with the raw argument slot (L.Get(n)) — for a number
// subject that is a number.
func ruleStringResultsAreBuilt(c *Ctx) {
	const R = "R15-bytes"
	p := c.P
	push := p.Fn("lua", "(*LState).Push")
	get := p.Fn("lua", "(*LState).Get")
	if push == nil || get == nil {
		return
	}
	n := 0
	for _, fn := range p.srcFuncs {
		if fn.Pkg == nil || fn.Pkg.Pkg.Path() != luaPath || fn.Blocks == nil || !strings.HasPrefix(p.pos(fn.Pos()), "stringlib.go:") {
			continue
		}
		if len(fn.Params) != 1 || typeName(fn.Params[0].Type()) != "LState" {
			continue
		}
		var bad ssa.Instruction
		pushes := callsTo(fn, push)
		if len(pushes) == 0 {
			continue
		}
		for _, pu := range pushes {
			if cl, ok := stripMI(pu.Call.Args[1]).(*ssa.Call); ok && cl.Call.StaticCallee() == get && bad == nil {
				bad = pu
			}
		}
		n++
		c.Sites++
		c.touch(fn)
		pos := p.pos(fn.Pos())
		if bad != nil {
			pos = p.ipos(bad)
		}
		c.check(bad == nil, R, fn.Name()+":results-are-values-built-here", pos, "no result is a raw argument slot",
			fn.Name()+" answers with the raw argument (L.Get(n)) instead of the string it read from it: when the argument is a number the result is a number — string.rep(5, 1) returns 5, not \"5\"")
	}
	c.check(n >= 8, R, "string-results", "-", fmt.Sprintf("%d functions of the string library examined", n), "functions of the string library not found")
}

// ruleArrayPresenceIsNotNil: C09/C18 "storing nil deletes": a slot of the array part holds a value
// unless it is nil — false is a value. The list helpers of LTable decide presence by comparison with
// LNil only: no truthiness helper (LVAsBool, LVIsFalse) is applied in table.go.
func ruleArrayPresenceIsNotNil(c *Ctx) {
	const R = "R09-owner"
	p := c.P
	n := 0
	var bad ssa.Instruction
	var badFn *ssa.Function
	for _, fn := range p.srcFuncs {
		if fn.Pkg == nil || fn.Pkg.Pkg.Path() != luaPath || fn.Blocks == nil || !strings.HasPrefix(p.pos(fn.Pos()), "table.go:") || recvNamed(fn) != "LTable" {
			continue
		}
		n++
		allInstrs(fn, func(in ssa.Instruction) {
			if sc := staticCallee(in); sc != nil && (sc.Name() == "LVAsBool" || sc.Name() == "LVIsFalse") && bad == nil {
				bad, badFn = in, fn
			}
		})
	}
	pos := "-"
	who := ""
	if bad != nil {
		pos = p.ipos(bad)
		who = fname(badFn)
	}
	c.Sites++
	c.check(n > 10 && bad == nil, R, "table.go:presence-is-not-nil", pos, fmt.Sprintf("%d functions of table.go, none applies a truthiness helper", n),
		who+" applies a truthiness test to a table slot: false is a value — a list that ends in false is taken to end one element earlier (table.insert(t, v) after t[#t] = nil overwrites the false)")
}

// ruleNestingCapMeansDeepestAccepted: C14 (guard of F134 made exact, C14l): maxCaptureNesting is the
// deepest nesting accepted (32, as many captures as the reference allows). The raising test in
// parsePattern, read with the position of the counter's increment, refuses level cap+1 and accepts level
// cap.
func ruleNestingCapMeansDeepestAccepted(c *Ctx) {
	const R = "R14-depth"
	p := c.P
	fn := c.need(R, "pm", "parsePattern")
	pk := p.Pkg("pm")
	if fn == nil || pk == nil {
		return
	}
	cst, ok := pk.Types.Scope().Lookup("maxCaptureNesting").(*types.Const)
	if !ok {
		c.und(R, "parsePattern:cap-is-the-deepest-nesting-accepted", "-", "pm.maxCaptureNesting not found")
		return
	}
	capV, _ := constValInt(cst)
	dF := p.Field("pm", "scanner", "depth")
	g := p.G(fn)
	found, okc := false, false
	allInstrs(fn, func(in ssa.Instruction) {
		iff, isIf := in.(*ssa.If)
		if !isIf || !g.Live(in) {
			return
		}
		b, isB := iff.Cond.(*ssa.BinOp)
		if !isB {
			return
		}
		k, isK := constInt(b.Y)
		if !isK || k != capV {
			return
		}
		raises := false
		for _, x := range iff.Block().Succs[0].Instrs {
			if _, isPanic := x.(*ssa.Panic); isPanic {
				raises = true
			}
		}
		if !raises {
			return
		}
		// the compared value: depth as loaded; was the increment stored before this load?
		u, isLoad := stripConv(b.X).(*ssa.UnOp)
		if !isLoad || dF == nil {
			return
		}
		if fa, ok := u.X.(*ssa.FieldAddr); !ok || fieldOf(fa) != dF {
			return
		}
		found = true
		incBefore := false
		allInstrs(fn, func(s ssa.Instruction) {
			if st, ok := isFieldStore(s, dF); ok {
				if bo, ok := st.Val.(*ssa.BinOp); ok && bo.Op == token.ADD && g.Dominates(s, u) {
					incBefore = true
				}
			}
		})
		// level n is being entered; the compared value is n when the increment came first, n-1 otherwise
		refused := func(n int64) bool {
			v := n - 1
			if incBefore {
				v = n
			}
			switch b.Op {
			case token.GTR:
				return v > capV
			case token.GEQ:
				return v >= capV
			}
			return false
		}
		okc = !refused(capV) && refused(capV+1)
	})
	c.Sites++
	c.check(found && okc, R, "parsePattern:cap-is-the-deepest-nesting-accepted", p.pos(fn.Pos()), fmt.Sprintf("nesting %d is accepted, nesting %d is refused", capV, capV+1),
		fmt.Sprintf("the raising test of parsePattern, read with the position of the counter's increment, does not accept nesting %d and refuse nesting %d: a pattern with exactly %d nested captures — valid in Lua 5.1 — raises 'too many captures'", capV, capV+1, capV))
}

// ruleHandlerFramesFromTheFailedCall: C12l (guard of F136 made exact): the frames given up for the
// message handler are frames of the failed call — the stack pointer set in PCall's recovery for that
// purpose is bounded below by the depth captured when the protected call was made (sp), not by 0: frames
// of the callers of xpcall/PCall are still live.
func ruleHandlerFramesFromTheFailedCall(c *Ctx) {
	const R = "R05-handlerarm"
	p := c.P
	pcall := c.need(R, "lua", "(*LState).PCall")
	if pcall == nil {
		return
	}
	isSpLoad := func(v ssa.Value) bool {
		u, ok := v.(*ssa.UnOp)
		if !ok {
			return false
		}
		fv, ok := u.X.(*ssa.FreeVar)
		return ok && fv.Name() == "sp"
	}
	n, okc := 0, true
	var where ssa.Instruction
	withClosures(pcall, func(fn *ssa.Function) {
		if fn == pcall {
			return
		}
		allInstrs(fn, func(in ssa.Instruction) {
			cc := callOf(in)
			if cc == nil || !cc.IsInvoke() || cc.Method.Name() != "SetSp" || len(cc.Args) != 1 {
				return
			}
			if isSpLoad(cc.Args[0]) {
				return
			}
			n++
			// a maximum with sp: a phi one of whose edges is sp
			bounded := false
			if ph, ok := cc.Args[0].(*ssa.Phi); ok {
				for _, e := range ph.Edges {
					if isSpLoad(e) {
						bounded = true
					}
				}
			}
			if !bounded {
				okc = false
				where = in
			}
		})
	})
	pos := p.pos(pcall.Pos())
	if where != nil {
		pos = p.ipos(where)
	}
	c.Sites++
	c.check(n > 0 && okc, R, "PCall:handler-frames-taken-from-the-failed-call-only", pos, fmt.Sprintf("%d lowering(s) of the stack pointer for the handler, each bounded below by the captured depth", n),
		"PCall's recovery lowers the stack pointer for the message handler to a depth that is not bounded below by the depth of the protected call itself: an xpcall made within 8 frames of the limit hands frames of its own callers to the handler — they return through clobbered frames (wrong values, nil dereference)")
}

// ruleHeadInsertKeepsTheList: C03 "a closure reads and writes the variable instance … shared with the
// closures that captured it": findUpvalue inserts a new open upvalue into the sorted list; when it
// becomes the head, the old list hangs behind it — some path of the function both makes it the head
// (uvcache = uv) and assigns its next field.
func ruleHeadInsertKeepsTheList(c *Ctx) {
	const R = "R03-close"
	p := c.P
	fn := c.need(R, "lua", "(*LState).findUpvalue")
	cacheF := p.Field("lua", "LState", "uvcache")
	nextF := p.Field("lua", "Upvalue", "next")
	if fn == nil || cacheF == nil || nextF == nil {
		return
	}
	var alloc ssa.Value
	allInstrs(fn, func(in ssa.Instruction) {
		if a, ok := in.(*ssa.Alloc); ok && a.Heap && typeName(a.Type()) == "Upvalue" {
			alloc = a
		}
	})
	var heads, nexts []ssa.Instruction
	allInstrs(fn, func(in ssa.Instruction) {
		if st, ok := isFieldStore(in, cacheF); ok && st.Val == alloc {
			heads = append(heads, in)
		}
		if st, ok := isFieldStore(in, nextF); ok {
			if fa := st.Addr.(*ssa.FieldAddr); fa.X == alloc {
				nexts = append(nexts, in)
			}
		}
	})
	okc := false
	for _, h := range heads {
		for _, nx := range nexts {
			if h.Block() == nx.Block() || canReach(h.Block(), nx.Block()) || canReach(nx.Block(), h.Block()) {
				okc = true
			}
		}
	}
	c.Sites++
	c.check(alloc != nil && len(heads) > 0 && okc, R, "findUpvalue:head-insert-keeps-the-list", p.pos(fn.Pos()), "a path makes the new upvalue the head and links the old list behind it",
		"findUpvalue makes a new upvalue the head of the open list on a path that never assigns its next field: the upvalues that were open before it drop out of the list — they are never closed when their scope ends and never found again for sharing (a closure that captures a higher register before a lower one reads reclaimed registers)")
}

// ruleScannerSeesBytesOnly: C08 "the result depends on nothing but the bytes": what the scanner does never
// depends on how the reader delivered the bytes — package parse does not consult bufio.Reader.Buffered
// (a two-byte line end that straddles a refill would count as two).
func ruleScannerSeesBytesOnly(c *Ctx) {
	const R = "R08-eof"
	p := c.P
	pk := p.Pkg("parse")
	if pk == nil {
		return
	}
	var bad ssa.Instruction
	var badFn *ssa.Function
	n := 0
	for _, fn := range p.srcFuncs {
		if fn.Pkg == nil || fn.Pkg.Pkg != pk.Types || fn.Blocks == nil {
			continue
		}
		n++
		allInstrs(fn, func(in ssa.Instruction) {
			if pkn, nm, ok := stdCall(in); ok && pkn == "bufio" && (strings.HasSuffix(nm, ".Buffered") || strings.HasSuffix(nm, ".Size")) && bad == nil {
				bad, badFn = in, fn
			}
		})
	}
	pos, who := "-", ""
	if bad != nil {
		pos, who = p.ipos(bad), fname(badFn)
	}
	c.Sites++
	c.check(n > 20 && bad == nil, R, "scanner:independent-of-the-reader's-chunking", pos, fmt.Sprintf("%d functions of package parse, none looks at the reader's buffer state", n),
		who+" looks at how many bytes the reader has buffered: what the scanner does then depends on where the reader's chunks end — a CR LF pair that straddles a refill of the 4096-byte buffer is counted as two line ends (every later line number is one too high, a long string holds two newlines)")
}

// ruleOnlyCloseCloses: C19 "operations on a closed handle raise … the same history applied to a byte
// sequence": a handle is closed by the operations that say so — file:close, io.close, and the iterator of
// io.lines(name) for the file it opened itself. fileCloseAux has no other caller (switching the default
// input or output never closes the handle that was the default: the script may still hold it).
func ruleOnlyCloseCloses(c *Ctx) {
	const R = "R19-closed"
	p := c.P
	aux := c.need(R, "lua", "fileCloseAux")
	if aux == nil {
		return
	}
	allowed := map[string]string{"fileClose": "file:close()", "ioClose": "io.close([file])", "ioLinesIter": "the iterator of io.lines(name) closes the file it opened at end of input"}
	var foreign []string
	var where ssa.Instruction
	n := 0
	for _, fn := range p.srcFuncs {
		if fn.Pkg == nil || fn.Pkg.Pkg.Path() != luaPath || fn.Blocks == nil {
			continue
		}
		for _, cl := range callsTo(fn, aux) {
			n++
			if _, ok := allowed[fn.Name()]; !ok {
				foreign = append(foreign, fn.Name())
				if where == nil {
					where = cl
				}
			}
		}
	}
	pos := p.pos(aux.Pos())
	if where != nil {
		pos = p.ipos(where)
	}
	c.Sites++
	c.check(n > 0 && len(foreign) == 0, R, "fileCloseAux:called-only-by-the-closing-operations", pos, fmt.Sprintf("%d call(s), all from file:close, io.close or the io.lines(name) iterator", n),
		fmt.Sprintf("fileCloseAux is called from %v: a handle is closed by an operation that does not say so — a file the script opened and registered with io.input(h) is closed behind its back when the default input is switched, and every later h:read raises 'file is closed'", foreign))
}

// ruleSetlistOffsetAfterBatchRead: C09/C01. OP_SETLIST stores batch C at positions (C-1)*FieldsPerFlush+i;
// for C == 0 the batch number is the next code word. The offset is computed from the batch number the
// handler ends up with — the value multiplied by FieldsPerFlush depends on the word fetched from the
// code (through the merge with the operand), not on the raw operand alone.
func ruleSetlistOffsetAfterBatchRead(c *Ctx) {
	const R = "R01-decode"
	p := c.P
	t := p.vmTable()
	o := t.ByName["OP_SETLIST"]
	if o == nil || o.Handler == nil {
		c.und(R, "OP_SETLIST:offset-from-the-final-batch-number", "-", "handler not found")
		return
	}
	fn := o.Handler
	var fromCode func(v ssa.Value, d int) bool
	fromCode = func(v ssa.Value, d int) bool {
		if d > 8 {
			return false
		}
		if u, ok := v.(*ssa.UnOp); ok && u.Op == token.MUL {
			if ia, ok := u.X.(*ssa.IndexAddr); ok {
				if sl, ok := ia.X.Type().Underlying().(*types.Slice); ok {
					if bt, ok := sl.Elem().Underlying().(*types.Basic); ok && bt.Kind() == types.Uint32 {
						return true
					}
				}
			}
		}
		in, ok := v.(ssa.Instruction)
		if !ok {
			return false
		}
		for _, op := range in.Operands(nil) {
			if *op != nil && fromCode(*op, d+1) {
				return true
			}
		}
		return false
	}
	n, okc := 0, true
	var where ssa.Instruction
	allInstrs(fn, func(in ssa.Instruction) {
		b, ok := in.(*ssa.BinOp)
		if !ok || b.Op != token.MUL {
			return
		}
		isFPF := func(v ssa.Value) bool {
			u, ok := stripConv(v).(*ssa.UnOp)
			if !ok {
				return false
			}
			gl, ok := u.X.(*ssa.Global)
			return ok && gl.Name() == "FieldsPerFlush"
		}
		var other ssa.Value
		if isFPF(b.Y) {
			other = b.X
		} else if isFPF(b.X) {
			other = b.Y
		} else {
			return
		}
		n++
		if !fromCode(other, 0) {
			okc = false
			where = in
		}
	})
	pos := p.pos(fn.Pos())
	if where != nil {
		pos = p.ipos(where)
	}
	c.Sites++
	c.check(n > 0 && okc, R, "OP_SETLIST:offset-from-the-final-batch-number", pos, fmt.Sprintf("%d offset computation(s), each from the batch number merged with the trailing word", n),
		"the SETLIST handler computes the store offset from the raw C operand before the extended form's batch number has been read from the next word: for a constructor with more than 25550 positional items the batch lands at keys -49..0 — t[25551] is nil, #t is 25550, t[0] and t[-1] exist")
}

// ruleGlobalSlicesNotAliased: C13 "no shared mutable package state": the value of a package-level slice
// variable (pointer, length, capacity) is not copied into other storage or extended at run time — an
// append to it, or to a copy of it with spare capacity, writes into the one backing array every state
// shares (a pattern program started from a pre-sized package-level slice is emitted into shared memory).
func ruleGlobalSlicesNotAliased(c *Ctx) {
	const R = "R13-globals"
	p := c.P
	n := 0
	for _, fn := range p.srcFuncs {
		if fn.Pkg == nil || !repoPkg(fn.Pkg.Pkg.Path()) || fn.Blocks == nil || fn.Name() == "init" || strings.HasPrefix(fn.Name(), "init#") || strings.HasPrefix(fn.Name(), "init$") {
			continue
		}
		if fn.Parent() != nil && (fn.Parent().Name() == "init" || strings.HasPrefix(fn.Parent().Name(), "init#")) {
			continue
		}
		allInstrs(fn, func(in ssa.Instruction) {
			u, ok := in.(*ssa.UnOp)
			if !ok || u.Op != token.MUL {
				return
			}
			gl, ok := u.X.(*ssa.Global)
			if !ok || gl.Pkg == nil || !repoPkg(gl.Pkg.Pkg.Path()) {
				return
			}
			if _, isSlice := u.Type().Underlying().(*types.Slice); !isSlice {
				return
			}
			n++
			for _, r := range *u.Referrers() {
				bad := ""
				switch x := r.(type) {
				case *ssa.Store:
					if x.Val == ssa.Value(u) {
						bad = "stored into other storage"
					}
				case *ssa.Call:
					if bi, ok := x.Call.Value.(*ssa.Builtin); ok && bi.Name() == "append" && len(x.Call.Args) > 0 && x.Call.Args[0] == ssa.Value(u) {
						bad = "extended with append"
					}
				case *ssa.Slice:
					bad = "re-sliced"
				}
				if bad != "" {
					c.bad(R, fmt.Sprintf("alias:%s:%s", gl.Name(), fn.Name()), p.ipos(r),
						fmt.Sprintf("the package-level slice %s is %s in %s at run time: the copy shares the variable's backing array (and its spare capacity), so an append through it writes into memory every LState shares — states matching patterns (compiling, formatting …) concurrently overwrite each other's data", gl.Name(), bad, fname(fn)))
				}
			}
		})
	}
	c.okT(R, "global-slices", "-", fmt.Sprintf("%d run-time reads of package-level slice variables examined", n))
}

// ruleTimeAcceptsEveryField: C16 "os.time(os.date('*t', t)) == t for every whole second t": os.time does
// not refuse a date table by the value of a field (a negative year is a year): no raising call in osTime
// stands under a condition on a value read with getIntField.
func ruleTimeAcceptsEveryField(c *Ctx) {
	const R = "R16-time"
	p := c.P
	fn := c.need(R, "lua", "osTime")
	gif := p.Fn("lua", "getIntField")
	if fn == nil || gif == nil {
		return
	}
	p.computeNoReturn()
	g := p.G(fn)
	fields := callsTo(fn, gif)
	var bad ssa.Instruction
	allInstrs(fn, func(in ssa.Instruction) {
		if !p.isNoReturnCall(in) || !g.Live(in) || bad != nil {
			return
		}
		for _, cd := range g.expandAnd(g.CondsAtInstr(in)) {
			for _, f := range fields {
				if dependsOnValue(cd.V, f, 0) {
					bad = in
				}
			}
		}
		// a disjunction: the raising block has several predecessors; look at their tests too
		for _, pr := range g.Preds(in.Block()) {
			if iff, ok := pr.Instrs[len(pr.Instrs)-1].(*ssa.If); ok {
				for _, f := range fields {
					if dependsOnValue(iff.Cond, f, 0) {
						bad = in
					}
				}
			}
		}
	})
	pos := p.pos(fn.Pos())
	if bad != nil {
		pos = p.ipos(bad)
	}
	c.Sites++
	c.check(len(fields) >= 6 && bad == nil, R, "osTime:no-field-refused-by-its-value", pos, fmt.Sprintf("%d fields read, no raise under a test of one of them", len(fields)),
		"osTime raises under a condition on the value of a date field: os.date('*t', t) yields a negative year for t before year 0, and os.time of that table raises instead of returning t")
}

// rulePathExpansionSeesTheRawValue: C20 "a missing module's error lists what was tried": ';;' in LUA_PATH
// stands for the default path, also at the very start or end of the value (the usual way to append the
// defaults). loGetPath expands it in the value as read: nothing trims the value first.
func rulePathExpansionSeesTheRawValue(c *Ctx) {
	const R = "R20-findfile"
	p := c.P
	fn := c.need(R, "lua", "loGetPath")
	if fn == nil {
		return
	}
	var bad ssa.Instruction
	expands := false
	allInstrs(fn, func(in ssa.Instruction) {
		pk, nm, ok := stdCall(in)
		if !ok || pk != "strings" {
			return
		}
		if strings.HasPrefix(nm, "Trim") && bad == nil {
			bad = in
		}
		if nm == "Replace" || nm == "ReplaceAll" {
			expands = true
		}
	})
	pos := p.pos(fn.Pos())
	if bad != nil {
		pos = p.ipos(bad)
	}
	c.Sites++
	c.check(expands && bad == nil, R, "loGetPath:default-path-marker-expanded-in-the-raw-value", pos, "the ';;' expansion works on the value as read",
		"loGetPath trims the LUA_PATH value before it expands ';;': a value that ends (or starts) with ';;' — the usual way to append the default path — loses the marker, package.path lacks ./?.lua and the other defaults, and a failed require no longer lists them")
}

// ruleSetSpAdjustsBeforeFreeing: C05/C12 (auto-growing call-frame stack): a target depth that is a whole
// number of segments is stored as "previous segment full". SetSp adjusts the wanted segment index for
// that BEFORE it frees segments: the bound the freeing loop compares the cursor with is the adjusted
// index (a merge one of whose inputs is index-1), not the raw quotient.
func ruleSetSpAdjustsBeforeFreeing(c *Ctx) {
	const R = "R12-isfull"
	p := c.P
	fn := c.need(R, "lua", "(*autoGrowingCallFrameStack).SetSp")
	idxF := p.Field("lua", "autoGrowingCallFrameStack", "segIdx")
	if fn == nil || idxF == nil {
		return
	}
	g := p.G(fn)
	found, okc := false, false
	for _, li := range g.loops() {
		for blk := range li.Body {
			iff, ok := blk.Instrs[len(blk.Instrs)-1].(*ssa.If)
			if !ok {
				continue
			}
			b, ok := iff.Cond.(*ssa.BinOp)
			if !ok {
				continue
			}
			_, lx := loadsField(stripConv(b.X), idxF)
			_, ly := loadsField(stripConv(b.Y), idxF)
			if !lx && !ly {
				continue
			}
			found = true
			bound := b.Y
			if ly {
				bound = b.X
			}
			if ph, ok := stripConv(bound).(*ssa.Phi); ok {
				for _, e := range ph.Edges {
					if s, ok := stripConv(e).(*ssa.BinOp); ok && s.Op == token.SUB {
						if k, isK := constInt(s.Y); isK && k == 1 {
							okc = true
						}
					}
				}
			}
		}
	}
	c.Sites++
	c.check(found && okc, R, "SetSp:segment-index-adjusted-before-the-freeing-loop", p.pos(fn.Pos()), "the loop's bound is the adjusted index (a merge with index-1)",
		"(*autoGrowingCallFrameStack).SetSp frees segments down to the raw quotient sp/FramesPerSegment and adjusts for a full last segment afterwards (or not at all): unwinding a failed protected call to a depth that is a whole number of segments leaves the cursor one segment too high — Sp() is sp+8 and currentFrame points at a stale frame")
}

// ruleRegTopOwner: C07 "each register operand lies below the declared register count": every local and
// temporary is allocated by moving funcContext.regTop, and SetRegTop is where the move is checked against
// maxRegisters ("too many local variables"). Nothing else writes the field: operand fields wrap silently,
// and patchCode's high-water scan only sees what fitted.
func ruleRegTopOwner(c *Ctx) {
	const R = "R07-consts"
	p := c.P
	f := p.Field("lua", "funcContext", "regTop")
	if f == nil {
		c.und(R, "regTop:anchor", "-", "funcContext.regTop not found")
		return
	}
	var foreign []string
	var where ssa.Instruction
	n := 0
	for _, fn := range p.srcFuncs {
		if fn.Pkg == nil || fn.Pkg.Pkg.Path() != luaPath || fn.Blocks == nil {
			continue
		}
		allInstrs(fn, func(in ssa.Instruction) {
			if _, ok := isFieldStore(in, f); !ok {
				return
			}
			n++
			if fn.Name() != "SetRegTop" && fn.Name() != "newFuncContext" {
				foreign = append(foreign, fn.Name())
				if where == nil {
					where = in
				}
			}
		})
	}
	pos := "-"
	if where != nil {
		pos = p.ipos(where)
	}
	c.Sites++
	c.check(n > 0 && len(foreign) == 0, R, "regTop:written-only-by-the-checked-setter", pos, fmt.Sprintf("%d store(s) of funcContext.regTop, all in SetRegTop / newFuncContext", n),
		fmt.Sprintf("funcContext.regTop is written in %v, past SetRegTop's maxRegisters check: `local a0, …, a599` is accepted (LOADNIL's 9-bit B wraps, the high-water scan sees 89 registers) and later instructions name registers far outside the declared frame or, wrapped, other locals", foreign))
}

// ruleYieldHandsOverExactlyItsValues: C06 "the values given to yield arrive as the results of resume, in
// order and number": LState.Yield replaces the host function's stack by the values it was given — the
// stack is emptied on every path, also when no value is yielded (what is left there is handed over).
func ruleYieldHandsOverExactlyItsValues(c *Ctx) {
	const R = "R06-killarg"
	p := c.P
	fn := c.need(R, "lua", "(*LState).Yield")
	setTop := p.Fn("lua", "(*LState).SetTop")
	if fn == nil || setTop == nil {
		return
	}
	g := p.G(fn)
	empties := func(in ssa.Instruction) bool {
		if !isCallTo(in, setTop) {
			return false
		}
		k, ok := constInt(in.(*ssa.Call).Call.Args[1])
		return ok && k == 0
	}
	okc, wit := g.MustPassBefore(fn.Blocks[0], 0, empties, isReturn)
	pos := p.pos(fn.Pos())
	if wit != nil {
		pos = p.ipos(wit)
	}
	c.Sites++
	c.check(okc, R, "Yield:stack-emptied-on-every-path", pos, "SetTop(0) lies on every path to the return",
		"LState.Yield can return without having emptied the host function's stack: a yield of no values hands over whatever the function still had there — its own arguments arrive at the resumer as if yielded (a generator that yields nothing drives the for-in loop with them)")
}

// ruleXpcallCountsFromItsTop: C02/C05 "surplus arguments are dropped": xpcall(f, h, extra…) — the results
// of the protected call lie above everything the function found on its stack. baseXPCall places the
// leading true and counts its results from the top it read at entry, not from a constant position.
func ruleXpcallCountsFromItsTop(c *Ctx) {
	const R = "R10-surplus"
	p := c.P
	fn := c.need(R, "lua", "baseXPCall")
	getTop := p.Fn("lua", "(*LState).GetTop")
	insert := p.Fn("lua", "(*LState).Insert")
	if fn == nil || getTop == nil || insert == nil {
		return
	}
	tops := callsTo(fn, getTop)
	n, okc := 0, true
	var where ssa.Instruction
	rel := func(v ssa.Value) bool {
		l := lin(v)
		for _, tc := range tops {
			if co := l.T[leafKey(tc)]; co == 1 || co == -1 {
				if len(l.T) >= 1 {
					// relative to an entry top: either top+k, or GetTop() - top
					for _, tc2 := range tops {
						if tc2 != tc && l.T[leafKey(tc2)] != 0 {
							return true
						}
					}
					if len(l.T) == 1 && co == 1 && idxIn(tc.Block(), tc) >= 0 {
						return tc == tops[0]
					}
				}
			}
		}
		return false
	}
	for _, cl := range callsTo(fn, insert) {
		n++
		if !rel(cl.Call.Args[2]) {
			okc = false
			where = cl
		}
	}
	allInstrs(fn, func(in ssa.Instruction) {
		r, ok := in.(*ssa.Return)
		if !ok || len(r.Results) != 1 {
			return
		}
		if _, isK := constInt(r.Results[0]); isK {
			return
		}
		n++
		if !rel(r.Results[0]) {
			okc = false
			where = in
		}
	})
	pos := p.pos(fn.Pos())
	if where != nil {
		pos = p.ipos(where)
	}
	c.Sites++
	c.check(n >= 2 && okc && len(tops) >= 2, R, "baseXPCall:results-counted-from-the-top-read-at-entry", pos, fmt.Sprintf("%d position(s)/count(s), each relative to the entry top", n),
		"baseXPCall places the leading true or counts its results from a constant stack position: with surplus arguments — xpcall(f, h, extra) — the constant points into the arguments, so the extras are returned as results and true lands among them")
}
