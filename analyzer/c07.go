package main

// C07 — every compiled function is well-formed bytecode.

import (
	"fmt"
	"go/token"
	"go/types"
	"sort"
	"strings"

	"golang.org/x/tools/go/ssa"
)

func init() {
	register(&propInfo{
		ID:    "C07",
		Title: "Every compiled function is well-formed bytecode the VM can run without faulting",
		Explanation: "Decided: R07-narrow — every narrowing conversion stored into a FunctionProto field is dominated by a raising range check of the same value against a constant that fits the field; R07-rk/R07-bx/R07-sbx — operand-width guards derived from opcode.go: every opRkAsk argument is checked against opMaxIndexRk, every Bx operand comes from ConstIndex (which raises above opMaxArgBx) or is range-checked, every value that becomes a final sBx jump distance is range-checked (two-sided where the sign is unknown) and label ids parked in the sBx field are bounded in NewLabel, the only writer of labelId; " +
			"R07-extword — a word emitted through raw codeStore.Add is not a constant under its own path condition (SETLIST batch number); R07-skipgroup — for every opcode whose handler reads trailing code words, patchCode's scan advances past them (or the opcode is exempt with a reason), and the three definitions of the CLOSURE group length agree; R07-consts — register/constant ceilings fit the operand fields and are enforced with raising arms; R07-ret — an OP_RETURN emission lies on every path between compileChunk and the assignment of Proto.Code; R07-parallel — code and line table are modified in lock-step, sliced with the same bound and assigned together, string-constant table is built after the last possible ConstIndex call; R01-optable/R01-emit/R01-decode shared. " +
			"R07-regcount — for every opcode whose VM handler stores into R(A+k), patchCode's case for that opcode accounts for at least A+k when it computes NumUsedRegisters (or derives the mark from the operands). R07-width — counts emitted as operands (CALL's B and C, VARARG's B) are compared with the operand width first; codeStore.Last() never hands the data word of an extended SETLIST to the peepholes. NOT decided: that register operands stay below NumUsedRegisters (post-hoc high-water scan; a value argument), that every label is defined before patchCode, that jump targets are instruction boundaries.",
		Trusted: []string{"codeStore.LastPC() is non-decreasing while one statement is compiled (a numeric for's body length is non-negative)"},
		Rules:   []func(*Ctx){rulePeepholePopsOnlyTemporaries, ruleRegTopOwner, ruleLogicalTailRequested, ruleKmvFlow, ruleNarrow, ruleRk, ruleBx, ruleSbx, ruleExtWord, ruleSkipGroup, ruleRegCount, ruleOperandWidth, ruleConsts, ruleRet, ruleParallel, ruleOptable, ruleEmit, ruleDecode, ruleCompilerDecodes, ruleCaptureWords, ruleFrameCoversParameters, ruleBulkMoveEndsAtTargets},
	})
}

// ---------------------------------------------------------------------------------------------
// linear forms

type linform struct {
	T map[string]int64
	K int64
}

func lin(v ssa.Value) linform {
	l := linform{T: map[string]int64{}}
	var rec func(v ssa.Value, sign int64, d int)
	rec = func(v ssa.Value, sign int64, d int) {
		v = stripConv(v)
		if k, ok := constInt(v); ok {
			l.K += sign * k
			return
		}
		if d < 8 {
			switch x := v.(type) {
			case *ssa.BinOp:
				switch x.Op {
				case token.ADD:
					rec(x.X, sign, d+1)
					rec(x.Y, sign, d+1)
					return
				case token.SUB:
					rec(x.X, sign, d+1)
					rec(x.Y, -sign, d+1)
					return
				}
			case *ssa.UnOp:
				if x.Op == token.SUB {
					rec(x.X, -sign, d+1)
					return
				}
			}
		}
		l.T[leafKey(v)] += sign
	}
	rec(v, 1, 0)
	for k, c := range l.T {
		if c == 0 {
			delete(l.T, k)
		}
	}
	return l
}

// leafKey: structural key, except that results of (non-builtin) calls are identified by the call
// instruction itself — two calls of LastPC() are different values.
func leafKey(v ssa.Value) string {
	if c, ok := v.(*ssa.Call); ok {
		if _, isB := c.Call.Value.(*ssa.Builtin); !isB {
			return "id:" + fname(c.Parent()) + "." + c.Name()
		}
	}
	return vkey(v)
}

// sameTerms: +1 if equal terms, -1 if negated, 0 otherwise.
func sameTerms(a, b linform) int {
	if len(a.T) != len(b.T) || len(a.T) == 0 {
		return 0
	}
	pos, neg := true, true
	for k, c := range a.T {
		if b.T[k] != c {
			pos = false
		}
		if b.T[k] != -c {
			neg = false
		}
	}
	if pos {
		return 1
	}
	if neg {
		return -1
	}
	return 0
}

// bounds derives from the path condition at an instruction the tightest known constant upper/lower
// bounds of value v: hasUp ⇒ v <= up, hasLo ⇒ v >= lo.  Only atoms whose terms are ±terms(v) are used.
func bounds(g *PCFG, at ssa.Instruction, v ssa.Value) (up, lo int64, hasUp, hasLo bool) {
	return boundsRec(g, g.CondsAtInstr(at), v, map[ssa.Value]bool{}, 0)
}

// boundsRec adds the phi rule (Appendix A3 iii): a phi is bounded by the union of the bounds of its
// incoming values, each taken under the conditions of its incoming edge.
func boundsRec(g *PCFG, conds []Cond, v ssa.Value, busy map[ssa.Value]bool, depth int) (up, lo int64, hasUp, hasLo bool) {
	up, lo, hasUp, hasLo = boundsConds(conds, v)
	ph, ok := stripConv(v).(*ssa.Phi)
	if !ok || depth > 4 || busy[ph] {
		return
	}
	busy[ph] = true
	defer delete(busy, ph)
	first := true
	var pu, pl int64
	phu, phl := true, true
	for i, e := range ph.Edges {
		if es := stripConv(e); es == ssa.Value(ph) || busy[es] {
			continue // loop-carried self reference adds nothing
		}
		var eu, el int64
		var ehu, ehl bool
		if k, isc := constInt(e); isc {
			eu, el, ehu, ehl = k, k, true, true
		} else {
			eu, el, ehu, ehl = boundsRec(g, g.CondsOnEdge(ph.Block().Preds[i], ph.Block()), e, busy, depth+1)
		}
		if !ehu {
			phu = false
		}
		if !ehl {
			phl = false
		}
		if first {
			pu, pl, first = eu, el, false
		} else {
			if eu > pu {
				pu = eu
			}
			if el < pl {
				pl = el
			}
		}
	}
	if first {
		return
	}
	if phu && (!hasUp || pu < up) {
		up, hasUp = pu, true
	}
	if phl && (!hasLo || pl > lo) {
		lo, hasLo = pl, true
	}
	return
}

func boundsConds(conds []Cond, v ssa.Value) (up, lo int64, hasUp, hasLo bool) {
	lv := lin(v)
	for _, cd := range conds {
		b, ok := cd.V.(*ssa.BinOp)
		if !ok {
			continue
		}
		op := b.Op
		switch op {
		case token.LSS, token.LEQ, token.GTR, token.GEQ:
		default:
			continue
		}
		if !cd.Sense {
			op = negate(op)
		}
		// E op 0 where E = X - Y
		e := linform{T: map[string]int64{}}
		lx, ly := lin(b.X), lin(b.Y)
		for k, c := range lx.T {
			e.T[k] += c
		}
		for k, c := range ly.T {
			e.T[k] -= c
		}
		for k, c := range e.T {
			if c == 0 {
				delete(e.T, k)
			}
		}
		e.K = lx.K - ly.K
		s := sameTerms(lv, e)
		if s == 0 {
			continue
		}
		// e.terms + e.K op 0 ; v = s*e.terms + lv.K  ⇒ e.terms = s*(v - lv.K)
		// s*(v - lv.K) + e.K op 0
		// normalise to  s*v op' c
		cst := s2i(s)*lv.K - e.K // s*v op cst   (strict/non-strict by op)
		switch op {
		case token.LSS: // s*v < cst ⇒ s*v <= cst-1
			cst--
			fallthrough
		case token.LEQ:
			if s > 0 {
				if !hasUp || cst < up {
					up, hasUp = cst, true
				}
			} else { // -v <= cst ⇒ v >= -cst
				if !hasLo || -cst > lo {
					lo, hasLo = -cst, true
				}
			}
		case token.GTR:
			cst++
			fallthrough
		case token.GEQ:
			if s > 0 {
				if !hasLo || cst > lo {
					lo, hasLo = cst, true
				}
			} else { // -v >= cst ⇒ v <= -cst
				if !hasUp || -cst < up {
					up, hasUp = -cst, true
				}
			}
		}
	}
	return
}

func s2i(s int) int64 { return int64(s) }

// ---------------------------------------------------------------------------------------------

func ruleNarrow(c *Ctx) {
	const R = "R07-narrow"
	c.floor(R, 3)
	p := c.P
	p.computeNoReturn()
	protoT := p.Obj("lua", "FunctionProto")
	if protoT == nil {
		c.und(R, "anchor:FunctionProto", "-", "type not found")
		return
	}
	st := protoT.Type().Underlying().(*types.Struct)
	narrow := map[*types.Var]int64{}
	for i := 0; i < st.NumFields(); i++ {
		if bt, ok := st.Field(i).Type().Underlying().(*types.Basic); ok {
			switch bt.Kind() {
			case types.Uint8:
				narrow[st.Field(i)] = 255
			case types.Int8:
				narrow[st.Field(i)] = 127
			case types.Uint16:
				narrow[st.Field(i)] = 65535
			}
		}
	}
	for _, fn := range p.srcFuncs {
		if fn.Pkg == nil || fn.Pkg.Pkg.Path() != luaPath {
			continue
		}
		var g *PCFG
		allInstrs(fn, func(in ssa.Instruction) {
			s, ok := in.(*ssa.Store)
			if !ok {
				return
			}
			fa, ok := s.Addr.(*ssa.FieldAddr)
			if !ok {
				return
			}
			f := fieldOf(fa)
			max, isNarrow := narrow[f]
			if !isNarrow {
				return
			}
			cv, ok := s.Val.(*ssa.Convert)
			if !ok {
				return // constant, or arithmetic within the narrow type (not a narrowing conversion)
			}
			if sb, ok := cv.X.Type().Underlying().(*types.Basic); !ok || sb.Info()&types.IsInteger == 0 {
				return
			}
			if g == nil {
				g = p.G(fn)
			}
			if !g.Live(in) {
				return
			}
			c.touch(fn)
			c.Sites++
			key := fmt.Sprintf("%s:FunctionProto.%s", fname(fn), f.Name())
			up, _, hasUp, _ := bounds(g, in, cv.X)
			c.check(hasUp && up <= max, R, key, p.ipos(in),
				fmt.Sprintf("narrowing conversion dominated by a raising check: value <= %d <= %d", up, max),
				fmt.Sprintf("%s is narrowed into FunctionProto.%s (max %d) without a dominating raising range check: a larger count wraps around silently and the VM then disagrees with the compiler about the table size", shortKey(vkey(cv.X)), f.Name(), max))
		})
	}
}

func ruleRk(c *Ctx) {
	const R = "R07-rk"
	c.floor(R, 2)
	p := c.P
	ask := p.Fn("lua", "opRkAsk")
	maxRk, _ := p.intConst("lua", "opMaxIndexRk")
	if ask == nil {
		c.und(R, "anchor:opRkAsk", "-", "not found")
		return
	}
	for _, fn := range p.srcFuncs {
		for _, cl := range callsTo(fn, ask) {
			g := p.G(fn)
			c.touch(fn)
			up, _, hasUp, _ := bounds(g, cl, cl.Call.Args[0])
			c.check(hasUp && up <= maxRk, R, fmt.Sprintf("%s:opRkAsk#%d", fname(fn), countKey(c, R, fname(fn))), p.ipos(cl),
				"constant index checked against opMaxIndexRk before it is marked as RK", "a constant index is turned into an RK operand without a check against opMaxIndexRk: indices above 255 are truncated by the 9-bit field and name a different constant")
		}
	}
}

func ruleBx(c *Ctx) {
	const R = "R07-bx"
	c.floor(R, 6)
	p := c.P
	constIndex := p.Fn("lua", "(*funcContext).ConstIndex")
	maxBx, _ := p.intConst("lua", "opMaxArgBx")
	// ConstIndex itself raises above opMaxArgBx
	if fn := c.need(R, "lua", "(*funcContext).ConstIndex"); fn != nil {
		g := p.G(fn)
		okAll := true
		n := 0
		allInstrs(fn, func(in ssa.Instruction) {
			r, ok := in.(*ssa.Return)
			if !ok || !g.Live(in) {
				return
			}
			n++
			v := r.Results[0]
			// loop index i of an existing constant is < len(Constants) (bounded when it was appended)
			if _, isPhiIdx := stripConv(v).(*ssa.Extract); isPhiIdx {
				return
			}
			if _, isPhi := stripConv(v).(*ssa.Phi); isPhi {
				return
			}
			// index of an existing element: the loop condition i < len(Constants) holds
			existing := false
			for _, cd := range g.CondsAtInstr(in) {
				if b, ok := cd.V.(*ssa.BinOp); ok && b.Op == token.LSS && cd.Sense && stripConv(b.X) == stripConv(v) {
					if call, ok := stripConv(b.Y).(*ssa.Call); ok {
						if bi, ok := call.Call.Value.(*ssa.Builtin); ok && bi.Name() == "len" {
							existing = true
						}
					}
				}
			}
			if existing {
				return
			}
			up, _, hasUp, _ := bounds(g, in, v)
			if !hasUp || up > maxBx {
				okAll = false
			}
		})
		c.check(okAll && n > 0, R, "ConstIndex:ceiling", p.pos(fn.Pos()), "a newly appended constant's index is checked against opMaxArgBx with a raising arm", "ConstIndex returns a new index without checking it against opMaxArgBx")
	}
	for _, fn := range p.srcFuncs {
		if fn.Pkg == nil || fn.Pkg.Pkg.Path() != luaPath {
			continue
		}
		for _, e := range p.emitSites(fn) {
			if e.Kind != "AddABx" {
				continue
			}
			g := p.G(fn)
			c.touch(fn)
			c.Sites++
			bx := e.Args[2]
			ops := opNames(p, e.Ops)
			key := fmt.Sprintf("%s:AddABx(%s)#%d", fname(fn), ops, countKey(c, R, fname(fn)+ops))
			if call, ok := stripConv(bx).(*ssa.Call); ok && call.Call.StaticCallee() == constIndex {
				c.ok(R, key, p.ipos(e.In), "Bx is a ConstIndex result")
				continue
			}
			// a value that passed through ConstIndex earlier (e.g. loadRk's cindex)
			if call, ok := resolve(bx).(*ssa.Call); ok && call.Call.StaticCallee() == constIndex {
				c.ok(R, key, p.ipos(e.In), "Bx is a ConstIndex result")
				continue
			}
			up, _, hasUp, _ := bounds(g, e.In, bx)
			c.check(hasUp && up <= maxBx, R, key, p.ipos(e.In), "Bx operand range-checked against opMaxArgBx",
				fmt.Sprintf("Bx operand %s is neither a ConstIndex result nor range-checked against opMaxArgBx (18 bits): a larger index is truncated and names a different prototype/constant", shortKey(vkey(bx))))
		}
	}
}

func opNames(p *Prog, ks []int64) string {
	t := p.vmTable()
	var out []string
	for _, k := range ks {
		if int(k) < len(t.Ops) {
			out = append(out, t.Ops[k].Name)
		}
	}
	sort.Strings(out)
	return strings.Join(out, "|")
}

func ruleSbx(c *Ctx) {
	const R = "R07-sbx"
	c.floor(R, 5)
	p := c.P
	maxS, _ := p.intConst("lua", "opMaxArgSbx")
	setSbx := p.Fn("lua", "(*codeStore).SetSbx")
	opJmp := p.op("OP_JMP")
	twoSided := map[string]string{"patchCode": "jump distances to labels can be forward or backward"}
	// final sBx values: SetSbx(pc, v) where v is not a label id, AddASbx(op != OP_JMP, a, v)
	type site struct {
		fn   *ssa.Function
		in   *ssa.Call
		v    ssa.Value
		what string
	}
	var sites []site
	labelID := func(v ssa.Value) bool {
		k := vkey(v)
		return strings.Contains(k, ").Id") || strings.Contains(k, "NewLabel(")
	}
	for _, fn := range p.srcFuncs {
		if fn.Pkg == nil || fn.Pkg.Pkg.Path() != luaPath {
			continue
		}
		for _, cl := range callsTo(fn, setSbx) {
			v := cl.Call.Args[2]
			if labelID(v) {
				continue // label id parked in the field; bounded by NewLabel (checked below)
			}
			sites = append(sites, site{fn, cl, v, "SetSbx"})
		}
		for _, e := range p.emitSites(fn) {
			if e.Kind != "AddASbx" || e.emits(opJmp) {
				continue // OP_JMP carries a label id until patchCode resolves it
			}
			sites = append(sites, site{fn, e.In, e.Args[2], "AddASbx(" + opNames(p, e.Ops) + ")"})
		}
	}
	for _, s := range sites {
		g := p.G(s.fn)
		c.touch(s.fn)
		c.Sites++
		key := fmt.Sprintf("%s:%s#%d", fname(s.fn), s.what, countKey(c, R, fname(s.fn)+s.what))
		if k, ok := constInt(s.v); ok {
			c.check(k <= maxS+1 && k >= -maxS, R, key, p.ipos(s.in), "constant placeholder within range", "constant sBx out of range")
			continue
		}
		up, lo, hasUp, hasLo := bounds(g, s.in, s.v)
		upOK := hasUp && up <= maxS+1
		loOK := hasLo && lo >= -maxS
		if why, both := twoSided[fname(s.fn)]; both {
			c.check(upOK && loOK, R, key, p.ipos(s.in), fmt.Sprintf("jump distance checked on both sides: %d <= d <= %d", lo, up),
				fmt.Sprintf("final jump distance %s is not range-checked on both sides against opMaxArgSbx (%s; upper:%v lower:%v): a distance outside the 18-bit field wraps and the jump lands outside the function — the VM then indexes Code out of range and the process dies with a Go panic", shortKey(vkey(s.v)), why, upOK, loOK))
		} else {
			c.check(upOK || loOK, R, key, p.ipos(s.in), "loop distance bounded by a raising check on the loop length (length is non-negative: trusted)",
				fmt.Sprintf("final jump distance %s is written into the 18-bit sBx field without any raising range check: a loop body longer than opMaxArgSbx instructions compiles into a jump outside the function", shortKey(vkey(s.v))))
		}
	}
	// NewLabel: only writer of labelId; returned id bounded
	labelF := p.Field("lua", "funcContext", "labelId")
	if fn := c.need(R, "lua", "(*funcContext).NewLabel"); fn != nil && labelF != nil {
		g := p.G(fn)
		okc := false
		allInstrs(fn, func(in ssa.Instruction) {
			r, ok := in.(*ssa.Return)
			if !ok || !g.Live(in) {
				return
			}
			up, _, hasUp, _ := bounds(g, in, r.Results[0])
			okc = hasUp && up <= maxS+1
		})
		c.check(okc, R, "NewLabel:ceiling", p.pos(fn.Pos()), "label ids are bounded by a raising check so that they fit the sBx field they are parked in",
			"label ids are parked in the 18-bit sBx field of OP_JMP until patchCode resolves them, but NewLabel has no ceiling: beyond opMaxArgSbx+1 labels an id wraps and the jump is resolved to another label's target")
		for _, f2 := range p.srcFuncs {
			allInstrs(f2, func(in ssa.Instruction) {
				if st, ok := isFieldStore(in, labelF); ok {
					init := false
					if fa, ok := st.Addr.(*ssa.FieldAddr); ok {
						_, init = fa.X.(*ssa.Alloc)
					}
					c.check(f2 == fn || init, R, "labelId-writer:"+fname(f2), p.ipos(in), "labelId written by NewLabel / constructor only", "labelId is modified outside NewLabel: the ceiling there no longer bounds label ids")
				}
			})
		}
	}
}

func ruleExtWord(c *Ctx) {
	const R = "R07-extword"
	c.floor(R, 1)
	p := c.P
	for _, fn := range p.srcFuncs {
		if fn.Pkg == nil || fn.Pkg.Pkg.Path() != luaPath || recvNamed(fn) == "codeStore" {
			continue
		}
		for _, e := range p.emitSites(fn) {
			if e.Kind != "Add" {
				continue
			}
			g := p.G(fn)
			c.touch(fn)
			v := stripConv(e.Args[0])
			key := fmt.Sprintf("%s:raw-word#%d", fname(fn), countKey(c, R, fname(fn)))
			isConst := false
			why := ""
			if k, ok := constInt(v); ok {
				isConst, why = true, fmt.Sprintf("literal %d", k)
			}
			for _, cd := range g.CondsAtInstr(e.In) {
				b, ok := cd.V.(*ssa.BinOp)
				if !ok || !eqHolds(b, cd) {
					continue
				}
				if stripConv(b.X) == v {
					if k, ok := constInt(b.Y); ok {
						isConst, why = true, fmt.Sprintf("the site is only reached when the value == %d", k)
					}
				}
			}
			c.check(!isConst, R, key, p.ipos(e.In), "raw code word carries a computed value ("+shortKey(vkey(v))+")",
				"a raw extension word is emitted but its value is a constant under its own path condition ("+why+"): the information it was meant to carry (SETLIST batch number) is lost")
		}
	}
}

// ruleOperandWidth: operands that are counts (not registers) are compared with the width of their field
// before they are emitted; opCreateABC masks silently (F54: CALL's C = results+1 for an assignment with
// more than 510 targets). And the word-level peepholes never see the data word of an extended SETLIST
// as an instruction: codeStore.Last() tests the word before it (F55).
func ruleOperandWidth(c *Ctx) {
	const R = "R07-width"
	c.floor(R, 4)
	p := c.P
	type site struct {
		fn  string
		op  string
		pos int // index in e.Args: 2 = B, 3 = C
		max string
	}
	for _, s := range []site{
		{"compileFuncCallExpr", "OP_CALL", 2, "opMaxArgsB"},
		{"compileFuncCallExpr", "OP_CALL", 3, "opMaxArgsC"},
		{"compileExpr", "OP_VARARG", 2, "opMaxArgsB"},
	} {
		fn := c.need(R, "lua", s.fn)
		if fn == nil {
			continue
		}
		g := p.G(fn)
		lim, _ := p.intConst("lua", s.max)
		n := 0
		for _, e := range p.emitSites(fn) {
			if !e.emits(p.op(s.op)) || len(e.Args) <= s.pos {
				continue
			}
			if _, isK := constInt(e.Args[s.pos]); isK {
				continue
			}
			n++
			c.Sites++
			up, _, hasUp, _ := bounds(g, e.In, e.Args[s.pos])
			c.check(hasUp && up <= lim, R, fmt.Sprintf("%s:%s:%s#%d", s.fn, s.op, string("?ABC"[s.pos]), n), p.ipos(e.In),
				"the count is compared with the operand width before it is encoded",
				fmt.Sprintf("%s encodes a computed count as operand %s of %s without comparing it with %s: opCreateABC masks it silently (an assignment with 600 targets from one call encodes C = 601 as 89, the results beyond are never set and registers above NumUsedRegisters are read)", s.fn, string("?ABC"[s.pos]), s.op, s.max))
		}
		if n == 0 {
			c.und(R, s.fn+":"+s.op, p.pos(fn.Pos()), "emission with a computed operand not found")
		}
	}
	if fn := c.need(R, "lua", "(*codeStore).Last"); fn != nil {
		getOp := p.Fn("lua", "opGetOpCode")
		okc := false
		setlist := p.op("OP_SETLIST")
		allInstrs(fn, func(in ssa.Instruction) {
			b, ok := in.(*ssa.BinOp)
			if !ok || (b.Op != token.EQL && b.Op != token.NEQ) {
				return
			}
			if cl, ok := stripConv(b.X).(*ssa.Call); ok && cl.Call.StaticCallee() == getOp {
				if k, ok := constInt(b.Y); ok && k == setlist {
					okc = true
				}
			}
		})
		c.check(okc, R, "codeStore.Last:hides-setlist-data-word", p.pos(fn.Pos()), "Last() looks at the word before the last one for an extended SETLIST", "codeStore.Last() returns the batch-number word of an extended SETLIST as if it were an instruction (its opcode bits read as MOVE): the operand peepholes pop it and the next instruction overwrites it ('n = #{… 25551 items …}' leaves the table in n)")
	}
}

func ruleSkipGroup(c *Ctx) {
	const R = "R07-skipgroup"
	c.floor(R, 5)
	p := c.P
	t := p.vmTable()
	l := p.layout()
	pc := c.need(R, "lua", "patchCode")
	if pc == nil || !t.TableOK || !l.OK {
		return
	}
	g := p.G(pc)
	exempt := map[string]string{
		"OP_MOVEN":    "created by patchCode itself after the scan position; its trailing words are ordinary MOVE instructions",
		"OP_TFORLOOP": "the trailing word is a genuine OP_JMP that patchCode must resolve",
	}
	// loop variable: index of the load that produces the scanned instruction
	var pcPhi ssa.Value
	allInstrs(pc, func(in ssa.Instruction) {
		if u, ok := in.(*ssa.UnOp); ok && u.Op == token.MUL {
			if ia, ok := u.X.(*ssa.IndexAddr); ok {
				if ph, ok := ia.Index.(*ssa.Phi); ok && pcPhi == nil {
					pcPhi = ph
				}
			}
		}
	})
	if pcPhi == nil {
		c.und(R, "patchCode:scan-index", p.pos(pc.Pos()), "cannot identify the scan index of patchCode")
		return
	}
	// opcodes whose case advances the scan index
	advances := map[int64]bool{}
	allInstrs(pc, func(in ssa.Instruction) {
		b, ok := in.(*ssa.BinOp)
		if !ok || b.Op != token.ADD || !g.Live(in) {
			return
		}
		if stripConv(b.X) != pcPhi && stripConv(b.Y) != pcPhi {
			return
		}
		for _, cd := range g.CondsAtInstr(in) {
			eq, ok := cd.V.(*ssa.BinOp)
			if !ok || !eqHolds(eq, cd) {
				continue
			}
			if k, ok := constInt(eq.Y); ok {
				advances[k] = true
			}
		}
	})
	// an arm that advances the scan index must go straight back to the loop head: reaching the
	// bulk-move flush (SetOpCode/SetC relative to pc) with the advanced index mis-places OP_MOVEN
	setOp, setC := p.Fn("lua", "(*codeStore).SetOpCode"), p.Fn("lua", "(*codeStore).SetC")
	hdr := pcPhi.(*ssa.Phi).Block()
	nadv := 0
	// values that flow back into the scan index (through phis)
	flows := map[ssa.Value]bool{}
	var fl func(v ssa.Value, d int)
	fl = func(v ssa.Value, d int) {
		if flows[v] || d > 6 {
			return
		}
		flows[v] = true
		switch x := v.(type) {
		case *ssa.Phi:
			for _, e := range x.Edges {
				fl(e, d+1)
			}
		case *ssa.BinOp:
			if x.Op == token.ADD {
				fl(x.X, d+1) // pc = (pc + n) + 1
			}
		}
	}
	for _, e := range pcPhi.(*ssa.Phi).Edges {
		fl(e, 0)
	}
	allInstrs(pc, func(in ssa.Instruction) {
		b, ok := in.(*ssa.BinOp)
		if !ok || b.Op != token.ADD || !g.Live(in) {
			return
		}
		if stripConv(b.X) != pcPhi && stripConv(b.Y) != pcPhi {
			return
		}
		if !flows[b] {
			return // an index computation, not an update of the scan index
		}
		// only case arms (conditioned on the opcode), not the loop's own increment
		inCase := false
		for _, cd := range g.CondsAtInstr(in) {
			if eq, ok := cd.V.(*ssa.BinOp); ok && eqHolds(eq, cd) {
				if _, ok := constInt(eq.Y); ok {
					inCase = true
				}
			}
		}
		if !inCase {
			return
		}
		nadv++
		blk, i := after(in)
		reaches := g.walk(blk, i, func(x ssa.Instruction) bool { return x.Block() == hdr && x == hdr.Instrs[0] }, func(x ssa.Instruction) bool {
			return isCallTo(x, setOp) || isCallTo(x, setC)
		})
		c.check(!reaches, R, fmt.Sprintf("patchCode:advance-then-continue#%d", nadv), p.ipos(in), "after skipping trailing words the scan continues with the next instruction without touching the pending MOVE run", "after advancing past trailing words patchCode falls into the bulk-move flush with the advanced index: OP_MOVEN is written one word late and the group swallows the following instruction")
	})
	done := map[*ssa.Function]bool{}
	for _, o := range t.Ops {
		if o.Handler == nil || done[o.Handler] {
			continue
		}
		done[o.Handler] = true
		reads := false
		for _, s := range p.decodeSites(o.Handler, l) {
			if s.Root == "code" {
				reads = true
			}
		}
		if !reads {
			continue
		}
		key := "patchCode-skips:" + o.Name
		if why, ok := exempt[o.Name]; ok {
			c.okT(R, key, p.pos(o.Handler.Pos()), "exempt: "+why)
			continue
		}
		c.check(advances[int64(o.Val)], R, key, p.pos(pc.Pos()), "patchCode's scan advances past the trailing words of "+o.Name,
			"the VM handler of "+o.Name+" consumes trailing code words, but patchCode scans them as instructions: a data word is decoded as an opcode (0 = MOVE) and can be rewritten by the MOVEN merge or counted as a register use")
	}
	// CLOSURE group length: emission loop over child Upvalues.List(), patchCode NumUpvalues, handler NumUpvalues
	nuF := p.Field("lua", "FunctionProto", "NumUpvalues")
	okPatch := false
	allInstrs(pc, func(in ssa.Instruction) {
		if b, ok := in.(*ssa.BinOp); ok && b.Op == token.ADD {
			if _, ok := loadsField(b.Y, nuF); ok {
				okPatch = true
			}
			if _, ok := loadsField(b.X, nuF); ok {
				okPatch = true
			}
		}
	})
	c.check(okPatch, R, "closure-group:patchCode", p.pos(pc.Pos()), "patchCode skips NumUpvalues words after OP_CLOSURE", "patchCode does not skip exactly NumUpvalues words after OP_CLOSURE")
	if h := t.ByName["OP_CLOSURE"]; h != nil && h.Handler != nil {
		okH := false
		allInstrs(h.Handler, func(in ssa.Instruction) {
			if b, ok := in.(*ssa.BinOp); ok && b.Op == token.LSS {
				if _, ok := loadsField(b.Y, nuF); ok {
					okH = true
				}
			}
		})
		c.check(okH, R, "closure-group:handler", p.pos(h.Handler.Pos()), "the VM consumes NumUpvalues capture words", "the OP_CLOSURE handler does not consume exactly NumUpvalues capture words")
	}
	if fn := c.need(R, "lua", "compileFunctionExpr"); fn != nil {
		// NumUpvalues = len(DbgUpvalues), DbgUpvalues = Upvalues.Names()
		okN := false
		allInstrs(fn, func(in ssa.Instruction) {
			if st, ok := isFieldStore(in, nuF); ok {
				k := vkey(st.Val)
				if strings.Contains(k, "len(") && strings.Contains(k, "DbgUpvalues") {
					okN = true
				}
			}
		})
		c.check(okN, R, "closure-group:NumUpvalues=len(DbgUpvalues)", p.pos(fn.Pos()), "NumUpvalues is the length of the up-value name pool the emission loop iterates", "NumUpvalues is not derived from the up-value pool the capture list is emitted from")
	}
}

func ruleConsts(c *Ctx) {
	const R = "R07-consts"
	c.floor(R, 5)
	p := c.P
	maxReg, ok1 := p.intConst("lua", "maxRegisters")
	maxA, ok2 := p.intConst("lua", "opMaxArgsA")
	notDef, ok3 := p.intConst("lua", "regNotDefined")
	if !ok1 || !ok2 || !ok3 {
		c.und(R, "anchors", "-", "constants not found")
		return
	}
	c.check(maxReg <= maxA, R, "maxRegisters<=opMaxArgsA", "-", "register numbers fit the A field", "maxRegisters exceeds the 8-bit A field")
	c.check(maxReg < 256, R, "maxRegisters<256", "-", "fits uint8 NumUsedRegisters", "maxRegisters does not fit uint8")
	c.check(notDef > maxReg, R, "regNotDefined>maxRegisters", "-", "the 'no register' marker cannot collide with a real register", "regNotDefined collides with a valid register number")
	if fn := c.need(R, "lua", "(*funcContext).SetRegTop"); fn != nil {
		g := p.G(fn)
		regTopF := p.Field("lua", "funcContext", "regTop")
		okc := false
		allInstrs(fn, func(in ssa.Instruction) {
			if st, ok := isFieldStore(in, regTopF); ok && g.Live(in) {
				up, _, hasUp, _ := bounds(g, in, st.Val)
				okc = hasUp && up <= maxReg
			}
		})
		c.check(okc, R, "SetRegTop:ceiling", p.pos(fn.Pos()), "regTop is stored only after a raising check against maxRegisters", "SetRegTop stores a register top without the maxRegisters ceiling")
	}
	// FieldsPerFlush batch: C operand of SETLIST <= opMaxArgsC or 0 (checked in compileTableExpr)
	if fn := c.need(R, "lua", "compileTableExpr"); fn != nil {
		opSetList := p.op("OP_SETLIST")
		maxC, _ := p.intConst("lua", "opMaxArgsC")
		okc := true
		n := 0
		g := p.G(fn)
		for _, e := range p.emitSites(fn) {
			if e.Kind != "AddABC" || !e.emits(opSetList) {
				continue
			}
			n++
			up, lo, hasUp, hasLo := bounds(g, e.In, e.Args[3])
			if k, isc := constInt(e.Args[3]); isc {
				up, lo, hasUp, hasLo = k, k, true, true
			}
			// the batch number is (arraycount-1)/FieldsPerFlush+1 >= 1: only the upper side can overflow
			_ = lo
			_ = hasLo
			if !hasUp || up > maxC {
				okc = false
			}
		}
		if n == 0 {
			okc = false
		}
		c.check(okc, R, "SETLIST:C<=opMaxArgsC", p.pos(fn.Pos()), "the batch number is either within the C field or replaced by 0 (extension word follows)", "SETLIST's C operand can exceed the 9-bit field")
	}
}

func ruleRet(c *Ctx) {
	const R = "R07-ret"
	c.floor(R, 1)
	p := c.P
	fn := c.need(R, "lua", "compileFunctionExpr")
	if fn == nil {
		return
	}
	g := p.G(fn)
	chunk := p.Fn("lua", "compileChunk")
	codeF := p.codeField()
	opRet := p.op("OP_RETURN")
	var starts []*ssa.Call = callsTo(fn, chunk)
	if len(starts) != 1 {
		c.und(R, "compileFunctionExpr:chunk", p.pos(fn.Pos()), "expected one compileChunk call")
		return
	}
	b, i := after(starts[0])
	okc, hit := g.MustPassBefore(b, i, func(in ssa.Instruction) bool {
		for _, e := range p.emitSites(fn) {
			if ssa.Instruction(e.In) == in && e.Kind == "AddABC" && e.emits(opRet) {
				return true
			}
		}
		return false
	}, func(in ssa.Instruction) bool { _, ok := isFieldStore(in, codeF); return ok })
	pos := p.pos(fn.Pos())
	if hit != nil {
		pos = p.ipos(hit)
	}
	c.check(okc, R, "compileFunctionExpr:final-return", pos, "an OP_RETURN emission lies on every path from the body to the assignment of Proto.Code", "a function can be finished without its final OP_RETURN: execution runs off the end of Code")
	// Compile → compileFunctionExpr is the only producer
}

func ruleParallel(c *Ctx) {
	const R = "R07-parallel"
	c.floor(R, 6)
	p := c.P
	codesF := p.Field("lua", "codeStore", "codes")
	linesF := p.Field("lua", "codeStore", "lines")
	pcF := p.Field("lua", "codeStore", "pc")
	add := c.need(R, "lua", "(*codeStore).Add")
	if add == nil || codesF == nil || linesF == nil {
		return
	}
	// who writes codes / lines (field or element)
	writers := map[string]map[string]bool{"codes": {}, "lines": {}}
	for _, fn := range p.srcFuncs {
		allInstrs(fn, func(in ssa.Instruction) {
			st, ok := in.(*ssa.Store)
			if !ok {
				return
			}
			for name, f := range map[string]*types.Var{"codes": codesF, "lines": linesF} {
				if fa, ok := st.Addr.(*ssa.FieldAddr); ok && fieldOf(fa) == f {
					if _, fresh := fa.X.(*ssa.Alloc); !fresh {
						writers[name][fname(fn)] = true
					}
				}
				if ia, ok := st.Addr.(*ssa.IndexAddr); ok {
					if _, ok := loadsField(ia.X, f); ok {
						writers[name][fname(fn)] = true
					}
				}
			}
		})
	}
	c.check(len(writers["lines"]) == 1 && writers["lines"]["(*codeStore).Add"], R, "lines-writer", p.pos(add.Pos()), "the line table is written only by codeStore.Add", fmt.Sprintf("the line table is written by %v", sortedKeys(writers["lines"])))
	c.check(len(writers["codes"]) == 1 && writers["codes"]["(*codeStore).Add"], R, "codes-writer", p.pos(add.Pos()), "the code slice is grown/stored only by codeStore.Add (operand setters patch words in place)", fmt.Sprintf("the code slice is written by %v", sortedKeys(writers["codes"])))
	// in Add: every block that writes codes also writes lines with the same index / both append
	okc := true
	for _, b := range add.Blocks {
		wc, wl := 0, 0
		for _, in := range b.Instrs {
			st, ok := in.(*ssa.Store)
			if !ok {
				continue
			}
			if fa, ok := st.Addr.(*ssa.FieldAddr); ok {
				if fieldOf(fa) == codesF {
					wc++
				}
				if fieldOf(fa) == linesF {
					wl++
				}
			}
			if ia, ok := st.Addr.(*ssa.IndexAddr); ok {
				if _, ok := loadsField(ia.X, codesF); ok {
					wc++
				}
				if _, ok := loadsField(ia.X, linesF); ok {
					wl++
				}
			}
		}
		if wc != wl {
			okc = false
		}
	}
	c.check(okc, R, "Add:lock-step", p.pos(add.Pos()), "every arm of Add writes code and line together", "an arm of codeStore.Add writes the code without its line (or vice versa): the line table gets shorter than the code")
	// List / PosList slice with the same bound
	lst, pls := c.need(R, "lua", "(*codeStore).List"), c.need(R, "lua", "(*codeStore).PosList")
	if lst != nil && pls != nil {
		bound := func(fn *ssa.Function, f *types.Var) string {
			r := ""
			allInstrs(fn, func(in ssa.Instruction) {
				if sl, ok := in.(*ssa.Slice); ok {
					if _, ok := loadsField(sl.X, f); ok && sl.High != nil && sl.Low == nil {
						if _, ok := loadsField(sl.High, pcF); ok {
							r = "pc"
						}
					}
				}
			})
			return r
		}
		c.check(bound(lst, codesF) == "pc" && bound(pls, linesF) == "pc", R, "List/PosList:same-bound", p.pos(lst.Pos()), "both are [:pc]", "List and PosList are not sliced with the same bound: DbgSourcePositions and Code differ in length")
	}
	// Proto.Code and Proto.DbgSourcePositions assigned together from List()/PosList()
	if fn := c.need(R, "lua", "compileFunctionExpr"); fn != nil {
		g := p.G(fn)
		codeF, posF := p.codeField(), p.Field("lua", "FunctionProto", "DbgSourcePositions")
		var sc, sp *ssa.Store
		allInstrs(fn, func(in ssa.Instruction) {
			if st, ok := isFieldStore(in, codeF); ok {
				sc = st
			}
			if st, ok := isFieldStore(in, posF); ok {
				sp = st
			}
		})
		okc := sc != nil && sp != nil && sc.Block() == sp.Block()
		if okc {
			c1, ok1 := sc.Val.(*ssa.Call)
			c2, ok2 := sp.Val.(*ssa.Call)
			okc = ok1 && ok2 && c1.Call.StaticCallee() == lst && c2.Call.StaticCallee() == pls
			// no emission between the two
			if okc {
				lo, hi := idxIn(sc.Block(), c1), idxIn(sp.Block(), sp)
				if idxIn(sc.Block(), c2) < lo {
					lo = idxIn(sc.Block(), c2)
				}
				for _, e := range p.emitSites(fn) {
					if e.In.Block() == sc.Block() && idxIn(sc.Block(), e.In) > lo && idxIn(sc.Block(), e.In) < hi {
						okc = false
					}
				}
			}
		}
		c.check(okc, R, "Proto.Code/DbgSourcePositions:together", p.pos(fn.Pos()), "assigned together from List()/PosList() with no emission in between", "Proto.Code and Proto.DbgSourcePositions are not taken from the code store at the same moment")
		// stringConstants: appended only here, after which nothing reaches ConstIndex
		scF := p.Field("lua", "FunctionProto", "stringConstants")
		constIndex := p.Fn("lua", "(*funcContext).ConstIndex")
		var lastAppend ssa.Instruction
		nw := 0
		for _, f2 := range p.srcFuncs {
			allInstrs(f2, func(in ssa.Instruction) {
				if _, ok := isFieldStore(in, scF); ok {
					if fa := in.(*ssa.Store).Addr.(*ssa.FieldAddr); true {
						if _, fresh := fa.X.(*ssa.Alloc); fresh {
							return
						}
					}
					nw++
					if f2 == fn {
						lastAppend = in
					} else {
						c.bad(R, "stringConstants-writer:"+fname(f2), p.ipos(in), "stringConstants is written outside compileFunctionExpr")
					}
				}
			})
		}
		okS := lastAppend != nil
		if okS {
			// calls that can execute after the append loop must not reach ConstIndex
			cg := p.CallGraph()
			reach := reachableFrom(cg, constIndexCallersExcluded(fn, lastAppend, g))
			if reach[constIndex] {
				okS = false
			}
		}
		c.check(okS, R, "stringConstants:after-last-ConstIndex", p.pos(fn.Pos()), "the string-constant table is built after the last call that can add a constant", "a constant can be added after stringConstants was built: string-keyed instructions index past its end")
	}
}

// constIndexCallersExcluded: static callees of calls in fn that can execute after instruction `from`
// leaves its loop (approximated: calls not dominating `from` and reachable from it).
func constIndexCallersExcluded(fn *ssa.Function, from ssa.Instruction, g *PCFG) []*ssa.Function {
	var roots []*ssa.Function
	b, i := after(from)
	seen := map[*ssa.Function]bool{}
	g.walk(b, i, nil, func(in ssa.Instruction) bool {
		if sc := staticCallee(in); sc != nil && !seen[sc] {
			// calls inside the append loop itself (iteration) are part of the loop: Type(), etc.
			seen[sc] = true
			roots = append(roots, sc)
		}
		return false
	})
	return roots
}
