package main

import (
	"fmt"
	"go/token"
	"sort"

	"golang.org/x/tools/go/ssa"
)

// ruleRegCount: 'each register operand lies below the prototype's declared register count'.
// NumUsedRegisters is computed by patchCode as a high-water mark over the emitted code: per opcode it
// takes A (the default), a fixed offset from A, or an expression of the operands. The VM handlers say
// which registers an instruction writes: a handler that stores into R(A+k) for a constant k obliges
// patchCode's case for that opcode to account for at least A+k (or to compute the mark from the
// operands). The rule pairs the two tables (F30: CLOSURE's A, FORLOOP's A+3 and TFORLOOP's A+3.. were
// in the 'nothing to do' list).
func ruleRegCount(c *Ctx) {
	const R = "R07-regcount"
	c.floor(R, 25)
	p := c.P
	t := p.vmTable()
	pc := c.need(R, "lua", "patchCode")
	if pc == nil || !t.TableOK {
		return
	}
	// ---- VM side: constant offsets from R(A) that each handler writes
	written := map[int64]int64{} // opcode → max k, only when the handler writes R(A+k)
	for _, o := range t.Ops {
		if o == nil || o.Handler == nil {
			continue
		}
		o := o
		withClosures(o.Handler, func(fn *ssa.Function) {
			allInstrs(fn, func(in ssa.Instruction) {
				var idx ssa.Value
				if _, i, ok := p.isRegElemStore(in); ok {
					idx = i
				} else if sc := staticCallee(in); sc != nil && recvNamed(sc) == "registry" && (sc.Name() == "Set" || sc.Name() == "SetNumber") {
					idx = in.(*ssa.Call).Call.Args[1]
				}
				if idx == nil {
					return
				}
				if k, ok := offsetFromA(idx); ok {
					if old, seen := written[int64(o.Val)]; !seen || k > old {
						written[int64(o.Val)] = k
					}
				}
			})
		})
	}
	// ---- compiler side: what patchCode accounts for, per opcode
	g := p.G(pc)
	getOp, getA := p.Fn("lua", "opGetOpCode"), p.Fn("lua", "opGetArgA")
	var sel *ssa.Call
	var maxreg *ssa.Phi
	allInstrs(pc, func(in ssa.Instruction) {
		if cl, ok := in.(*ssa.Call); ok && cl.Call.StaticCallee() == getOp && sel == nil {
			if _, isLoad := stripConv(cl.Call.Args[0]).(*ssa.UnOp); isLoad {
				sel = cl
			}
		}
	})
	if sel == nil {
		c.und(R, "patchCode:selector", p.pos(pc.Pos()), "the opcode switch of patchCode was not found")
		return
	}
	// the high-water mark is the loop-carried value that ends up (plus one) in NumUsedRegisters
	nur := p.Field("lua", "FunctionProto", "NumUsedRegisters")
	var stored ssa.Value
	allInstrs(pc, func(in ssa.Instruction) {
		if st, ok := isFieldStore(in, nur); ok {
			stored = st.Val
		}
	})
	for _, in := range loopHeaderOf(g, sel.Block()).Instrs {
		if ph, ok := in.(*ssa.Phi); ok && stored != nil && derivesFrom(stored, ph, 0) {
			maxreg = ph
		}
	}
	if maxreg == nil {
		c.und(R, "patchCode:maxreg", p.pos(pc.Pos()), "the high-water mark variable of patchCode was not found")
		return
	}
	hdr := maxreg.Block()
	account := func(code int64) (k int64, dynamic, any bool) {
		seen := map[*ssa.BasicBlock]bool{hdr: true}
		var walk func(b *ssa.BasicBlock)
		walk = func(b *ssa.BasicBlock) {
			if seen[b] {
				return
			}
			seen[b] = true
			for _, in := range b.Instrs {
				cmp, ok := in.(*ssa.BinOp)
				if !ok || cmp.Op != token.GTR || !flowsFrom(cmp.Y, maxreg) {
					continue
				}
				l := lin(cmp.X)
				terms := len(l.T)
				hasA := false
				var scan func(v ssa.Value, d int)
				scan = func(v ssa.Value, d int) {
					if d > 8 || v == nil {
						return
					}
					if cl, ok := v.(*ssa.Call); ok && cl.Call.StaticCallee() == getA {
						hasA = true
						return
					}
					if in, ok := v.(ssa.Instruction); ok {
						if _, isPhi := v.(*ssa.Phi); isPhi {
							return
						}
						for _, op := range in.Operands(nil) {
							scan(*op, d+1)
						}
					}
				}
				scan(cmp.X, 0)
				any = true
				if hasA && terms == 1 {
					if l.K > k {
						k = l.K
					}
				} else {
					dynamic = true
				}
			}
			succs := g.Succs(b)
			if iff, ok := b.Instrs[len(b.Instrs)-1].(*ssa.If); ok {
				if eq, ok := iff.Cond.(*ssa.BinOp); ok && eq.Op == token.EQL && (eq.X == ssa.Value(sel) || stripConv(eq.X) == ssa.Value(sel)) {
					if kk, ok := constInt(eq.Y); ok {
						if kk == code {
							walk(b.Succs[0])
						} else {
							walk(b.Succs[1])
						}
						return
					}
				}
			}
			for _, s := range succs {
				walk(s)
			}
		}
		walk(sel.Block())
		return
	}
	ops := append([]*opInfo(nil), t.Ops...)
	sort.Slice(ops, func(i, j int) bool { return ops[i].Val < ops[j].Val })
	for _, o := range ops {
		if o == nil {
			continue
		}
		code := int64(o.Val)
		k, dyn, any := account(code)
		w, writes := written[code]
		c.Sites++
		key := o.Name
		switch {
		case !writes:
			c.ok(R, key, p.pos(pc.Pos()), "the handler stores into no register at a fixed offset from R(A)")
		case dyn:
			c.ok(R, key, p.pos(pc.Pos()), fmt.Sprintf("handler writes up to R(A+%d); patchCode computes the mark from the operands", w))
		case any && k >= w:
			c.ok(R, key, p.pos(pc.Pos()), fmt.Sprintf("handler writes up to R(A+%d); patchCode accounts for A+%d", w, k))
		default:
			got := "nothing"
			if any {
				got = fmt.Sprintf("A+%d", k)
			}
			c.bad(R, key, p.pos(pc.Pos()), fmt.Sprintf("the VM handler of %s writes R(A+%d) but patchCode accounts for %s when it computes NumUsedRegisters: the prototype declares fewer registers than its code writes, so the frame is sized and nil-initialised too small and a host call made from the frame pushes onto a live register", o.Name, w, got))
		}
	}
}

// offsetFromA: idx == LocalBase + A(inst) + k with the A field decoded from the instruction word.
func offsetFromA(idx ssa.Value) (int64, bool) {
	l := lin(idx)
	if len(l.T) != 2 {
		return 0, false
	}
	hasA := false
	var find func(v ssa.Value, d int)
	find = func(v ssa.Value, d int) {
		v = stripConv(v)
		if d > 8 {
			return
		}
		if _, shift, mask, ok := matchExtract(v); ok && shift == 18 && mask == 0xff {
			hasA = true
			return
		}
		if b, ok := v.(*ssa.BinOp); ok && (b.Op == token.ADD || b.Op == token.SUB) {
			find(b.X, d+1)
			find(b.Y, d+1)
		}
	}
	find(idx, 0)
	if !hasA {
		return 0, false
	}
	for _, co := range l.T {
		if co != 1 {
			return 0, false
		}
	}
	return l.K, true
}

func flowsFrom(v ssa.Value, ph *ssa.Phi) bool {
	seen := map[ssa.Value]bool{}
	var rec func(v ssa.Value, d int) bool
	rec = func(v ssa.Value, d int) bool {
		if v == ssa.Value(ph) {
			return true
		}
		if seen[v] || d > 12 {
			return false
		}
		seen[v] = true
		if x, ok := v.(*ssa.Phi); ok {
			for _, e := range x.Edges {
				if rec(e, d+1) {
					return true
				}
			}
		}
		return false
	}
	return rec(v, 0)
}

// loopHeaderOf: the header of the innermost natural loop containing b (b itself when none).
func loopHeaderOf(g *PCFG, b *ssa.BasicBlock) *ssa.BasicBlock {
	var best *loopInfo
	for _, li := range g.loops() {
		if li.Body[b] && (best == nil || len(li.Body) < len(best.Body)) {
			best = li
		}
	}
	if best == nil {
		return b
	}
	return best.Header
}

// derivesFrom: v is computed from ph through conversions, additions of constants and phis.
func derivesFrom(v ssa.Value, ph *ssa.Phi, d int) bool {
	v = stripConv(v)
	if v == ssa.Value(ph) {
		return true
	}
	if d > 8 {
		return false
	}
	switch x := v.(type) {
	case *ssa.BinOp:
		if x.Op == token.ADD || x.Op == token.SUB {
			return derivesFrom(x.X, ph, d+1)
		}
	case *ssa.Phi:
		for _, e := range x.Edges {
			if e != v && derivesFrom(e, ph, d+1) {
				return true
			}
		}
	}
	return false
}
