package main

// C15 — string and math functions.

import (
	"fmt"
	"go/ast"
	"go/constant"
	"go/token"
	"go/types"
	"path/filepath"
	"strings"

	"golang.org/x/tools/go/ssa"
)

func init() {
	register(&propInfo{
		ID:    "C15",
		Title: "String and math functions match their definitions for all arguments",
		Explanation: "Decided: R15-bytes — 'results are byte-exact for all 256 byte values': no function of the string library (stringlib.go) calls a rune-aware API on a Lua string (strings.ToUpper/ToLower/Title/Map/EqualFold/Fields/TrimSpace…, package unicode, package utf8, range over a string, []rune / string(rune) conversions), and the c verb of a number does not reach package fmt (Go's %c writes the UTF-8 encoding of the code point, C's writes one byte); " +
			"R15-mathmap — each math library entry named after a libm function calls exactly that math.* function with CheckNumber(1)[, CheckNumber(2)] in order and pushes its result(s) in order; deg/rad use the 180/pi factors; max/min compare in the right direction; math.mod and the % operator share luaModulo; R14-readonly shared ('a string is never modified in place'). " +
			"R15-flags — defaultFormat, which rebuilds each string.format directive for Go's fmt, probes fmt.State for all five printf flags (+ - # 0 and blank). R15-positions — string.byte's end defaults to its start, and every position is clamped to the string by luaIndex2StringIndex whatever its kind; R16-errsense shared — a number obtained from parseNumber is used only where its error was found nil (string.format converting numeric strings); R10-retcount shared. NOT decided: index clamping in sub/byte/find/match, format rendering of flags/width/precision, random's range — arithmetic on arguments.",
		Trusted: []string{"Go's math package returns the IEEE result of each function"},
		Rules:   []func(*Ctx){ruleFormatAlwaysRenders, ruleStringResultsAreBuilt, rulePaddingIsBlanks, ruleNoSentinelDefaults, ruleSignOfNonFinite, ruleOptionalNilAlike, ruleRandomWidth, ruleLogHelpers, ruleBytes, ruleMathMap, ruleReadonly, ruleFormatFlags, ruleStrDefaults, ruleErrSense, ruleRetCount, ruleRelPos, ruleArgTypes, ruleCharRange, ruleFormatAsPrintf, ruleDebugMetatableAndHuge, ruleSurplusArgs, ruleSmallArithmeticGuards, ruleSearchStartClamped, ruleNumeralTextUnfiltered, ruleUnsignedZeroFlag},
	})
}

var runeAware = map[string]bool{
	"strings.ToUpper": true, "strings.ToLower": true, "strings.Title": true, "strings.ToTitle": true, "strings.Map": true, "strings.EqualFold": true,
	"strings.Fields": true, "strings.FieldsFunc": true, "strings.TrimSpace": true, "strings.ToValidUTF8": true, "strings.IndexRune": true, "strings.ContainsRune": true,
	"strings.IndexFunc": true, "strings.LastIndexFunc": true, "strings.TrimFunc": true, "strings.TrimLeftFunc": true, "strings.TrimRightFunc": true,
	"strings.ToUpperSpecial": true, "strings.ToLowerSpecial": true, "strings.ToTitleSpecial": true,
	"bytes.ToUpper": true, "bytes.ToLower": true, "bytes.Title": true, "bytes.Map": true, "bytes.Runes": true, "bytes.EqualFold": true, "bytes.Fields": true, "bytes.TrimSpace": true,
}

func (p *Prog) inFile(fn *ssa.Function, base string) bool {
	for f := fn; f != nil; f = f.Parent() {
		if f.Pos().IsValid() {
			return filepath.Base(p.Fset.Position(f.Pos()).Filename) == base
		}
	}
	return false
}

func ruleBytes(c *Ctx) {
	const R = "R15-bytes"
	c.floor(R, 12)
	p := c.P
	for _, fn := range p.srcFuncs {
		if fn.Pkg == nil || fn.Pkg.Pkg.Path() != luaPath || !p.inFile(fn, "stringlib.go") {
			continue
		}
		c.touch(fn)
		var bad []string
		var first ssa.Instruction
		allInstrs(fn, func(in ssa.Instruction) {
			what := ""
			switch x := in.(type) {
			case *ssa.Call:
				if pk, n, ok := stdCall(in); ok {
					if runeAware[pk+"."+n] || pk == "unicode" || pk == "unicode/utf8" || pk == "unicode/utf16" {
						what = pk + "." + n
					}
				}
			case *ssa.Range:
				if bt, ok := x.X.Type().Underlying().(*types.Basic); ok && bt.Info()&types.IsString != 0 {
					what = "range over a string (decodes UTF-8)"
				}
			case *ssa.Convert:
				from, to := x.X.Type().Underlying(), x.Type().Underlying()
				if sl, ok := to.(*types.Slice); ok {
					if bt, ok := sl.Elem().Underlying().(*types.Basic); ok && bt.Kind() == types.Int32 {
						if fb, ok := from.(*types.Basic); ok && fb.Info()&types.IsString != 0 {
							what = "[]rune(string)"
						}
					}
				}
				if tb, ok := to.(*types.Basic); ok && tb.Info()&types.IsString != 0 {
					if fb, ok := from.(*types.Basic); ok && fb.Info()&types.IsInteger != 0 {
						what = "string(rune) conversion (writes UTF-8)"
					}
					if sl, ok := from.(*types.Slice); ok {
						if bt, ok := sl.Elem().Underlying().(*types.Basic); ok && bt.Kind() == types.Int32 {
							what = "string([]rune)"
						}
					}
				}
			}
			if what != "" {
				bad = append(bad, what)
				if first == nil {
					first = in
				}
			}
		})
		c.Sites++
		if len(bad) == 0 {
			c.ok(R, fname(fn), p.pos(fn.Pos()), "byte-wise: no rune-aware API used on Lua strings")
		} else {
			c.bad(R, fname(fn), p.ipos(first), fmt.Sprintf("%s uses %s: bytes >= 0x80 are treated as (invalid) UTF-8, so the result is not byte-exact (e.g. \"\\200\" becomes the 3-byte U+FFFD, \"é\" changes a byte >= 0x80)", fname(fn), strings.Join(bad, ", ")))
		}
	}
	// the c verb of a number must not reach fmt
	if fn := c.need(R, "lua", "(LNumber).Format"); fn != nil {
		df := p.Fn("lua", "defaultFormat")
		g := p.G(fn)
		var verb *ssa.Parameter
		if len(fn.Params) == 3 {
			verb = fn.Params[2]
		}
		okc := true
		var badCall ssa.Instruction
		for _, cl := range callsTo(fn, df) {
			v := cl.Call.Args[2]
			if k, isc := constInt(v); isc {
				if k == 'c' {
					okc, badCall = false, cl
				}
				continue
			}
			if v != ssa.Value(verb) {
				continue
			}
			// can the verb be 'c' here?  positive equality with 'c' among the conds of a pred edge, or no exclusion
			possible := true
			for _, cd := range g.CondsAtInstr(cl) {
				if b, ok := cd.V.(*ssa.BinOp); ok && b.Op == token.EQL && b.X == ssa.Value(verb) {
					if k, ok := constInt(b.Y); ok {
						if cd.Sense && k != 'c' {
							possible = false
						}
						if !cd.Sense && k == 'c' {
							possible = false
						}
					}
				}
			}
			// multi-value case arm: the block is reached from several `verb == k` tests
			if possible {
				ks := caseValuesReaching(cl.Block(), verb)
				if len(ks) > 0 {
					possible = false
					for _, k := range ks {
						if k == 'c' {
							possible = true
						}
					}
				}
			}
			if possible {
				// is the value formatted an integer (int64(nm))?  then fmt's %c is the rune encoder
				a0 := stripMI(cl.Call.Args[0])
				if bt, ok := a0.Type().Underlying().(*types.Basic); ok && bt.Info()&types.IsInteger != 0 {
					okc, badCall = false, cl
				}
			}
		}
		pos := p.pos(fn.Pos())
		if badCall != nil {
			pos = p.ipos(badCall)
		}
		c.check(okc, R, "(LNumber).Format:c-not-via-fmt", pos, "the c verb is rendered as one byte, not through fmt", "string.format('%c', n) is rendered by Go's fmt, which writes the UTF-8 encoding of code point n: for n >= 128 the result is 2 bytes instead of the single byte C printf writes")
	}
}

// caseValuesReaching: when block b is the body of a multi-value switch case, the constants k such
// that an edge `v == k` (true) leads into b.
func caseValuesReaching(b *ssa.BasicBlock, v ssa.Value) []int64 {
	var out []int64
	for _, pr := range b.Preds {
		if len(pr.Instrs) == 0 {
			continue
		}
		iff, ok := pr.Instrs[len(pr.Instrs)-1].(*ssa.If)
		if !ok || pr.Succs[0] != b {
			return nil
		}
		bin, ok := iff.Cond.(*ssa.BinOp)
		if !ok || bin.Op != token.EQL || bin.X != v {
			return nil
		}
		k, ok := constInt(bin.Y)
		if !ok {
			return nil
		}
		out = append(out, k)
	}
	return out
}

// logHelpers: package functions that stand for a libm function in the math library table.
var logHelpers = map[string]string{"lnOf": "Log", "log10Of": "Log10"}

func ruleMathMap(c *Ctx) {
	const R = "R15-mathmap"
	c.floor(R, 26)
	p := c.P
	pk := p.Pkg("lua")
	obj := p.Obj("lua", "mathFuncs")
	if obj == nil {
		c.und(R, "anchor:mathFuncs", "-", "not found")
		return
	}
	entries := map[string]*ssa.Function{}
	for _, f := range pk.Syntax {
		ast.Inspect(f, func(n ast.Node) bool {
			vs, ok := n.(*ast.ValueSpec)
			if !ok {
				return true
			}
			for i, id := range vs.Names {
				if pk.TypesInfo.Defs[id] != obj || i >= len(vs.Values) {
					continue
				}
				cl, ok := vs.Values[i].(*ast.CompositeLit)
				if !ok {
					continue
				}
				for _, e := range cl.Elts {
					kv, ok := e.(*ast.KeyValueExpr)
					if !ok {
						continue
					}
					ktv := pk.TypesInfo.Types[kv.Key]
					if ktv.Value == nil {
						continue
					}
					if id, ok := kv.Value.(*ast.Ident); ok {
						if fo, ok := pk.TypesInfo.Uses[id].(*types.Func); ok {
							entries[constant.StringVal(ktv.Value)] = p.SSA.FuncValue(fo)
						}
					}
				}
			}
			return true
		})
	}
	libm := map[string]string{"abs": "Abs", "acos": "Acos", "asin": "Asin", "atan": "Atan", "atan2": "Atan2", "ceil": "Ceil", "cos": "Cos", "cosh": "Cosh",
		"exp": "Exp", "floor": "Floor", "fmod": "Mod", "frexp": "Frexp", "ldexp": "Ldexp", "log": "Log", "log10": "Log10", "modf": "Modf", "pow": "Pow",
		"sin": "Sin", "sinh": "Sinh", "sqrt": "Sqrt", "tan": "Tan", "tanh": "Tanh"}
	arity := map[string]int{"atan2": 2, "fmod": 2, "ldexp": 2, "pow": 2}
	nres := map[string]int{"frexp": 2, "modf": 2}
	push := p.Fn("lua", "(*LState).Push")
	argKey := func(i int, name string) []string {
		if name == "ldexp" && i == 2 {
			return []string{fmt.Sprintf("call (*LState).CheckInt(p:L,c:%d)", i)}
		}
		return []string{fmt.Sprintf("call (*LState).CheckNumber(p:L,c:%d)", i)}
	}
	for _, name := range sortedKeys(libm) {
		fn := entries[name]
		if fn == nil {
			c.bad(R, "entry:"+name, "-", "math."+name+" is not registered")
			continue
		}
		c.touch(fn)
		c.Sites++
		var call *ssa.Call
		ncalls := 0
		allInstrs(fn, func(in ssa.Instruction) {
			if sc := staticCallee(in); sc != nil && sc.Pkg != nil && sc.Pkg.Pkg.Name() == "lua" && logHelpers[sc.Name()] == libm[name] && libm[name] != "" {
				// the package's wrapper of the libm function (verified by ruleLogHelpers)
				ncalls++
				call = in.(*ssa.Call)
				return
			}
			if pkn, n, ok := stdCall(in); ok && pkn == "math" {
				switch n {
				case "IsInf", "IsNaN", "Copysign", "Signbit", "Inf", "NaN":
					return // classification of special values around the libm call, not another computation
				case "Round", "Abs", "Pow":
					if name == "log10" {
						// the exactness correction for powers of ten (Go's Log10 is log2(x)·(ln2/ln10) and gives
						// 2.9999999999999996 for 1000): the nearest integer is verified with Pow before it is used
						return
					}
				}
				ncalls++
				if n == libm[name] {
					call = in.(*ssa.Call)
				}
			}
		})
		if call == nil || ncalls != 1 {
			c.bad(R, "entry:"+name, p.pos(fn.Pos()), fmt.Sprintf("math.%s does not call exactly math.%s", name, libm[name]))
			continue
		}
		want := 1
		if a, ok := arity[name]; ok {
			want = a
		}
		okArgs := len(call.Call.Args) == want
		for i := 0; okArgs && i < want; i++ {
			got := vkey(call.Call.Args[i])
			match := false
			for _, w := range argKey(i+1, name) {
				if got == w {
					match = true
				}
			}
			if !match {
				okArgs = false
			}
		}
		// results pushed in order
		okRes := true
		pushes := callsTo(fn, push)
		wantRes := 1
		if r, ok := nres[name]; ok {
			wantRes = r
		}
		if len(pushes) != wantRes {
			okRes = false
		} else if wantRes == 1 {
			v := stripConv(stripMI(pushes[0].Call.Args[1]))
			okRes = v == ssa.Value(call)
			// …or a phi one of whose edges is the result and whose other edges are derived from it (the
			// exactness correction of log10: the rounded result where that is verified to be exact)
			// …or what a new helper (one the baseline does not know) makes of the result it is handed
			if hc, isCall := v.(*ssa.Call); isCall && !okRes && isNewHelper(hc.Call.StaticCallee()) {
				for _, a := range hc.Call.Args {
					if stripConv(a) == ssa.Value(call) {
						okRes = true
					}
				}
			}
			if ph, isPhi := v.(*ssa.Phi); isPhi && !okRes {
				okRes = true
				for _, e := range ph.Edges {
					if !dependsOnValue(stripConv(e), call, 0) {
						okRes = false
					}
				}
			}
		} else {
			for i, pu := range pushes {
				v := stripConv(stripMI(pu.Call.Args[1]))
				// the result, or a phi that replaces it by a special value on some path (modf of an infinity)
				if ph, isPhi := v.(*ssa.Phi); isPhi {
					for _, e := range ph.Edges {
						if ex, ok := stripConv(e).(*ssa.Extract); ok && ex.Tuple == ssa.Value(call) {
							v = ex
						}
					}
				}
				ex, ok := v.(*ssa.Extract)
				if !ok || ex.Tuple != ssa.Value(call) || ex.Index != i {
					okRes = false
				}
			}
			// pushes must be in source order within one block
			if okRes && (pushes[0].Block() != pushes[1].Block() || idxIn(pushes[0].Block(), pushes[0]) > idxIn(pushes[1].Block(), pushes[1])) {
				okRes = false
			}
		}
		c.check(okArgs && okRes, R, "entry:"+name, p.pos(fn.Pos()), fmt.Sprintf("math.%s = math.%s(args 1..%d in order), result(s) pushed in order", name, libm[name], want),
			fmt.Sprintf("math.%s does not call math.%s with its arguments in order (args ok: %v) or does not push its results in order (results ok: %v)", name, libm[name], okArgs, okRes))
	}
	// deg / rad
	for _, name := range []string{"deg", "rad"} {
		fn := entries[name]
		if fn == nil {
			c.bad(R, "entry:"+name, "-", "not registered")
			continue
		}
		okc := false
		// the pushed value is x·k for a constant k, however the expression is spelled (x*180/pi,
		// x/(pi/180), x*(180/pi)): k is computed by folding the multiplications and divisions
		var factor func(v ssa.Value, d int) (float64, bool)
		factor = func(v ssa.Value, d int) (float64, bool) {
			v = stripConv(stripMI(v))
			if d > 6 {
				return 0, false
			}
			if vkey(v) == "call (*LState).CheckNumber(p:L,c:1)" {
				return 1, true
			}
			b, ok := v.(*ssa.BinOp)
			if !ok {
				return 0, false
			}
			if kx, okx := factor(b.X, d+1); okx {
				if f, isK := constFloat(b.Y); isK {
					switch b.Op {
					case token.MUL:
						return kx * f, true
					case token.QUO:
						return kx / f, true
					}
				}
				return 0, false
			}
			if ky, oky := factor(b.Y, d+1); oky && b.Op == token.MUL {
				if f, isK := constFloat(b.X); isK {
					return f * ky, true
				}
			}
			return 0, false
		}
		for _, pu := range callsTo(fn, push) {
			k, ok := factor(pu.Call.Args[1], 0)
			if !ok {
				continue
			}
			want := 180 / 3.141592653589793
			if name == "rad" {
				want = 3.141592653589793 / 180
			}
			if d := k/want - 1; d < 1e-12 && d > -1e-12 {
				okc = true
			}
		}
		c.check(okc, R, "entry:"+name, p.pos(fn.Pos()), "x·(180/pi) resp. x·(pi/180), in any spelling", "math."+name+" does not compute "+map[string]string{"deg": "x·180/pi", "rad": "x·pi/180"}[name])
	}
	// max / min direction
	for name, op := range map[string]token.Token{"max": token.GTR, "min": token.LSS} {
		fn := entries[name]
		if fn == nil {
			continue
		}
		good, wrong := false, false
		allInstrs(fn, func(in ssa.Instruction) {
			if b, ok := in.(*ssa.BinOp); ok {
				// the comparison is read with the freshly checked argument on the left, whichever way it
				// is spelled (`v > max` and `max < v` are one test)
				_, xCall := b.X.(*ssa.Call)
				_, yCall := b.Y.(*ssa.Call)
				bop := b.Op
				if yCall && !xCall && (bop == token.GTR || bop == token.LSS) {
					bop = negateStrict(bop)
					xCall = true
				}
				if xCall {
					if bop == op {
						good = true
					}
					if bop == negateStrict(op) {
						wrong = true
					}
				}
			}
		})
		c.check(good && !wrong, R, "entry:"+name, p.pos(fn.Pos()), "keeps the argument that compares "+op.String()+" the running value", "math."+name+" compares in the wrong direction")
	}
	// mod shares luaModulo
	if fn := entries["mod"]; fn != nil {
		lm := p.Fn("lua", "luaModulo")
		okc := false
		for _, cl := range callsTo(fn, lm) {
			okc = vkey(cl.Call.Args[0]) == "call (*LState).CheckNumber(p:L,c:1)" && vkey(cl.Call.Args[1]) == "call (*LState).CheckNumber(p:L,c:2)"
		}
		c.check(okc, R, "entry:mod", p.pos(fn.Pos()), "math.mod(a,b) = luaModulo(a,b), the % operator's own helper", "math.mod does not share the % operator's luaModulo(a, b)")
	}
	// luaModulo: result takes the divisor's sign
	if fn := c.need(R, "lua", "luaModulo"); fn != nil {
		hasMod, hasAdj := false, false
		allInstrs(fn, func(in ssa.Instruction) {
			if pkn, n, ok := stdCall(in); ok && pkn == "math" && n == "Mod" {
				hasMod = true
			}
			if b, ok := in.(*ssa.BinOp); ok && b.Op == token.ADD {
				hasAdj = true
			}
		})
		c.check(hasMod && hasAdj, R, "luaModulo:floor-adjust", p.pos(fn.Pos()), "math.Mod followed by the sign adjustment (a - floor(a/b)*b)", "luaModulo lost its sign adjustment: % now truncates like C fmod")
	}
	ruleModuloSign(c)
}

// ruleModuloSign: the sign test that decides the floor adjustment compares the remainder and the
// divisor with zero directly; deriving it from arithmetic on them (a product or quotient) underflows
// to zero / overflows for tiny or huge operands and silently skips the adjustment.
func ruleModuloSign(c *Ctx) {
	const R = "R15-mathmap"
	p := c.P
	fn := c.need(R, "lua", "luaModulo")
	if fn == nil {
		return
	}
	g := p.G(fn)
	okc, found := true, false
	why := ""
	allInstrs(fn, func(in ssa.Instruction) {
		b, ok := in.(*ssa.BinOp)
		if !ok || b.Op != token.ADD || !g.Live(in) {
			return
		}
		found = true
		conds := g.CondsAtInstr(in)
		// the adjusting block may be reached from several tests (a || b): look at the tests of its predecessors too
		var tests []ssa.Value
		for _, cd := range conds {
			tests = append(tests, cd.V)
		}
		for _, pr := range in.Block().Preds {
			if iff, ok := pr.Instrs[len(pr.Instrs)-1].(*ssa.If); ok {
				tests = append(tests, iff.Cond)
			}
			for _, cd := range g.CondsAt(pr) {
				tests = append(tests, cd.V)
			}
		}
		if len(tests) == 0 {
			okc, why = false, "the adjustment is unconditional"
		}
		for _, t := range tests {
			cmp, ok := t.(*ssa.BinOp)
			if !ok {
				continue
			}
			for _, side := range []ssa.Value{cmp.X, cmp.Y} {
				if ar, ok := stripConv(side).(*ssa.BinOp); ok && (ar.Op == token.MUL || ar.Op == token.QUO) {
					okc, why = false, "the test compares "+shortKey(vkey(ar))+" with zero"
				}
			}
		}
	})
	c.check(found && okc, R, "luaModulo:sign-test-direct", p.pos(fn.Pos()), "the remainder and the divisor are compared with zero directly", "the floor adjustment of % is decided from arithmetic on the operands ("+why+"): for tiny operands the product underflows to zero and the result keeps the dividend's sign ((-3*2^-600) % 2^-599 is negative)")
}

func constFloat(v ssa.Value) (float64, bool) {
	cst, ok := stripConv(v).(*ssa.Const)
	if !ok || cst.Value == nil {
		return 0, false
	}
	switch cst.Value.Kind() {
	case constant.Int, constant.Float:
		f, _ := constant.Float64Val(constant.ToFloat(cst.Value))
		return f, true
	}
	return 0, false
}

func negateStrict(op token.Token) token.Token {
	if op == token.GTR {
		return token.LSS
	}
	return token.GTR
}

// ruleFormatFlags: string.format hands each directive to fmt, whose Formatter callback rebuilds the
// directive from fmt.State in defaultFormat. A flag the rebuild does not probe is silently dropped
// ("% d" loses its blank). The probed characters are a counted range, the runes of a constant string,
// or constants; all five printf flags must be among them.
func ruleFormatFlags(c *Ctx) {
	const R = "R15-flags"
	c.floor(R, 1)
	p := c.P
	fn := c.need(R, "lua", "defaultFormat")
	if fn == nil {
		return
	}
	g := p.G(fn)
	probed := func(ch int64) bool { return false }
	n := 0
	var site ssa.Instruction = fn.Blocks[0].Instrs[0]
	allInstrs(fn, func(in ssa.Instruction) {
		call, ok := in.(*ssa.Call)
		if !ok || !call.Call.IsInvoke() || call.Call.Method.Name() != "Flag" || len(call.Call.Args) != 1 {
			return
		}
		n++
		site = in
		arg := stripConv(call.Call.Args[0])
		prev := probed
		if k, ok := constInt(arg); ok {
			probed = func(ch int64) bool { return ch == k || prev(ch) }
			return
		}
		// rune of a constant string being ranged over
		if ex, ok := arg.(*ssa.Extract); ok {
			if nx, ok := ex.Tuple.(*ssa.Next); ok {
				if rg, ok := nx.Iter.(*ssa.Range); ok {
					if str, ok := constStr(rg.X); ok {
						probed = func(ch int64) bool { return strings.ContainsRune(str, rune(ch)) || prev(ch) }
						return
					}
				}
			}
		}
		// counted range lo..hi-1
		if ph, ok := arg.(*ssa.Phi); ok {
			for _, li := range g.loops() {
				if li.Header != ph.Block() {
					continue
				}
				lo, hi, okLo, okHi := int64(0), int64(0), false, false
				for i, e := range ph.Edges {
					if !li.Body[ph.Block().Preds[i]] {
						lo, okLo = constInt(e)
					}
				}
				for b := range li.Body {
					if iff, ok := b.Instrs[len(b.Instrs)-1].(*ssa.If); ok {
						if cmp, ok := iff.Cond.(*ssa.BinOp); ok && stripConv(cmp.X) == ssa.Value(ph) {
							if k, ok := constInt(cmp.Y); ok {
								switch cmp.Op {
								case token.LSS:
									hi, okHi = k, true
								case token.LEQ:
									hi, okHi = k+1, true
								}
							}
						}
					}
				}
				if s, _ := g.induction(ph, li); s > 0 && okLo && okHi {
					probed = func(ch int64) bool { return (ch >= lo && ch < hi) || prev(ch) }
				}
			}
		}
	})
	var missing []string
	for _, ch := range "+-# 0" {
		if !probed(int64(ch)) {
			missing = append(missing, fmt.Sprintf("%q", ch))
		}
	}
	c.check(n > 0 && len(missing) == 0, R, "defaultFormat:probes-all-printf-flags", p.ipos(site), "every printf flag (+ - # 0 and blank) is probed and forwarded", fmt.Sprintf("defaultFormat does not probe fmt.State for the flag(s) %s: string.format silently drops them (\"%% d\" loses its blank)", strings.Join(missing, " ")))
}
