package main

// round13.go — rules added after seeding round 13.

import (
	"fmt"
	"go/token"
	"go/types"
	"strings"

	"golang.org/x/tools/go/ssa"
)

// ruleOrderNeverByIdentity: C04 "a <= b … __le, with the not (b < a) fallback": the order comparisons of
// values that are neither two numbers nor two strings are decided by the handlers alone — x <= x on one
// object still calls __le (its answer may be false) and raises without a handler. The handlers of OP_LT /
// OP_LE and lessThan do not compare their two operands for identity.
func ruleOrderNeverByIdentity(c *Ctx) {
	const R = "R04-events"
	p := c.P
	t := p.vmTable()
	var fns []*ssa.Function
	for _, n := range []string{"OP_LT", "OP_LE"} {
		if o := t.ByName[n]; o != nil && o.Handler != nil {
			fns = append(fns, o.Handler)
		}
	}
	if f := p.Fn("lua", "lessThan"); f != nil {
		fns = append(fns, f)
	}
	var bad ssa.Instruction
	var badFn *ssa.Function
	for _, fn := range fns {
		allInstrs(fn, func(in ssa.Instruction) {
			b, ok := in.(*ssa.BinOp)
			if !ok || (b.Op != token.EQL && b.Op != token.NEQ) || bad != nil {
				return
			}
			if typeName(b.X.Type()) == "LValue" && typeName(b.Y.Type()) == "LValue" {
				if _, isK := b.X.(*ssa.Const); isK {
					return
				}
				if _, isK := b.Y.(*ssa.Const); isK {
					return
				}
				// comparisons with the LNil / LTrue / LFalse singletons are value tests, not operand identity
				for _, side := range []ssa.Value{b.X, b.Y} {
					if u, ok := side.(*ssa.UnOp); ok {
						if _, isG := u.X.(*ssa.Global); isG {
							return
						}
					}
				}
				bad, badFn = in, fn
			}
		})
	}
	pos, who := "-", ""
	if bad != nil {
		pos, who = p.ipos(bad), fname(badFn)
	}
	c.Sites++
	c.check(len(fns) >= 2 && bad == nil, R, "order:operands-never-compared-for-identity", pos, fmt.Sprintf("%d order-comparison routines, none compares its operands for identity", len(fns)),
		who+" compares the two operands of an order comparison for identity: x <= x on one object then answers without calling __le (whose answer may be false), without the not (x < x) fallback, and without raising for a value that cannot be compared")
}

// ruleChainLoopsCounted: C11 "metamethod recursion": every loop of the field accessors that follows an
// __index / __newindex chain counts its hops against a constant (MaxTableGetLoop): a cyclic chain of
// tables ends in 'too many recursions', it does not spin inside one instruction between two polls of the
// context.
func ruleChainLoopsCounted(c *Ctx) {
	const R = "R11-poll"
	p := c.P
	n := 0
	for _, name := range []string{"(*LState).getField", "(*LState).getFieldString", "(*LState).setField", "(*LState).setFieldString"} {
		fn := c.need(R, "lua", name)
		if fn == nil {
			continue
		}
		g := p.G(fn)
		for i, li := range g.loops() {
			n++
			counted := false
			for blk := range li.Body {
				iff, ok := blk.Instrs[len(blk.Instrs)-1].(*ssa.If)
				if !ok {
					continue
				}
				exits := false
				for _, s := range blk.Succs {
					if !li.Body[s] {
						exits = true
					}
				}
				if !exits {
					continue
				}
				if b, ok := iff.Cond.(*ssa.BinOp); ok && (b.Op == token.LSS || b.Op == token.LEQ) {
					if _, isPhi := b.X.(*ssa.Phi); isPhi {
						if _, isK := constInt(b.Y); isK {
							counted = true
						}
						// MaxTableGetLoop is a package-level configuration variable
						if u, ok := stripConv(b.Y).(*ssa.UnOp); ok {
							if _, isG := u.X.(*ssa.Global); isG {
								counted = true
							}
						}
					}
				}
			}
			c.Sites++
			c.check(counted, R, fmt.Sprintf("%s:loop#%d:hops-counted-against-a-constant", strings.TrimPrefix(name, "(*LState)."), i+1), p.pos(li.Header.Instrs[0].Pos()), "the loop leaves when its counter reaches a constant",
				fname(fn)+" contains a loop that follows the metatable chain without counting its hops against a constant: on a cyclic chain of tables (setmetatable(t, {__index = t})) an absent key spins inside one instruction for ever — the context is never polled again")
		}
	}
	c.check(n >= 4, R, "chain-loops", "-", fmt.Sprintf("%d chain-following loops examined", n), "the loops of the field accessors were not found")
}

// ruleRangeBySignedComparisons: C14 "sets with ranges": a range a-z in a set matches the bytes between
// its ends, and none when the ends are reversed ([z-a]). rangeClass.Matches decides by signed comparisons
// of the byte with both ends — no conversion to an unsigned type (the one-comparison idiom wraps for a
// reversed range and matches nearly everything).
func ruleRangeBySignedComparisons(c *Ctx) {
	const R = "R14-index"
	p := c.P
	fn := c.need(R, "pm", "(*rangeClass).Matches")
	if fn == nil {
		return
	}
	var bad ssa.Instruction
	cmps := 0
	allInstrs(fn, func(in ssa.Instruction) {
		if cv, ok := in.(*ssa.Convert); ok && isUnsignedType(cv.Type()) && bad == nil {
			bad = in
		}
		if b, ok := in.(*ssa.BinOp); ok && (b.Op == token.LEQ || b.Op == token.GEQ || b.Op == token.LSS || b.Op == token.GTR) {
			cmps++
		}
	})
	pos := p.pos(fn.Pos())
	if bad != nil {
		pos = p.ipos(bad)
	}
	c.Sites++
	c.check(bad == nil && cmps >= 2, R, "rangeClass.Matches:two-signed-comparisons", pos, fmt.Sprintf("%d order comparisons, no unsigned conversion", cmps),
		"(*rangeClass).Matches converts to an unsigned type (the single-comparison range idiom): for a reversed range such as [z-a] the width is negative and wraps, so the range matches every byte outside (end, begin) where Lua matches none — string.match('HELLO world', '[a-Z]+') returns 'HELLO'")
}

// ruleFormatAlwaysRenders: C15 "format renders … %%": string.format answers with what the formatter
// produced, never with the format string itself (a format without argument-consuming directives still has
// its %% pairs to collapse).
func ruleFormatAlwaysRenders(c *Ctx) {
	const R = "R15-flags"
	p := c.P
	fn := c.need(R, "lua", "strFormat")
	push := p.Fn("lua", "(*LState).Push")
	check := p.Fn("lua", "(*LState).CheckString")
	if fn == nil || push == nil || check == nil {
		return
	}
	var bad ssa.Instruction
	n := 0
	for _, pu := range callsTo(fn, push) {
		n++
		v := stripConv(stripMI(pu.Call.Args[1]))
		if cl, ok := v.(*ssa.Call); ok && cl.Call.StaticCallee() == check && bad == nil {
			bad = pu
		}
	}
	pos := p.pos(fn.Pos())
	if bad != nil {
		pos = p.ipos(bad)
	}
	c.Sites++
	c.check(n > 0 && bad == nil, R, "strFormat:result-comes-from-the-formatter", pos, fmt.Sprintf("%d push(es), none of the format string itself", n),
		"strFormat answers with the format string as it was given on some path: a format without argument-consuming directives still contains %% pairs — string.format('100%%') returns '100%%' instead of '100%'")
}

// ruleDateFromWholeSeconds: C16 "os.time(os.date('*t', t)) == t for every whole second t": os.date builds
// its time from the integer seconds it was given — time.Unix(sec, 0). A time built from a float product
// (t * 1e9 nanoseconds) is exact only below 2^53 ns·…: from year 2116 on it rounds to the second before.
func ruleDateFromWholeSeconds(c *Ctx) {
	const R = "R16-time"
	p := c.P
	fn := c.need(R, "lua", "osDate")
	if fn == nil {
		return
	}
	n, okc := 0, true
	var where ssa.Instruction
	allInstrs(fn, func(in ssa.Instruction) {
		pk, nm, ok := stdCall(in)
		if !ok || pk != "time" || nm != "Unix" {
			return
		}
		n++
		cc := callOf(in)
		if k, isK := constInt(cc.Args[1]); !isK || k != 0 {
			okc = false
			where = in
		}
		if b, ok := cc.Args[0].Type().Underlying().(*types.Basic); ok && b.Info()&types.IsInteger != 0 {
			if cv, ok := cc.Args[0].(*ssa.Convert); ok {
				if fb, ok := cv.X.Type().Underlying().(*types.Basic); ok && fb.Info()&types.IsFloat != 0 {
					if _, isArith := cv.X.(*ssa.BinOp); isArith {
						okc = false
						where = in
					}
				}
			}
		}
	})
	pos := p.pos(fn.Pos())
	if where != nil {
		pos = p.ipos(where)
	}
	c.Sites++
	c.check(n > 0 && okc, R, "osDate:time-built-from-whole-seconds", pos, fmt.Sprintf("%d time.Unix call(s) with zero nanoseconds", n),
		"osDate builds the time from a nanosecond count computed in floating point: t*1e9 is exact only for t below about 4.6e9 (year 2116); beyond, it rounds down into the second before and os.time(os.date('*t', t)) is t-1")
}

// ruleUpvalueAccessThroughItsCell: C17 "setupvalue changes exactly that variable": an open upvalue lives in
// the registry of the thread that owns the variable (Upvalue.reg), which need not be the calling thread.
// GetUpvalue / SetUpvalue go through the Upvalue's own accessors and do not touch a registry themselves.
func ruleUpvalueAccessThroughItsCell(c *Ctx) {
	const R = "R17-scope"
	p := c.P
	for _, spec := range [][2]string{{"(*LState).SetUpvalue", "SetValue"}, {"(*LState).GetUpvalue", "Value"}} {
		fn := c.need(R, "lua", spec[0])
		if fn == nil {
			continue
		}
		uses, direct := false, false
		var where ssa.Instruction
		allInstrs(fn, func(in ssa.Instruction) {
			sc := staticCallee(in)
			if sc == nil {
				return
			}
			if recvNamed(sc) == "Upvalue" && sc.Name() == spec[1] {
				uses = true
			}
			if recvNamed(sc) == "registry" {
				direct = true
				where = in
			}
		})
		pos := p.pos(fn.Pos())
		if where != nil {
			pos = p.ipos(where)
		}
		c.Sites++
		c.check(uses && !direct, R, strings.TrimPrefix(spec[0], "(*LState).")+":through-the-upvalue's-own-accessor", pos, "uses (*Upvalue)."+spec[1]+", touches no registry itself",
			fname(fn)+" reads or writes a registry itself instead of going through the Upvalue's accessor: an open upvalue belongs to the registry of the thread that owns the variable — debug.setupvalue called from another coroutine writes the calling coroutine's register at that index and leaves the variable unchanged")
	}
}

// rulePadCountIsCMinusOne: C02 "padded with nil when too few": a CALL's C operand encodes the number of
// wanted results as C-1 (the VM handler decodes it so; C == 0 means all). padResumeValues, which pads the
// values of a resume up to what the pending yield call wants, reads the same instruction with the same
// convention.
func rulePadCountIsCMinusOne(c *Ctx) {
	const R = "R01-decode"
	p := c.P
	fn := c.need(R, "lua", "(*LState).padResumeValues")
	getC := p.Fn("lua", "opGetArgC")
	if fn == nil || getC == nil {
		return
	}
	n, okc := 0, true
	var where ssa.Instruction
	for _, cl := range callsTo(fn, getC) {
		for _, r := range *cl.Referrers() {
			b, ok := r.(*ssa.BinOp)
			if !ok || b.Op != token.SUB || b.X != ssa.Value(cl) {
				continue
			}
			n++
			if k, isK := constInt(b.Y); !isK || k != 1 {
				okc = false
				where = r
			}
		}
	}
	pos := p.pos(fn.Pos())
	if where != nil {
		pos = p.ipos(where)
	}
	c.Sites++
	c.check(n > 0 && okc, R, "padResumeValues:wanted-results-are-C-1", pos, fmt.Sprintf("%d decoding(s) of the wanted result count, each C-1", n),
		"padResumeValues decodes the result count of the pending CALL as something other than C-1 (the VM's convention): the last wanted result of a yield is never padded — `local a = coroutine.yield()` resumed without values leaves a as an untyped Go nil, and its first use is a nil-pointer fault")
}

// ruleNoSharedLuaObjects: C13 "no shared mutable package state": a package-level variable that holds a
// Lua object with identity and mutable state (*LFunction — environment, upvalues; *LTable; *LUserData;
// *LState) is one object for every LState of the process. Such a variable is not handed out at run time:
// outside package initialisation its value is only compared (a sentinel), never passed, stored or
// returned — a script can reach what it is given (debug.getfenv(ipairs{}), getmetatable) and change it
// under every other state.
func ruleNoSharedLuaObjects(c *Ctx) {
	const R = "R13-globals"
	p := c.P
	luaObj := map[string]bool{"LFunction": true, "LTable": true, "LUserData": true, "LState": true}
	n := 0
	for _, fn := range p.srcFuncs {
		if fn.Pkg == nil || !repoPkg(fn.Pkg.Pkg.Path()) || fn.Blocks == nil || fn.Name() == "init" || strings.HasPrefix(fn.Name(), "init#") {
			continue
		}
		if fn.Parent() != nil && (fn.Parent().Name() == "init" || strings.HasPrefix(fn.Parent().Name(), "init#")) {
			continue
		}
		allInstrs(fn, func(in ssa.Instruction) {
			u, ok := in.(*ssa.UnOp)
			if !ok || u.Op != token.MUL {
				return
			}
			gl, ok := u.X.(*ssa.Global)
			if !ok || gl.Pkg == nil || !repoPkg(gl.Pkg.Pkg.Path()) {
				return
			}
			pt, ok := u.Type().(*types.Pointer)
			if !ok || !luaObj[typeName(pt.Elem())] {
				return
			}
			n++
			for _, r := range *u.Referrers() {
				if b, ok := r.(*ssa.BinOp); ok && (b.Op == token.EQL || b.Op == token.NEQ) {
					continue
				}
				if _, ok := r.(*ssa.DebugRef); ok {
					continue
				}
				c.bad(R, fmt.Sprintf("shared-object:%s:%s", gl.Name(), fn.Name()), p.ipos(r),
					fmt.Sprintf("the package-level Lua object %s (one %s for the whole process) is handed out in %s at run time: every LState gets the same object, and a script that reaches it (debug.getfenv, debug.setfenv, getmetatable) changes it under all the others — states running in different goroutines race on it", gl.Name(), typeName(pt.Elem()), fname(fn)))
			}
		})
	}
	c.okT(R, "shared-lua-objects", "-", fmt.Sprintf("%d run-time reads of package-level Lua objects examined", n))
}

// ruleHiddenVariablesCoverTheIteratorCall: F139. C17 "debug.getlocal … exactly the named variables in
// scope at the queried point": TFORLOOP is the instruction that calls the iterator, and the loop's hidden
// variables are in scope there (the reference reports them): in compileGenericForStmt the TFORLOOP is
// emitted while exactly one block opened by the function is still open — the hidden variables' — the
// loop variables' block (the body) having been left.
func ruleHiddenVariablesCoverTheIteratorCall(c *Ctx) {
	const R = "R17-scope"
	p := c.P
	fn := c.need(R, "lua", "compileGenericForStmt")
	enter := p.Fn("lua", "(*funcContext).EnterBlock")
	leave := p.Fn("lua", "(*funcContext).LeaveBlock")
	addABC := p.Fn("lua", "(*codeStore).AddABC")
	t := p.vmTable()
	if fn == nil || enter == nil || leave == nil || addABC == nil || t.ByName["OP_TFORLOOP"] == nil {
		return
	}
	g := p.G(fn)
	op := int64(t.ByName["OP_TFORLOOP"].Val)
	found, okc := false, false
	for _, cl := range callsTo(fn, addABC) {
		if k, ok := constInt(cl.Call.Args[1]); !ok || k != op {
			continue
		}
		found = true
		d := 0
		for _, e := range callsTo(fn, enter) {
			if g.Dominates(e, cl) {
				d++
			}
		}
		for _, l := range callsTo(fn, leave) {
			if g.Dominates(l, cl) {
				d--
			}
		}
		okc = d == 1
	}
	c.Sites++
	c.check(found && okc, R, "compileGenericForStmt:hidden-variables-in-scope-at-TFORLOOP", p.pos(fn.Pos()), "TFORLOOP is emitted inside the hidden variables' block, after the body's block was left",
		"compileGenericForStmt emits TFORLOOP after every block it opened has been left: the loop's hidden variables are out of scope at the instruction that calls the iterator — debug.getlocal(2, n) from the iterator sees three temporaries where the reference names (for generator), (for state), (for control)")
}
