package main

// round8b.go — guards of the repairs F124–F127.

import (
	"fmt"
	"go/ast"
	"go/constant"
	"go/token"
	"go/types"
	"sort"
	"strings"

	"golang.org/x/tools/go/ssa"
)

// ruleOptionLists: F125/F126. `switch list[L.CheckOption(n, list)]` — CheckOption accepts exactly the
// strings of the list, the switch acts on exactly the strings of its cases. The two are siblings: a case
// whose string is not in the list can never be selected (setvbuf's "line" was rejected as an invalid
// option although the switch handles it), an element without a case is accepted and ignored.
func ruleOptionLists(c *Ctx) {
	const R = "R19-options"
	c.floor(R, 3)
	p := c.P
	pk := p.Pkg("lua")
	if pk == nil {
		c.und(R, "pkg", "-", "package lua not loaded")
		return
	}
	// package-level string lists
	lists := map[types.Object][]string{}
	for _, f := range pk.Syntax {
		for _, d := range f.Decls {
			gd, ok := d.(*ast.GenDecl)
			if !ok || gd.Tok != token.VAR {
				continue
			}
			for _, sp := range gd.Specs {
				vs := sp.(*ast.ValueSpec)
				for i, id := range vs.Names {
					if i >= len(vs.Values) {
						continue
					}
					cl, ok := vs.Values[i].(*ast.CompositeLit)
					if !ok {
						continue
					}
					var elems []string
					all := true
					for _, e := range cl.Elts {
						tv := pk.TypesInfo.Types[e]
						if tv.Value == nil || tv.Value.Kind() != constant.String {
							all = false
							break
						}
						elems = append(elems, constant.StringVal(tv.Value))
					}
					if all && len(elems) > 0 {
						lists[pk.TypesInfo.Defs[id]] = elems
					}
				}
			}
		}
	}
	for _, f := range pk.Syntax {
		var fnName string
		ast.Inspect(f, func(n ast.Node) bool {
			if fd, ok := n.(*ast.FuncDecl); ok {
				fnName = fd.Name.Name
			}
			sw, ok := n.(*ast.SwitchStmt)
			if !ok || sw.Tag == nil {
				return true
			}
			ix, ok := sw.Tag.(*ast.IndexExpr)
			if !ok {
				return true
			}
			id, ok := ix.X.(*ast.Ident)
			if !ok {
				return true
			}
			list, ok := lists[pk.TypesInfo.Uses[id]]
			if !ok {
				return true
			}
			call, ok := ix.Index.(*ast.CallExpr)
			if !ok {
				return true
			}
			sel, ok := call.Fun.(*ast.SelectorExpr)
			if !ok || sel.Sel.Name != "CheckOption" || len(call.Args) != 2 {
				return true
			}
			if a, ok := call.Args[1].(*ast.Ident); !ok || pk.TypesInfo.Uses[a] != pk.TypesInfo.Uses[id] {
				return true
			}
			inList := map[string]bool{}
			for _, s := range list {
				inList[s] = true
			}
			covered := map[string]bool{}
			hasDefault := false
			var dead []string
			for _, st := range sw.Body.List {
				cc := st.(*ast.CaseClause)
				if cc.List == nil {
					hasDefault = true
				}
				for _, e := range cc.List {
					tv := pk.TypesInfo.Types[e]
					if tv.Value == nil || tv.Value.Kind() != constant.String {
						continue
					}
					s := constant.StringVal(tv.Value)
					covered[s] = true
					if !inList[s] {
						dead = append(dead, s)
					}
				}
			}
			var ignored []string
			if !hasDefault {
				for _, s := range list {
					if !covered[s] {
						ignored = append(ignored, s)
					}
				}
			}
			sort.Strings(dead)
			sort.Strings(ignored)
			c.Sites++
			c.check(len(dead) == 0 && len(ignored) == 0, R, fnName+":"+id.Name+":list-and-cases-agree", p.pos(sw.Pos()),
				fmt.Sprintf("%d accepted options, each with a case; no case outside the list", len(list)),
				fmt.Sprintf("%s: the options CheckOption accepts (%s) and the cases of the switch disagree — handled but never accepted: %v; accepted but not handled: %v", fnName, id.Name, dead, ignored))
			return true
		})
	}
	// F126: io.open's default mode is decided by the VALUE of the second argument (absent and nil alike)
	if fn := c.need(R, "lua", "ioOpenFile"); fn != nil {
		g := p.G(fn)
		push := p.Fn("lua", "(*LState).Push")
		okc := false
		for _, cl := range callsTo(fn, push) {
			if s, ok := constStr(stripConv(stripMI(cl.Call.Args[1]))); !ok || s != "r" {
				continue
			}
			for _, cd := range g.CondsAtInstr(cl) {
				b, ok := cd.V.(*ssa.BinOp)
				if !ok || !((eqHolds(b, cd)) || (b.Op == token.NEQ && !cd.Sense)) {
					continue
				}
				for _, side := range []ssa.Value{b.X, b.Y} {
					if gc, ok := side.(*ssa.Call); ok {
						if sc := gc.Call.StaticCallee(); sc != nil && sc.Name() == "Get" && recvNamed(sc) == "LState" {
							if k, ok := constInt(gc.Call.Args[1]); ok && k == 2 {
								okc = true
							}
						}
					}
				}
			}
		}
		c.Sites++
		c.check(okc, R, "ioOpenFile:default-mode-for-absent-and-nil", p.pos(fn.Pos()), "the default mode \"r\" is supplied under Get(2) == nil",
			"ioOpenFile does not supply the default mode by looking at the value of the second argument: io.open(path, nil) raises 'string expected, got nil' where the reference opens the file for reading")
	}
}

// ruleReadFormatByOneCharacter: F124. C19 "read (by count, line, all, number)": a format string selects
// ONE format, by the character after its '*' ("*l", "*line", "*all", "*number"). fileReadAux indexes the
// string at the constant 1 under a length test and does not walk over its characters (a walk makes
// "*line" the formats l, i, n, e and "*all" the formats a, l, l).
func ruleReadFormatByOneCharacter(c *Ctx) {
	const R = "R19-buffers"
	p := c.P
	fn := c.need(R, "lua", "fileReadAux")
	if fn == nil {
		return
	}
	g := p.G(fn)
	walks := false
	var indexed ssa.Instruction
	guarded := false
	allInstrs(fn, func(in ssa.Instruction) {
		switch x := in.(type) {
		case *ssa.Range:
			if b, ok := x.X.Type().Underlying().(*types.Basic); ok && b.Info()&types.IsString != 0 {
				walks = true
			}
		case *ssa.Index:
			b, ok := x.X.Type().Underlying().(*types.Basic)
			if !ok || b.Info()&types.IsString == 0 {
				return
			}
			if k, ok := constInt(x.Index); ok && k == 1 {
				indexed = in
				for _, cd := range g.expandAnd(g.CondsAtInstr(in)) {
					bo, ok := cd.V.(*ssa.BinOp)
					if !ok {
						continue
					}
					op := bo.Op
					if !cd.Sense {
						op = negate(op)
					}
					if lc, ok := bo.X.(*ssa.Call); ok {
						if bi, ok := lc.Call.Value.(*ssa.Builtin); ok && bi.Name() == "len" && lc.Call.Args[0] == x.X {
							if k, ok := constInt(bo.Y); ok && ((op == token.GEQ && k >= 2) || (op == token.GTR && k >= 1)) {
								guarded = true
							}
						}
					}
				}
			}
		}
	})
	pos := p.pos(fn.Pos())
	if indexed != nil {
		pos = p.ipos(indexed)
	}
	c.Sites++
	c.check(!walks && indexed != nil && guarded, R, "fileReadAux:format-selected-by-the-character-after-the-star", pos,
		"the format string is indexed at 1 under len >= 2 and not walked",
		"fileReadAux does not select the read format by the single character after the '*' (it walks over the format string, or indexes it unguarded): f:read(\"*line\") raises 'invalid options:i', f:read(\"*all\") returns an extra nil, f:read(\"\") panics on the slice")
}

// ruleGsubAnswersAString: F127. C14 "gsub assembles the same result": the first result of string.gsub is
// a string on every path — also when nothing matched in a subject that was passed as a number; the
// function never answers with the argument slot itself (SetTop / Get).
func ruleGsubAnswersAString(c *Ctx) {
	const R = "R14-gsub"
	p := c.P
	fn := c.need(R, "lua", "strGsub")
	if fn == nil {
		return
	}
	g := p.G(fn)
	push := p.Fn("lua", "(*LState).Push")
	var bad ssa.Instruction
	why := ""
	allInstrs(fn, func(in ssa.Instruction) {
		if !g.Live(in) {
			return
		}
		if sc := staticCallee(in); sc != nil && recvNamed(sc) == "LState" && sc.Name() == "SetTop" && bad == nil {
			bad, why = in, "cuts the stack back to its arguments (SetTop) to answer with one of them"
		}
	})
	n := 0
	for _, cl := range callsTo(fn, push) {
		n++
		v := cl.Call.Args[1]
		mi, ok := v.(*ssa.MakeInterface)
		if !ok {
			if bad == nil {
				bad, why = cl, "pushes a value that is not built from a string or a number"
			}
			continue
		}
		tn := typeName(mi.X.Type())
		if tn != "LString" && tn != "LNumber" && bad == nil {
			bad, why = cl, "pushes a "+tn
		}
	}
	pos := p.pos(fn.Pos())
	if bad != nil {
		pos = p.ipos(bad)
	}
	c.Sites++
	c.check(bad == nil && n >= 4, R, "strGsub:first-result-is-a-string-built-here", pos, fmt.Sprintf("%d pushes, all of LString/LNumber values", n),
		"strGsub "+why+": with no match in a subject passed as a number string.gsub(123, \"x\", \"y\") returns the number 123, not the string \"123\"")
	_ = strings.TrimSpace
}

// ruleRaisedValueFits: F129. C05 "error() with a value of any type … is delivered … as that error
// value" also when C12's registry limit is reached: the value handed to LState.Panic is placed by a push
// that cannot itself raise. Every direct call through the Panic field is preceded, on every way to it,
// by (a) the unchecked registry push dominated by a force-grown slot under IsFull, or (b) a checked
// LState.Push into registers that were emptied first (SetTop(0): the dead coroutine in threadRun).
func ruleRaisedValueFits(c *Ctx) {
	const R = "R12-grow"
	p := c.P
	regPush := p.Fn("lua", "(*registry).Push")
	lsPush := p.Fn("lua", "(*LState).Push")
	isFull := p.Fn("lua", "(*registry).IsFull")
	force := p.Fn("lua", "(*registry).forceResize")
	setTop := p.Fn("lua", "(*LState).SetTop")
	if regPush == nil || lsPush == nil || isFull == nil || force == nil || setTop == nil {
		c.und(R, "raise-sites:anchors", "-", "registry.Push/IsFull/forceResize or LState.Push/SetTop not found")
		return
	}
	n := 0
	for _, fn := range p.srcFuncs {
		if fn.Pkg == nil || fn.Pkg.Pkg.Name() != "lua" || fn.Blocks == nil {
			continue
		}
		var g *PCFG
		ord := 0
		allInstrs(fn, func(in ssa.Instruction) {
			if !p.isAxiomCall(in) {
				return
			}
			if g == nil {
				g = p.G(fn)
			}
			if !g.Live(in) {
				return
			}
			n++
			ord++
			c.Sites++
			c.touch(fn)
			// the nearest push before the raise, in the same block
			var push *ssa.Call
			b := in.Block()
			for i := idxIn(b, in) - 1; i >= 0 && push == nil; i-- {
				if isCallTo(b.Instrs[i], regPush, lsPush) {
					push = b.Instrs[i].(*ssa.Call)
				}
			}
			if push == nil {
				// ... or hoisted above the branch the raise sits in: the nearest push that dominates the raise
				allInstrs(fn, func(cand ssa.Instruction) {
					if isCallTo(cand, regPush, lsPush) && cand.Block() != b && g.Dominates(cand, in) {
						if push == nil || g.Dominates(push, cand) {
							push = cand.(*ssa.Call)
						}
					}
				})
			}
			okc, how := false, "no push of the raised value precedes the raise in its block"
			if push != nil && push.Call.StaticCallee() == regPush {
				how = "the unchecked registry push is not preceded by a slot forced under IsFull()"
				for _, f := range callsTo(fn, force) {
					if !g.Dominates(f, push) && f.Block() != push.Block() {
						// the forcing arm rejoins before the push: it must be the IsFull arm
					}
					for _, cd := range g.CondsAtInstr(f) {
						if call, ok := cd.V.(*ssa.Call); ok && cd.Sense && call.Call.StaticCallee() == isFull && g.Dominates(call, push) {
							okc = true
						}
					}
				}
			} else if push != nil {
				how = "the value is pushed with the checked LState.Push (which raises 'registry overflow' on a full registry) and the registers were not emptied first"
				for _, st := range callsTo(fn, setTop) {
					if k, ok := constInt(st.Call.Args[1]); ok && k == 0 && g.Dominates(st, push) && vkey(st.Call.Args[0]) == vkey(push.Call.Args[0]) {
						okc = true
					}
				}
			}
			c.check(okc, R, fmt.Sprintf("raise-sites:%s#%d:raised-value-pushed-without-raising", fn.Name(), ord), p.ipos(in),
				"the raised value is placed by a push that cannot raise", fname(fn)+" raises through LState.Panic, but "+how+": with a registry that is exactly full the caller's error value is replaced by 'registry overflow' (error({}) caught by pcall yields a string)")
		})
	}
	c.check(n >= 3, R, "raise-sites", "-", fmt.Sprintf("%d direct raise sites examined", n), "direct raise sites (calls through LState.Panic) not found")
}

// ruleHiddenLoopVariablesScope: F130. C17 "debug.getlocal … enumerate exactly the named variables in
// scope at the queried point": the hidden variables of a for loop are registered before the header
// expressions are compiled (they own the registers the expressions are evaluated into), but their scope
// starts at the instruction that enters the loop: in both for compilers StartScopeHere is called after
// every compile of a header expression and before the loop-entry instruction is emitted, and it moves
// StartPc of the block's variables.
func ruleHiddenLoopVariablesScope(c *Ctx) {
	const R = "R17-scope"
	p := c.P
	start := c.need(R, "lua", "(*funcContext).StartScopeHere")
	if start == nil {
		return
	}
	startPc := p.Field("lua", "DbgLocalInfo", "StartPc")
	moves := false
	allInstrs(start, func(in ssa.Instruction) {
		if _, ok := isFieldStore(in, startPc); ok {
			moves = true
		}
	})
	c.Sites++
	c.check(moves, R, "StartScopeHere:moves-StartPc", p.pos(start.Pos()), "stores DbgLocalInfo.StartPc", "StartScopeHere does not move StartPc")
	reg := p.Fn("lua", "(*funcContext).RegisterLocalVar")
	for _, name := range []string{"compileNumberForStmt", "compileGenericForStmt"} {
		fn := c.need(R, "lua", name)
		if fn == nil {
			continue
		}
		g := p.G(fn)
		calls := callsTo(fn, start)
		okc := len(calls) == 1
		why := fmt.Sprintf("%d calls of StartScopeHere", len(calls))
		if okc {
			s := calls[0]
			// hidden registrations and the header compiles between them and the loop entry come first
			var lastHidden *ssa.Call
			for _, r := range callsTo(fn, reg) {
				if nm, ok := constStr(r.Call.Args[1]); ok && strings.HasPrefix(nm, "(for ") {
					if !g.Dominates(r, s) {
						okc, why = false, "a hidden variable is registered after the scope start was set"
					}
					lastHidden = r
				}
			}
			if lastHidden == nil {
				okc, why = false, "no hidden variable registered"
			}
			// the loop's own variables come into being after the header: a name in the header that equals a
			// loop variable is the variable of the enclosing scope (C03: a closure written there captures it)
			for _, r := range callsTo(fn, reg) {
				if nm, ok := constStr(r.Call.Args[1]); ok && strings.HasPrefix(nm, "(for ") {
					continue
				}
				if !g.Dominates(s, r) {
					okc, why = false, "a loop variable is registered before the header expressions are compiled"
				}
			}
			var entry ssa.Instruction
			allInstrs(fn, func(in ssa.Instruction) {
				sc := staticCallee(in)
				if sc == nil || !g.Live(in) {
					return
				}
				switch sc.Name() {
				case "AddASbx", "AddABC":
					if entry == nil && lastHidden != nil && g.Dominates(lastHidden, in) {
						entry = in
					}
				}
			})
			if entry == nil || !g.Dominates(s, entry) {
				okc, why = false, "the loop-entry instruction is emitted before the scope start is set"
			}
			allInstrs(fn, func(in ssa.Instruction) {
				sc := staticCallee(in)
				if sc == nil || !g.Live(in) || entry == nil {
					return
				}
				if (sc.Name() == "compileExpr" || sc.Name() == "compileRegAssignment") && g.Dominates(in, entry) && !g.Dominates(in, s) {
					okc, why = false, "a header expression is compiled after the scope start was set"
				}
			})
		}
		c.Sites++
		c.check(okc, R, name+":hidden-variables-in-scope-from-the-loop-entry", p.pos(fn.Pos()), "StartScopeHere after the header expressions, before the loop entry",
			name+": "+why+" — the loop's hidden variables are visible to debug.getlocal from a function called by the loop header (`for i = f(), 2 do`: inside f, the caller already has a local \"(for index)\")")
	}
}
