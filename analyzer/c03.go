package main

// C03 — closures keep their captured variables on every exit path.

import (
	"fmt"
	"strings"

	"golang.org/x/tools/go/ssa"
)

func init() {
	register(&propInfo{
		ID:    "C03",
		Title: "Closures keep their captured variables on every exit path",
		Explanation: "Decided: R03-close — (i) at every site that reclaims registers after a recovered panic (both deferred closures of PCall, threadRun's deferred closure) a close-upvalues site with the same bound dominates the reclaim; (ii) who-may-close: up-values are closed only by the scope-exit handlers (OP_CLOSE at lbase+A, OP_RETURN/OP_TAILCALL at lbase), by the recover arms, and by the two helper definitions — a close on the raise path (which would detach closures of frames that survive the protected call) is a violation; " +
			"R03-scopeexit — in the OP_RETURN/OP_TAILCALL handlers the close dominates every register write, and in the compiler every construct that leaves a block (LeaveBlock, while back-jump, break, repeat's two exits, goto) emits OP_CLOSE before its jump; " +
			"R03-flagtime — codeBlock.RefUpvalue is a monotone flag that is final only at block completion, so it may be read only by the block-completion functions; R03-closeA — the A operand of every emitted OP_CLOSE and of every SetA patch derives from a local-variable boundary, never from a literal; R03-capture — OP_CLOSURE's capture loop and the compiler's pseudo-instruction list agree (MOVE = find-or-create open up-value at lbase+B, GETUPVAL = share the parent's), and the only writer of RefUpvalue sets it on the block that owns the captured local. " +
			"NOT decided: that the right block is marked, sharing between sibling closures, per-iteration freshness, setfenv resolution.",
		Trusted: []string{"register index of a local = its ordinal among active locals (compiler invariant, not checked)"},
		Rules:   []func(*Ctx){ruleLoadNilRangeOwnedByTheStore, ruleHeadInsertKeepsTheList, ruleHiddenLoopVariablesScope, ruleCallFrameRegs, ruleClose, ruleScopeExitVM, ruleScopeExitCompiler, ruleFlagTime, ruleCloseA, rulePatchPairing, ruleCapture, ruleExitLabelInsideScope, ruleCaptureResolvesLocalFirst, ruleInlineCopies},
	})
}

func boundKey(v ssa.Value) string {
	if v == nil {
		return "<all>"
	}
	return vkey(v)
}

// ruleClose: R03-close (i) close-before-reclaim and (ii) who-may-close.
func ruleClose(c *Ctx) {
	const R = "R03-close"
	c.floor(R, 8)
	p := c.P
	pcall := c.need(R, "lua", "(*LState).PCall")
	trun := c.need(R, "lua", "threadRun")
	if pcall == nil || trun == nil {
		return
	}
	regSetTop := p.Fn("lua", "(*registry).SetTop")
	lsSetTop := p.Fn("lua", "(*LState).SetTop")
	t := p.vmTable()

	// (i) recover arms
	recoverFns := map[*ssa.Function]bool{}
	for _, root := range []*ssa.Function{pcall, trun} {
		withClosures(root, func(fn *ssa.Function) {
			rcs := recoverCalls(fn)
			if len(rcs) == 0 {
				return
			}
			recoverFns[fn] = true
			c.touch(fn)
			g := p.G(fn)
			sites := p.closeSites(fn)
			n := 0
			allInstrs(fn, func(in ssa.Instruction) {
				if !g.Live(in) {
					return
				}
				var arg ssa.Value
				kind := ""
				if isCallTo(in, regSetTop) {
					arg, kind = in.(*ssa.Call).Call.Args[1], "reg.SetTop"
				} else if isCallTo(in, lsSetTop) {
					arg, kind = in.(*ssa.Call).Call.Args[1], "L.SetTop"
				} else {
					return
				}
				conds := g.CondsAtInstr(in)
				inArm := false
				for _, rc := range rcs {
					if condNonNil(conds, rc) {
						inArm = true
					}
				}
				if !inArm {
					return
				}
				n++
				c.Sites++
				an := cellName(arg)
				if an == "" {
					an = boundKeyShort(arg)
				}
				key := fmt.Sprintf("%s:reclaim:%s(%s)", fname(fn), kind, an)
				ok := false
				for _, s := range sites {
					if !g.Dominates(s.Head, in) {
						continue
					}
					if s.Bound == nil {
						continue
					}
					// nothing that can run Lua code (and open new up-values) between the close and the reclaim
					hb, hi := after(s.Head)
					if g.walk(hb, hi, func(x ssa.Instruction) bool { return x == in }, func(x ssa.Instruction) bool {
						sc := staticCallee(x)
						return sc != nil && (fname(sc) == "(*LState).Call" || fname(sc) == "(*LState).PCall" || fname(sc) == "(*LState).callR")
					}) {
						continue
					}
					if kind == "L.SetTop" {
						// frame-relative reclaim of a dying thread: closing from 0 covers it
						if k, isc := constInt(s.Bound); isc && k == 0 {
							ok = true
						}
					} else if vkey(s.Bound) == vkey(arg) {
						ok = true
					}
				}
				c.check(ok, R, key, p.ipos(in),
					"a close-upvalues site with the same bound dominates the reclaim",
					"registers are reclaimed after a recovered panic without closing the up-values that point into them first (closures created inside the failed call keep reading reused registers)")
			})
			if n == 0 && fn != trun {
				c.und(R, fname(fn)+":reclaim", p.pos(fn.Pos()), "recover arm without a recognisable register reclaim (SetTop)")
			}
		})
	}

	// (ii) who-may-close
	allowedHandler := map[string]string{"OP_CLOSE": "lbase+A", "OP_RETURN": "lbase", "OP_TAILCALL": "lbase"}
	lbaseF := p.Field("lua", "callFrame", "LocalBase")
	helper := map[string]bool{"(*LState).closeUpvalues": true, "(*LState).closeAllUpvalues": true}
	for _, fn := range p.srcFuncs {
		if fn.Pkg == nil || fn.Pkg.Pkg.Path() != luaPath {
			continue
		}
		sites := p.closeSites(fn)
		if len(sites) == 0 {
			continue
		}
		c.touch(fn)
		for i, s := range sites {
			key := fmt.Sprintf("%s:closer#%d", fname(fn), i+1)
			pos := p.ipos(s.Head)
			switch {
			case helper[fname(fn)]:
				c.okT(R, key, pos, "helper definition")
			case recoverFns[fn]:
				// must be inside the recovered arm
				g := p.G(fn)
				inArm := false
				for _, rc := range recoverCalls(fn) {
					if condNonNil(g.CondsAtInstr(s.Head), rc) {
						inArm = true
					}
				}
				c.check(inArm, R, key, pos, "close in the recovered-panic arm", "close-upvalues in a protected-call epilogue outside the recovered arm: the success path must not close the caller's up-values")
			default:
				ops := t.handlerOps(fn)
				if len(ops) == 1 && allowedHandler[ops[0].Name] != "" {
					want := allowedHandler[ops[0].Name]
					got := classifyBound(p, s.Bound, lbaseF)
					c.check(got == want, R, key+":"+ops[0].Name, pos, "scope-exit handler closes from "+want,
						fmt.Sprintf("%s closes from %s, expected %s", ops[0].Name, got, want))
				} else {
					c.bad(R, key, pos, fmt.Sprintf("%s closes up-values (%s, bound %s) but is neither a scope-exit handler nor a recover arm: closing on the raise path detaches closures of frames that survive the protected call", fname(fn), s.Kind, boundKeyShort(s.Bound)))
				}
			}
		}
	}
}

func boundKeyShort(v ssa.Value) string {
	k := boundKey(v)
	if len(k) > 60 {
		k = k[:60] + "…"
	}
	return k
}

// classifyBound: "lbase", "lbase+A", "const:k" or "other".
func classifyBound(p *Prog, v ssa.Value, lbaseF interface{}) string {
	if v == nil {
		return "<all frames>"
	}
	f := p.Field("lua", "callFrame", "LocalBase")
	v = stripConv(v)
	if _, ok := loadsField(v, f); ok {
		return "lbase"
	}
	if b, ok := v.(*ssa.BinOp); ok && b.Op.String() == "+" {
		_, lx := loadsField(b.X, f)
		_, ly := loadsField(b.Y, f)
		other := b.Y
		if ly {
			other = b.X
		}
		if lx || ly {
			if _, sh, mk, ok := matchExtract(other); ok {
				l := p.layout()
				if l.OK && l.Fields["A"].Shift == sh && l.Fields["A"].Mask == mk {
					return "lbase+A"
				}
			}
			return "lbase+?"
		}
	}
	if k, ok := constInt(v); ok {
		return fmt.Sprintf("const:%d", k)
	}
	return "other"
}

// ruleScopeExitVM: in OP_RETURN / OP_TAILCALL the close dominates every register write.
func ruleScopeExitVM(c *Ctx) {
	const R = "R03-scopeexit"
	c.floor(R, 8)
	p := c.P
	t := p.vmTable()
	for _, name := range []string{"OP_RETURN", "OP_TAILCALL"} {
		o := t.ByName[name]
		if o == nil || o.Handler == nil {
			c.und(R, "vm:"+name, "-", "handler not found")
			continue
		}
		h := o.Handler
		c.touch(h)
		g := p.G(h)
		sites := p.closeSites(h)
		if len(sites) == 0 {
			c.bad(R, "vm:"+name+":close", p.pos(h.Pos()), "handler discards the frame's registers without closing its up-values")
			continue
		}
		bad := 0
		var first ssa.Instruction
		nw := 0
		allInstrs(h, func(in ssa.Instruction) {
			if !g.Live(in) || !p.isRegWrite(in) {
				return
			}
			nw++
			dom := false
			for _, s := range sites {
				if g.Dominates(s.Head, in) {
					dom = true
				}
			}
			if !dom {
				bad++
				if first == nil {
					first = in
				}
			}
		})
		c.Sites += nw
		pos := p.pos(h.Pos())
		if first != nil {
			pos = p.ipos(first)
		}
		c.check(bad == 0 && nw > 0, R, "vm:"+name+":close-before-write", pos,
			fmt.Sprintf("close-upvalues dominates all %d register writes of the handler", nw),
			fmt.Sprintf("%d of %d register writes are reachable without closing the frame's up-values first", bad, nw))
	}
}

// ruleScopeExitCompiler: every construct that leaves a block emits OP_CLOSE before its jump.
func ruleScopeExitCompiler(c *Ctx) {
	const R = "R03-scopeexit"
	p := c.P
	opClose, opJmp := p.op("OP_CLOSE"), p.op("OP_JMP")
	closeUp := p.Fn("lua", "(*funcContext).CloseUpvalues")
	leave := p.Fn("lua", "(*funcContext).LeaveBlock")
	chunk := p.Fn("lua", "compileChunk")
	blockF := p.Field("lua", "funcContext", "Block")

	// LeaveBlock: CloseUpvalues before the block is popped
	if fn := c.need(R, "lua", "(*funcContext).LeaveBlock"); fn != nil {
		g := p.G(fn)
		calls := callsTo(fn, closeUp)
		ok := len(calls) > 0
		allInstrs(fn, func(in ssa.Instruction) {
			if _, is := isFieldStore(in, blockF); is {
				dom := false
				for _, cl := range calls {
					if g.Dominates(cl, in) {
						dom = true
					}
				}
				if !dom {
					ok = false
				}
			}
		})
		c.check(ok, R, "LeaveBlock:close-before-pop", p.pos(fn.Pos()), "CloseUpvalues dominates the pop of the block", "LeaveBlock pops the block without emitting the block's OP_CLOSE first")
	}
	// CloseUpvalues itself emits OP_CLOSE with the parent's local boundary
	if fn := c.need(R, "lua", "(*funcContext).CloseUpvalues"); fn != nil {
		ok := false
		for _, e := range p.emitSites(fn) {
			if e.Kind == "AddABC" && e.emits(opClose) {
				ok = true
			}
		}
		c.check(ok, R, "CloseUpvalues:emits", p.pos(fn.Pos()), "emits OP_CLOSE", "CloseUpvalues no longer emits OP_CLOSE")
	}
	// while: close between body and back jump
	if fn := c.need(R, "lua", "compileWhileStmt"); fn != nil {
		g := p.G(fn)
		ok := false
		for _, cl := range callsTo(fn, closeUp) {
			afterBody := false
			for _, ch := range callsTo(fn, chunk) {
				if g.Dominates(ch, cl) {
					afterBody = true
				}
			}
			for _, e := range p.emitSites(fn) {
				if e.Kind == "AddASbx" && e.emits(opJmp) && g.Dominates(cl, e.In) && afterBody {
					for _, lv := range callsTo(fn, leave) {
						if g.Dominates(e.In, lv) {
							ok = true
						}
					}
				}
			}
		}
		c.check(ok, R, "while:close-before-backjump", p.pos(fn.Pos()), "body → CloseUpvalues → JMP back → LeaveBlock", "the loop's back jump is not preceded by the block's OP_CLOSE: up-values captured in one iteration stay open into the next")
	}
	// break: JMP dominated by an OP_CLOSE emission
	if fn := c.need(R, "lua", "compileBreakStmt"); fn != nil {
		checkCloseBeforeJmp(c, R, fn, "break", "break jumps out of the loop without closing the loop block's up-values")
	}
	if fn := c.need(R, "lua", "compileGotoStmt"); fn != nil {
		checkCloseBeforeJmp(c, R, fn, "goto", "goto jumps without a preceding OP_CLOSE")
	}
	// repeat: back-jump path closes when LeaveBlock reported captured up-values
	if fn := c.need(R, "lua", "compileRepeatStmt"); fn != nil {
		g := p.G(fn)
		ok := false
		for _, e := range p.emitSites(fn) {
			if e.Kind != "AddABC" || !e.emits(opClose) {
				continue
			}
			// A must be LeaveBlock's result
			if call, isCall := stripConv(e.Args[1]).(*ssa.Call); !isCall || call.Call.StaticCallee() != leave {
				continue
			}
			for _, j := range p.emitSites(fn) {
				if j.Kind == "AddASbx" && j.emits(opJmp) && g.Dominates(e.In, j.In) {
					ok = true
				}
			}
		}
		c.check(ok, R, "repeat:close-before-backjump", p.pos(fn.Pos()), "OP_CLOSE(LeaveBlock()) dominates the back jump", "repeat's loop-back path does not close the body's up-values")
	}
}

func checkCloseBeforeJmp(c *Ctx, R string, fn *ssa.Function, what, badMsg string) {
	p := c.P
	g := p.G(fn)
	opClose, opJmp := p.op("OP_CLOSE"), p.op("OP_JMP")
	es := p.emitSites(fn)
	nj := 0
	for _, j := range es {
		if j.Kind != "AddASbx" || !j.emits(opJmp) || !g.Live(j.In) {
			continue
		}
		nj++
		dom := false
		for _, e := range es {
			if e.Kind == "AddABC" && e.emits(opClose) && g.Dominates(e.In, j.In) {
				dom = true
			}
		}
		c.check(dom, R, fmt.Sprintf("%s:close-before-jump#%d", what, nj), p.ipos(j.In), "an OP_CLOSE emission dominates the jump", badMsg+" on at least one path (the close is conditional)")
	}
	if nj == 0 {
		c.und(R, what+":jump", p.pos(fn.Pos()), "no OP_JMP emission found")
	}
}

// ruleFlagTime: who may read / write codeBlock.RefUpvalue.
func ruleFlagTime(c *Ctx) {
	const R = "R03-flagtime"
	c.floor(R, 3)
	p := c.P
	f := p.Field("lua", "codeBlock", "RefUpvalue")
	if f == nil {
		c.und(R, "anchor:codeBlock.RefUpvalue", "-", "field not found")
		return
	}
	readersOK := map[string]string{
		"(*funcContext).CloseUpvalues":                           "called at block completion (LeaveBlock, while tail)",
		"(*funcContext).ResolveCurrentBlockGotosWithParentBlock": "called from LeaveBlock",
	}
	for _, fn := range p.srcFuncs {
		nr, nw := 0, 0
		allInstrs(fn, func(in ssa.Instruction) {
			switch x := in.(type) {
			case *ssa.UnOp:
				if _, ok := loadsField(x, f); ok {
					nr++
					key := fmt.Sprintf("%s:read#%d", fname(fn), nr)
					if why, ok := readersOK[fname(fn)]; ok {
						c.ok(R, key, p.ipos(in), "flag read when final: "+why)
					} else {
						c.bad(R, key, p.ipos(in), "RefUpvalue is read while the block is still being compiled: a function expression later in the block can still set it, so the decision to close depends on text not yet seen")
					}
				}
			case *ssa.Store:
				if _, ok := isFieldStore(in, f); ok {
					nw++
					b, isc := constBool(x.Val)
					if fa, ok := x.Addr.(*ssa.FieldAddr); ok && isc && !b {
						if _, fresh := fa.X.(*ssa.Alloc); fresh {
							c.okT(R, fmt.Sprintf("%s:init#%d", fname(fn), nw), p.ipos(in), "constructor initialises the flag to false")
							return
						}
					}
					c.check(isc && b, R, fmt.Sprintf("%s:write#%d", fname(fn), nw), p.ipos(in), "flag is only ever set (monotone)", "RefUpvalue is cleared or assigned a computed value: the flag is no longer monotone")
				}
			}
		})
	}
	// callers of CloseUpvalues: LeaveBlock and loops' tails only
	closeUp := p.Fn("lua", "(*funcContext).CloseUpvalues")
	okCallers := map[string]bool{"(*funcContext).LeaveBlock": true, "compileWhileStmt": true}
	for _, fn := range p.srcFuncs {
		for range callsTo(fn, closeUp) {
			c.check(okCallers[fname(fn)], R, "CloseUpvalues-caller:"+fname(fn), p.pos(fn.Pos()), "called at block completion", "CloseUpvalues (which reads RefUpvalue) is called from a construct compiled mid-block")
		}
	}
	rc := p.Fn("lua", "(*funcContext).ResolveCurrentBlockGotosWithParentBlock")
	for _, fn := range p.srcFuncs {
		for range callsTo(fn, rc) {
			c.check(fname(fn) == "(*funcContext).LeaveBlock", R, "ResolveCurrentBlockGotos-caller:"+fname(fn), p.pos(fn.Pos()), "called from LeaveBlock", "called outside block completion")
		}
	}
}

// ruleCloseA: provenance of OP_CLOSE's A operand.
func ruleCloseA(c *Ctx) {
	const R = "R03-closeA"
	c.floor(R, 5)
	p := c.P
	opClose := p.op("OP_CLOSE")
	n := 0
	for _, fn := range p.srcFuncs {
		if fn.Pkg == nil || fn.Pkg.Pkg.Path() != luaPath {
			continue
		}
		for _, e := range p.emitSites(fn) {
			if e.Kind != "AddABC" || !e.emits(opClose) {
				continue
			}
			n++
			c.touch(fn)
			a := e.Args[1]
			key := fmt.Sprintf("%s:emit#%d", fname(fn), countKey(c, R, fname(fn)+":emit"))
			if k, isConst := constInt(a); isConst {
				c.bad(R, key, p.ipos(e.In), fmt.Sprintf("OP_CLOSE is emitted with the literal A=%d; unless every later path patches it, at run time it closes every up-value of the function from register %d up, including variables still in scope", k, k))
				continue
			}
			c.ok(R, key, p.ipos(e.In), "A derives from "+shortKey(vkey(a)))
		}
		// SetA patches on the code store: value must not be a literal
		setA := p.Fn("lua", "(*codeStore).SetA")
		for _, call := range callsTo(fn, setA) {
			if fname(fn) == "compileLogicalOpExprAux" {
				continue // rewrites a MOVE's destination, not an OP_CLOSE
			}
			v := call.Call.Args[2]
			key := fmt.Sprintf("%s:patch#%d", fname(fn), countKey(c, R, fname(fn)+":patch"))
			_, isConst := constInt(v)
			c.check(!isConst, R, key, p.ipos(call), "patch value derives from "+shortKey(vkey(v)), "OP_CLOSE operand patched with a literal")
		}
	}
}

// rulePatchPairing: whenever a pending goto is carried out of a block and its local-variable level is
// lowered, the operand of its OP_CLOSE is lowered to the same level at the same moment.
func rulePatchPairing(c *Ctx) {
	const R = "R03-closeA"
	p := c.P
	fn := c.need(R, "lua", "(*funcContext).ResolveCurrentBlockGotosWithParentBlock")
	if fn == nil {
		return
	}
	g := p.G(fn)
	setN := p.Fn("lua", "(*gotoLabelDesc).SetNumActiveLocalVars")
	setA := p.Fn("lua", "(*codeStore).SetA")
	n := 0
	for _, cl := range callsTo(fn, setN) {
		n++
		lvl := vkey(cl.Call.Args[1])
		okc := false
		for _, pa := range callsTo(fn, setA) {
			if vkey(pa.Call.Args[2]) == lvl && (pa.Block() == cl.Block() || g.Dominates(pa, cl)) {
				okc = true
			}
		}
		c.check(okc, R, fmt.Sprintf("ResolveCurrentBlockGotos:level-lowered-with-patch#%d", n), p.ipos(cl), "the goto's OP_CLOSE operand is patched to the level its local count is lowered to", "a pending goto leaves a block (its local level is lowered) without its OP_CLOSE operand being lowered too: a forward goto out of a nested block no longer closes the up-values of the locals it leaves")
	}
	if n == 0 {
		c.und(R, "ResolveCurrentBlockGotos:level-lowering", p.pos(fn.Pos()), "no SetNumActiveLocalVars call found")
	}
	// FindLabel patches to the target's level exactly when the goto leaves locals behind
	if fl := c.need(R, "lua", "(*funcContext).FindLabel"); fl != nil {
		gf := p.G(fl)
		okc := false
		for _, pa := range callsTo(fl, setA) {
			if strings.Contains(vkey(pa.Call.Args[2]), "NumActiveLocalVars") {
				for _, cd := range gf.CondsAtInstr(pa) {
					if b, ok := cd.V.(*ssa.BinOp); ok && strings.Contains(vkey(b.X), "NumActiveLocalVars") && strings.Contains(vkey(b.Y), "NumActiveLocalVars") {
						okc = true
					}
				}
			}
		}
		c.check(okc, R, "FindLabel:patch-only-when-leaving-locals", p.pos(fl.Pos()), "a resolved goto's OP_CLOSE is patched to the target's level under the comparison of the two levels", "FindLabel patches the OP_CLOSE operand without comparing the goto's and the label's local levels (a goto to a deeper-level label would close too little / raise the operand)")
	}
}

func shortKey(k string) string {
	k = strings.ReplaceAll(k, luaPath+".", "")
	if len(k) > 90 {
		k = k[:90] + "…"
	}
	return k
}

var keyCounters = map[string]int{}

func countKey(c *Ctx, rule, base string) int {
	keyCounters[c.Prop+rule+base]++
	return keyCounters[c.Prop+rule+base]
}

// ruleCapture: OP_CLOSURE's capture loop vs the compiler's pseudo-instructions.
func ruleCapture(c *Ctx) {
	const R = "R03-capture"
	c.floor(R, 4)
	p := c.P
	t := p.vmTable()
	o := t.ByName["OP_CLOSURE"]
	if o == nil || o.Handler == nil {
		c.und(R, "handler", "-", "OP_CLOSURE handler not found")
		return
	}
	h := o.Handler
	c.touch(h)
	g := p.G(h)
	findUp := p.Fn("lua", "(*LState).findUpvalue")
	upF := p.Field("lua", "LFunction", "Upvalues")
	lbaseF := p.Field("lua", "callFrame", "LocalBase")
	opMove, opGetUp := p.op("OP_MOVE"), p.op("OP_GETUPVAL")
	var moveOK, getOK bool
	allInstrs(h, func(in ssa.Instruction) {
		st, ok := in.(*ssa.Store)
		if !ok || !g.Live(in) {
			return
		}
		ia, ok := st.Addr.(*ssa.IndexAddr)
		if !ok {
			return
		}
		if _, ok := loadsField(ia.X, upF); !ok {
			return
		}
		code, has := posCondInt(g.CondsAtInstr(in), nil)
		if !has {
			return
		}
		switch code {
		case opMove:
			if call, ok := st.Val.(*ssa.Call); ok && call.Call.StaticCallee() == findUp {
				// argument must be lbase + B
				if b, ok := stripConv(call.Call.Args[1]).(*ssa.BinOp); ok && b.Op.String() == "+" {
					_, l1 := loadsField(b.X, lbaseF)
					_, l2 := loadsField(b.Y, lbaseF)
					moveOK = l1 || l2
				}
			}
		case opGetUp:
			// closure.Upvalues[i] = cf.Fn.Upvalues[B]
			if u, ok := st.Val.(*ssa.UnOp); ok {
				if ia2, ok := u.X.(*ssa.IndexAddr); ok {
					if _, ok := loadsField(ia2.X, upF); ok {
						getOK = true
					}
				}
			}
		}
	})
	c.check(moveOK, R, "vm:MOVE→findUpvalue(lbase+B)", p.pos(h.Pos()), "a MOVE pseudo-instruction captures the enclosing function's register lbase+B via find-or-create", "the OP_MOVE capture arm does not call findUpvalue(lbase+B): closures of one activation would not share the variable")
	c.check(getOK, R, "vm:GETUPVAL→parent.Upvalues[B]", p.pos(h.Pos()), "a GETUPVAL pseudo-instruction shares the enclosing closure's up-value object", "the OP_GETUPVAL capture arm does not alias the parent's up-value")
	// compiler: after AddABx(OP_CLOSURE) only MOVE / GETUPVAL pseudo-instructions are emitted in the capture loop;
	// RefUpvalue is set on the block returned by FindLocalVarAndBlock
	ce := c.need(R, "lua", "compileExpr")
	if ce == nil {
		return
	}
	gce := p.G(ce)
	opClosure := p.op("OP_CLOSURE")
	var closureEmit *ssa.Call
	for _, e := range p.emitSites(ce) {
		if e.Kind == "AddABx" && e.emits(opClosure) {
			closureEmit = e.In
		}
	}
	if closureEmit == nil {
		c.bad(R, "compiler:OP_CLOSURE", p.pos(ce.Pos()), "no OP_CLOSURE emission in compileExpr")
		return
	}
	pseudo := map[int64]bool{}
	okOnly := true
	for _, e := range p.emitSites(ce) {
		if e.In == closureEmit || !gce.Dominates(closureEmit, e.In) {
			continue
		}
		for _, k := range e.Ops {
			pseudo[k] = true
			if k != opMove && k != opGetUp {
				okOnly = false
			}
		}
	}
	c.check(okOnly && pseudo[opMove] && pseudo[opGetUp], R, "compiler:pseudo={MOVE,GETUPVAL}", p.ipos(closureEmit), "the capture list consists of MOVE and GETUPVAL words only, the two kinds the VM's capture loop understands", "the capture list contains an opcode the VM's capture loop does not handle (the up-value slot stays nil)")
	// RefUpvalue store: the block value comes from FindLocalVarAndBlock
	f := p.Field("lua", "codeBlock", "RefUpvalue")
	flv := p.Fn("lua", "(*funcContext).FindLocalVarAndBlock")
	okMark := false
	allInstrs(ce, func(in ssa.Instruction) {
		st, ok := isFieldStore(in, f)
		if !ok {
			return
		}
		fa := st.Addr.(*ssa.FieldAddr)
		if ex, ok := fa.X.(*ssa.Extract); ok && ex.Index == 1 {
			if call, ok := ex.Tuple.(*ssa.Call); ok && call.Call.StaticCallee() == flv {
				// dominated by the MOVE emission's guard localidx > -1
				okMark = true
			}
		}
	})
	c.check(okMark, R, "compiler:mark-owner-block", p.pos(ce.Pos()), "RefUpvalue is set on the block FindLocalVarAndBlock reports as the owner of the captured local", "RefUpvalue is not set on the block that owns the captured local: its scope exit will not emit OP_CLOSE")
}
