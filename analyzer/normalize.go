package main

// Helper normalisation.
//
// The rules are anchored in the functions the pinned tree has (frozen by name in baseline_funcs.txt).
// A behaviour-preserving edit that extracts a block of such a function into a NEW helper
// ("mergeMoves", "AddSetList", "runLoaded", "checkNumeral") moves the construct a rule looks for out of
// the anchored function, and a rule that reads one function at a time then reports it missing — a
// false alarm. Before the rules run, every function declared in the repository that the baseline does
// not know is therefore inlined back into its (static) callers with x/tools' source inliner
// (golang.org/x/tools/internal/refactor/inline, the engine behind gopls' "inline call"; sound: it
// keeps evaluation order and effects, or refuses), the result is type-checked again through a
// go/packages overlay, and the rules analyse that program. On a tree without new functions (today's)
// nothing is rewritten and the program analysed is byte for byte the one on disk.
//
// What is not normalised: a new function that is used as a value, called through an interface, is
// recursive, or that the inliner can only turn into a function literal is left where it is.

import (
	_ "embed"
	"fmt"
	"go/ast"
	"go/token"
	"go/types"
	"os"
	"sort"
	"strings"

	"golang.org/x/tools/go/packages"
	"golang.org/x/tools/go/types/typeutil"
	"golang.org/x/tools/internal/refactor/inline"
)

//go:embed baseline_funcs.txt
var baselineFuncsTxt string

var baselineSigs = map[string]string{} // key -> canonical signature (parameter and result types)

var baselineFuncs = func() map[string]bool {
	m := map[string]bool{}
	for _, l := range strings.Split(baselineFuncsTxt, "\n") {
		l = strings.TrimSpace(l)
		if l != "" && !strings.HasPrefix(l, "#") {
			k, sig, _ := strings.Cut(l, "\t")
			m[k] = true
			baselineSigs[k] = sig
		}
	}
	return m
}()

// canonSig: the parameter and result types of a function, without names (a method's receiver is not part of it).
func canonSig(fn *types.Func) string {
	sig, ok := fn.Type().(*types.Signature)
	if !ok {
		return "?"
	}
	q := func(p *types.Package) string { return p.Name() }
	var ps, rs []string
	for i := 0; i < sig.Params().Len(); i++ {
		ps = append(ps, types.TypeString(sig.Params().At(i).Type(), q))
	}
	for i := 0; i < sig.Results().Len(); i++ {
		rs = append(rs, types.TypeString(sig.Results().At(i).Type(), q))
	}
	v := ""
	if sig.Variadic() {
		v = "..."
	}
	return strings.Join(ps, ",") + v + "->" + strings.Join(rs, ",")
}

func bareName(key string) string {
	if i := strings.LastIndexAny(key, ".:"); i >= 0 {
		return key[i+1:]
	}
	return key
}

func recvPart(key string) string { // "pkg:(*T)" of "pkg:(*T).m", "pkg:" of "pkg:f"
	if i := strings.LastIndex(key, ")."); i >= 0 {
		return key[:i+1]
	}
	return key[:strings.Index(key, ":")+1]
}

// renamePairs: a function of the baseline that is gone, and a function the baseline does not know, are
// taken to be one function under two names when the pairing is unambiguous: same package and (a) the same
// bare name (a method turned into a plain function or back), or (b) the same receiver and the same
// parameter and result types, with exactly one candidate on either side. Returns new key -> baseline key.
func renamePairs(pkgs []*packages.Package) map[string]string {
	cur := map[string]*types.Func{}
	for _, pk := range pkgs {
		if !repoPkg(pk.PkgPath) || pk.TypesInfo == nil {
			continue
		}
		for _, f := range pk.Syntax {
			for _, d := range f.Decls {
				if fd, ok := d.(*ast.FuncDecl); ok && fd.Name.Name != "init" && fd.Name.Name != "_" {
					if fn, ok := pk.TypesInfo.Defs[fd.Name].(*types.Func); ok {
						cur[declKey(pk.PkgPath, fd)] = fn
					}
				}
			}
		}
	}
	var gone, fresh []string
	for k := range baselineFuncs {
		if _, ok := cur[k]; !ok && !strings.HasSuffix(k, ":init") {
			gone = append(gone, k)
		}
	}
	for k := range cur {
		if !baselineFuncs[k] {
			fresh = append(fresh, k)
		}
	}
	sort.Strings(gone)
	sort.Strings(fresh)
	pkgOf := func(k string) string { return k[:strings.Index(k, ":")] }
	out := map[string]string{}
	taken := map[string]bool{}
	match := func(same func(g, f string) bool) {
		for _, g := range gone {
			if taken[g] {
				continue
			}
			var cands []string
			for _, f := range fresh {
				if _, used := out[f]; !used && pkgOf(f) == pkgOf(g) && same(g, f) {
					cands = append(cands, f)
				}
			}
			if len(cands) != 1 {
				continue
			}
			// and the candidate has no other gone function it could be
			others := 0
			for _, g2 := range gone {
				if !taken[g2] && pkgOf(g2) == pkgOf(g) && same(g2, cands[0]) {
					others++
				}
			}
			if others == 1 {
				out[cands[0]] = g
				taken[g] = true
			}
		}
	}
	match(func(g, f string) bool { return bareName(g) == bareName(f) })
	match(func(g, f string) bool { return recvPart(g) == recvPart(f) && baselineSigs[g] != "" && baselineSigs[g] == canonSig(cur[f]) })
	return out
}

var renamedTo = map[string]string{} // new key -> baseline key, of the program being analysed

func declKey(pkgPath string, d *ast.FuncDecl) string {
	k := short(pkgPath) + ":"
	if d.Recv != nil && len(d.Recv.List) == 1 {
		k += "(" + types.ExprString(d.Recv.List[0].Type) + ")."
	}
	return k + d.Name.Name
}

// newHelperDecls: function declarations of repository packages that the baseline does not list.
func newHelperDecls(pkgs []*packages.Package) map[*types.Func]*ast.FuncDecl {
	out := map[*types.Func]*ast.FuncDecl{}
	renamed := renamePairs(pkgs)
	for _, pk := range pkgs {
		if !repoPkg(pk.PkgPath) || pk.TypesInfo == nil {
			continue
		}
		for _, f := range pk.Syntax {
			for _, d := range f.Decls {
				fd, ok := d.(*ast.FuncDecl)
				if !ok || fd.Body == nil || fd.Name.Name == "init" || fd.Name.Name == "main" || fd.Name.Name == "_" {
					continue
				}
				if baselineFuncs[declKey(pk.PkgPath, fd)] || renamed[declKey(pk.PkgPath, fd)] != "" {
					continue
				}
				if fn, ok := pk.TypesInfo.Defs[fd.Name].(*types.Func); ok {
					out[fn] = fd
				}
			}
		}
	}
	return out
}

func dumpFuncs(pkgs []*packages.Package) []string {
	var out []string
	for _, pk := range pkgs {
		if !repoPkg(pk.PkgPath) {
			continue
		}
		for _, f := range pk.Syntax {
			for _, d := range f.Decls {
				if fd, ok := d.(*ast.FuncDecl); ok {
					sig := ""
					if fn, ok := pk.TypesInfo.Defs[fd.Name].(*types.Func); ok {
						sig = canonSig(fn)
					}
					out = append(out, declKey(pk.PkgPath, fd)+"\t"+sig)
				}
			}
		}
	}
	sort.Strings(out)
	return out
}

var normalizeLog []string

// normalizeHelpers returns an overlay in which the calls of new helper functions are inlined (nil
// when there is nothing to do).
func normalizeHelpers(cfg packages.Config, pkgs []*packages.Package) map[string][]byte {
	if len(newHelperDecls(pkgs)) == 0 {
		return nil
	}
	overlay := map[string][]byte{}
	refused := map[string]bool{} // helper keys the inliner refused or literalised
	cfg.Mode = packages.NeedName | packages.NeedFiles | packages.NeedCompiledGoFiles | packages.NeedImports |
		packages.NeedTypes | packages.NeedTypesSizes | packages.NeedSyntax | packages.NeedTypesInfo
	content := func(name string) []byte {
		if b, ok := overlay[name]; ok {
			return b
		}
		b, _ := os.ReadFile(name)
		return b
	}
	cur := pkgs
	for round := 0; round < 40; round++ {
		if round > 0 {
			cfg.Overlay = overlay
			var err error
			cur, err = packages.Load(&cfg, "./...")
			if err != nil {
				normalizeLog = append(normalizeLog, "reload failed: "+err.Error())
				return nil
			}
			for _, pk := range cur {
				if repoPkg(pk.PkgPath) && len(pk.Errors) > 0 {
					// an inlining step produced a program that does not type-check: give up on normalisation
					normalizeLog = append(normalizeLog, "normalised program does not type-check: "+pk.Errors[0].Error())
					return nil
				}
			}
		}
		helpers := newHelperDecls(cur)
		declPkg := map[*types.Func]*packages.Package{}
		for _, pk := range cur {
			for fn := range helpers {
				if fn.Pkg() == pk.Types {
					declPkg[fn] = pk
				}
			}
		}
		progress := false
		for _, pk := range cur {
			if !repoPkg(pk.PkgPath) || pk.TypesInfo == nil {
				continue
			}
			for _, f := range pk.Syntax {
				fname := pk.Fset.Position(f.Pos()).Filename
				if strings.HasSuffix(fname, "_test.go") {
					continue
				}
				// the first call of a new helper in this file (one per file per round: the inliner
				// returns the whole file and positions shift)
				var call *ast.CallExpr
				var callee *types.Func
				for _, d := range f.Decls {
					fd, ok := d.(*ast.FuncDecl)
					if !ok || fd.Body == nil || call != nil {
						continue
					}
					self, _ := pk.TypesInfo.Defs[fd.Name].(*types.Func)
					ast.Inspect(fd.Body, func(n ast.Node) bool {
						if call != nil {
							return false
						}
						ce, ok := n.(*ast.CallExpr)
						if !ok {
							return true
						}
						fn := typeutil.StaticCallee(pk.TypesInfo, ce)
						if fn == nil || helpers[fn] == nil || fn == self {
							return true
						}
						if refused[declKey(declPkg[fn].PkgPath, helpers[fn])] {
							return true
						}
						call, callee = ce, fn
						return false
					})
				}
				if call == nil {
					continue
				}
				dpk := declPkg[callee]
				decl := helpers[callee]
				key := declKey(dpk.PkgPath, decl)
				dfile := dpk.Fset.Position(decl.Pos()).Filename
				ce, err := inline.AnalyzeCallee(func(string, ...any) {}, dpk.Fset, dpk.Types, dpk.TypesInfo, decl, content(dfile))
				if err != nil {
					refused[key] = true
					normalizeLog = append(normalizeLog, fmt.Sprintf("%s: not inlinable: %v", key, err))
					progress = true
					continue
				}
				res, err := inline.Inline(&inline.Caller{Fset: pk.Fset, Types: pk.Types, Info: pk.TypesInfo, File: f, Call: call, Content: content(fname)}, ce, &inline.Options{})
				if err != nil || res.Literalized {
					refused[key] = true
					why := "literalised"
					if err != nil {
						why = err.Error()
					}
					normalizeLog = append(normalizeLog, fmt.Sprintf("%s: call in %s left in place: %s", key, shortFile(fname), why))
					progress = true
					continue
				}
				overlay[fname] = res.Content
				normalizeLog = append(normalizeLog, fmt.Sprintf("%s inlined into %s", key, shortFile(fname)))
				progress = true
			}
		}
		if !progress {
			break
		}
	}
	if len(overlay) == 0 {
		return nil
	}
	return overlay
}

func shortFile(s string) string {
	if i := strings.LastIndex(s, "/"); i >= 0 {
		return s[i+1:]
	}
	return s
}

// dropUnusedHelpers removes from the overlay the declarations of new helpers nothing refers to any more
// (ownership rules would otherwise see the dead copy as a second writer). Returns nil when nothing changed.
func dropUnusedHelpers(cfg packages.Config, overlay map[string][]byte) map[string][]byte {
	cfg.Mode = packages.NeedName | packages.NeedFiles | packages.NeedCompiledGoFiles | packages.NeedImports |
		packages.NeedTypes | packages.NeedTypesSizes | packages.NeedSyntax | packages.NeedTypesInfo
	cfg.Overlay = overlay
	cur, err := packages.Load(&cfg, "./...")
	if err != nil {
		return nil
	}
	helpers := newHelperDecls(cur)
	used := map[*types.Func]bool{}
	for _, pk := range cur {
		if pk.TypesInfo == nil {
			continue
		}
		for _, o := range pk.TypesInfo.Uses {
			if fn, ok := o.(*types.Func); ok {
				used[fn] = true
			}
		}
		for _, s := range pk.TypesInfo.Selections {
			if fn, ok := s.Obj().(*types.Func); ok {
				used[fn] = true
			}
		}
	}
	type cut struct{ from, to int }
	cuts := map[string][]cut{}
	var fset *token.FileSet
	for fn, d := range helpers {
		if used[fn] || ast.IsExported(d.Name.Name) {
			continue
		}
		for _, pk := range cur {
			if pk.Types == fn.Pkg() {
				fset = pk.Fset
			}
		}
		from := d.Pos()
		if d.Doc != nil {
			from = d.Doc.Pos()
		}
		name := fset.Position(d.Pos()).Filename
		cuts[name] = append(cuts[name], cut{fset.Position(from).Offset, fset.Position(d.End()).Offset})
		normalizeLog = append(normalizeLog, fmt.Sprintf("%s: unused after inlining, declaration dropped", fn.Name()))
	}
	if len(cuts) == 0 {
		return nil
	}
	out := map[string][]byte{}
	for k, v := range overlay {
		out[k] = v
	}
	for name, cs := range cuts {
		b, ok := out[name]
		if !ok {
			b, _ = os.ReadFile(name)
		}
		sort.Slice(cs, func(i, j int) bool { return cs[i].from > cs[j].from })
		nb := append([]byte{}, b...)
		for _, c := range cs {
			if c.from < 0 || c.to > len(nb) || c.from > c.to {
				return nil
			}
			nb = append(nb[:c.from], nb[c.to:]...)
		}
		out[name] = nb
	}
	return out
}
