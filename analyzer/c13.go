package main

// C13 — concurrent states never interfere; channels deliver once.

import (
	"fmt"
	"go/token"
	"go/types"
	"strings"

	"golang.org/x/tools/go/ssa"
)

func init() {
	register(&propInfo{
		ID:    "C13",
		Title: "Concurrent states never interfere; channels deliver each value once, in order",
		Explanation: "Decided: R13-globals — for every package-level variable of the library packages (lua, pm, parse, ast): no store to it, to its elements or through it outside package initialisation (sync.Pool methods excepted), no field store through a value loaded from a pointer-typed global (the compiler's expcontext caches are protected by ecupdate's identity guard, which is checked), and no package-level pointer to a mutable struct escapes into Lua-visible storage; " +
			"R13-proto — every instruction that writes a FunctionProto / DbgLocalInfo / DbgCall field or an element of a slice held in such a field sits in a function that is unreachable from the execution roots once Compile is removed from the call graph (executing a prototype never modifies it); " +
			"R13-poolrelease — a call-frame segment handed back to the shared sync.Pool is not used, nor is an address into it returned, on any later path of the releasing function; R13-sendguard — every Lua value placed in a channel send position passed isGoroutineSafe with a raising arm, isGoroutineSafe rejects functions, userdata, threads and tables with metatables, and no blocking channel operation sits in a loop (send/receive/close map 1:1 to Go channel operations). " +
			"NOT decided: race freedom of heap objects reachable through values, ordering and exactly-once delivery (trusted to the Go runtime once the 1:1 mapping holds).",
		Trusted: []string{"exported configuration variables (RegistrySize, MaxArrayIndex, …) are set by the embedder before states run"},
		Rules:   []func(*Ctx){ruleNoSharedLuaObjects, ruleGlobalSlicesNotAliased, ruleAlloc, ruleGlobals, ruleProto, ruleSendGuard, rulePoolRelease, ruleSharedRand, ruleStdStreams, ruleFreeAllOnlyOnClose, ruleSelectDispatchesFiredCase},
	})
}

var libPkgs = []string{"lua", "pm", "parse", "ast"}

func isInitFn(fn *ssa.Function) bool {
	for f := fn; f != nil; f = f.Parent() {
		if f.Name() == "init" || strings.HasPrefix(f.Name(), "init#") {
			return true
		}
	}
	return false
}

// rootGlobal: the global an address/value is rooted at through IndexAddr/FieldAddr chains.
func rootGlobal(v ssa.Value) *ssa.Global {
	for i := 0; i < 10; i++ {
		switch x := v.(type) {
		case *ssa.Global:
			return x
		case *ssa.IndexAddr:
			v = x.X
		case *ssa.FieldAddr:
			v = x.X
		default:
			return nil
		}
	}
	return nil
}

func ruleGlobals(c *Ctx) {
	const R = "R13-globals"
	if c.Prop == "C08" {
		c.floor(R, 15)
	} else {
		c.floor(R, 40)
	}
	p := c.P
	p.computeNoReturn()
	globals := map[*ssa.Global]bool{}
	for _, pk := range libPkgs {
		sp := p.SPkg(pk)
		if sp == nil {
			continue
		}
		for _, m := range sp.Members {
			if g, ok := m.(*ssa.Global); ok && !strings.HasPrefix(g.Name(), "init$") {
				globals[g] = true
			}
		}
	}
	writes := map[*ssa.Global][]string{}
	for _, fn := range p.srcFuncs {
		if fn.Pkg == nil {
			continue
		}
		inLib := false
		for _, pk := range libPkgs {
			if fn.Pkg == p.SPkg(pk) {
				inLib = true
			}
		}
		if !inLib {
			continue
		}
		init := isInitFn(fn)
		var g *PCFG
		allInstrs(fn, func(in ssa.Instruction) {
			switch x := in.(type) {
			case *ssa.Store:
				if gl := rootGlobal(x.Addr); gl != nil && globals[gl] && !init {
					writes[gl] = append(writes[gl], p.ipos(in)+" in "+fname(fn))
				}
				// field / element store through a value loaded from a global
				base := x.Addr
				for i := 0; i < 6; i++ {
					switch b := base.(type) {
					case *ssa.FieldAddr:
						base = b.X
						continue
					case *ssa.IndexAddr:
						base = b.X
						continue
					}
					break
				}
				if u, ok := base.(*ssa.UnOp); ok && u.Op == token.MUL {
					if gl, ok := u.X.(*ssa.Global); ok && globals[gl] && !init {
						writes[gl] = append(writes[gl], p.ipos(in)+" in "+fname(fn)+" (through the loaded value)")
					}
				}
			case *ssa.MapUpdate:
				if u, ok := x.Map.(*ssa.UnOp); ok {
					if gl, ok := u.X.(*ssa.Global); ok && globals[gl] && !init {
						writes[gl] = append(writes[gl], p.ipos(in)+" in "+fname(fn)+" (map update)")
					}
				}
			case *ssa.Call:
				if bi, ok := x.Call.Value.(*ssa.Builtin); ok && (bi.Name() == "delete" || bi.Name() == "copy" || bi.Name() == "clear") {
					if u, ok := x.Call.Args[0].(*ssa.UnOp); ok {
						if gl, ok := u.X.(*ssa.Global); ok && globals[gl] && !init {
							writes[gl] = append(writes[gl], p.ipos(in)+" in "+fname(fn)+" ("+bi.Name()+")")
						}
					}
				}
				// append/copy into a slice of a package-level array or slice: the elements are written in place
				// (`append(scratch[:0], b)` reuses the backing store of the global)
				if bi, ok := x.Call.Value.(*ssa.Builtin); ok && (bi.Name() == "append" || bi.Name() == "copy") && !init {
					if sl, ok := x.Call.Args[0].(*ssa.Slice); ok {
						var gl *ssa.Global
						switch b := sl.X.(type) {
						case *ssa.Global:
							gl = b
						case *ssa.UnOp:
							gl, _ = b.X.(*ssa.Global)
						}
						if gl != nil && globals[gl] {
							writes[gl] = append(writes[gl], p.ipos(in)+" in "+fname(fn)+" ("+bi.Name()+" into a slice of it)")
						}
					}
				}
				// pointer-typed global passed to a function that writes through the parameter
				if sc := x.Call.StaticCallee(); sc != nil && !init {
					for i, a := range x.Call.Args {
						u, ok := stripMI(a).(*ssa.UnOp)
						if !ok {
							continue
						}
						gl, ok := u.X.(*ssa.Global)
						if !ok || !globals[gl] {
							continue
						}
						if _, isPtr := gl.Type().(*types.Pointer).Elem().Underlying().(*types.Pointer); !isPtr {
							continue
						}
						if i < len(sc.Params) && writesThroughParam(p, sc, sc.Params[i], 0) {
							if g == nil {
								g = p.G(fn)
							}
							writes[gl] = append(writes[gl], p.ipos(in)+" in "+fname(fn)+" (passed to "+fname(sc)+", which writes through it)")
						}
					}
				}
			}
		})
	}
	// Registered for C08 the rule speaks about the front end only: the variables the lexer, the parser and
	// the compiler read (a shared table of another library is C13's business, not a parsing defect).
	front := map[*ssa.Global]bool{}
	if c.Prop == "C08" {
		for _, fn := range p.srcFuncs {
			if fn.Pkg == nil || !(fn.Pkg.Pkg.Name() == "parse" || strings.HasPrefix(p.pos(fn.Pos()), "compile.go:")) {
				continue
			}
			allInstrs(fn, func(in ssa.Instruction) {
				for _, op := range in.Operands(nil) {
					if gl, ok := (*op).(*ssa.Global); ok {
						front[gl] = true
					}
				}
			})
		}
	}
	n := 0
	for gl := range globals {
		if c.Prop == "C08" && !front[gl] {
			continue
		}
		n++
		key := fmt.Sprintf("%s.%s", gl.Pkg.Pkg.Name(), gl.Name())
		if isSyncPool(gl) {
			c.okT(R, key, p.pos(gl.Pos()), "sync.Pool (goroutine-safe by contract)")
			continue
		}
		w := writes[gl]
		if len(w) == 0 {
			c.ok(R, key, p.pos(gl.Pos()), "no write outside package initialisation")
		} else {
			c.bad(R, key, p.pos(gl.Pos()), fmt.Sprintf("package-level variable is written at run time (%s): states running in different goroutines share it without synchronisation", strings.Join(w, "; ")))
		}
	}
	// ecupdate's identity guard protects the cached expcontexts
	if fn := c.need(R, "lua", "ecupdate"); fn != nil {
		g := p.G(fn)
		cached := map[string]bool{}
		if en := p.Fn("lua", "ecnone"); en != nil {
			allInstrs(en, func(in ssa.Instruction) {
				if r, ok := in.(*ssa.Return); ok {
					if u, ok := r.Results[0].(*ssa.UnOp); ok {
						if gl, ok := u.X.(*ssa.Global); ok {
							cached[gl.Name()] = true
						}
					}
				}
			})
		}
		guarded := map[string]bool{}
		allInstrs(fn, func(in ssa.Instruction) {
			st, ok := in.(*ssa.Store)
			if !ok || !g.Live(in) {
				return
			}
			if fa, ok := st.Addr.(*ssa.FieldAddr); ok {
				if _, isP := fa.X.(*ssa.Parameter); isP {
					for _, cd := range g.CondsAtInstr(in) {
						if b, ok := cd.V.(*ssa.BinOp); ok && neHolds(b, cd) {
							for _, s := range []ssa.Value{b.X, b.Y} {
								if u, ok := s.(*ssa.UnOp); ok {
									if gl, ok := u.X.(*ssa.Global); ok {
										guarded[gl.Name()] = true
									}
								}
							}
						}
					}
				}
			}
		})
		okc := len(cached) > 0
		for n := range cached {
			if !guarded[n] {
				okc = false
			}
		}
		c.check(okc, R, "ecupdate:identity-guard", p.pos(fn.Pos()), fmt.Sprintf("ecupdate refuses to modify the %d shared expcontext caches returned by ecnone", len(cached)), "ecupdate can modify a shared cached expcontext (concurrent compilations corrupt each other)")
	}
	// escape obligation: pointer globals to mutable structs must not reach Lua-visible storage
	sinks := map[string]bool{"(*LState).SetField": true, "(*LState).SetTable": true, "(*LState).RawSet": true, "(*LState).RawSetInt": true,
		"(*LState).Push": true, "(*LState).SetGlobal": true, "(*LTable).RawSet": true, "(*LTable).RawSetString": true, "(*LTable).RawSetInt": true,
		"(*LTable).RawSetH": true, "(*LTable).Append": true, "(*LTable).Insert": true, "(*registry).Push": true, "(*registry).Set": true}
	for gl := range globals {
		if c.Prop == "C08" && !front[gl] {
			continue
		}
		pt, ok := gl.Type().(*types.Pointer).Elem().Underlying().(*types.Pointer)
		if !ok {
			continue
		}
		st, ok := pt.Elem().Underlying().(*types.Struct)
		if !ok || st.NumFields() == 0 {
			continue
		}
		for _, fn := range p.srcFuncs {
			allInstrs(fn, func(in ssa.Instruction) {
				call, ok := in.(*ssa.Call)
				if !ok {
					return
				}
				sc := call.Call.StaticCallee()
				if sc == nil || !sinks[fname(sc)] {
					return
				}
				for _, a := range call.Call.Args {
					if u, ok := stripMI(a).(*ssa.UnOp); ok && u.X == ssa.Value(gl) {
						c.bad(R, fmt.Sprintf("escape:%s→%s:%s", gl.Name(), fname(sc), fname(fn)), p.ipos(in),
							fmt.Sprintf("the package-level object %s (a pointer to a struct with mutable fields, one instance shared by every LState) is stored into Lua-visible storage: any script can reach it and mutate it while other states do the same", gl.Name()))
					}
				}
			})
		}
	}
}

// rulePoolRelease: typestate of pooled call-frame segments — once a segment was handed back to the
// shared pool (another state may take it at once) the releasing function must not use it, or any
// address derived from it, on any later path (including returning such an address).
func rulePoolRelease(c *Ctx) {
	const R = "R13-poolrelease"
	c.floor(R, 4)
	p := c.P
	free := c.need(R, "lua", "freeCallFrameStackSegment")
	if free == nil {
		return
	}
	for _, fn := range p.srcFuncs {
		calls := callsTo(fn, free)
		if len(calls) == 0 {
			continue
		}
		c.touch(fn)
		g := p.G(fn)
		for _, fc := range calls {
			c.Sites++
			key := fmt.Sprintf("%s:release#%d", fname(fn), countKey(c, R, fname(fn)))
			seg := fc.Call.Args[0]
			tainted := map[ssa.Value]bool{seg: true}
			// addresses derived from the segment anywhere in the function (they may be computed before the release)
			for changed := true; changed; {
				changed = false
				allInstrs(fn, func(in ssa.Instruction) {
					switch x := in.(type) {
					case *ssa.FieldAddr:
						if tainted[x.X] && !tainted[x] {
							tainted[x] = true
							changed = true
						}
					case *ssa.IndexAddr:
						if tainted[x.X] && !tainted[x] {
							tainted[x] = true
							changed = true
						}
					}
				})
			}
			var bad ssa.Instruction
			seen := map[*ssa.BasicBlock]bool{}
			var walk func(b *ssa.BasicBlock, idx int, from *ssa.BasicBlock)
			walk = func(b *ssa.BasicBlock, idx int, from *ssa.BasicBlock) {
				if bad != nil {
					return
				}
				if idx == 0 {
					// phis take the value of the edge we came through
					for _, in := range b.Instrs {
						ph, ok := in.(*ssa.Phi)
						if !ok {
							break
						}
						for i, pr := range b.Preds {
							if pr == from && tainted[ph.Edges[i]] {
								tainted[ph] = true
							}
						}
					}
					if seen[b] {
						return
					}
					seen[b] = true
				}
				for i := idx; i < len(b.Instrs); i++ {
					in := b.Instrs[i]
					if _, isPhi := in.(*ssa.Phi); isPhi {
						continue
					}
					if _, isDbg := in.(*ssa.DebugRef); isDbg {
						continue
					}
					if si, ok := seg.(ssa.Instruction); ok && si == in {
						return // the value is defined anew here (next loop iteration): a different segment
					}
					for _, op := range in.Operands(nil) {
						if *op != nil && tainted[*op] {
							bad = in
							return
						}
					}
					if v, ok := in.(ssa.Value); ok {
						// derived addresses computed after the release from a still-tainted base are uses as well (caught above)
						_ = v
					}
					if g.Cut[b] >= 0 && i >= g.Cut[b] {
						return
					}
				}
				for _, s := range b.Succs {
					walk(s, 0, b)
				}
			}
			blk, i := after(fc)
			walk(blk, i, nil)
			pos := p.ipos(fc)
			if bad != nil {
				pos = p.ipos(bad)
			}
			c.check(bad == nil, R, key, pos, "the released segment is not touched on any later path", "a call-frame segment is used (or an address into it is returned) after it was handed back to the shared segment pool: another LState can take and overwrite it in between, so states interfere (the VM reads the frame it has just popped)")
		}
	}
}

func stripMI(v ssa.Value) ssa.Value {
	for {
		switch x := v.(type) {
		case *ssa.MakeInterface:
			v = x.X
		case *ssa.ChangeInterface:
			v = x.X
		case *ssa.ChangeType:
			v = x.X
		default:
			return v
		}
	}
}

func isSyncPool(g *ssa.Global) bool {
	t := g.Type().(*types.Pointer).Elem()
	if nt, ok := t.(*types.Named); ok && nt.Obj().Pkg() != nil && nt.Obj().Pkg().Path() == "sync" {
		return true
	}
	return false
}

// writesThroughParam: fn stores into a field/element reached from parameter pm (depth-limited through calls).
func writesThroughParam(p *Prog, fn *ssa.Function, pm *ssa.Parameter, depth int) bool {
	if depth > 2 || len(fn.Blocks) == 0 {
		return false
	}
	if fname(fn) == "ecupdate" {
		return false // identity-guarded (checked separately)
	}
	found := false
	allInstrs(fn, func(in ssa.Instruction) {
		if found {
			return
		}
		switch x := in.(type) {
		case *ssa.Store:
			base := x.Addr
			for i := 0; i < 6; i++ {
				switch b := base.(type) {
				case *ssa.FieldAddr:
					base = b.X
					continue
				case *ssa.IndexAddr:
					base = b.X
					continue
				}
				break
			}
			if base == ssa.Value(pm) && base != x.Addr {
				found = true
			}
		case *ssa.Call:
			if sc := x.Call.StaticCallee(); sc != nil {
				for i, a := range x.Call.Args {
					if a == ssa.Value(pm) && i < len(sc.Params) && writesThroughParam(p, sc, sc.Params[i], depth+1) {
						found = true
					}
				}
			}
		}
	})
	return found
}

// ---------------------------------------------------------------------------------------------

func ruleProto(c *Ctx) {
	const R = "R13-proto"
	c.floor(R, 8)
	p := c.P
	protoTypes := map[string]bool{"FunctionProto": true, "DbgLocalInfo": true, "DbgCall": true}
	ownerOf := func(fa *ssa.FieldAddr) string {
		t := fa.X.Type()
		if pt, ok := t.Underlying().(*types.Pointer); ok {
			t = pt.Elem()
		}
		if nt, ok := t.(*types.Named); ok && nt.Obj().Pkg() != nil && nt.Obj().Pkg().Path() == luaPath && protoTypes[nt.Obj().Name()] {
			return nt.Obj().Name()
		}
		return ""
	}
	var protoSliceFields []*types.Var
	if o := p.Obj("lua", "FunctionProto"); o != nil {
		st := o.Type().Underlying().(*types.Struct)
		for i := 0; i < st.NumFields(); i++ {
			if _, ok := st.Field(i).Type().Underlying().(*types.Slice); ok {
				protoSliceFields = append(protoSliceFields, st.Field(i))
			}
		}
	}
	fromProtoSlice := func(v ssa.Value) string {
		for _, f := range protoSliceFields {
			if p.derivesFromField(v, f, 0) {
				return f.Name()
			}
		}
		return ""
	}
	type wsite struct {
		fn   *ssa.Function
		in   ssa.Instruction
		what string
	}
	var ws []wsite
	for _, fn := range p.srcFuncs {
		if fn.Pkg == nil || fn.Pkg.Pkg.Path() != luaPath {
			continue
		}
		allInstrs(fn, func(in ssa.Instruction) {
			st, ok := in.(*ssa.Store)
			if !ok {
				return
			}
			switch a := st.Addr.(type) {
			case *ssa.FieldAddr:
				if o := ownerOf(a); o != "" {
					if _, fresh := a.X.(*ssa.Alloc); fresh {
						return // initialising a freshly allocated object
					}
					f := fieldOf(a)
					ws = append(ws, wsite{fn, in, o + "." + f.Name()})
				}
				// store to a field of an element of a proto slice: p.DbgLocals[i].EndPc
				if ia, ok := a.X.(*ssa.IndexAddr); ok {
					if n := fromProtoSlice(ia.X); n != "" {
						ws = append(ws, wsite{fn, in, "element of " + n})
					}
				}
			case *ssa.IndexAddr:
				if n := fromProtoSlice(a.X); n != "" {
					ws = append(ws, wsite{fn, in, "element of FunctionProto." + n})
				}
			}
		})
	}
	// reachability from execution roots with Compile removed
	cg := p.CallGraph()
	compile := p.Fn("lua", "Compile")
	if compile == nil {
		c.und(R, "anchor:Compile", "-", "not found")
		return
	}
	t := p.vmTable()
	var roots []*ssa.Function
	for _, o := range t.Ops {
		if o.Handler != nil {
			roots = append(roots, o.Handler)
		}
	}
	for _, n := range []string{"mainLoop", "mainLoopWithContext", "(*LState).PCall", "(*LState).Call", "threadRun", "(*LState).Resume", "(*LState).NewFunctionFromProto"} {
		if f := p.Fn("lua", n); f != nil {
			roots = append(roots, f)
		}
	}
	seen := map[*ssa.Function]bool{}
	var work []*ssa.Function
	for _, r := range roots {
		if !seen[r] {
			seen[r] = true
			work = append(work, r)
		}
	}
	prev := map[*ssa.Function]*ssa.Function{}
	for len(work) > 0 {
		f := work[len(work)-1]
		work = work[:len(work)-1]
		n := cg.Nodes[f]
		if n == nil {
			continue
		}
		for _, e := range n.Out {
			cf := e.Callee.Func
			if cf == nil || cf == compile || seen[cf] {
				continue
			}
			seen[cf] = true
			prev[cf] = f
			work = append(work, cf)
		}
	}
	byFn := map[*ssa.Function][]wsite{}
	for _, w := range ws {
		byFn[w.fn] = append(byFn[w.fn], w)
	}
	for fn, sites := range byFn {
		c.touch(fn)
		c.Sites += len(sites)
		whats := map[string]bool{}
		for _, s := range sites {
			whats[s.what] = true
		}
		key := "writer:" + fname(fn)
		if seen[fn] {
			var path []string
			for x := fn; x != nil; x = prev[x] {
				path = append([]string{fname(x)}, path...)
				if len(path) > 8 {
					break
				}
			}
			c.bad(R, key, p.ipos(sites[0].in), fmt.Sprintf("%s writes %s and is reachable at run time without going through Compile (%s): executing a prototype modifies it, so states sharing compiled code interfere", fname(fn), strings.Join(sortedKeys(whats), ", "), strings.Join(path, " → ")))
		} else {
			c.ok(R, key, p.ipos(sites[0].in), fmt.Sprintf("writes %s; reachable only through Compile", strings.Join(sortedKeys(whats), ", ")))
		}
	}
	c.check(len(roots) > 40 && len(seen) > 200, R, "roots", "-", fmt.Sprintf("%d execution roots reach %d functions with Compile removed", len(roots), len(seen)), "execution roots could not be resolved")
	// the VM's handlers never take the address of a prototype word for a setter
	for _, n := range []string{"opSetOpCode", "opSetArgA", "opSetArgB", "opSetArgC", "opSetArgBx", "opSetArgSbx"} {
		if f := p.Fn("lua", n); f != nil {
			c.check(!seen[f], R, "setter-unreachable:"+n, p.pos(f.Pos()), "instruction-word setter not reachable at run time", "an instruction-word setter is reachable from the VM: code is patched while it runs")
		}
	}
}

// ---------------------------------------------------------------------------------------------

func ruleSendGuard(c *Ctx) {
	const R = "R13-sendguard"
	c.floor(R, 6)
	p := c.P
	p.computeNoReturn()
	safe := c.need(R, "lua", "isGoroutineSafe")
	if safe == nil {
		return
	}
	// isGoroutineSafe, evaluated abstractly for each dynamic type of its argument (the spelling — a type
	// switch, a chain of assertions, a comparison of Type() tags — does not matter)
	{
		param := safe.Params[0]
		res := map[string]map[string]bool{}
		for _, tn := range []string{"LFunction", "LUserData", "LState", "LTable", "LNumber", "LString", "LBool", "LNilType", "LChannel"} {
			obj := p.Obj("lua", tn)
			if obj == nil {
				continue
			}
			T := obj.Type()
			// pointer receivers for the struct kinds
			if _, isStruct := T.Underlying().(*types.Struct); isStruct {
				T = types.NewPointer(T)
			}
			res[tn] = p.evalPredicateForType(safe, param, T)
		}
		only := func(m map[string]bool, v string) bool { return len(m) == 1 && m[v] }
		var accepted []string
		for _, tn := range []string{"LFunction", "LUserData", "LState"} {
			if !only(res[tn], "false") {
				accepted = append(accepted, tn)
			}
		}
		c.check(len(accepted) == 0, R, "isGoroutineSafe:rejects-fn-ud-thread", p.pos(safe.Pos()), "functions, userdata and threads are refused", fmt.Sprintf("isGoroutineSafe can answer true for %v: such a value shares its state's globals, registry or up-values, and the receiving state would run or mutate them from another goroutine", accepted))
		mtDepends := res["LTable"]["unknown"] || (res["LTable"]["true"] && res["LTable"]["false"])
		mtRead := false
		allInstrs(safe, func(in ssa.Instruction) {
			if fa, ok := in.(*ssa.FieldAddr); ok && fieldOf(fa) == p.Field("lua", "LTable", "Metatable") {
				mtRead = true
			}
		})
		c.check(mtDepends && mtRead, R, "isGoroutineSafe:table-needs-no-metatable", p.pos(safe.Pos()), "a table is accepted only depending on its Metatable field", "tables with metatables are accepted as channel payloads")
	}
	// wrapper summary: a function returning its checked value
	checked := map[*ssa.Function]bool{}
	for _, fn := range p.srcFuncs {
		if fn.Pkg == nil || fn.Pkg.Pkg.Path() != luaPath || fn == safe {
			continue
		}
		g := p.G(fn)
		allRet, n := true, 0
		allInstrs(fn, func(in ssa.Instruction) {
			r, ok := in.(*ssa.Return)
			if !ok || !g.Live(in) || len(r.Results) != 1 {
				return
			}
			if !types.Identical(r.Results[0].Type(), p.Obj("lua", "LValue").Type()) {
				allRet = false
				return
			}
			n++
			if !safeAt(p, g, in, r.Results[0], safe, nil) {
				allRet = false
			}
		})
		if allRet && n > 0 && len(callsTo(fn, safe)) > 0 {
			checked[fn] = true
		}
	}
	// send positions
	ns := 0
	for _, fn := range p.srcFuncs {
		if fn.Pkg == nil || fn.Pkg.Pkg.Path() != luaPath {
			continue
		}
		var g *PCFG
		allInstrs(fn, func(in ssa.Instruction) {
			var payload ssa.Value
			what := ""
			switch x := in.(type) {
			case *ssa.Call:
				if pk, n, ok := stdCall(in); ok && pk == "reflect" && (n == "Value.Send" || n == "Value.TrySend") {
					payload, what = x.Call.Args[1], "reflect.Value.Send"
				}
			case *ssa.Send:
				if nt, ok := x.Chan.Type().(*types.Named); ok && nt.Obj().Name() == "LChannel" {
					payload, what = x.X, "native send"
				} else if ch, ok := x.Chan.Type().Underlying().(*types.Chan); ok && types.Identical(ch.Elem(), p.Obj("lua", "LValue").Type()) {
					payload, what = x.X, "native send"
				}
			case *ssa.Store:
				if fa, ok := x.Addr.(*ssa.FieldAddr); ok {
					if f := fieldOf(fa); f != nil && f.Name() == "Send" && f.Pkg() != nil && f.Pkg().Path() == "reflect" {
						payload, what = x.Val, "reflect.SelectCase.Send"
					}
				}
			}
			if payload == nil {
				return
			}
			// unwrap reflect.ValueOf(v)
			v := payload
			if call, ok := v.(*ssa.Call); ok {
				if pk, n, ok := stdCall(call); ok && pk == "reflect" && n == "ValueOf" {
					v = call.Call.Args[0]
				}
			}
			v = stripMI(v)
			if cst, ok := v.(*ssa.Const); ok && cst.Value == nil {
				return // reflect.ValueOf(nil): no payload (receive/default cases)
			}
			if g == nil {
				g = p.G(fn)
			}
			if !g.Live(in) {
				return
			}
			ns++
			c.touch(fn)
			c.Sites++
			key := fmt.Sprintf("%s:%s#%d", fname(fn), what, countKey(c, R, fname(fn)+what))
			c.check(safeAt(p, g, in, v, safe, checked), R, key, p.ipos(in), "the payload passed isGoroutineSafe (raising arm) before it is placed in the send position",
				"a Lua value is sent on a channel without the isGoroutineSafe check: functions, userdata, threads or tables with metatables would be shared between states running in different goroutines")
		})
	}
	// blocking ops not in a loop
	for _, name := range []string{"channelSend", "channelReceive", "channelClose"} {
		fn := c.need(R, "lua", name)
		if fn == nil {
			continue
		}
		g := p.G(fn)
		nops, inLoop := 0, false
		allInstrs(fn, func(in ssa.Instruction) {
			pk, n, ok := stdCall(in)
			if !ok || pk != "reflect" || !(n == "Value.Send" || n == "Value.TrySend" || n == "Value.TryRecv" || n == "Value.Recv" || n == "Select" || n == "Value.Close") {
				return
			}
			nops++
			b, i := after(in)
			if g.walk(b, i, nil, func(x ssa.Instruction) bool { return x == in }) {
				inLoop = true
			}
		})
		c.check(nops > 0 && !inLoop, R, name+":one-op", p.pos(fn.Pos()), "maps to Go channel operations outside any loop (at most one per call path)", "the channel primitive retries/loops around its Go channel operation: a value can be delivered twice or reordered")
	}
}

// safeAt: value v is known goroutine-safe at instruction `at`: conds contain isGoroutineSafe(v)
// true, or v is the result of a checked wrapper.
func safeAt(p *Prog, g *PCFG, at ssa.Instruction, v ssa.Value, safe *ssa.Function, checked map[*ssa.Function]bool) bool {
	v = stripMI(v)
	if call, ok := v.(*ssa.Call); ok && checked != nil {
		if sc := call.Call.StaticCallee(); sc != nil && checked[sc] {
			return true
		}
	}
	for _, cd := range g.CondsAtInstr(at) {
		call, ok := cd.V.(*ssa.Call)
		if !ok || call.Call.StaticCallee() != safe || !cd.Sense {
			continue
		}
		a := stripMI(call.Call.Args[0])
		if a == v || vkey(a) == vkey(v) {
			return true
		}
	}
	return false
}
