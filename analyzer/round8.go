package main

// round8.go — rules added after seeding round 8 (DESIGN §6, round 8). Each decides a structural
// necessary condition of its property that a seeded change showed to be undecided before.

import (
	"fmt"
	"go/token"
	"go/types"
	"math"
	"strings"

	"golang.org/x/tools/go/ssa"
)

// rangeIndexLoops: the index loops go/ssa builds for `for i := range S` / `for i, x := range S` over
// a slice: idx = phi[-1, next]; next = idx + 1; next < len(S).  Returns next → the len value.
func rangeIndexLoops(fn *ssa.Function) map[ssa.Value]ssa.Value {
	out := map[ssa.Value]ssa.Value{}
	allInstrs(fn, func(in ssa.Instruction) {
		cmp, ok := in.(*ssa.BinOp)
		if !ok || cmp.Op != token.LSS {
			return
		}
		next, ok := cmp.X.(*ssa.BinOp)
		if !ok || next.Op != token.ADD {
			return
		}
		if k, ok := constInt(next.Y); !ok || k != 1 {
			return
		}
		ph, ok := next.X.(*ssa.Phi)
		if !ok || ph.Comment != "rangeindex" {
			return
		}
		out[next] = cmp.Y
	})
	return out
}

// ruleLastOfRange: C02 gives "all results" only to the LAST expression of an argument list, return
// list, constructor or assignment. Wherever the compiler, walking such a list with `range`, asks "is
// this the last one" by comparing the range index with something, that something is len(list)-1 of
// the list being walked — not a count that also includes something else (the implicit self of a
// method call).
func ruleLastOfRange(c *Ctx) {
	const R = "R02-last"
	c.floor(R, 2)
	p := c.P
	for _, fn := range p.srcFuncs {
		if fn.Pkg == nil || fn.Pkg.Pkg.Name() != "lua" || !strings.HasPrefix(fn.Name(), "compile") {
			continue
		}
		loops := rangeIndexLoops(fn)
		if len(loops) == 0 {
			continue
		}
		n := 0
		allInstrs(fn, func(in ssa.Instruction) {
			b, ok := in.(*ssa.BinOp)
			if !ok || (b.Op != token.EQL && b.Op != token.NEQ) {
				return
			}
			idx, other := b.X, b.Y
			ln, isIdx := loops[idx]
			if !isIdx {
				idx, other = b.Y, b.X
				ln, isIdx = loops[idx]
			}
			if !isIdx {
				return
			}
			if k, ok := constInt(other); ok && k == 0 {
				return // "is this the first one"
			}
			n++
			c.Sites++
			c.touch(fn)
			want := lin(ln)
			want.K--
			got := lin(other)
			same := sameTerms(want, got) == 1 && want.K == got.K
			c.check(same, R, fmt.Sprintf("%s:last-of-the-walked-list#%d", fn.Name(), n), p.ipos(in),
				"the range index is compared with len(list)-1 of the list being walked",
				fmt.Sprintf("%s decides \"last expression\" by comparing the range index with %s, which is not len-1 of the list the loop walks: when the two differ (a method call counts the implicit self) the last expression never gets the multiple-results context and f(...)/... in last position is truncated to one value", fn.Name(), vkey(other)))
		})
	}
}

// ruleSetFieldStores: C09/C10 "storing nil deletes, a Lua-level store under nil or NaN is an error":
// the generic assignment (setField / setFieldString) ends, on every path that returns, in the raw
// store (which is where an invalid key is refused) or in the __newindex handler call — no path returns
// having done neither (e.g. by skipping the store when the value is nil).
func ruleSetFieldStores(c *Ctx) {
	const R = "R09-setfield"
	c.floor(R, 2)
	p := c.P
	for _, name := range []string{"(*LState).setField", "(*LState).setFieldString"} {
		fn := c.need(R, "lua", name)
		if fn == nil {
			continue
		}
		g := p.G(fn)
		event := func(in ssa.Instruction) bool {
			cal := staticCallee(in)
			if cal == nil {
				return false
			}
			switch cal.Name() {
			case "RawSet", "RawSetString", "RawSetInt", "RawSetH", "Call", "callR", "PCall":
				return true
			}
			return false
		}
		ok, wit := g.MustPassBefore(fn.Blocks[0], 0, event, isReturn)
		pos := p.pos(fn.Pos())
		if wit != nil {
			pos = p.ipos(wit)
		}
		c.Sites++
		c.check(ok, R, strings.TrimPrefix(name, "(*LState).")+":every-return-after-store-or-handler", pos,
			"every returning path passes the raw store or the handler call",
			fname(fn)+" can return without having stored and without having called a __newindex handler: the assignment silently does nothing on that path, and the key check made by the raw store (index is nil / NaN) is skipped — t[nil] = nil and t[0/0] = nil no longer raise")
	}
}

// ruleProtectedMetatable: C10 "GetMetatable gives exactly what the Lua expression gives": the
// __metatable field of a metatable, whenever it is present (not nil), is what getmetatable answers —
// false and 0 included. In (*LState).metatable: every way to the result that has read the field and
// does not answer with it carries the test "field == nil".
func ruleProtectedMetatable(c *Ctx) {
	const R = "R10-protected"
	p := c.P
	fn := c.need(R, "lua", "(*LState).metatable")
	if fn == nil {
		return
	}
	g := p.G(fn)
	var field *ssa.Call
	allInstrs(fn, func(in ssa.Instruction) {
		if cl, ok := in.(*ssa.Call); ok {
			if cal := cl.Call.StaticCallee(); cal != nil && cal.Name() == "RawGetString" && len(cl.Call.Args) == 2 {
				if s, ok := constStr(cl.Call.Args[1]); ok && s == "__metatable" {
					field = cl
				}
			}
		}
	})
	if field == nil {
		c.und(R, "metatable:field-read", p.pos(fn.Pos()), "no RawGetString(\"__metatable\") in (*LState).metatable")
		return
	}
	isNilTest := func(cd Cond) bool {
		b, ok := cd.V.(*ssa.BinOp)
		if !ok {
			return false
		}
		isNil := func(v ssa.Value) bool {
			u, ok := v.(*ssa.UnOp)
			if !ok {
				return false
			}
			gl, ok := u.X.(*ssa.Global)
			return ok && gl.Name() == "LNil"
		}
		if !((b.X == ssa.Value(field) && isNil(b.Y)) || (b.Y == ssa.Value(field) && isNil(b.X))) {
			return false
		}
		return (eqHolds(b, cd)) || (b.Op == token.NEQ && !cd.Sense)
	}
	okc := true
	var where ssa.Instruction
	var visit func(v ssa.Value, pred, blk *ssa.BasicBlock, d int)
	visit = func(v ssa.Value, pred, blk *ssa.BasicBlock, d int) {
		if v == ssa.Value(field) {
			return
		}
		if pred == nil || !g.BlockDom(field.Block(), pred) {
			// the field has not been read on this way — unless the value merges ways that have
			if ph, ok := v.(*ssa.Phi); ok && d < 4 {
				for i, e := range ph.Edges {
					visit(e, ph.Block().Preds[i], ph.Block(), d+1)
				}
			}
			return
		}
		for _, cd := range g.CondsOnEdge(pred, blk) {
			if isNilTest(cd) {
				return
			}
		}
		okc = false
		where = pred.Instrs[len(pred.Instrs)-1]
	}
	rets := 0
	allInstrs(fn, func(in ssa.Instruction) {
		if r, ok := in.(*ssa.Return); ok && len(r.Results) == 1 && g.Live(in) {
			rets++
			visit(r.Results[0], nil, r.Block(), 0)
		}
	})
	pos := p.ipos(field)
	if where != nil {
		pos = p.ipos(where)
	}
	c.Sites++
	c.check(okc && rets > 0, R, "metatable:present-__metatable-field-is-the-answer", pos,
		"every result that is not the __metatable field is reached under field == nil (or before the field is read)",
		"(*LState).metatable reads the __metatable field and can still answer with the real metatable although the field is not nil: getmetatable(x) / L.GetMetatable for a metatable protected with __metatable = false (or any value the extra test rejects) hands out the real metatable")
}

// ruleSegmentsCeil: C12 "a program behaves identically under every configuration": the auto-growing
// call-frame stack holds ceil(maxSize/FramesPerSegment) segments — the least whole number of segments
// that covers the configured depth, so that for a depth that is a whole number of segments both stack
// kinds report the overflow at the same depth.
func ruleSegmentsCeil(c *Ctx) {
	const R = "R12-segments"
	p := c.P
	fn := c.need(R, "lua", "newAutoGrowingCallFrameStack")
	if fn == nil {
		return
	}
	if len(fn.Params) != 1 {
		c.und(R, "segments:ceil", p.pos(fn.Pos()), "unexpected signature")
		return
	}
	size := ssa.Value(fn.Params[0])
	var mk *ssa.MakeSlice
	allInstrs(fn, func(in ssa.Instruction) {
		if m, ok := in.(*ssa.MakeSlice); ok && strings.Contains(m.Type().String(), "callFrameStackSegment") {
			mk = m
		}
	})
	if mk == nil {
		c.und(R, "segments:ceil", p.pos(fn.Pos()), "segment table allocation not found")
		return
	}
	// ceil forms: (n + (K-1)) / K   or   (n - 1)/K + 1
	isCeil := func(v ssa.Value) (bool, int64) {
		v = stripConv(v)
		if q, ok := v.(*ssa.BinOp); ok && q.Op == token.QUO {
			if k, ok := constInt(q.Y); ok && k > 0 {
				l := lin(q.X)
				if len(l.T) == 1 && l.T[leafKey(size)] == 1 && l.K == k-1 {
					return true, k
				}
			}
		}
		if a, ok := v.(*ssa.BinOp); ok && a.Op == token.ADD {
			x, y := a.X, a.Y
			if _, isK := constInt(x); isK {
				x, y = y, x
			}
			if one, ok := constInt(y); ok && one == 1 {
				if q, ok := stripConv(x).(*ssa.BinOp); ok && q.Op == token.QUO {
					if k, ok := constInt(q.Y); ok && k > 0 {
						l := lin(q.X)
						if len(l.T) == 1 && l.T[leafKey(size)] == 1 && l.K == -1 {
							return true, k
						}
					}
				}
			}
		}
		return false, 0
	}
	okc, k := isCeil(mk.Len)
	fps := int64(0)
	if cst, ok := p.Pkg("lua").Types.Scope().Lookup("FramesPerSegment").(*types.Const); ok {
		if v, ok := constValInt(cst); ok {
			fps = v
		}
	}
	c.Sites++
	c.check(okc && k == fps && fps > 0, R, "segments:ceil-of-size-over-frames-per-segment", p.ipos(mk),
		fmt.Sprintf("the segment table has ceil(maxSize/%d) entries", fps),
		"newAutoGrowingCallFrameStack does not size its segment table as ceil(maxSize/FramesPerSegment): for a CallStackSize that is a whole number of segments (the default 256) the auto-growing stack holds one segment more or less than configured, so MinimizeStackMemory moves the depth at which 'stack overflow' is raised")
}

func constValInt(cst *types.Const) (int64, bool) {
	s := cst.Val().ExactString()
	var v int64
	if _, err := fmt.Sscan(s, &v); err != nil {
		return 0, false
	}
	return v, true
}

// ruleOptionalNilAlike: an optional argument read with L.OptX(n, default) treats "absent" and "nil"
// alike (luaL_opt). A test of L.GetTop() against the same position in the same function tells the two
// apart and contradicts that belief: f(a, b, nil) then behaves unlike f(a, b). (gsub's count:
// string.gsub(s, p, r, nil) is unlimited, exactly like string.gsub(s, p, r).)
func ruleOptionalNilAlike(c *Ctx) {
	const R = "R14-optnil"
	c.floor(R, 10)
	p := c.P
	getTop := p.Fn("lua", "(*LState).GetTop")
	if getTop == nil {
		c.und(R, "anchor:GetTop", "-", "(*LState).GetTop not found")
		return
	}
	for _, fn := range p.srcFuncs {
		if fn.Pkg == nil || fn.Pkg.Pkg.Name() != "lua" || len(fn.Params) != 1 || typeName(fn.Params[0].Type()) != "LState" {
			continue
		}
		opt := map[int64]*ssa.Call{}
		allInstrs(fn, func(in ssa.Instruction) {
			cl, ok := in.(*ssa.Call)
			if !ok {
				return
			}
			cal := cl.Call.StaticCallee()
			if cal == nil || !strings.HasPrefix(cal.Name(), "Opt") || recvNamed(cal) != "LState" || len(cl.Call.Args) < 2 {
				return
			}
			if k, ok := constInt(cl.Call.Args[1]); ok {
				opt[k] = cl
			}
		})
		if len(opt) == 0 {
			continue
		}
		c.touch(fn)
		for _, n := range sortedKeysInt(opt) {
			var clash ssa.Instruction
			allInstrs(fn, func(in ssa.Instruction) {
				b, ok := in.(*ssa.BinOp)
				if !ok {
					return
				}
				x, y, op := b.X, b.Y, b.Op
				if cl, ok := y.(*ssa.Call); ok && cl.Call.StaticCallee() == getTop {
					x, y, op = y, x, flipOp(op)
				}
				cl, ok := x.(*ssa.Call)
				if !ok || cl.Call.StaticCallee() != getTop {
					return
				}
				k, ok := constInt(y)
				if !ok {
					return
				}
				// the thresholds m ("top >= m") the comparison separates
				var ms []int64
				switch op {
				case token.GEQ, token.LSS:
					ms = []int64{k}
				case token.GTR, token.LEQ:
					ms = []int64{k + 1}
				case token.EQL, token.NEQ:
					ms = []int64{k, k + 1}
				}
				for _, m := range ms {
					if m == n {
						clash = in
					}
				}
			})
			c.Sites++
			pos := p.ipos(opt[n])
			if clash != nil {
				pos = p.ipos(clash)
			}
			c.check(clash == nil, R, fmt.Sprintf("%s:argument-%d-absent-and-nil-alike", fn.Name(), n), pos,
				"no GetTop() comparison separates 'absent' from 'nil' for this optional argument",
				fmt.Sprintf("%s reads optional argument %d with %s (nil counts as absent) and also compares GetTop() around position %d (nil counts as present): an explicit nil in that position behaves differently from leaving it out — the reference treats them alike", fn.Name(), n, opt[n].Call.StaticCallee().Name(), n))
		}
	}
}

func sortedKeysInt(m map[int64]*ssa.Call) []int64 {
	var ks []int64
	for k := range m {
		ks = append(ks, k)
	}
	for i := range ks {
		for j := i + 1; j < len(ks); j++ {
			if ks[j] < ks[i] {
				ks[i], ks[j] = ks[j], ks[i]
			}
		}
	}
	return ks
}

// ruleRandomWidth: C15 "math.random(m,n) always lies in [m,n]": integer arithmetic that combines both
// bounds (n-m, n-m+1) can wrap for a wide interval. Such a value becomes a float (and so part of the
// result) only where the path has tested it positive — the wide-interval arm computes the width from
// the converted bounds instead.
func ruleRandomWidth(c *Ctx) {
	const R = "R15-random"
	p := c.P
	fn := c.need(R, "lua", "mathRandom")
	if fn == nil {
		return
	}
	g := p.G(fn)
	var bounds []ssa.Value
	allInstrs(fn, func(in ssa.Instruction) {
		if cl, ok := in.(*ssa.Call); ok {
			if cal := cl.Call.StaticCallee(); cal != nil && (cal.Name() == "CheckInt" || cal.Name() == "CheckInt64") {
				bounds = append(bounds, cl)
			}
		}
	})
	isInt := func(v ssa.Value) bool {
		b, ok := v.Type().Underlying().(*types.Basic)
		return ok && b.Info()&types.IsInteger != 0
	}
	// arith: v is built from integer +,-,* and conversions only; returns the set of bounds it combines
	var arith func(v ssa.Value, d int) map[ssa.Value]bool
	arith = func(v ssa.Value, d int) map[ssa.Value]bool {
		out := map[ssa.Value]bool{}
		if d > 8 {
			return out
		}
		for _, b := range bounds {
			if v == b {
				out[b] = true
				return out
			}
		}
		switch x := v.(type) {
		case *ssa.Convert:
			if isInt(x.X) {
				return arith(x.X, d+1)
			}
		case *ssa.ChangeType:
			return arith(x.X, d+1)
		case *ssa.BinOp:
			if isInt(x) && (x.Op == token.ADD || x.Op == token.SUB || x.Op == token.MUL) {
				for k := range arith(x.X, d+1) {
					out[k] = true
				}
				for k := range arith(x.Y, d+1) {
					out[k] = true
				}
			}
		}
		return out
	}
	n, okc := 0, true
	var where ssa.Instruction
	allInstrs(fn, func(in ssa.Instruction) {
		cv, ok := in.(*ssa.Convert)
		if !ok || isInt(cv) || !isInt(cv.X) || !g.Live(in) {
			return
		}
		if _, isArith := stripConvInt(cv.X).(*ssa.BinOp); !isArith {
			return // a bound converted on its own cannot wrap
		}
		if len(arith(cv.X, 0)) < 2 {
			return
		}
		n++
		positive := false
		for _, cd := range g.CondsAtInstr(in) {
			b, ok := cd.V.(*ssa.BinOp)
			if !ok || !cd.Sense || len(arith(b.X, 0)) < 2 {
				continue
			}
			if k, ok := constInt(b.Y); ok && ((b.Op == token.GTR && k >= 0) || (b.Op == token.GEQ && k >= 1)) {
				positive = true
			}
		}
		if !positive {
			okc = false
			where = in
		}
	})
	pos := p.pos(fn.Pos())
	if where != nil {
		pos = p.ipos(where)
	}
	c.Sites++
	c.check(okc && len(bounds) >= 2, R, "mathRandom:integer-width-used-only-where-tested-positive", pos,
		fmt.Sprintf("%d integer combinations of both bounds become floats, each under a positivity test", n),
		"mathRandom turns an integer combination of both bounds (n-m) into a float on a path that has not tested it positive: for an interval wider than 2^63 the subtraction has wrapped, the width is negative and math.random(m,n) leaves [m,n]")
}

func stripConvInt(v ssa.Value) ssa.Value {
	for {
		switch x := v.(type) {
		case *ssa.Convert:
			v = x.X
		case *ssa.ChangeType:
			v = x.X
		default:
			return v
		}
	}
}

// ruleIsIntegerBounded: C16 "tonumber(tostring(x)) == x for every finite x": LNumber.String prints an
// integral value through int64. isInteger, which licenses that conversion, therefore also bounds the
// value: it answers true only under the int64 round trip float64(int64(v)) == v or under an explicit
// magnitude test — "no fractional part" alone is true for 1e300.
func ruleIsIntegerBounded(c *Ctx) {
	const R = "R16-isinteger"
	p := c.P
	fn := c.need(R, "lua", "isInteger")
	if fn == nil {
		return
	}
	g := p.G(fn)
	param := ssa.Value(fn.Params[0])
	fromParam := func(v ssa.Value) bool { return stripConvInt(v) == param }
	roundTrip := func(v ssa.Value) bool {
		// float <- int64 <- param
		cv, ok := v.(*ssa.Convert)
		if !ok {
			return false
		}
		iv, ok := cv.X.(*ssa.Convert)
		if !ok {
			return false
		}
		bt, ok := iv.Type().Underlying().(*types.Basic)
		return ok && bt.Kind() == types.Int64 && fromParam(iv.X)
	}
	sat := func(cd Cond) bool {
		b, ok := cd.V.(*ssa.BinOp)
		if !ok {
			return false
		}
		if eqHolds(b, cd) || b.Op == token.NEQ && !cd.Sense {
			if (roundTrip(b.X) && fromParam(b.Y)) || (roundTrip(b.Y) && fromParam(b.X)) {
				return true
			}
		}
		// magnitude test against a constant no larger than 2^63
		x, y, op := b.X, b.Y, b.Op
		if !cd.Sense {
			op = negate(op)
		}
		if _, isK := constFloat(x); isK {
			x, y, op = y, x, flipOp(op)
		}
		k, isK := constFloat(y)
		if !isK || math.Abs(k) > 9223372036854775808.0 {
			return false
		}
		abs := false
		if cl, ok := x.(*ssa.Call); ok {
			if pk, nm, ok := stdCall(cl); ok && pk == "math" && nm == "Abs" && fromParam(cl.Call.Args[0]) {
				abs = true
			}
		}
		return (abs || fromParam(x)) && (op == token.LSS || op == token.LEQ)
	}
	okc, rets := true, 0
	var where ssa.Instruction
	allInstrs(fn, func(in ssa.Instruction) {
		r, ok := in.(*ssa.Return)
		if !ok || len(r.Results) != 1 || !g.Live(in) {
			return
		}
		rets++
		if b, isK := constBool(r.Results[0]); isK && !b {
			return
		}
		conds := append(g.CondsAt(r.Block()), Cond{V: r.Results[0], Sense: true, At: r.Block()})
		found := false
		for _, cd := range g.expandAnd(conds) {
			if sat(cd) {
				found = true
			}
		}
		if !found {
			okc = false
			where = in
		}
	})
	pos := p.pos(fn.Pos())
	if where != nil {
		pos = p.ipos(where)
	}
	c.Sites++
	c.check(okc && rets > 0, R, "isInteger:true-only-within-int64", pos,
		"every true answer is under the int64 round trip (or a magnitude test)",
		"isInteger can answer true for a value it has not bounded to the int64 range (no round trip float64(int64(v)) == v, no magnitude test): LNumber.String then prints int64(v) of a value like 1e300 or 2^63 — the conversion is out of range and tostring(x) no longer reads back as x")
}

// ruleWhereKeepsSkipping: C17 "level 2 names the calling statement in the calling Lua function": the
// position of a host (Go) frame is that of the nearest Lua caller, however many host frames lie in
// between (pcall(string.gsub, s, p, f)): when (*LState).where recurses past a host frame it keeps
// skipping — the recursive call passes the skip flag on (or true).
func ruleWhereKeepsSkipping(c *Ctx) {
	const R = "R17-where"
	p := c.P
	fn := c.need(R, "lua", "(*LState).where")
	if fn == nil {
		return
	}
	var skip *ssa.Parameter
	for _, pm := range fn.Params {
		if b, ok := pm.Type().Underlying().(*types.Basic); ok && b.Kind() == types.Bool {
			skip = pm
		}
	}
	n, okc := 0, true
	var where ssa.Instruction
	for _, cl := range callsTo(fn, fn) {
		n++
		for i, a := range cl.Call.Args {
			if i >= len(fn.Params) || fn.Params[i] != skip {
				continue
			}
			if a == ssa.Value(skip) {
				continue
			}
			if b, isK := constBool(a); isK && b {
				continue
			}
			okc = false
			where = cl
		}
	}
	pos := p.pos(fn.Pos())
	if where != nil {
		pos = p.ipos(where)
	}
	c.Sites++
	c.check(okc && n > 0 && skip != nil, R, "where:recursion-keeps-skipping-host-frames", pos,
		fmt.Sprintf("%d recursive call(s) pass the skip flag on", n),
		"(*LState).where, stepping past a host frame, does not pass its skip flag on to the next level: with two host frames between the raise and the Lua caller (pcall(string.gsub, s, p, f), table.sort with a failing comparator under pcall) the prefix is '[G]:' instead of the chunk:line: of the calling statement")
}

// diffAtLeast: the largest d for which the path condition at `at` contains an atom implying a - b >= d.
func diffAtLeast(g *PCFG, at ssa.Instruction, a, b ssa.Value) (int64, bool) {
	want := lin(a)
	lb := lin(b)
	for k, co := range lb.T {
		want.T[k] -= co
		if want.T[k] == 0 {
			delete(want.T, k)
		}
	}
	want.K -= lb.K
	best, has := int64(0), false
	for _, cd := range g.expandAnd(g.CondsAtInstr(at)) {
		bo, ok := cd.V.(*ssa.BinOp)
		if !ok {
			continue
		}
		op := bo.Op
		if !cd.Sense {
			op = negate(op)
		}
		x, y := bo.X, bo.Y
		switch op {
		case token.LSS, token.LEQ:
			x, y, op = y, x, flipOp(op)
		case token.GTR, token.GEQ:
		default:
			continue
		}
		// x - y >= s   (s = 1 for >, 0 for >=)
		s := int64(0)
		if op == token.GTR {
			s = 1
		}
		f := lin(x)
		fy := lin(y)
		for k, co := range fy.T {
			f.T[k] -= co
			if f.T[k] == 0 {
				delete(f.T, k)
			}
		}
		f.K -= fy.K
		if sameTerms(f, want) != 1 {
			continue
		}
		// terms + f.K >= s  ⇒ terms >= s - f.K ⇒ (a-b) = terms + want.K >= s - f.K + want.K
		d := s - f.K + want.K
		if !has || d > best {
			best, has = d, true
		}
	}
	return best, has
}

// ruleInsertBoundary: C18 "table.insert(t,pos,v) with 1 <= pos <= n+1 has exactly the manual's effect":
// LTable.Insert may skip the shift (and store directly) only for a position beyond the last element,
// pos >= len+1; at pos == len the last element has to move up.
func ruleInsertBoundary(c *Ctx) {
	const R = "R18-insert"
	p := c.P
	fn := c.need(R, "lua", "(*LTable).Insert")
	if fn == nil {
		return
	}
	g := p.G(fn)
	arrF := p.Field("lua", "LTable", "array")
	pos := ssa.Value(fn.Params[1])
	var lens []ssa.Value
	allInstrs(fn, func(in ssa.Instruction) {
		if cl, ok := in.(*ssa.Call); ok {
			if bi, ok := cl.Call.Value.(*ssa.Builtin); ok && bi.Name() == "len" {
				if _, ok := loadsField(cl.Call.Args[0], arrF); ok {
					lens = append(lens, cl)
				}
			}
		}
	})
	n, okc := 0, true
	var where ssa.Instruction
	allInstrs(fn, func(in ssa.Instruction) {
		cal := staticCallee(in)
		if cal == nil || !g.Live(in) || (cal.Name() != "RawSetInt" && cal.Name() != "RawSet") {
			return
		}
		// a direct store of a positive position
		lo := false
		for _, cd := range g.CondsAtInstr(in) {
			if b, ok := cd.V.(*ssa.BinOp); ok && b.X == pos {
				if k, isK := constInt(b.Y); isK && k == 0 && ((b.Op == token.LEQ && cd.Sense) || (b.Op == token.GTR && !cd.Sense)) {
					lo = true // the non-positive arm: not a list position
				}
			}
		}
		if lo {
			return
		}
		n++
		beyond := false
		for _, l := range lens {
			if d, ok := diffAtLeast(g, in, pos, l); ok && d >= 1 {
				beyond = true
			}
		}
		if !beyond {
			okc = false
			where = in
		}
	})
	at := p.pos(fn.Pos())
	if where != nil {
		at = p.ipos(where)
	}
	c.Sites++
	c.check(okc && n > 0, R, "Insert:direct-store-only-beyond-the-last-element", at,
		fmt.Sprintf("%d direct store(s), each under pos > len(array)", n),
		"LTable.Insert stores directly (without shifting) on a path where the position is not known to lie beyond the last element: table.insert(t, #t, v) overwrites t[#t] instead of moving it up")
}

// ruleModuleNameDots: C20 "a missing module's error lists what was tried" / path search: every dot of
// the module name becomes a directory separator (a.b.c → a/b/c), not only the first one.
func ruleModuleNameDots(c *Ctx) {
	const R = "R20-findfile"
	p := c.P
	fn := c.need(R, "lua", "loFindFile")
	if fn == nil {
		return
	}
	n, okc := 0, true
	var where ssa.Instruction
	allInstrs(fn, func(in ssa.Instruction) {
		pk, nm, ok := stdCall(in)
		if !ok || pk != "strings" || (nm != "Replace" && nm != "ReplaceAll") {
			return
		}
		cc := callOf(in)
		if s, ok := constStr(cc.Args[1]); !ok || s != "." {
			return
		}
		n++
		if nm == "Replace" {
			if k, ok := constInt(cc.Args[3]); !ok || k >= 0 {
				okc = false
				where = in
			}
		}
	})
	at := p.pos(fn.Pos())
	if where != nil {
		at = p.ipos(where)
	}
	c.Sites++
	c.check(okc && n > 0, R, "loFindFile:every-dot-becomes-a-separator", at,
		"the module name's dots are all replaced",
		"loFindFile replaces a bounded number of the dots of the module name: require('a.b.c') searches a/b.c.lua, the nested module is not found and the error lists the wrong files")
}

// ruleProtectedCallConsultsContext: F123. C11 "the running DoString/PCall returns an error carrying the
// context's reason": the polling loop notices a done context on the NEXT instruction, and a call that
// ends in a tail call of a host function (return pcall(f)) has none. PCall therefore consults the
// context once the call has completed: every way from the call to the normal return reads LState.ctx,
// and the function raises under ctx.Err() != nil.
func ruleProtectedCallConsultsContext(c *Ctx) {
	const R = "R11-exit"
	p := c.P
	fn := c.need(R, "lua", "(*LState).PCall")
	call := p.Fn("lua", "(*LState).Call")
	ctxF := p.Field("lua", "LState", "ctx")
	if fn == nil || call == nil || ctxF == nil {
		c.und(R, "PCall:anchors", "-", "(*LState).Call or LState.ctx not found")
		return
	}
	g := p.G(fn)
	reads := func(in ssa.Instruction) bool {
		if u, ok := in.(*ssa.UnOp); ok && u.Op == token.MUL {
			if fa, ok := u.X.(*ssa.FieldAddr); ok && fieldOf(fa) == ctxF {
				return true
			}
		}
		return false
	}
	okPath, n := true, 0
	var where ssa.Instruction
	for _, cl := range callsTo(fn, call) {
		if !g.Live(cl) {
			continue
		}
		n++
		b, i := after(cl)
		if ok, wit := g.MustPassBefore(b, i, reads, isReturn); !ok {
			okPath = false
			where = wit
		}
	}
	raises := false
	allInstrs(fn, func(in ssa.Instruction) {
		if !p.isNoReturnCall(in) || !g.Live(in) {
			return
		}
		for _, cd := range g.expandAnd(g.CondsAtInstr(in)) {
			b, ok := cd.V.(*ssa.BinOp)
			if !ok || !((b.Op == token.NEQ && cd.Sense) || (neHolds(b, cd))) {
				continue
			}
			for _, side := range []ssa.Value{b.X, b.Y} {
				if cl, ok := side.(*ssa.Call); ok && cl.Call.IsInvoke() && cl.Call.Method.Name() == "Err" {
					if _, ok := loadsField(cl.Call.Value, ctxF); ok {
						raises = true
					}
				}
			}
		}
	})
	pos := p.pos(fn.Pos())
	if where != nil {
		pos = p.ipos(where)
	}
	c.Sites++
	c.check(n > 0 && okPath && raises, R, "PCall:context-consulted-after-the-call", pos,
		"after the protected call completes, LState.ctx is read on every way to the return, and a done context raises",
		"(*LState).PCall can return normally without having looked at LState.ctx after the call: when the call ended in a tail call of a host function that swallowed the cancellation (return pcall(f)), no further instruction is dispatched and DoString/PCall return nil although the context is done")
}

// ruleCountersSurviveErrors: C05 "afterwards … the call depth and all later behaviour are what they
// would have been". An error leaves a function by panic: a statement after a raising call does not run.
// A counter field of LState that is stepped up before a call that can raise and stepped back after it
// (x++ … call … x--) leaks one count per caught error — unless the step back is deferred or PCall's
// recovery resets the field. (After enough caught errors every call fails on the stale count.)
func ruleCountersSurviveErrors(c *Ctx) {
	const R = "R05-counters"
	p := c.P
	pcall := c.need(R, "lua", "(*LState).PCall")
	if pcall == nil {
		return
	}
	// fields of LState written by PCall's deferred recovery
	reset := map[*types.Var]bool{}
	withClosures(pcall, func(f *ssa.Function) {
		if f == pcall {
			return
		}
		allInstrs(f, func(in ssa.Instruction) {
			if st, ok := in.(*ssa.Store); ok {
				if fa, ok := st.Addr.(*ssa.FieldAddr); ok {
					reset[fieldOf(fa)] = true
				}
			}
		})
	})
	step := func(in ssa.Instruction) (*types.Var, int) {
		st, ok := in.(*ssa.Store)
		if !ok {
			return nil, 0
		}
		fa, ok := st.Addr.(*ssa.FieldAddr)
		if !ok || typeName(fa.X.Type()) != "LState" {
			return nil, 0
		}
		b, ok := st.Val.(*ssa.BinOp)
		if !ok || (b.Op != token.ADD && b.Op != token.SUB) {
			return nil, 0
		}
		if _, isK := constInt(b.Y); !isK {
			return nil, 0
		}
		u, ok := b.X.(*ssa.UnOp)
		if !ok {
			return nil, 0
		}
		fa2, ok := u.X.(*ssa.FieldAddr)
		if !ok || fieldOf(fa2) != fieldOf(fa) {
			return nil, 0
		}
		if b.Op == token.ADD {
			return fieldOf(fa), 1
		}
		return fieldOf(fa), -1
	}
	scanned, pairs := 0, 0
	for _, fn := range p.srcFuncs {
		if fn.Pkg == nil || fn.Pkg.Pkg.Name() != "lua" || fn.Blocks == nil {
			continue
		}
		var ups, downs []ssa.Instruction
		allInstrs(fn, func(in ssa.Instruction) {
			if f, d := step(in); f != nil {
				if d > 0 {
					ups = append(ups, in)
				} else {
					downs = append(downs, in)
				}
			}
		})
		scanned++
		if len(ups) == 0 || len(downs) == 0 {
			continue
		}
		g := p.G(fn)
		for _, up := range ups {
			fu, _ := step(up)
			for _, dn := range downs {
				fd, _ := step(dn)
				if fu != fd || !g.Dominates(up, dn) {
					continue
				}
				// a raising call between the two
				var raising ssa.Instruction
				via := ""
				allInstrs(fn, func(in ssa.Instruction) {
					if _, isCall := in.(*ssa.Call); !isCall || raising != nil || !g.Live(in) {
						return
					}
					if !g.Dominates(up, in) {
						return
					}
					if in.Block() == dn.Block() {
						if idxIn(in.Block(), in) > idxIn(dn.Block(), dn) {
							return
						}
					} else if !canReach(in.Block(), dn.Block()) {
						return
					}
					if may, who := p.siteMayRaise(in); may {
						raising, via = in, who
					}
				})
				if raising == nil {
					continue
				}
				pairs++
				c.Sites++
				c.touch(fn)
				c.check(reset[fu], R, fmt.Sprintf("%s:%s-stepped-back-on-the-error-path", fn.Name(), fu.Name()), p.ipos(dn),
					"PCall's recovery resets the field",
					fmt.Sprintf("%s steps LState.%s up, calls %s (which can raise) and steps it back afterwards in a plain statement: an error leaves by panic, the step back is skipped and PCall's recovery does not reset the field — every caught error leaks a count, and after enough of them the stale count changes later behaviour", fname(fn), fu.Name(), via))
			}
		}
	}
	c.okT(R, "scan", "-", fmt.Sprintf("%d functions scanned for LState counters stepped around a raising call, %d pair(s)", scanned, pairs))
}

// rulePackageTableInRegistry: F122. C20 "every later require returns the identical cached value …":
// require's own bookkeeping (package.preload, package.path, package.loaders) hangs off the package
// table. The library finds that table in a registry slot of its own — one GetField on the registry with
// a constant key that OpenPackage stores — not through _LOADED (package.loaded, which the hot-reload
// idiom clears) and not through the global variable.
func rulePackageTableInRegistry(c *Ctx) {
	const R = "R20-order"
	p := c.P
	fn := c.need(R, "lua", "packageTable")
	open := c.need(R, "lua", "OpenPackage")
	if fn == nil || open == nil {
		return
	}
	fromRegistry := func(v ssa.Value) bool {
		cl, ok := stripMI(v).(*ssa.Call)
		if !ok {
			return false
		}
		sc := cl.Call.StaticCallee()
		if sc == nil || sc.Name() != "Get" || recvNamed(sc) != "LState" || len(cl.Call.Args) != 2 {
			return false
		}
		k, ok := constInt(cl.Call.Args[1])
		if !ok {
			return false
		}
		if cst, ok := p.Pkg("lua").Types.Scope().Lookup("RegistryIndex").(*types.Const); ok {
			if rv, ok := constValInt(cst); ok {
				return rv == k
			}
		}
		return false
	}
	var keys []string
	okc := true
	allInstrs(fn, func(in ssa.Instruction) {
		cl, ok := in.(*ssa.Call)
		if !ok {
			return
		}
		sc := cl.Call.StaticCallee()
		if sc == nil || recvNamed(sc) != "LState" {
			return
		}
		switch sc.Name() {
		case "GetField":
			k, isK := constStr(cl.Call.Args[2])
			if !isK || !fromRegistry(cl.Call.Args[1]) {
				okc = false
			}
			keys = append(keys, k)
		case "GetGlobal", "GetTable", "RawGet":
			okc = false
		}
	})
	stored := false
	allInstrs(open, func(in ssa.Instruction) {
		cl, ok := in.(*ssa.Call)
		if !ok {
			return
		}
		sc := cl.Call.StaticCallee()
		if sc == nil || sc.Name() != "SetField" || recvNamed(sc) != "LState" {
			return
		}
		if k, isK := constStr(cl.Call.Args[2]); isK && len(keys) == 1 && k == keys[0] && fromRegistry(cl.Call.Args[1]) {
			stored = true
		}
	})
	c.Sites++
	c.check(okc && len(keys) == 1 && keys[0] != "_LOADED" && stored, R, "packageTable:own-registry-slot", p.pos(fn.Pos()),
		"one constant-key read on the registry, of a slot OpenPackage stores", "packageTable does not read the package table from a registry slot of its own (set by OpenPackage): looked up through _LOADED (package.loaded) or a global, the table is lost as soon as a script clears package.loaded or reuses the name — the hot-reload idiom `for k in pairs(package.loaded) do package.loaded[k] = nil end` breaks every later require")
}

// ruleLogHelpers: F128. C15 "math.log, log10 … return the IEEE result of their definition". The
// assembly math.Log of amd64 does not normalise a subnormal argument (math.Log(5e-324) = -709.09, the
// logarithm is -744.44). Wherever the library calls math.Log / math.Log10, the argument is either known
// not to be subnormal on every way to the call, or it is the value scaled by a constant K >= 2^52 and
// the result is corrected by exactly log(K).
func ruleLogHelpers(c *Ctx) {
	const R = "R15-mathmap"
	p := c.P
	const minNormal = 2.2250738585072014e-308
	n := 0
	for _, fn := range p.srcFuncs {
		if fn.Pkg == nil || fn.Pkg.Pkg.Name() != "lua" || fn.Blocks == nil {
			continue
		}
		g := (*PCFG)(nil)
		local := 0
		allInstrs(fn, func(in ssa.Instruction) {
			pk, nm, ok := stdCall(in)
			if !ok || pk != "math" || (nm != "Log" && nm != "Log10" && nm != "Log2" && nm != "Log1p") {
				return
			}
			if g == nil {
				g = p.G(fn)
			}
			if !g.Live(in) {
				return
			}
			n++
			local++
			c.Sites++
			c.touch(fn)
			call := in.(*ssa.Call)
			arg := stripConv(call.Call.Args[0])
			key := fmt.Sprintf("%s:math.%s#%d:no-subnormal-argument", fn.Name(), nm, local)
			// (a) scaled: arg = x * K, K >= 2^52, and every use of the result subtracts log(K)
			if m, ok := arg.(*ssa.BinOp); ok && m.Op == token.MUL {
				k, isK := constFloat(m.Y)
				if !isK {
					k, isK = constFloat(m.X)
				}
				if isK && k >= 4503599627370496.0 {
					want := math.Log(k)
					if nm == "Log10" {
						want = math.Log10(k)
					} else if nm == "Log2" {
						want = math.Log2(k)
					}
					okc := len(*call.Referrers()) > 0
					for _, r := range *call.Referrers() {
						b, isB := r.(*ssa.BinOp)
						if !isB || b.Op != token.SUB || b.X != ssa.Value(call) {
							okc = false
							continue
						}
						cf, isC := constFloat(b.Y)
						if !isC || math.Abs(cf-want) > 1e-12*math.Abs(want) {
							okc = false
						}
					}
					c.check(okc, R, key, p.ipos(in), fmt.Sprintf("argument scaled by %g, result corrected by log(%g)", k, k),
						fmt.Sprintf("%s scales the argument of math.%s by %g but does not subtract exactly the logarithm of that factor from the result", fn.Name(), nm, k))
					return
				}
			}
			// (b) direct: on every way to the call the argument is known not to be a positive subnormal
			sat := func(cd Cond) bool {
				b, ok := cd.V.(*ssa.BinOp)
				if !ok {
					return false
				}
				x, y, op := stripConv(b.X), stripConv(b.Y), b.Op
				if !cd.Sense {
					op = negate(op)
				}
				if _, isK := constFloat(x); isK {
					x, y, op = y, x, flipOp(op)
				}
				k, isK := constFloat(y)
				if !isK || x != arg {
					return false
				}
				switch op {
				case token.LEQ:
					return k <= 0 // x <= 0
				case token.GEQ:
					return k >= minNormal // x >= smallest normal
				case token.GTR:
					return k >= minNormal
				case token.LSS:
					return k <= 0
				}
				return false
			}
			c.check(g.holdsOnAllPaths(in.Block(), sat, 0), R, key, p.ipos(in), "every way to the call has tested the argument non-positive or at least the smallest normal number",
				fmt.Sprintf("%s hands math.%s an argument that can be subnormal: the amd64 implementation returns the logarithm of a different number for it (math.log(5e-324) = -709.09 instead of -744.44)", fn.Name(), nm))
		})
	}
	c.check(n >= 2, R, "log-call-sites", "-", fmt.Sprintf("%d math.Log* call sites examined", n), "math.Log / math.Log10 call sites not found")
}
