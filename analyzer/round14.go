package main

// round14.go — rules added after seeding round 14.

import (
	"fmt"
	"go/token"
	"strings"

	"golang.org/x/tools/go/ssa"
)

// ruleForLoopCoversZeroStep: C01 "numeric for … as Lua 5.1 defines": the continue test of FORLOOP is
// `0 < step ? idx <= limit : limit <= idx` — every step takes one of the two arms, a zero step the second.
// In the handler the two tests of the step against 0 are complementary (> 0 and <= 0): a pair > 0 / < 0
// leaves the zero step without an arm and the body is never entered.
func ruleForLoopCoversZeroStep(c *Ctx) {
	const R = "R01-forprep"
	p := c.P
	t := p.vmTable()
	o := t.ByName["OP_FORLOOP"]
	if o == nil || o.Handler == nil {
		c.und(R, "OP_FORLOOP:zero-step-has-an-arm", "-", "handler not found")
		return
	}
	ops := map[token.Token]bool{}
	allInstrs(o.Handler, func(in ssa.Instruction) {
		b, ok := in.(*ssa.BinOp)
		if !ok {
			return
		}
		if k, isK := constFloat(b.Y); isK && k == 0 {
			switch b.Op {
			case token.GTR, token.LSS, token.LEQ, token.GEQ:
				ops[b.Op] = true
			}
		}
	})
	okc := len(ops) > 0 && !((ops[token.GTR] && ops[token.LSS]) && !ops[token.LEQ] && !ops[token.GEQ])
	if len(ops) == 1 {
		okc = true // one test, both of its arms
	}
	c.Sites++
	c.check(okc, R, "OP_FORLOOP:zero-step-has-an-arm", p.pos(o.Handler.Pos()), "the tests of the step against 0 are complementary",
		"the FORLOOP handler tests the step with > 0 on one arm and < 0 on the other: a zero step takes neither — `for i = 2, 1, 0 do … break end` never enters its body, where Lua 5.1 (0 < step ? idx <= limit : limit <= idx) runs it")
}

// ruleCanHoldAgreesWithResize: C12 "a program that stays within the limits behaves identically under
// every configuration": registry.canHold is the pre-check of what resize then does; resize succeeds
// whenever the required size does not exceed maxSize (the padding is clipped). canHold compares the
// required size itself with maxSize — nothing added to it.
func ruleCanHoldAgreesWithResize(c *Ctx) {
	const R = "R12-grow"
	p := c.P
	fn := c.need(R, "lua", "(*registry).canHold")
	maxF := p.Field("lua", "registry", "maxSize")
	if fn == nil || maxF == nil {
		return
	}
	n, okc := 0, true
	var where ssa.Instruction
	allInstrs(fn, func(in ssa.Instruction) {
		b, ok := in.(*ssa.BinOp)
		if !ok {
			return
		}
		_, ly := loadsField(stripConv(b.Y), maxF)
		_, lx := loadsField(stripConv(b.X), maxF)
		if !lx && !ly {
			return
		}
		n++
		other := b.X
		if lx {
			other = b.Y
		}
		l := lin(other)
		// top + n (the required size), nothing else: no term that is a field other than top
		hasTop := false
		for k, co := range l.T {
			if strings.Contains(k, "growBy") || strings.Contains(k, "GrowStep") {
				okc = false
				where = in
			}
			if strings.Contains(k, ").top") && co == 1 {
				hasTop = true
			}
		}
		if !hasTop {
			// the required size counts what the registry already holds
			okc = false
			where = in
		}
	})
	pos := p.pos(fn.Pos())
	if where != nil {
		pos = p.ipos(where)
	}
	c.Sites++
	c.check(n > 0 && okc, R, "canHold:required-size-itself-against-maxSize", pos, fmt.Sprintf("%d comparison(s) with maxSize, none of a padded size", n),
		"registry.canHold does not compare top + n, the required size itself, with maxSize (a padded size, or the payload alone without what the registry already holds): resize clips its padding and succeeds whenever the required size itself fits, so the pre-check refuses what would have fitted — within one RegistryGrowStep of RegistryMaxSize a resume or yield raises a spurious 'registry overflow' that a fixed registry of the same size does not")
}

// ruleLookaheadGuardIsTight: C16 "os.date renders each supported strftime directive … %%": flagScanner.Next
// looks one byte ahead to recognise the doubled flag; the guard of that read admits every position that
// has a next byte (Pos+1 <= Length-1, not less): a stricter guard leaves a %% at the very end uncollapsed.
func ruleLookaheadGuardIsTight(c *Ctx) {
	const R = "R16-strftime"
	p := c.P
	fn := c.need(R, "lua", "(*flagScanner).Next")
	posF := p.Field("lua", "flagScanner", "Pos")
	lenF := p.Field("lua", "flagScanner", "Length")
	if fn == nil || posF == nil || lenF == nil {
		return
	}
	g := p.G(fn)
	n, okc := 0, true
	var where ssa.Instruction
	allInstrs(fn, func(in ssa.Instruction) {
		var idx ssa.Value
		switch x := in.(type) {
		case *ssa.Index:
			idx = x.Index
		case *ssa.IndexAddr:
			idx = x.Index
		default:
			return
		}
		l := lin(idx)
		if l.K != 1 || len(l.T) != 1 {
			return
		}
		isPos := false
		for k := range l.T {
			if strings.Contains(k, "Pos") {
				isPos = true
			}
		}
		if !isPos || !g.Live(in) {
			return
		}
		n++
		// the guard: Length - Pos >= d on the path; a next byte exists iff Length - Pos >= 2
		var lenV, posV ssa.Value
		allInstrs(fn, func(x ssa.Instruction) {
			if u, ok := x.(*ssa.UnOp); ok {
				if _, ok := loadsField(u, lenF); ok && lenV == nil {
					lenV = u
				}
				if _, ok := loadsField(u, posF); ok && posV == nil {
					posV = u
				}
			}
		})
		if lenV == nil || posV == nil {
			okc = false
			where = in
			return
		}
		d, has := diffAtLeast(g, in, lenV, posV)
		if !has || d != 2 {
			okc = false
			where = in
		}
	})
	pos := p.pos(fn.Pos())
	if where != nil {
		pos = p.ipos(where)
	}
	c.Sites++
	c.check(n > 0 && okc, R, "flagScanner.Next:lookahead-guard-admits-every-position-with-a-next-byte", pos, fmt.Sprintf("%d look-ahead read(s), each under Length - Pos >= 2 exactly", n),
		"(*flagScanner).Next reads the byte after the flag under a guard that is not exactly 'a next byte exists' (Length - Pos >= 2): stricter, and a doubled flag at the very end of the format is not recognised — os.date('%Y%%') renders '1971%%' (and a gsub replacement ending in %% keeps both)")
}

// ruleForprepRaisesAtItsOwnPc: C17 "the prefix names a line of the statement being executed": the position
// of a run-time error is read from Pc-1 of the frame. FORPREP can raise (init/step not a number): it moves
// the program counter to the loop's FORLOOP only after its checks — no store of the frame's Pc dominates a
// raising call of the handler.
func ruleForprepRaisesAtItsOwnPc(c *Ctx) {
	const R = "R17-lines"
	p := c.P
	t := p.vmTable()
	o := t.ByName["OP_FORPREP"]
	pcF := p.Field("lua", "callFrame", "Pc")
	if o == nil || o.Handler == nil || pcF == nil {
		c.und(R, "OP_FORPREP:raises-before-it-jumps", "-", "handler / callFrame.Pc not found")
		return
	}
	fn := o.Handler
	p.computeNoReturn()
	g := p.G(fn)
	var stores, raises []ssa.Instruction
	allInstrs(fn, func(in ssa.Instruction) {
		if !g.Live(in) {
			return
		}
		if _, ok := isFieldStore(in, pcF); ok {
			stores = append(stores, in)
		}
		if p.isNoReturnCall(in) {
			raises = append(raises, in)
		}
	})
	okc := true
	var where ssa.Instruction
	for _, s := range stores {
		for _, r := range raises {
			if g.Dominates(s, r) {
				okc = false
				where = s
			}
		}
	}
	pos := p.pos(fn.Pos())
	if where != nil {
		pos = p.ipos(where)
	}
	c.Sites++
	c.check(len(raises) > 0 && okc, R, "OP_FORPREP:raises-before-it-jumps", pos, fmt.Sprintf("%d raising call(s), none after the program counter was moved", len(raises)),
		"the FORPREP handler moves the frame's program counter before a check that can raise: 'for statement init must be a number' is then reported at Pc-1 of the loop's FORLOOP — a line inside the loop body instead of the line of the for header")
}

// ruleMissingModuleListsEverything: C20 "a missing module's error lists what was tried": the path searcher
// hands the list loFindFile built to require as it is — loLoaderLua does no string surgery on it.
func ruleMissingModuleListsEverything(c *Ctx) {
	const R = "R20-findfile"
	p := c.P
	fn := c.need(R, "lua", "loLoaderLua")
	if fn == nil {
		return
	}
	var bad ssa.Instruction
	allInstrs(fn, func(in ssa.Instruction) {
		if pk, _, ok := stdCall(in); ok && pk == "strings" && bad == nil {
			bad = in
		}
		if _, ok := in.(*ssa.Slice); ok && bad == nil {
			if b, isS := in.(*ssa.Slice).X.Type().Underlying().(interface{ String() string }); isS && strings.Contains(b.String(), "string") {
				bad = in
			}
		}
	})
	pos := p.pos(fn.Pos())
	if bad != nil {
		pos = p.ipos(bad)
	}
	c.Sites++
	c.check(bad == nil, R, "loLoaderLua:tried-files-handed-on-whole", pos, "the message of loFindFile is not cut or edited",
		"loLoaderLua edits the list of tried files before handing it to require (cut at a line end, searched, re-sliced): the 'module not found' error names only part of what was tried")
}

// ruleCoroutineFromItsCreator: C11 "any coroutine created from it after the context was attached": a
// coroutine's context hangs off the thread that creates it — coCreate calls NewThread on the running
// state it was handed, not on another thread looked up from it (the outermost owner: cancelling the
// creator's own derived context would no longer reach the new coroutine).
func ruleCoroutineFromItsCreator(c *Ctx) {
	const R = "R11-threadctx"
	p := c.P
	fn := c.need(R, "lua", "coCreate")
	nt := p.Fn("lua", "(*LState).NewThread")
	if fn == nil || nt == nil {
		return
	}
	n, okc := 0, true
	var where ssa.Instruction
	for _, cl := range callsTo(fn, nt) {
		n++
		if cl.Call.Args[0] != ssa.Value(fn.Params[0]) {
			okc = false
			where = cl
		}
	}
	pos := p.pos(fn.Pos())
	if where != nil {
		pos = p.ipos(where)
	}
	c.Sites++
	c.check(n > 0 && okc, R, "coCreate:new-thread-of-the-running-state", pos, fmt.Sprintf("%d NewThread call(s), each on the state the function was called with", n),
		"coCreate creates the coroutine as a thread of a state other than the one that runs coroutine.create (an owner looked up from it): the new coroutine's context is not derived from its creator's — cancelling the creator's own context (the cancel function NewThread gave the host) no longer stops the coroutines it created")
}

// ruleLabelScopeAtBlockEnd: C08 "every text the grammar accepts (with goto/labels) is accepted": a label
// that is the last statement of its block lies outside the scope of the block's locals, in every block —
// the function's outermost one included. compileLabelStmt applies the rule under isLastStmt alone.
func ruleLabelScopeAtBlockEnd(c *Ctx) {
	const R = "R08-astkinds"
	p := c.P
	fn := c.need(R, "lua", "compileLabelStmt")
	if fn == nil {
		return
	}
	g := p.G(fn)
	var last *ssa.Parameter
	for _, pm := range fn.Params {
		if pm.Name() == "isLastStmt" {
			last = pm
		}
	}
	if last == nil {
		// renamed: the function's one bool parameter
		for _, pm := range fn.Params {
			if pm.Type().String() == "bool" {
				last = pm
			}
		}
	}
	n, okc := 0, true
	var where ssa.Instruction
	allInstrs(fn, func(in ssa.Instruction) {
		sc := staticCallee(in)
		if sc == nil || sc.Name() != "SetNumActiveLocalVars" || !g.Live(in) {
			return
		}
		n++
		for _, cd := range g.expandAnd(g.CondsAtInstr(in)) {
			if cd.V == ssa.Value(last) {
				continue
			}
			if _, isPhi := cd.V.(*ssa.Phi); isPhi {
				continue
			}
			okc = false
			where = in
		}
	})
	pos := p.pos(fn.Pos())
	if where != nil {
		pos = p.ipos(where)
	}
	c.Sites++
	c.check(last != nil && n > 0 && okc, R, "compileLabelStmt:end-of-block-rule-under-isLastStmt-alone", pos, fmt.Sprintf("%d application(s) of the end-of-block rule, under isLastStmt only", n),
		"compileLabelStmt applies 'a label at the end of its block is outside the scope of the block's locals' only under a further condition (the block has a parent): `goto done; local x = 1; ::done::` at the end of a function body or of the chunk — valid Lua — is refused with 'jumps into the scope of local'")
}

// ruleListHelpersUseTheBorder: C09/C18: the list ends at the border (Len), the array part may hold nil
// slots beyond it (t[#t] = nil leaves one). LTable.Remove takes the list's length from Len, and MaxN's scan
// over trailing nils goes down to the first slot (its loop leaves on a comparison with 0).
func ruleListHelpersUseTheBorder(c *Ctx) {
	const R = "R18-arrayowner"
	p := c.P
	lenFn := p.Fn("lua", "(*LTable).Len")
	if rm := c.need(R, "lua", "(*LTable).Remove"); rm != nil && lenFn != nil {
		c.Sites++
		c.check(len(callsTo(rm, lenFn)) > 0, R, "helper:Remove:length-from-the-border", p.pos(rm.Pos()), "Remove asks Len for the list's length",
			"LTable.Remove takes the list's length from the physical size of the array part instead of the border: after t[#t] = nil the array part ends in a nil slot, Remove(-1) pops that slot, returns nil and leaves the real last element in place")
	}
	if mx := c.need(R, "lua", "(*LTable).MaxN"); mx != nil {
		g := p.G(mx)
		found, okc := false, true
		for _, li := range g.loops() {
			for blk := range li.Body {
				iff, ok := blk.Instrs[len(blk.Instrs)-1].(*ssa.If)
				if !ok {
					continue
				}
				exits := false
				for _, s := range blk.Succs {
					if !li.Body[s] {
						exits = true
					}
				}
				b, isB := iff.Cond.(*ssa.BinOp)
				if !exits || !isB {
					continue
				}
				if _, isPhi := b.X.(*ssa.Phi); !isPhi {
					continue
				}
				if k, isK := constInt(b.Y); isK {
					found = true
					if k != 0 {
						okc = false
					}
				}
			}
		}
		c.Sites++
		c.check(found && okc, R, "helper:MaxN:scan-reaches-the-first-slot", p.pos(mx.Pos()), "the scan over trailing nils leaves on a comparison with 0",
			"LTable.MaxN stops its scan over trailing nil slots before the first slot: a list emptied by direct assignment (t = {5}; t[1] = nil) reports maxn 1")
	}
}

// rulePeepholePopsOnlyTemporaries: C07 "multi-word groups": the operand peepholes (PropagateMV,
// PropagateKMV) take back the last instruction only when it wrote a temporary — A >= top. The capture
// words that follow a CLOSURE look like `MOVE 0 <local>`; the A >= top test is what keeps them (A = 0)
// from being popped. Every Pop in the two functions stands under that test.
func rulePeepholePopsOnlyTemporaries(c *Ctx) {
	const R = "R07-skipgroup"
	p := c.P
	pop := p.Fn("lua", "(*codeStore).Pop")
	getA := p.Fn("lua", "opGetArgA")
	if pop == nil || getA == nil {
		return
	}
	for _, name := range []string{"(*codeStore).PropagateMV", "(*codeStore).PropagateKMV"} {
		fn := c.need(R, "lua", name)
		if fn == nil {
			continue
		}
		g := p.G(fn)
		n, okc := 0, true
		var where ssa.Instruction
		for _, cl := range callsTo(fn, pop) {
			if !g.Live(cl) {
				continue
			}
			n++
			guarded := false
			for _, cd := range g.expandAnd(g.CondsAtInstr(cl)) {
				b, ok := cd.V.(*ssa.BinOp)
				if !ok {
					continue
				}
				op := b.Op
				if !cd.Sense {
					op = negate(op)
				}
				if ac, ok := b.X.(*ssa.Call); ok && ac.Call.StaticCallee() == getA && (op == token.GEQ || op == token.GTR) {
					if _, isParam := b.Y.(*ssa.Parameter); isParam {
						guarded = true
					}
				}
			}
			if !guarded {
				okc = false
				where = cl
			}
		}
		pos := p.pos(fn.Pos())
		if where != nil {
			pos = p.ipos(where)
		}
		c.Sites++
		c.check(n > 0 && okc, R, strings.TrimPrefix(name, "(*codeStore).")+":pops-only-what-wrote-a-temporary", pos, fmt.Sprintf("%d Pop call(s), each under opGetArgA(last) >= top", n),
			fname(fn)+" pops the last instruction without having found that it wrote a temporary (A >= top): the capture words after a CLOSURE are `MOVE 0 <local>` — `not function() return x end` pops the last capture word, the capture list is one word short, and patchCode and the VM take the next real instruction for a capture")
	}
}

// ruleLoadNilRangeOwnedByTheStore: C03/C01 "each loop iteration gets a fresh [variable]": a LOADNIL that
// initialises locals is extended over further registers only by codeStore.AddLoadNil, which knows what
// may be merged; the compiler proper never rewrites the B operand of an instruction it has found to be a
// LOADNIL (a jump target may lie between the two declarations: the body's local would be initialised
// before the loop, once).
func ruleLoadNilRangeOwnedByTheStore(c *Ctx) {
	const R = "R01-peephole"
	p := c.P
	setB := p.Fn("lua", "(*codeStore).SetB")
	getOp := p.Fn("lua", "opGetOpCode")
	t := p.vmTable()
	if setB == nil || getOp == nil || t.ByName["OP_LOADNIL"] == nil {
		return
	}
	op := int64(t.ByName["OP_LOADNIL"].Val)
	n := 0
	var bad ssa.Instruction
	var badFn *ssa.Function
	for _, fn := range p.srcFuncs {
		if fn.Pkg == nil || fn.Pkg.Pkg.Path() != luaPath || fn.Blocks == nil || recvNamed(fn) == "codeStore" {
			continue
		}
		calls := callsTo(fn, setB)
		if len(calls) == 0 {
			continue
		}
		g := p.G(fn)
		for _, cl := range calls {
			n++
			for _, cd := range g.expandAnd(g.CondsAtInstr(cl)) {
				b, ok := cd.V.(*ssa.BinOp)
				if !ok || !((eqHolds(b, cd)) || (b.Op == token.NEQ && !cd.Sense)) {
					continue
				}
				if oc, ok := b.X.(*ssa.Call); ok && oc.Call.StaticCallee() == getOp {
					if k, isK := constInt(b.Y); isK && k == op && bad == nil {
						bad, badFn = cl, fn
					}
				}
			}
		}
	}
	pos, who := "-", ""
	if bad != nil {
		pos, who = p.ipos(bad), fname(badFn)
	}
	c.Sites++
	c.check(bad == nil, R, "LOADNIL:range-extended-only-by-AddLoadNil", pos, fmt.Sprintf("%d SetB call(s) outside codeStore, none on an instruction found to be a LOADNIL", n),
		who+" rewrites the B operand of the previous instruction after finding it to be a LOADNIL: the nil-initialisation of a later declaration is folded into an instruction that may lie before a jump target — `local a; while true do local x; … end`: x is reset once, before the loop, and the closures of successive iterations start from each other's values")
}
