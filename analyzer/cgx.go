package main

import (
	"golang.org/x/tools/go/callgraph"
	"golang.org/x/tools/go/ssa"
)

// reachableFrom: functions reachable from roots in the call graph (roots included).
func reachableFrom(cg *callgraph.Graph, roots []*ssa.Function) map[*ssa.Function]bool {
	seen := map[*ssa.Function]bool{}
	var work []*callgraph.Node
	for _, r := range roots {
		if n := cg.Nodes[r]; n != nil && !seen[r] {
			seen[r] = true
			work = append(work, n)
		} else if r != nil {
			seen[r] = true
		}
	}
	for len(work) > 0 {
		n := work[len(work)-1]
		work = work[:len(work)-1]
		for _, e := range n.Out {
			if f := e.Callee.Func; f != nil && !seen[f] {
				seen[f] = true
				work = append(work, e.Callee)
			}
		}
	}
	return seen
}

// pathTo returns one call path (function names) from any root to target, for diagnostics.
func pathTo(cg *callgraph.Graph, roots []*ssa.Function, target *ssa.Function) []string {
	prev := map[*ssa.Function]*ssa.Function{}
	seen := map[*ssa.Function]bool{}
	var q []*ssa.Function
	for _, r := range roots {
		if r != nil && !seen[r] {
			seen[r] = true
			q = append(q, r)
		}
	}
	for len(q) > 0 {
		f := q[0]
		q = q[1:]
		if f == target {
			var path []string
			for x := f; x != nil; x = prev[x] {
				path = append([]string{fname(x)}, path...)
			}
			return path
		}
		n := cg.Nodes[f]
		if n == nil {
			continue
		}
		for _, e := range n.Out {
			if c := e.Callee.Func; c != nil && !seen[c] {
				seen[c] = true
				prev[c] = f
				q = append(q, c)
			}
		}
	}
	return nil
}

// mayRaise: functions from which a call through LState.Panic (a Lua error) can be reached, following
// the VTA call graph. Calls through the Panic field itself are the seeds.
func (p *Prog) mayRaise() map[*ssa.Function]bool {
	if p.raises != nil {
		return p.raises
	}
	cg := p.CallGraph()
	set := map[*ssa.Function]bool{}
	var work []*ssa.Function
	for fn := range cg.Nodes {
		if fn == nil || fn.Blocks == nil {
			continue
		}
		seed := false
		allInstrs(fn, func(in ssa.Instruction) {
			if p.isAxiomCall(in) {
				seed = true
			}
		})
		if seed {
			set[fn] = true
			work = append(work, fn)
		}
	}
	for len(work) > 0 {
		f := work[len(work)-1]
		work = work[:len(work)-1]
		n := cg.Nodes[f]
		if n == nil {
			continue
		}
		for _, e := range n.In {
			if c := e.Caller.Func; c != nil && !set[c] {
				set[c] = true
				work = append(work, c)
			}
		}
	}
	p.raises = set
	return set
}

// siteMayRaise: some callee of this call site may raise a Lua error.
func (p *Prog) siteMayRaise(in ssa.Instruction) (bool, string) {
	if p.isAxiomCall(in) {
		return true, "LState.Panic"
	}
	site, ok := in.(ssa.CallInstruction)
	if !ok {
		return false, ""
	}
	n := p.CallGraph().Nodes[in.Parent()]
	if n == nil {
		return false, ""
	}
	set := p.mayRaise()
	for _, e := range n.Out {
		if e.Site == site && e.Callee.Func != nil && set[e.Callee.Func] {
			return true, fname(e.Callee.Func)
		}
	}
	return false, ""
}
