package main

import (
	"golang.org/x/tools/go/callgraph"
	"golang.org/x/tools/go/ssa"
)

// reachableFrom: functions reachable from roots in the call graph (roots included).
func reachableFrom(cg *callgraph.Graph, roots []*ssa.Function) map[*ssa.Function]bool {
	seen := map[*ssa.Function]bool{}
	var work []*callgraph.Node
	for _, r := range roots {
		if n := cg.Nodes[r]; n != nil && !seen[r] {
			seen[r] = true
			work = append(work, n)
		} else if r != nil {
			seen[r] = true
		}
	}
	for len(work) > 0 {
		n := work[len(work)-1]
		work = work[:len(work)-1]
		for _, e := range n.Out {
			if f := e.Callee.Func; f != nil && !seen[f] {
				seen[f] = true
				work = append(work, e.Callee)
			}
		}
	}
	return seen
}

// pathTo returns one call path (function names) from any root to target, for diagnostics.
func pathTo(cg *callgraph.Graph, roots []*ssa.Function, target *ssa.Function) []string {
	prev := map[*ssa.Function]*ssa.Function{}
	seen := map[*ssa.Function]bool{}
	var q []*ssa.Function
	for _, r := range roots {
		if r != nil && !seen[r] {
			seen[r] = true
			q = append(q, r)
		}
	}
	for len(q) > 0 {
		f := q[0]
		q = q[1:]
		if f == target {
			var path []string
			for x := f; x != nil; x = prev[x] {
				path = append([]string{fname(x)}, path...)
			}
			return path
		}
		n := cg.Nodes[f]
		if n == nil {
			continue
		}
		for _, e := range n.Out {
			if c := e.Callee.Func; c != nil && !seen[c] {
				seen[c] = true
				prev[c] = f
				q = append(q, c)
			}
		}
	}
	return nil
}
