package main

import (
	"fmt"
	"os"
	"golang.org/x/tools/go/callgraph"
	"golang.org/x/tools/go/ssa"
)

// reachableFrom: functions reachable from roots in the call graph (roots included).
func reachableFrom(cg *callgraph.Graph, roots []*ssa.Function) map[*ssa.Function]bool {
	seen := map[*ssa.Function]bool{}
	var work []*callgraph.Node
	for _, r := range roots {
		if n := cg.Nodes[r]; n != nil && !seen[r] {
			seen[r] = true
			work = append(work, n)
		} else if r != nil {
			seen[r] = true
		}
	}
	for len(work) > 0 {
		n := work[len(work)-1]
		work = work[:len(work)-1]
		for _, e := range n.Out {
			if f := e.Callee.Func; f != nil && !seen[f] {
				seen[f] = true
				work = append(work, e.Callee)
			}
		}
	}
	return seen
}

// pathTo returns one call path (function names) from any root to target, for diagnostics.
func pathTo(cg *callgraph.Graph, roots []*ssa.Function, target *ssa.Function) []string {
	prev := map[*ssa.Function]*ssa.Function{}
	seen := map[*ssa.Function]bool{}
	var q []*ssa.Function
	for _, r := range roots {
		if r != nil && !seen[r] {
			seen[r] = true
			q = append(q, r)
		}
	}
	for len(q) > 0 {
		f := q[0]
		q = q[1:]
		if f == target {
			var path []string
			for x := f; x != nil; x = prev[x] {
				path = append([]string{fname(x)}, path...)
			}
			return path
		}
		n := cg.Nodes[f]
		if n == nil {
			continue
		}
		for _, e := range n.Out {
			if c := e.Callee.Func; c != nil && !seen[c] {
				seen[c] = true
				prev[c] = f
				q = append(q, c)
			}
		}
	}
	return nil
}

// mayRaise: functions from which a call through LState.Panic (a Lua error) can be reached, following
// the VTA call graph. Calls through the Panic field itself are the seeds.
func (p *Prog) mayRaise() map[*ssa.Function]bool {
	if p.raises != nil {
		return p.raises
	}
	cg := p.CallGraph()
	set := map[*ssa.Function]bool{}
	once := p.onceCallers()
	var work []*ssa.Function
	for fn := range cg.Nodes {
		if fn == nil || fn.Blocks == nil {
			continue
		}
		seed := false
		allInstrs(fn, func(in ssa.Instruction) {
			if p.isAxiomCall(in) {
				seed = true
			}
		})
		if seed {
			set[fn] = true
			work = append(work, fn)
		}
	}
	for len(work) > 0 {
		f := work[len(work)-1]
		work = work[:len(work)-1]
		n := cg.Nodes[f]
		if n == nil {
			continue
		}
		for _, e := range n.In {
			c := e.Caller.Func
			if c == nil || set[c] {
				continue
			}
			if isOnceRunner(c) && len(once[f]) > 0 {
				continue // see onceCallers: the callback raises at the site that hands it to sync.Once
			}
			set[c] = true
			if os.Getenv("VERIF_DEBUG_RAISE") != "" {
				fmt.Fprintln(os.Stderr, "raise-why:", fname(c), "<-", fname(f))
			}
			work = append(work, c)
		}
		for _, c := range once[f] {
			if !set[c] {
				set[c] = true
				work = append(work, c)
			}
		}
	}
	p.raises = set
	if dbg := os.Getenv("VERIF_DEBUG_RAISE"); dbg != "" {
		// print one raising callee chain from the named function
		for fn := range set {
			if fname(fn) != dbg {
				continue
			}
			seen := map[*ssa.Function]bool{}
			for cur := fn; cur != nil && !seen[cur]; {
				seen[cur] = true
				fmt.Fprintln(os.Stderr, "raise-chain:", fname(cur))
				var next *ssa.Function
				if n := cg.Nodes[cur]; n != nil {
					for _, e := range n.Out {
						if f := e.Callee.Func; f != nil && set[f] && !seen[f] && (!isOnceRunner(cur) || len(once[f]) == 0) {
							next = f
							break
						}
					}
				}
				cur = next
			}
		}
	}
	return set
}

// isOnceRunner: sync.(*Once).Do / doSlow. The call graph is context-insensitive: every function ever
// handed to any Once.Do is a callee of doSlow, so one raising callback in the module would make every
// user of a sync.Once — the standard library's own (os.Open, net, time zone loading) — "may raise".
// Once.Do runs its argument before it returns and keeps no reference, so the exact statement is: the
// callback can raise at the call site that passes it.
func isOnceRunner(fn *ssa.Function) bool {
	if fn == nil || fn.Pkg == nil || fn.Pkg.Pkg.Path() != "sync" {
		return false
	}
	return recvNamed(fn) == "Once" && (fn.Name() == "Do" || fn.Name() == "doSlow")
}

// onceCallers: callback function → the functions that pass it to sync.(*Once).Do.
func (p *Prog) onceCallers() map[*ssa.Function][]*ssa.Function {
	out := map[*ssa.Function][]*ssa.Function{}
	for fn := range p.CallGraph().Nodes {
		if fn == nil || fn.Blocks == nil {
			continue
		}
		allInstrs(fn, func(in ssa.Instruction) {
			cc := callOf(in)
			if cc == nil {
				return
			}
			cal := cc.StaticCallee()
			if !isOnceRunner(cal) || cal.Name() != "Do" || len(cc.Args) < 2 {
				return
			}
			switch a := cc.Args[1].(type) {
			case *ssa.MakeClosure:
				if f, ok := a.Fn.(*ssa.Function); ok {
					out[f] = append(out[f], fn)
				}
			case *ssa.Function:
				out[a] = append(out[a], fn)
			}
			// (a function value of unknown origin is not registered: for it the context-insensitive
			// edges through doSlow stay in force)
		})
	}
	return out
}

// siteMayRaise: some callee of this call site may raise a Lua error.
func (p *Prog) siteMayRaise(in ssa.Instruction) (bool, string) {
	if p.isAxiomCall(in) {
		return true, "LState.Panic"
	}
	site, ok := in.(ssa.CallInstruction)
	if !ok {
		return false, ""
	}
	n := p.CallGraph().Nodes[in.Parent()]
	if n == nil {
		return false, ""
	}
	set := p.mayRaise()
	for _, e := range n.Out {
		if e.Site == site && e.Callee.Func != nil && set[e.Callee.Func] {
			return true, fname(e.Callee.Func)
		}
	}
	if cc := site.Common(); isOnceRunner(cc.StaticCallee()) && len(cc.Args) >= 2 {
		var cb *ssa.Function
		switch a := cc.Args[1].(type) {
		case *ssa.MakeClosure:
			cb, _ = a.Fn.(*ssa.Function)
		case *ssa.Function:
			cb = a
		}
		if cb != nil && set[cb] {
			return true, fname(cb)
		}
	}
	return false, ""
}
