package main

// C01 — core language: fold = run-time op; encoder = decoders; every opcode handled; boxing pages.

import (
	"fmt"
	"go/ast"
	"go/token"
	"go/types"
	"strings"

	"golang.org/x/tools/go/ssa"
)

func init() {
	register(&propInfo{
		ID:    "C01",
		Title: "Core language runs as Lua 5.1 defines",
		Explanation: "Decided (structural necessary conditions only): R01-fold — for each of the 6 arithmetic operators and unary minus, the expression the compiler's constant folder evaluates is the same expression tree as the VM's run-time arithmetic for the opcode the compiler emits for that operator; " +
			"R01-optable/R01-layout — every opcode constant has a non-nil jumpTable handler and an opProps row, the operand fields derived from opcode.go's getters/setters tile the 32-bit word and agree with the size/max constants; " +
			"R01-decode — every shift/mask a VM handler applies to an instruction word is one of the canonical field extractions, the fields a handler decodes fit the instruction format (ABC/ABx/ASbx) declared for its opcode, and sBx is decoded with the encoder's bias; " +
			"R01-alloc — the number-boxing allocator only appends to its page and replaces it by a fresh one, preloads is written only by init; R01-emit — every opcode the compiler emits is emitted through the encoder matching its declared format and every opcode has an emission site. " +
			"R01-assign — in the compiler every shortcut that stores into an assignment target, or leaves a local to be read in place, while right-hand sides are still being compiled is guarded by 'exactly one target' (multiple assignment evaluates everything before any store); R01-operands — in every VM handler all RK operand reads precede the handler's first register write (an operand may live in the destination register, or in a register the handler also writes); R01-threading — the jump-threading pass, which patches in place in ascending pc order and follows chains through the live code, interprets an sBx as a label only for a word at or after the current pc (earlier words are already patched and hold distances); R01-peephole — a peephole that removes or retargets the last emitted MOVE/LOADK tests that word's destination register as well as its opcode (the last word may be a capture pseudo-instruction of a CLOSURE or the load of another register); R01-callregs — a call is laid out in fresh registers starting at the caller-supplied temporary (never in the register of an existing local, which the callee expression or the arguments may still read), and the explist of a generic for is assigned to exactly the three hidden variables; R01-kmv — an operand obtained through constant propagation (it may be an RK-encoded constant index) is emitted only in operand positions that the VM handler of that opcode reads with rkValue/rkString, never in an A field or a plain register operand; R01-constructor — in a table constructor a SETLIST is open-ended (B = 0) only when the last field is a positional call or '...', and the count of items waiting in registers is reset by every SETLIST, so a keyed field cannot trigger a second store of a batch; a single value taken from '...' into an existing local goes through a temporary (VARARG moves the stack top); R15-mathmap luaModulo shape shared (the % operator's sign adjustment). R07-parallel shared — every store of a code word is paired with the store of its line ('on which line it fails'). NOT decided: that the instruction sequence emitted for a statement/expression computes the Lua result (register allocation, jump threading, coercions, evaluation order) — a statement about run-time values.",
		Trusted: []string{"opcode semantics are those of the handler bodies; only the encoding/decoding agreement is checked"},
		Rules:   []func(*Ctx){ruleLoadNilRangeOwnedByTheStore, ruleForLoopCoversZeroStep, ruleSetlistOffsetAfterBatchRead, ruleVarargTempGuard, ruleCloseA, rulePatchPairing, ruleAssignResultsByPosition, ruleOptable, ruleLayout, ruleDecode, ruleCompilerDecodes, ruleFold, ruleAlloc, ruleEmit, ruleOperandOrder, ruleModuloSign, ruleAssign, ruleThreading, rulePeephole, ruleCallFrameRegs, ruleKmvFlow, ruleConstructor, ruleForCoercion, ruleCaptureWords, ruleParallel, ruleConstSign, ruleLogicalStore, ruleForContinuesUnlessNil, ruleScopeExitCompiler, ruleFlagTime, ruleSetlistBatchNumber, ruleOneReader},
	})
}

// ---------------------------------------------------------------------------------------------

// ruleAssign: 'all right-hand sides and all left-hand prefixes/keys are evaluated before any store'.
// While the right-hand sides of an assignment statement are being compiled nothing may be stored into
// a target and no local may be left to be read in place later — unless the statement has exactly one
// target.  Every such shortcut in compileAssignStmtLeft/Right must be guarded by len(Lhs) == 1.
func ruleAssign(c *Ctx) {
	const R = "R01-assign"
	c.floor(R, 3)
	p := c.P
	regF := p.Field("lua", "expcontext", "reg")
	findLocal := p.Fn("lua", "(*funcContext).FindLocalVar")
	single := func(g *PCFG, in ssa.Instruction) bool {
		for _, cd := range g.CondsAtInstr(in) {
			b, ok := cd.V.(*ssa.BinOp)
			if !ok {
				continue
			}
			k, isc := constInt(b.Y)
			if !isc || k != 1 {
				continue
			}
			if !strings.Contains(vkey(b.X), ").Lhs") {
				continue
			}
			op := b.Op
			if !cd.Sense {
				op = negate(op)
			}
			if op == token.EQL || op == token.LEQ {
				return true
			}
		}
		return false
	}
	shortcuts := map[string]bool{"(*codeStore).PropagateKMV": true, "(*codeStore).PropagateMV": true, "compileExprWithKMVPropagation": true, "compileExprWithMVPropagation": true}
	for _, name := range []string{"compileAssignStmtLeft", "compileAssignStmtRight"} {
		fn := c.need(R, "lua", name)
		if fn == nil {
			continue
		}
		g := p.G(fn)
		n := 0
		allInstrs(fn, func(in ssa.Instruction) {
			if !g.Live(in) {
				return
			}
			what := ""
			if st, ok := isFieldStore(in, regF); ok {
				if call, ok := st.Val.(*ssa.Call); ok && call.Call.StaticCallee() == findLocal {
					what = "the target local's register becomes the destination of its right-hand side"
				}
			}
			if sc := staticCallee(in); sc != nil && shortcuts[fname(sc)] {
				what = "a local is left to be read in place (" + sc.Name() + ")"
			}
			if what == "" {
				return
			}
			n++
			c.Sites++
			c.check(single(g, in), R, fmt.Sprintf("%s:shortcut#%d", name, n), p.ipos(in), "guarded by len(Lhs) == 1: "+what,
				"in a multiple assignment "+what+" while the other right-hand sides are still to be evaluated: 'a, b = b, a' on two locals assigns the new a to b")
		})
		if n == 0 {
			c.und(R, name+":shortcuts", p.pos(fn.Pos()), "no direct-store / in-place shortcut found (the rule lost its anchors)")
		}
	}
}

// ruleOperandOrder: RK operand reads happen before any register write of the handler.
func ruleOperandOrder(c *Ctx) {
	const R = "R01-operands"
	c.floor(R, 11)
	p := c.P
	t := p.vmTable()
	rkV, rkS := p.Fn("lua", "(*LState).rkValue"), p.Fn("lua", "(*LState).rkString")
	done := map[*ssa.Function]bool{}
	for _, o := range t.Ops {
		h := o.Handler
		if h == nil || done[h] {
			continue
		}
		done[h] = true
		var reads []*ssa.Call
		reads = append(reads, callsTo(h, rkV)...)
		reads = append(reads, callsTo(h, rkS)...)
		if len(reads) == 0 {
			continue
		}
		c.touch(h)
		g := p.G(h)
		var bad ssa.Instruction
		allInstrs(h, func(w ssa.Instruction) {
			if bad != nil || !g.Live(w) {
				return
			}
			if _, _, ok := p.isRegElemStore(w); !ok {
				if sc := staticCallee(w); sc == nil || recvNamed(sc) != "registry" || !regWriteMethods[sc.Name()] || sc.Name() == "Pop" || sc.Name() == "Push" {
					return
				}
			}
			blk, i := after(w)
			g.walk(blk, i, nil, func(x ssa.Instruction) bool {
				for _, r := range reads {
					if x == ssa.Instruction(r) {
						bad = x
						return true
					}
				}
				return false
			})
		})
		pos := p.pos(h.Pos())
		if bad != nil {
			pos = p.ipos(bad)
		}
		c.check(bad == nil, R, fname(h), pos, fmt.Sprintf("all %d RK operand reads precede the first register write", len(reads)), "an RK operand is read after the handler has already written a register: when the operand lives in that register (e.g. a method name LOADK'ed into R(A+1) because the function has more than 256 constants) it is clobbered before it is used")
	}
}

func ruleOptable(c *Ctx) {
	const R = "R01-optable"
	c.floor(R, 40)
	t := c.P.vmTable()
	if !t.TableOK {
		c.und(R, "table", "-", t.Err)
		return
	}
	c.check(t.LitLen == t.Max+1, R, "len(jumpTable)", "-",
		fmt.Sprintf("jumpTable literal has opCodeMax+1 = %d elements", t.Max+1),
		fmt.Sprintf("jumpTable literal has %d elements, opCodeMax+1 = %d", t.LitLen, t.Max+1))
	c.check(len(t.Ops) == t.Max+1, R, "opcodes-dense", "-", "OP_* constants are dense 0..opCodeMax",
		fmt.Sprintf("%d OP_* constants but opCodeMax+1 = %d", len(t.Ops), t.Max+1))
	sz, _ := c.P.intConst("lua", "opSizeCode")
	c.check(int64(t.Max) < 1<<uint(sz), R, "opCodeMax<1<<opSizeCode", "-", "opcode fits its field", "opcode does not fit the opcode field")
	rows := c.P.opPropsRows()
	for i, o := range t.Ops {
		if o.Val != i {
			c.bad(R, "dense:"+o.Name, "-", fmt.Sprintf("%s has value %d at rank %d", o.Name, o.Val, i))
			continue
		}
		pos := "-"
		if o.Handler != nil {
			pos = c.P.pos(o.Handler.Pos())
			c.touch(o.Handler)
		}
		c.check(o.Handler != nil && len(o.Handler.Blocks) > 0, R, "handler:"+o.Name, pos, "has a handler", "no handler function in jumpTable for this opcode")
		if i < len(rows) {
			want := strings.TrimPrefix(o.Name, "OP_")
			c.check(rows[i].Name == want, R, "opProps:"+o.Name, "-", "opProps row name matches", fmt.Sprintf("opProps[%d].Name=%q, expected %q", i, rows[i].Name, want))
		} else {
			c.bad(R, "opProps:"+o.Name, "-", "no opProps row")
		}
	}
}

type opPropRow struct {
	Name string
	Type string // opTypeABC|opTypeABx|opTypeASbx
}

func (p *Prog) opPropsRows() []opPropRow {
	pk := p.Pkg("lua")
	obj := p.Obj("lua", "opProps")
	var rows []opPropRow
	for _, f := range pk.Syntax {
		ast.Inspect(f, func(n ast.Node) bool {
			vs, ok := n.(*ast.ValueSpec)
			if !ok {
				return true
			}
			for i, id := range vs.Names {
				if pk.TypesInfo.Defs[id] != obj || i >= len(vs.Values) {
					continue
				}
				cl, ok := vs.Values[i].(*ast.CompositeLit)
				if !ok {
					continue
				}
				for _, e := range cl.Elts {
					row, ok := e.(*ast.CompositeLit)
					if !ok {
						continue
					}
					r := opPropRow{}
					for j, fe := range row.Elts {
						key := ""
						val := fe
						if kv, ok := fe.(*ast.KeyValueExpr); ok {
							if id, ok := kv.Key.(*ast.Ident); ok {
								key = id.Name
							}
							val = kv.Value
						}
						if key == "Name" || (key == "" && j == 0) {
							if tv, ok := pk.TypesInfo.Types[val]; ok && tv.Value != nil {
								r.Name = strings.Trim(tv.Value.ExactString(), "\"")
							}
						}
						if key == "Type" || (key == "" && j == 5) {
							if id, ok := val.(*ast.Ident); ok {
								r.Type = id.Name
							}
						}
					}
					rows = append(rows, r)
				}
			}
			return true
		})
	}
	return rows
}

// ---------------------------------------------------------------------------------------------

type layout struct {
	OK     bool
	Fields map[string]instField // A B C Bx op
	Bias   int64                // opMaxArgSbx
}

func (p *Prog) getterField(name string) (instField, bool) {
	fn := p.Fn("lua", name)
	if fn == nil || len(fn.Blocks) != 1 {
		return instField{}, false
	}
	for _, in := range fn.Blocks[0].Instrs {
		if r, ok := in.(*ssa.Return); ok && len(r.Results) == 1 {
			root, sh, mk, ok := matchExtract(r.Results[0])
			if ok {
				if _, isp := root.(*ssa.Parameter); isp {
					return instField{Name: name, Shift: sh, Mask: mk}, true
				}
			}
			// opcode: int(inst >> 26)
		}
	}
	return instField{}, false
}

func (p *Prog) layout() *layout {
	l := &layout{Fields: map[string]instField{}}
	for f, g := range map[string]string{"op": "opGetOpCode", "A": "opGetArgA", "B": "opGetArgB", "C": "opGetArgC", "Bx": "opGetArgBx"} {
		fl, ok := p.getterField(g)
		if !ok {
			return l
		}
		fl.Name = f
		l.Fields[f] = fl
	}
	b, ok := p.intConst("lua", "opMaxArgSbx")
	if !ok {
		return l
	}
	l.Bias = b
	l.OK = true
	return l
}

func width(mask int64) int {
	if mask < 0 {
		return -1
	}
	n := 0
	for mask&1 == 1 {
		n++
		mask >>= 1
	}
	if mask != 0 {
		return -1
	}
	return n
}

func ruleLayout(c *Ctx) {
	const R = "R01-layout"
	c.floor(R, 14)
	l := c.P.layout()
	if !l.OK {
		c.und(R, "getters", "-", "cannot derive field layout from opGetOpCode/opGetArgA/B/C/Bx")
		return
	}
	sizes := map[string]string{"op": "opSizeCode", "A": "opSizeA", "B": "opSizeB", "C": "opSizeC", "Bx": "opSizeBx"}
	maxes := map[string]string{"A": "opMaxArgsA", "B": "opMaxArgsB", "C": "opMaxArgsC", "Bx": "opMaxArgBx"}
	var used uint64
	for _, f := range []string{"op", "A", "C", "B"} {
		fl := l.Fields[f]
		sz, _ := c.P.intConst("lua", sizes[f])
		w := int64(width(fl.Mask))
		if fl.Mask == -1 { // unmasked top field
			w = 32 - fl.Shift
		}
		c.check(w == sz, R, "width:"+f, "-", fmt.Sprintf("getter extracts %d bits at shift %d = %s", w, fl.Shift, sizes[f]),
			fmt.Sprintf("getter extracts %d bits at shift %d but %s = %d", w, fl.Shift, sizes[f], sz))
		bits := ((uint64(1) << uint(w)) - 1) << uint(fl.Shift)
		c.check(used&bits == 0, R, "disjoint:"+f, "-", "field does not overlap the others", "field overlaps another field")
		used |= bits
	}
	c.check(used == 0xffffffff, R, "tiles32", "-", "opcode,A,C,B tile the 32-bit word", fmt.Sprintf("fields cover %#x, not the whole word", used))
	bx, b, cc := l.Fields["Bx"], l.Fields["B"], l.Fields["C"]
	c.check(bx.Shift == b.Shift && int64(width(bx.Mask)) == int64(width(b.Mask))+int64(width(cc.Mask)) && cc.Shift == b.Shift+int64(width(b.Mask)),
		R, "Bx=B∪C", "-", "Bx spans exactly B and C", "Bx does not span exactly the B and C fields")
	for f, m := range maxes {
		mv, _ := c.P.intConst("lua", m)
		c.check(mv == l.Fields[f].Mask, R, "max:"+f, "-", fmt.Sprintf("%s = getter mask %#x", m, mv), fmt.Sprintf("%s = %#x but getter mask is %#x", m, mv, l.Fields[f].Mask))
	}
	mb, _ := c.P.intConst("lua", "opMaxArgBx")
	c.check(l.Bias == mb>>1, R, "bias", "-", "opMaxArgSbx = opMaxArgBx>>1", "sBx bias is not opMaxArgBx>>1")
	rk, _ := c.P.intConst("lua", "opBitRk")
	mrk, _ := c.P.intConst("lua", "opMaxIndexRk")
	szB, _ := c.P.intConst("lua", "opSizeB")
	c.check(rk == 1<<uint(szB-1) && mrk == rk-1, R, "rk", "-", "opBitRk is the top bit of B/C, opMaxIndexRk = opBitRk-1", "RK bit / max index inconsistent with opSizeB")
	szC, _ := c.P.intConst("lua", "opSizeC")
	c.check(szB == szC, R, "B=C width", "-", "B and C have equal width (RK operands)", "B and C differ in width")
	// setters: *inst = (*inst & clear) | uint32((arg & m) << s)
	for f, sname := range map[string]string{"op": "opSetOpCode", "A": "opSetArgA", "B": "opSetArgB", "C": "opSetArgC", "Bx": "opSetArgBx"} {
		fn := c.need(R, "lua", sname)
		if fn == nil {
			continue
		}
		fl := l.Fields[f]
		okSetter := false
		detail := "no store of the form (*inst & clear) | ((arg&mask)<<shift)"
		allInstrs(fn, func(in ssa.Instruction) {
			st, ok := in.(*ssa.Store)
			if !ok {
				return
			}
			or, ok := stripConv(st.Val).(*ssa.BinOp)
			if !ok || or.Op != token.OR {
				return
			}
			var clear int64 = -1
			var sh, mk int64 = 0, -1
			for _, side := range []ssa.Value{or.X, or.Y} {
				s := stripConv(side)
				if b, ok := s.(*ssa.BinOp); ok && b.Op == token.AND {
					if m, ok := constInt(b.Y); ok {
						if _, isLoad := stripConv(b.X).(*ssa.UnOp); isLoad {
							clear = m
							continue
						}
					}
				}
				// value side: ((arg & m) << s) or (arg & m) or (arg << s)
				vs := s
				if b, ok := vs.(*ssa.BinOp); ok && b.Op == token.SHL {
					if k, ok := constInt(b.Y); ok {
						sh = k
						vs = stripConv(b.X)
					}
				}
				if b, ok := vs.(*ssa.BinOp); ok && b.Op == token.AND {
					if m, ok := constInt(b.Y); ok {
						mk = m
					}
				}
			}
			fieldBits := int64(0)
			w := width(fl.Mask)
			if fl.Mask == -1 {
				w = int(32 - fl.Shift)
			}
			fieldBits = ((int64(1) << uint(w)) - 1) << uint(fl.Shift)
			wantClear := (^fieldBits) & 0xffffffff
			if clear == wantClear && sh == fl.Shift && (mk == fl.Mask || (fl.Mask == -1 && mk == -1)) {
				okSetter = true
			} else {
				detail = fmt.Sprintf("setter clears %#x shift %d mask %#x; getter needs clear %#x shift %d mask %#x", clear, sh, mk, wantClear, fl.Shift, fl.Mask)
			}
		})
		c.check(okSetter, R, "setter:"+f, c.P.pos(fn.Pos()), "setter writes exactly the bits its getter reads", detail)
	}
	// sBx getter/setter bias
	if g := c.need(R, "lua", "opGetArgSbx"); g != nil {
		ok := false
		allInstrs(g, func(in ssa.Instruction) {
			if r, isr := in.(*ssa.Return); isr && len(r.Results) == 1 {
				if b, isb := r.Results[0].(*ssa.BinOp); isb && b.Op == token.SUB {
					if k, okc := constInt(b.Y); okc && k == l.Bias && isCallTo(b.X.(ssa.Instruction), c.P.Fn("lua", "opGetArgBx")) {
						ok = true
					}
				}
			}
		})
		c.check(ok, R, "getter:sBx", c.P.pos(g.Pos()), "sBx = Bx - opMaxArgSbx", "opGetArgSbx is not opGetArgBx(inst) - opMaxArgSbx")
	}
	if s := c.need(R, "lua", "opSetArgSbx"); s != nil {
		ok := false
		allInstrs(s, func(in ssa.Instruction) {
			if isCallTo(in, c.P.Fn("lua", "opSetArgBx")) {
				args := in.(*ssa.Call).Call.Args
				if len(args) == 2 {
					if b, isb := args[1].(*ssa.BinOp); isb && b.Op == token.ADD {
						if k, okc := constInt(b.Y); okc && k == l.Bias {
							ok = true
						}
					}
				}
			}
		})
		c.check(ok, R, "setter:sBx", c.P.pos(s.Pos()), "Bx = sBx + opMaxArgSbx", "opSetArgSbx is not opSetArgBx(inst, arg+opMaxArgSbx)")
	}
	// opCreate*: each calls the setters of its format
	for cr, want := range map[string][]string{"opCreateABC": {"opSetOpCode", "opSetArgA", "opSetArgB", "opSetArgC"},
		"opCreateABx": {"opSetOpCode", "opSetArgA", "opSetArgBx"}, "opCreateASbx": {"opSetOpCode", "opSetArgA", "opSetArgSbx"}} {
		fn := c.need(R, "lua", cr)
		if fn == nil {
			continue
		}
		got := map[string]int{} // setter -> parameter index passed
		allInstrs(fn, func(in ssa.Instruction) {
			if sc := staticCallee(in); sc != nil && strings.HasPrefix(sc.Name(), "opSet") {
				args := in.(*ssa.Call).Call.Args
				if len(args) == 2 {
					if pm, ok := args[1].(*ssa.Parameter); ok {
						for i, fp := range fn.Params {
							if fp == pm {
								got[sc.Name()] = i
							}
						}
					}
				}
			}
		})
		ok := len(got) == len(want)
		for i, w := range want {
			if pi, has := got[w]; !has || pi != i {
				ok = false
			}
		}
		c.check(ok, R, "create:"+cr, c.P.pos(fn.Pos()), "passes parameter i to the i-th field setter of its format", fmt.Sprintf("setter/parameter mapping is %v, expected %v in order", got, want))
	}
}

// ---------------------------------------------------------------------------------------------
// R01-decode

type decodeSite struct {
	In      ssa.Instruction
	Field   string // A B C Bx sBx op word ?
	Root    string // inst | code
	Shift   int64
	Mask    int64
	ViaCall string
}

func (p *Prog) codeField() *types.Var { return p.Field("lua", "FunctionProto", "Code") }

// isCodeWord: v is an element load from a slice that is (a copy of) FunctionProto.Code.
func (p *Prog) isCodeWord(v ssa.Value) bool {
	v = stripConv(v)
	u, ok := v.(*ssa.UnOp)
	if !ok || u.Op != token.MUL {
		return false
	}
	ia, ok := u.X.(*ssa.IndexAddr)
	if !ok {
		return false
	}
	return p.derivesFromField(ia.X, p.codeField(), 0)
}

func (p *Prog) derivesFromField(v ssa.Value, f *types.Var, d int) bool {
	if d > 6 {
		return false
	}
	v = stripConv(v)
	if _, ok := loadsField(v, f); ok {
		return true
	}
	switch x := v.(type) {
	case *ssa.Phi:
		for _, e := range x.Edges {
			if p.derivesFromField(e, f, d+1) {
				return true
			}
		}
	case *ssa.Slice:
		return p.derivesFromField(x.X, f, d+1)
	}
	return false
}

// decodeSites finds every top-level shift/mask extraction applied to an instruction word in fn.
func (p *Prog) decodeSites(fn *ssa.Function, l *layout) []decodeSite {
	var out []decodeSite
	isWord := func(v ssa.Value) (string, bool) {
		v = stripConv(v)
		if bt, ok := v.Type().Underlying().(*types.Basic); !ok || bt.Kind() != types.Uint32 {
			return "", false
		}
		if pm, ok := v.(*ssa.Parameter); ok && pm.Type().Underlying().(*types.Basic).Kind() == types.Uint32 {
			return "inst", true
		}
		if p.isCodeWord(v) {
			return "code", true
		}
		if ph, ok := v.(*ssa.Phi); ok {
			// e.g. `inst` reassigned in a loop: word if every edge is a word
			kind := ""
			for _, e := range ph.Edges {
				k, ok := func() (string, bool) {
					e = stripConv(e)
					if pm, ok := e.(*ssa.Parameter); ok && pm.Type().Underlying().(*types.Basic).Kind() == types.Uint32 {
						return "inst", true
					}
					if p.isCodeWord(e) {
						return "code", true
					}
					if e == ssa.Value(ph) {
						return kind, true
					}
					return "", false
				}()
				if !ok {
					return "", false
				}
				if kind == "" || k == "code" {
					kind = k
				}
			}
			return kind, true
		}
		return "", false
	}
	consumedByMask := func(v ssa.Value) bool {
		// is v (through conversions) the operand of an AND with a constant?
		work := []ssa.Value{v}
		for len(work) > 0 {
			x := work[0]
			work = work[1:]
			refs := x.Referrers()
			if refs == nil {
				continue
			}
			for _, r := range *refs {
				switch r := r.(type) {
				case *ssa.Convert:
					work = append(work, r)
				case *ssa.ChangeType:
					work = append(work, r)
				case *ssa.BinOp:
					if r.Op == token.AND {
						if _, ok := constInt(r.X); ok {
							return true
						}
						if _, ok := constInt(r.Y); ok {
							return true
						}
					}
				}
			}
		}
		return false
	}
	allInstrs(fn, func(in ssa.Instruction) {
		switch x := in.(type) {
		case *ssa.BinOp:
			if x.Op != token.AND && x.Op != token.SHR {
				return
			}
			root, sh, mk, ok := matchExtract(x)
			if !ok {
				return
			}
			kind, isw := isWord(root)
			if !isw {
				return
			}
			if x.Op == token.SHR && consumedByMask(x) {
				return // inner part of (w>>s)&m
			}
			ds := decodeSite{In: in, Root: kind, Shift: sh, Mask: mk, Field: "?"}
			for _, f := range []string{"op", "A", "B", "C", "Bx"} {
				fl := l.Fields[f]
				if fl.Shift == sh && (fl.Mask == mk || (f == "op" && (mk == -1 || mk == (1<<uint(32-fl.Shift))-1))) {
					ds.Field = f
				}
			}
			if ds.Field == "Bx" && p.biasSubtracted(x, l.Bias) {
				ds.Field = "sBx"
			}
			out = append(out, ds)
		case *ssa.Call:
			sc := x.Call.StaticCallee()
			if sc == nil || len(x.Call.Args) != 1 {
				return
			}
			m := map[string]string{"opGetOpCode": "op", "opGetArgA": "A", "opGetArgB": "B", "opGetArgC": "C", "opGetArgBx": "Bx", "opGetArgSbx": "sBx"}
			f, ok := m[sc.Name()]
			if !ok || sc.Pkg == nil || sc.Pkg.Pkg.Path() != luaPath {
				return
			}
			kind, isw := isWord(x.Call.Args[0])
			if !isw {
				return
			}
			out = append(out, decodeSite{In: in, Root: kind, Field: f, ViaCall: sc.Name()})
		case *ssa.Convert:
			// whole word read: int(code[pc]) not followed by shift/mask
			if !p.isCodeWord(x.X) {
				return
			}
			if bt, ok := x.Type().Underlying().(*types.Basic); !ok || bt.Info()&types.IsInteger == 0 {
				return
			}
			usedRaw := false
			for _, r := range *x.Referrers() {
				if b, ok := r.(*ssa.BinOp); ok && (b.Op == token.AND || b.Op == token.SHR) {
					continue
				}
				usedRaw = true
			}
			if usedRaw {
				out = append(out, decodeSite{In: in, Root: "code", Field: "word"})
			}
		}
	})
	return out
}

// biasSubtracted: the extraction value (through conversions) feeds `- bias`.
func (p *Prog) biasSubtracted(v ssa.Value, bias int64) bool {
	work := []ssa.Value{v}
	for len(work) > 0 {
		x := work[0]
		work = work[1:]
		refs := x.Referrers()
		if refs == nil {
			continue
		}
		for _, r := range *refs {
			switch r := r.(type) {
			case *ssa.Convert:
				work = append(work, r)
			case *ssa.ChangeType:
				work = append(work, r)
			case *ssa.BinOp:
				if r.Op == token.SUB && stripConv(r.X) == stripConv(x) || r.Op == token.SUB && r.X == x {
					if k, ok := constInt(r.Y); ok && k == bias {
						return true
					}
				}
			}
		}
	}
	return false
}

func ruleDecode(c *Ctx) {
	const R = "R01-decode"
	c.floor(R, 90)
	t := c.P.vmTable()
	l := c.P.layout()
	if !t.TableOK || !l.OK {
		c.und(R, "tables", "-", "vm table or layout unavailable: "+t.Err)
		return
	}
	rows := c.P.opPropsRows()
	allowed := map[string]map[string]bool{
		"opTypeABC":  {"A": true, "B": true, "C": true, "op": true},
		"opTypeABx":  {"A": true, "Bx": true, "op": true},
		"opTypeASbx": {"A": true, "sBx": true, "op": true},
	}
	// inner-word reads (words following the instruction): which fields may be decoded, derived from
	// what the compiler places there (confirmed by reading compile.go; see DESIGN §3 C07 R07-skipgroup).
	inner := map[string]map[string]bool{
		"OP_MOVEN":    {"A": true, "B": true},  // trailing words are MOVE instructions
		"OP_TFORLOOP": {"sBx": true},           // trailing word is a JMP
		"OP_SETLIST":  {"word": true},          // raw batch number
		"OP_CLOSURE":  {"B": true, "op": true}, // MOVE / GETUPVAL capture pseudo-instructions
	}
	done := map[*ssa.Function]bool{}
	for _, o := range t.Ops {
		h := o.Handler
		if h == nil || done[h] {
			continue
		}
		done[h] = true
		c.touch(h)
		ops := t.handlerOps(h)
		sites := c.P.decodeSites(h, l)
		c.Sites += len(sites)
		n := map[string]int{}
		for _, s := range sites {
			n[s.Root+"."+s.Field]++
			key := fmt.Sprintf("%s:%s.%s#%d", o.Name, s.Root, s.Field, n[s.Root+"."+s.Field])
			if len(ops) > 1 {
				key = fmt.Sprintf("%s:%s.%s#%d", fname(h), s.Root, s.Field, n[s.Root+"."+s.Field])
			}
			pos := c.P.ipos(s.In)
			if s.Field == "?" {
				c.bad(R, key, pos, fmt.Sprintf("instruction word is decoded with shift %d mask %#x, which is none of the encoder's fields (op/A/B/C/Bx)", s.Shift, s.Mask))
				continue
			}
			if s.Root == "inst" {
				okAll := true
				for _, op := range ops {
					if op.Val >= len(rows) {
						continue
					}
					if !allowed[rows[op.Val].Type][s.Field] {
						okAll = false
						c.bad(R, key, pos, fmt.Sprintf("handler of %s decodes field %s but opProps declares format %s", op.Name, s.Field, rows[op.Val].Type))
					}
				}
				if okAll {
					c.ok(R, key, pos, "canonical extraction of "+s.Field+" compatible with the opcode's format")
				}
			} else {
				al := inner[o.Name]
				if len(ops) == 1 && al != nil && al[s.Field] {
					c.ok(R, key, pos, "trailing-word decode "+s.Field+" matches what the compiler places after "+o.Name)
				} else {
					c.bad(R, key, pos, fmt.Sprintf("handler reads field %s of a trailing code word, but the compiler emits no such word after %s", s.Field, o.Name))
				}
			}
		}
	}
	// mainLoop dispatch: jumpTable index must be the opcode extraction of Code[cf.Pc]
	for _, name := range []string{"mainLoop", "mainLoopWithContext"} {
		fn := c.need(R, "lua", name)
		if fn == nil {
			continue
		}
		sites := c.P.decodeSites(fn, l)
		okd := false
		for _, s := range sites {
			if s.Field == "op" && s.Root == "code" {
				okd = true
			} else {
				c.bad(R, name+":"+s.Field, c.P.ipos(s.In), "dispatch loop decodes something other than the opcode from the fetched word")
			}
		}
		c.check(okd, R, name+":dispatch", c.P.pos(fn.Pos()), "dispatch index is the opcode field of the fetched word", "no opcode extraction of the fetched code word found")
	}
	// rkValue / rkString: RK test uses opBitRk on their int parameter
	rk, _ := c.P.intConst("lua", "opBitRk")
	for _, name := range []string{"(*LState).rkValue", "(*LState).rkString"} {
		fn := c.need(R, "lua", name)
		if fn == nil {
			continue
		}
		test, idx := false, false
		allInstrs(fn, func(in ssa.Instruction) {
			b, ok := in.(*ssa.BinOp)
			if !ok {
				return
			}
			if _, isp := b.X.(*ssa.Parameter); !isp {
				return
			}
			k, okc := constInt(b.Y)
			if !okc {
				return
			}
			if b.Op == token.AND && k == rk {
				test = true
			}
			if (b.Op == token.AND && k == ^rk) || (b.Op == token.AND_NOT && k == rk) {
				idx = true
			}
		})
		c.check(test && idx, R, "rk:"+name, c.P.pos(fn.Pos()), "tests opBitRk and indexes constants with the bit cleared", "RK decoding does not use opBitRk consistently")
	}
}

// ---------------------------------------------------------------------------------------------
// R01-fold

func posCondStr(conds []Cond) (string, bool) {
	// first positive `x == "lit"` among conds
	for _, cd := range conds {
		b, ok := cd.V.(*ssa.BinOp)
		if !ok || !eqHolds(b, cd) {
			continue
		}
		if s, ok := constStr(b.Y); ok {
			return s, true
		}
		if s, ok := constStr(b.X); ok {
			return s, true
		}
	}
	return "", false
}

func posCondInt(conds []Cond, of ssa.Value) (int64, bool) {
	for _, cd := range conds {
		b, ok := cd.V.(*ssa.BinOp)
		if !ok || !eqHolds(b, cd) {
			continue
		}
		if of != nil && stripConv(b.X) != of && stripConv(b.Y) != of {
			continue
		}
		if k, ok := constInt(b.Y); ok {
			return k, true
		}
		if k, ok := constInt(b.X); ok {
			return k, true
		}
	}
	return 0, false
}

func ruleFold(c *Ctx) {
	const R = "R01-fold"
	c.floor(R, 7)
	cf := c.need(R, "lua", "constFold")
	na := c.need(R, "lua", "numberArith")
	ca := c.need(R, "lua", "compileArithmeticOpExpr")
	t := c.P.vmTable()
	if cf == nil || na == nil || ca == nil || !t.TableOK {
		return
	}
	valField := c.P.Field("lua", "constLValueExpr", "Value")
	lnv := c.P.Fn("lua", "lnumberValue")
	// constFold: operator -> folded expression
	g := c.P.G(cf)
	fold := map[string]string{}
	foldPos := map[string]string{}
	unaryFold, unaryPos := "", "-"
	// identify $1/$2: Extract #0 of lnumberValue(constFold(load .Lhs/.Rhs))
	operandKeys := map[string]string{}
	allInstrs(cf, func(in ssa.Instruction) {
		ex, ok := in.(*ssa.Extract)
		if !ok || ex.Index != 0 {
			return
		}
		call, ok := ex.Tuple.(*ssa.Call)
		if !ok || call.Call.StaticCallee() != lnv {
			return
		}
		k := vkey(call.Call.Args[0])
		switch {
		case strings.Contains(k, ").Lhs"):
			operandKeys[vkey(ex)] = "$1"
		case strings.Contains(k, ").Rhs"):
			operandKeys[vkey(ex)] = "$2"
		default:
			operandKeys[vkey(ex)] = "$1" // unary operand
		}
	})
	subst := func(k string) string {
		for from, to := range operandKeys {
			k = strings.ReplaceAll(k, from, to)
		}
		return k
	}
	allInstrs(cf, func(in ssa.Instruction) {
		st, ok := isFieldStore(in, valField)
		if !ok || !g.Live(in) {
			return
		}
		key := subst(vkey(st.Val))
		if op, ok := posCondStr(g.CondsAtInstr(in)); ok {
			fold[op] = key
			foldPos[op] = c.P.ipos(in)
		} else {
			unaryFold, unaryPos = key, c.P.ipos(in)
		}
	})
	// compileArithmeticOpExpr: operator -> opcode (phi edges / stores guarded by string conds)
	gca := c.P.G(ca)
	op2code := map[string]int64{}
	allInstrs(ca, func(in ssa.Instruction) {
		ph, ok := in.(*ssa.Phi)
		if !ok {
			return
		}
		for i, e := range ph.Edges {
			k, okc := constInt(e)
			if !okc {
				continue
			}
			pred := ph.Block().Preds[i]
			if s, ok := posCondStr(gca.CondsAt(pred)); ok {
				op2code[s] = k
			}
		}
	})
	// numberArith: opcode -> expression
	gna := c.P.G(na)
	run := map[int64]string{}
	var opcodeParam ssa.Value
	for _, pm := range na.Params {
		if pm.Name() == "opcode" || (opcodeParam == nil && types.Identical(pm.Type(), types.Typ[types.Int])) {
			opcodeParam = pm
		}
	}
	pk := func(v ssa.Value) string {
		k := vkey(v)
		// last two LNumber params are the operands
		var nums []*ssa.Parameter
		for _, pm := range na.Params {
			if nt, ok := pm.Type().(*types.Named); ok && nt.Obj().Name() == "LNumber" {
				nums = append(nums, pm)
			}
		}
		if len(nums) == 2 {
			k = strings.ReplaceAll(k, "p:"+nums[0].Name(), "$1")
			k = strings.ReplaceAll(k, "p:"+nums[1].Name(), "$2")
		}
		return k
	}
	allInstrs(na, func(in ssa.Instruction) {
		r, ok := in.(*ssa.Return)
		if !ok || !gna.Live(in) || len(r.Results) != 1 {
			return
		}
		if code, ok := posCondInt(gna.CondsAtInstr(in), opcodeParam); ok {
			run[code] = pk(r.Results[0])
		}
	})
	for _, op := range []string{"+", "-", "*", "/", "%", "^"} {
		f, hasF := fold[op]
		code, hasC := op2code[op]
		if !hasF || !hasC {
			c.und(R, "op:"+op, foldPos[op], fmt.Sprintf("cannot extract tables (fold:%v opcode:%v)", hasF, hasC))
			continue
		}
		rt, hasR := run[code]
		if !hasR {
			c.und(R, "op:"+op, foldPos[op], fmt.Sprintf("numberArith has no arm for opcode %d", code))
			continue
		}
		name := "?"
		if int(code) < len(t.Ops) {
			name = t.Ops[code].Name
		}
		c.check(f == rt, R, "op:"+op, foldPos[op], fmt.Sprintf("fold %s ≡ numberArith[%s] %s", f, name, rt),
			fmt.Sprintf("constant folder computes %s but the VM computes %s for %s (%s)", f, rt, name, op))
	}
	// unary minus
	if h := t.ByName["OP_UNM"]; h != nil && h.Handler != nil {
		found := ""
		arr := c.P.Field("lua", "registry", "array")
		allInstrs(h.Handler, func(in ssa.Instruction) {
			st, ok := in.(*ssa.Store)
			if !ok {
				return
			}
			ia, ok := st.Addr.(*ssa.IndexAddr)
			if !ok {
				return
			}
			if _, ok := loadsField(ia.X, arr); !ok {
				return
			}
			v := st.Val
			if mi, ok := v.(*ssa.MakeInterface); ok {
				v = mi.X
			}
			if u, ok := stripConv(v).(*ssa.UnOp); ok && u.Op == token.SUB {
				if ex, ok := stripConv(u.X).(*ssa.Extract); ok {
					if _, ok := ex.Tuple.(*ssa.TypeAssert); ok {
						found = "-$1"
					}
				}
			}
		})
		c.check(unaryFold == "-$1" && found == "-$1", R, "op:unm", unaryPos, "fold -$1 ≡ OP_UNM number arm -$1",
			fmt.Sprintf("unary minus folds as %q but OP_UNM's number arm computes %q", unaryFold, found))
	} else {
		c.und(R, "op:unm", "-", "OP_UNM handler not found")
	}
}

// ---------------------------------------------------------------------------------------------
// R01-alloc

func ruleAlloc(c *Ctx) {
	const R = "R01-alloc"
	c.floor(R, 4)
	// the shared small-integer constants stand for +0, 1, 2, …: a value that compares equal to one of
	// them but is not the same number (negative zero) must not be replaced by it (F56: 1/(z * -1) gave +inf)
	if fn := c.need(R, "lua", "(*allocator).LNumber2I"); fn != nil {
		g := c.P.G(fn)
		var loads []ssa.Instruction
		allInstrs(fn, func(in ssa.Instruction) {
			if u, ok := in.(*ssa.UnOp); ok && u.Op == token.MUL {
				if ia, ok := u.X.(*ssa.IndexAddr); ok {
					if gl, ok := ia.X.(*ssa.Global); ok && gl.Name() == "preloads" {
						loads = append(loads, in)
					}
				}
			}
		})
		found := len(loads) > 0
		// a sign test exists and, once it has found the sign bit set, no preloaded value is reachable
		okc := false
		allInstrs(fn, func(in ssa.Instruction) {
			pk, n, ok := stdCall(in)
			if !ok || pk != "math" || n != "Signbit" {
				return
			}
			for _, r := range *in.(*ssa.Call).Referrers() {
				iff, ok := r.(*ssa.If)
				if !ok {
					continue
				}
				reach := g.walk(iff.Block().Succs[0], 0, nil, func(x ssa.Instruction) bool {
					for _, l := range loads {
						if x == l {
							return true
						}
					}
					return false
				})
				if !reach {
					okc = true
				}
			}
		})
		c.check(found && okc, R, "LNumber2I:preload-not-for-negative-zero", c.P.pos(fn.Pos()), "the shared constant is used only when the sign bit agrees", "LNumber2I replaces every value that compares equal to a small non-negative integer by the shared constant: negative zero (0 * -1) becomes +0, so 1/(z * -1) is +inf instead of -inf")
	}
	fptrs := c.P.Field("lua", "allocator", "fptrs")
	if fptrs == nil {
		c.und(R, "anchor:allocator.fptrs", "-", "field not found")
		return
	}
	n := 0
	for _, fn := range c.P.srcFuncs {
		allInstrs(fn, func(in ssa.Instruction) {
			switch x := in.(type) {
			case *ssa.Store:
				if fa, ok := x.Addr.(*ssa.FieldAddr); ok && fieldOf(fa) == fptrs {
					n++
					key := fmt.Sprintf("%s:store#%d", fname(fn), n)
					v := stripConv(x.Val)
					switch y := v.(type) {
					case *ssa.MakeSlice:
						l, ok := constInt(y.Len)
						c.check(ok && l == 0, R, key, c.P.ipos(in), "fresh page make([]float64,0,n)", "page replaced by a slice of non-zero length")
					case *ssa.Call:
						if b, ok := y.Call.Value.(*ssa.Builtin); ok && b.Name() == "append" {
							_, same := loadsField(y.Call.Args[0], fptrs)
							c.check(same, R, key, c.P.ipos(in), "append to the current page", "append to something other than the current page")
						} else {
							c.bad(R, key, c.P.ipos(in), "allocator page assigned from a call")
						}
					default:
						c.bad(R, key, c.P.ipos(in), "allocator page assigned from "+vkey(v)+" (only a fresh make or an append is allowed: re-slicing or reusing a page aliases earlier numbers)")
					}
				}
				// element store into the page
				if ia, ok := x.Addr.(*ssa.IndexAddr); ok {
					if c.P.derivesFromField(ia.X, fptrs, 0) {
						n++
						c.bad(R, fmt.Sprintf("%s:elemstore#%d", fname(fn), n), c.P.ipos(in), "element of an allocator page is overwritten: a boxed number handed out earlier changes value")
					}
				}
			}
		})
	}
	// preloads: element stores only in init
	pre := c.P.SPkg("lua").Members["preloads"]
	if pre == nil {
		c.und(R, "anchor:preloads", "-", "global not found")
		return
	}
	for _, fn := range c.P.srcFuncs {
		allInstrs(fn, func(in ssa.Instruction) {
			st, ok := in.(*ssa.Store)
			if !ok {
				return
			}
			base := st.Addr
			if ia, ok := base.(*ssa.IndexAddr); ok {
				base = ia.X
			}
			if base == ssa.Value(pre.(*ssa.Global)) {
				isInit := strings.HasPrefix(fn.Name(), "init")
				c.check(isInit, R, "preloads:"+fname(fn), c.P.ipos(in), "written by init only", "shared preloaded number table written outside init")
			}
		})
	}
}

// ---------------------------------------------------------------------------------------------
// R01-emit: the compiler emits each opcode through the encoder of its declared format.

func ruleEmit(c *Ctx) {
	const R = "R01-emit"
	c.floor(R, 60)
	t := c.P.vmTable()
	rows := c.P.opPropsRows()
	if !t.TableOK {
		c.und(R, "table", "-", t.Err)
		return
	}
	enc := map[string]string{"(*codeStore).AddABC": "opTypeABC", "(*codeStore).AddABx": "opTypeABx", "(*codeStore).AddASbx": "opTypeASbx"}
	emitted := map[int64]bool{}
	n := 0
	for _, fn := range c.P.srcFuncs {
		if fn.Pkg == nil || fn.Pkg.Pkg.Path() != luaPath {
			continue
		}
		allInstrs(fn, func(in ssa.Instruction) {
			sc := staticCallee(in)
			if sc == nil {
				return
			}
			format, ok := enc[fname(sc)]
			if !ok {
				if fname(sc) == "(*codeStore).SetOpCode" {
					for _, k := range constsOf(in.(*ssa.Call).Call.Args[2]) {
						emitted[k] = true
					}
				}
				return
			}
			args := in.(*ssa.Call).Call.Args
			opv := args[1]
			ks := constsOf(opv)
			if len(ks) == 0 {
				if _, isParam := opv.(*ssa.Parameter); isParam {
					return // wrapper such as AddLoadNil's caller; the wrapper's own call is checked
				}
				n++
				c.und(R, fmt.Sprintf("%s:dynamic-op#%d", fname(fn), n), c.P.ipos(in), "opcode operand is not a finite set of constants")
				return
			}
			c.Sites++
			for _, k := range ks {
				emitted[k] = true
				if int(k) >= len(rows) || int(k) >= len(t.Ops) {
					c.bad(R, fmt.Sprintf("%s:op%d", fname(fn), k), c.P.ipos(in), "opcode constant out of range")
					continue
				}
				name := t.Ops[k].Name
				want := rows[k].Type
				// NOP is declared ASbx but never emitted through an encoder; JMP etc. are ASbx.
				c.check(format == want, R, fmt.Sprintf("%s:%s", fname(fn), name), c.P.ipos(in),
					"emitted through the encoder of its declared format "+want,
					fmt.Sprintf("%s is emitted with %s but opProps declares %s: the handler decodes different fields than were written", name, format, want))
			}
		})
	}
	for _, o := range t.Ops {
		if o.Name == "OP_NOP" || o.Name == "OP_MOVEN" || o.Name == "OP_TAILCALL" {
			// produced by SetOpCode rewrites only
			c.check(emitted[int64(o.Val)], R, "emitted:"+o.Name, "-", "produced by a SetOpCode rewrite", "no site produces this opcode")
			continue
		}
		c.check(emitted[int64(o.Val)], R, "emitted:"+o.Name, "-", "has an emission site", "no emission site for this opcode: the construct it implements cannot be compiled")
	}
}

// constsOf: the finite set of integer constants a value can take (constant, or phi of constants).
func constsOf(v ssa.Value) []int64 {
	seen := map[ssa.Value]bool{}
	var out []int64
	okAll := true
	var rec func(v ssa.Value)
	rec = func(v ssa.Value) {
		v = stripConv(v)
		if seen[v] {
			return
		}
		seen[v] = true
		if k, ok := constInt(v); ok {
			out = append(out, k)
			return
		}
		if ph, ok := v.(*ssa.Phi); ok {
			for _, e := range ph.Edges {
				rec(e)
			}
			return
		}
		okAll = false
	}
	rec(v)
	if !okAll {
		return nil
	}
	return out
}

// ruleThreading: patchCode rewrites each JMP's sBx from a label id to a distance, in place and in
// ascending pc order, and follows JMP→JMP chains by reading the live code. A chained word that lies
// before pc has therefore been patched already: reading its sBx as a label resolves to an unrelated
// place (F21: the back edge of 'repeat if false then … end … until c' went to the wrong instruction).
func ruleThreading(c *Ctx) {
	const R = "R01-threading"
	c.floor(R, 1)
	p := c.P
	fn := c.need(R, "lua", "patchCode")
	getLabel := p.Fn("lua", "(*funcContext).GetLabelPc")
	at := p.Fn("lua", "(*codeStore).At")
	if fn == nil || getLabel == nil || at == nil {
		c.und(R, "patchCode:anchors", "-", "GetLabelPc / codeStore.At not found")
		return
	}
	g := p.G(fn)
	loops := g.loops()
	n := 0
	for _, cl := range callsTo(fn, getLabel) {
		// the word whose sBx is the label
		var word ssa.Value
		if len(cl.Call.Args) >= 2 {
			if inner, ok := stripConv(cl.Call.Args[1]).(*ssa.Call); ok && len(inner.Call.Args) == 1 {
				word = inner.Call.Args[0]
			}
		}
		ph, isPhi := word.(*ssa.Phi)
		live := false
		if isPhi {
			for _, e := range ph.Edges {
				if ec, ok := e.(*ssa.Call); ok && ec.Call.StaticCallee() == at {
					live = true
				}
			}
		}
		n++
		key := fmt.Sprintf("patchCode:label-lookup#%d", n)
		if !live {
			c.ok(R, key, p.ipos(cl), "the word is not re-read from the code being patched")
			continue
		}
		// outer loop induction phi = pc
		var pcPhi *ssa.Phi
		for _, li := range loops {
			if li.Body[cl.Block()] && li.Class == "counter" && li.Header != ph.Block() {
				for _, in := range li.Header.Instrs {
					if x, ok := in.(*ssa.Phi); ok {
						if s, _ := g.induction(x, li); s > 0 && indexesLoadedWord(fn, x) {
							pcPhi = x
						}
					}
				}
			}
		}
		guarded := false
		for _, cd := range g.CondsAtInstr(cl) {
			b, ok := cd.V.(*ssa.BinOp)
			if !ok || pcPhi == nil {
				continue
			}
			op := b.Op
			if !cd.Sense {
				op = negate(op)
			}
			x, y := stripConv(b.X), stripConv(b.Y)
			if y != pcPhi && x == pcPhi {
				x, y = y, x
				op = flip(op)
			}
			if y == pcPhi && (op == token.GEQ || op == token.GTR) {
				if xp, ok := x.(*ssa.Phi); ok && xp.Block() == ph.Block() {
					guarded = true
				}
			}
		}
		c.check(guarded, R, key+":only-unpatched", p.ipos(cl), "a chained word's sBx is read as a label only when the word is at or after pc", "patchCode follows a jump chain through the live code and reads the sBx of a word before pc as a label id: that word is already patched and holds a distance, so the threaded jump lands on an unrelated instruction (a loop whose first instruction is an unconditional jump loses its back edge)")
	}
}

// rulePeephole: the compiler's peepholes look at the last emitted word. When they recognise it by opcode
// as a register load (MOVE, LOADK) and then drop or retarget it, they must also have tested its A field:
// the word may be the capture pseudo-instruction that follows a CLOSURE (MOVE 0, local) or a load into a
// register other than the temporary the peephole owns.
func rulePeephole(c *Ctx) {
	const R = "R01-peephole"
	c.floor(R, 4)
	p := c.P
	getOp := p.Fn("lua", "opGetOpCode")
	getA := p.Fn("lua", "opGetArgA")
	lastPC := p.Fn("lua", "(*codeStore).LastPC")
	if getOp == nil || getA == nil || lastPC == nil {
		c.und(R, "anchors", "-", "opGetOpCode/opGetArgA/LastPC not found")
		return
	}
	loads := map[int64]string{p.op("OP_MOVE"): "OP_MOVE", p.op("OP_LOADK"): "OP_LOADK"}
	for _, fn := range p.srcFuncs {
		if fn.Pkg == nil || fn.Pkg.Pkg.Path() != luaPath || !strings.HasPrefix(p.pos(fn.Pos()), "compile.go:") {
			continue
		}
		g := p.G(fn)
		n := 0
		allInstrs(fn, func(in ssa.Instruction) {
			sc := staticCallee(in)
			if sc == nil || recvNamed(sc) != "codeStore" {
				return
			}
			call, _ := in.(*ssa.Call)
			if call == nil {
				return
			}
			switch sc.Name() {
			case "Pop":
			case "SetA", "SetB", "SetC", "SetOpCode", "SetSbx", "SetBx":
				// only rewrites of the last word
				if len(call.Call.Args) < 2 {
					return
				}
				pc, ok := call.Call.Args[1].(*ssa.Call)
				if !ok || pc.Call.StaticCallee() != lastPC {
					return
				}
			default:
				return
			}
			// opcode tests on the path
			type wtest struct {
				word string
				op   string
			}
			var optests []wtest
			atests := map[string]bool{}
			for _, cd := range g.CondsAtInstr(in) {
				b, ok := cd.V.(*ssa.BinOp)
				if !ok {
					continue
				}
				for _, side := range []ssa.Value{b.X, b.Y} {
					cl, ok := stripConv(side).(*ssa.Call)
					if !ok || len(cl.Call.Args) != 1 {
						continue
					}
					other := b.Y
					if side == b.Y {
						other = b.X
					}
					switch cl.Call.StaticCallee() {
					case getOp:
						if k, ok := constInt(other); ok && eqHolds(b, cd) {
							if nm, isLoad := loads[k]; isLoad {
								optests = append(optests, wtest{vkey(cl.Call.Args[0]), nm})
							}
						}
					case getA:
						atests[vkey(cl.Call.Args[0])] = true
					}
				}
			}
			for _, t := range optests {
				n++
				c.Sites++
				key := fmt.Sprintf("%s:%s:%s#%d", fname(fn), sc.Name(), t.op, n)
				c.check(atests[t.word], R, key, p.ipos(in), "the word's destination register is tested together with its opcode", fmt.Sprintf("%s rewrites or drops the last emitted word because its opcode is %s without testing its A field: after a function literal the last word is the capture pseudo-instruction 'MOVE 0, local', so the real move into the destination is never emitted (h = flag or function() return up end leaves h unchanged)", fname(fn), t.op))
			}
		})
	}
}

// ruleCallFrameRegs: (a) compileFuncCallExpr lays the callee and its arguments out from the temporary
// register it was given; evaluating the call inside the register of an existing local clobbers that
// local before the arguments read it and leaves the result where the assignment does not look (F26).
// (b) compileGenericForStmt assigns the explist to the three hidden variables: the name list it hands to
// compileRegAssignment has as many entries as hidden variables, so missing values are filled with nil (F27).
func ruleCallFrameRegs(c *Ctx) {
	const R = "R01-callregs"
	c.floor(R, 3)
	p := c.P
	if fn := c.need(R, "lua", "compileFuncCallExpr"); fn != nil {
		var regParam ssa.Value
		for _, pm := range fn.Params {
			if pm == fn.Params[1] { // (context, reg, expr, ec)
				regParam = pm
			}
		}
		n, okc := 0, true
		var site ssa.Instruction = fn.Blocks[0].Instrs[0]
		opCall := p.op("OP_CALL")
		for _, e := range p.emitSites(fn) {
			if !e.emits(opCall) || len(e.Args) < 2 {
				continue
			}
			n++
			site = e.In
			if v := resolve(e.Args[1]); v != regParam && !entryLoadOfParam(fn, v, regParam) {
				okc = false
			}
		}
		c.check(n > 0 && okc, R, "compileFuncCallExpr:frame-starts-at-given-temporary", p.ipos(site), "OP_CALL's A is the temporary register the caller supplied", "compileFuncCallExpr places the callee in a register other than the temporary it was given (the register of an existing local): the local is overwritten before the arguments read it and the result is not where the assignment expects it (a = (g(a)) with a the last parameter)")
	}
	// (c) local x = <exp>: the new name is declared after the expression is compiled, so the expression
	// still sees the enclosing binding of that name; only `local function f` declares first (F24)
	if fn := c.need(R, "lua", "compileLocalAssignStmt"); fn != nil {
		g := p.G(fn)
		cra := p.Fn("lua", "compileRegAssignment")
		reg := p.Fn("lua", "(*funcContext).RegisterLocalVar")
		lf := p.Field("ast", "LocalAssignStmt", "LocalFunction")
		n := 0
		for _, cl := range callsTo(fn, reg) {
			// does a compileRegAssignment follow this declaration?
			b, i := after(cl)
			follows := g.walk(b, i, func(ssa.Instruction) bool { return false }, func(in ssa.Instruction) bool {
				return isCallTo(in, cra)
			})
			if !follows {
				continue
			}
			n++
			guarded := false
			for _, cd := range g.CondsAtInstr(cl) {
				if _, ok := loadsField(cd.V, lf); ok && cd.Sense && lf != nil {
					guarded = true
				}
			}
			c.check(guarded, R, fmt.Sprintf("compileLocalAssignStmt:declare-before-value#%d", n), p.ipos(cl), "a local is declared before its initialiser is compiled only for `local function`", "compileLocalAssignStmt declares the new local before compiling its initialiser without testing that the statement is `local function`: in `local print = function(...) print(...) end` the inner name refers to the new local, not to the enclosing binding (endless recursion)")
		}
		if n == 0 {
			c.und(R, "compileLocalAssignStmt:declare-before-value", p.pos(fn.Pos()), "the `local function` path (declare, then compile the body) was not found")
		}
	}
	if fn := c.need(R, "lua", "compileGenericForStmt"); fn != nil {
		cra := p.Fn("lua", "compileRegAssignment")
		n, okc := 0, true
		var site ssa.Instruction = fn.Blocks[0].Instrs[0]
		for _, cl := range callsTo(fn, cra) {
			n++
			site = cl
			// the arguments are found through the callee's formals by type, not by position (a reordered
			// parameter list is the same call): names is the []string, nvars the second int (reg, nvars, line)
			iNames, iNvars, ints := 1, 4, 0
			for i, pm := range cra.Params {
				switch pm.Type().String() {
				case "[]string":
					iNames = i
				case "int":
					ints++
					if ints == 2 {
						iNvars = i
					}
				}
			}
			nvars, ok := constInt(cl.Call.Args[iNvars])
			ln := int64(-1)
			if sl, isSl := cl.Call.Args[iNames].(*ssa.Slice); isSl {
				if pt, ok := sl.X.Type().Underlying().(*types.Pointer); ok {
					if at, ok := pt.Elem().Underlying().(*types.Array); ok && sl.Low == nil && sl.High == nil {
						ln = at.Len()
					}
				}
			}
			if !ok || ln != nvars {
				okc = false
			}
		}
		c.check(n > 0 && okc, R, "compileGenericForStmt:explist-initialises-three-hidden-variables", p.ipos(site), "the explist is assigned to as many targets as there are hidden variables", "compileGenericForStmt assigns the explist to a target list whose length is not the number of hidden variables (the loop variable names): with fewer than three values the control variable keeps whatever the register held (for k in next, t do … after a concatenation skips keys)")
	}
}

// entryLoadOfParam: v loads, in the entry block, the cell a parameter was spilled to, before anything
// else is stored there (reg's address is taken later in the function, so go/ssa keeps it in memory).
func entryLoadOfParam(fn *ssa.Function, v, param ssa.Value) bool {
	u, ok := v.(*ssa.UnOp)
	if !ok || u.Op != token.MUL || u.Block() != fn.Blocks[0] {
		return false
	}
	stores := 0
	for _, in := range fn.Blocks[0].Instrs {
		if in == ssa.Instruction(u) {
			return stores == 1
		}
		if st, ok := in.(*ssa.Store); ok && st.Addr == u.X {
			if st.Val != param {
				return false
			}
			stores++
		}
	}
	return false
}

// indexesLoadedWord: ph is used as the index of a slice element load (inst := code[pc]).
func indexesLoadedWord(fn *ssa.Function, ph *ssa.Phi) bool {
	found := false
	allInstrs(fn, func(in ssa.Instruction) {
		if ia, ok := in.(*ssa.IndexAddr); ok && stripConv(ia.Index) == ssa.Value(ph) {
			for _, r := range *ia.Referrers() {
				if u, ok := r.(*ssa.UnOp); ok && u.Op == token.MUL {
					found = true
				}
			}
		}
	})
	return found
}

// ruleKmvFlow: compileExprWithKMVPropagation may hand back 256|k, an RK-encoded constant index,
// instead of a register. Only operand positions that the VM reads through rkValue/rkString understand
// that encoding. The rule takes the RK-capable positions from the handlers and follows every
// KMV result in the compiler to the emission it feeds.
func ruleKmvFlow(c *Ctx) {
	const R = "R01-kmv"
	c.floor(R, 7)
	p := c.P
	t := p.vmTable()
	kmv := p.Fn("lua", "compileExprWithKMVPropagation")
	rkV, rkS := p.Fn("lua", "(*LState).rkValue"), p.Fn("lua", "(*LState).rkString")
	if kmv == nil || rkV == nil || !t.TableOK {
		c.und(R, "anchors", "-", "compileExprWithKMVPropagation / rkValue / opcode table not found")
		return
	}
	// VM side: which of B (mask 0x1ff, shift 0) and C (shift 9) each handler reads as RK
	rkB, rkC := map[int64]bool{}, map[int64]bool{}
	for _, o := range t.Ops {
		if o == nil || o.Handler == nil {
			continue
		}
		for _, callee := range []*ssa.Function{rkV, rkS} {
			if callee == nil {
				continue
			}
			for _, cl := range callsTo(o.Handler, callee) {
				if _, shift, mask, ok := matchExtract(cl.Call.Args[1]); ok && mask == 0x1ff {
					switch shift {
					case 0:
						rkB[int64(o.Val)] = true
					case 9:
						rkC[int64(o.Val)] = true
					}
				}
			}
		}
		if o.Shared { // opArith: shared handler, operands decoded the same way for each arithmetic opcode
			continue
		}
	}
	// shared arithmetic handler: copy its capabilities to every opcode that uses it
	byHandler := map[*ssa.Function][]int64{}
	for _, o := range t.Ops {
		if o != nil && o.Handler != nil {
			byHandler[o.Handler] = append(byHandler[o.Handler], int64(o.Val))
		}
	}
	for _, codes := range byHandler {
		b, cc := false, false
		for _, k := range codes {
			b = b || rkB[k]
			cc = cc || rkC[k]
		}
		for _, k := range codes {
			rkB[k], rkC[k] = b, cc
		}
	}
	for _, fn := range p.srcFuncs {
		if fn.Pkg == nil || fn.Pkg.Pkg.Path() != luaPath {
			continue
		}
		calls := callsTo(fn, kmv)
		if len(calls) == 0 {
			continue
		}
		emits := p.emitSites(fn)
		for i, cl := range calls {
			key := fmt.Sprintf("%s:kmv#%d", fname(fn), i+1)
			c.Sites++
			cell, ok := cl.Call.Args[3].(*ssa.Alloc)
			if !ok {
				c.bad(R, key, p.ipos(cl), fname(fn)+" lets constant propagation write its result (possibly an RK-encoded constant index) into a location that is not a local of the emitting function: the place that later emits the operand cannot know it may be a constant — a constant used as the object of an indexed assignment ends up in SETTABLE's A field, which names a register")
				continue
			}
			bad := ""
			var where ssa.Instruction = cl
			nuse := 0
			for _, r := range *cell.Referrers() {
				ld, isLoad := r.(*ssa.UnOp)
				if !isLoad || ld.Op != token.MUL {
					continue
				}
				for _, e := range emits {
					if e.Kind != "AddABC" || len(e.Args) < 4 {
						continue
					}
					for pos := 1; pos <= 3; pos++ {
						if stripConv(e.Args[pos]) != ssa.Value(ld) {
							continue
						}
						nuse++
						for _, op := range e.Ops {
							if op == 0 && len(e.Ops) > 1 {
								continue // the zero value an opcode variable holds before its switch assigns it
							}
							okPos := (pos == 2 && rkB[op]) || (pos == 3 && rkC[op])
							if !okPos {
								bad = fmt.Sprintf("operand %s of %s", string("?ABC"[pos]), opNames(p, []int64{op}))
								where = e.In
							}
						}
					}
				}
			}
			if bad != "" {
				c.bad(R, key, p.ipos(where), fmt.Sprintf("%s emits a constant-propagated operand as %s, which the VM reads as a plain register: when the expression is a constant the instruction names register k (the constant's pool index) instead of the constant — 'if 1 or x then' tests whatever local happens to live there", fname(fn), bad))
				continue
			}
			c.ok(R, key, p.ipos(cl), fmt.Sprintf("flows to %d RK-capable operand position(s) only", nuse))
		}
	}
}

// ruleConstructor: F49/F50.
func ruleConstructor(c *Ctx) {
	const R = "R01-constructor"
	c.floor(R, 3)
	p := c.P
	opSetlist, opVararg, opMove := p.op("OP_SETLIST"), p.op("OP_VARARG"), p.op("OP_MOVE")
	if fn := c.need(R, "lua", "compileTableExpr"); fn != nil {
		g := p.G(fn)
		keyF := p.Field("ast", "Field", "Key")
		var emits []emitSite
		for _, e := range p.emitSites(fn) {
			if e.emits(opSetlist) {
				emits = append(emits, e)
			}
		}
		okOpen, okReset := len(emits) > 0, len(emits) > 0
		for _, e := range emits {
			// B operand: a phi of {pending-count, 0}; the 0 arrives only under a flag that is set where the
			// field has no key
			bv := stripConv(e.Args[2])
			ph, isPhi := bv.(*ssa.Phi)
			if !isPhi {
				okOpen = false
				continue
			}
			var counter ssa.Value
			for k, ed := range ph.Edges {
				if kk, ok := constInt(ed); ok && kk == 0 {
					flagOK := false
					for _, cd := range g.CondsOnEdge(ph.Block().Preds[k], ph.Block()) {
						fl, ok := cd.V.(*ssa.Phi)
						if !ok || !cd.Sense {
							continue
						}
						// every 'true' entering the flag comes from a block under Key == nil
						allTrue := true
						var walk func(x *ssa.Phi, d int)
						seen := map[*ssa.Phi]bool{}
						walk = func(x *ssa.Phi, d int) {
							if seen[x] || d > 6 {
								return
							}
							seen[x] = true
							for j, e2 := range x.Edges {
								if b, ok := constBool(e2); ok {
									if b {
										under := false
										for _, c2 := range g.CondsOnEdge(x.Block().Preds[j], x.Block()) {
											if bo, ok := c2.V.(*ssa.BinOp); ok {
												if _, isKey := loadsField(bo.X, keyF); isKey {
													if k0, ok := bo.Y.(*ssa.Const); ok && k0.IsNil() && ((bo.Op == token.EQL && c2.Sense) || (bo.Op == token.NEQ && !c2.Sense)) {
														under = true
													}
												}
											}
										}
										if !under {
											allTrue = false
										}
									}
								} else if p2, ok := e2.(*ssa.Phi); ok {
									walk(p2, d+1)
								} else {
									allTrue = false
								}
							}
						}
						walk(fl, 0)
						if allTrue {
							flagOK = true
						}
					}
					if !flagOK {
						okOpen = false
					}
				} else {
					counter = ed
				}
			}
			// the counter is reset on the path that continues after the SETLIST: its loop-header phi has a
			// constant-0 edge coming from a block the emission dominates
			cph, _ := stripConv(counter).(*ssa.Phi)
			for cph != nil && !isLoopHeaderPhi(g, cph) {
				var next *ssa.Phi
				for _, ed := range cph.Edges {
					if x, ok := ed.(*ssa.Phi); ok {
						next = x
					}
				}
				cph = next
			}
			reset := false
			if cph != nil {
				for k, ed := range cph.Edges {
					if zeroThroughPhis(ed, 0) && g.BlockDom(e.In.Block(), cph.Block().Preds[k]) {
						reset = true
					}
					_ = k
				}
				// the zero may arrive through an intermediate phi that merges the flush and no-flush paths
				if !reset {
					for _, ed := range cph.Edges {
						if mp, ok := ed.(*ssa.Phi); ok {
							for k2, e2 := range mp.Edges {
								if kk, ok := constInt(e2); ok && kk == 0 && g.BlockDom(e.In.Block(), mp.Block().Preds[k2]) {
									reset = true
								}
							}
						}
					}
				}
			}
			if !reset {
				okReset = false
			}
		}
		pos := p.pos(fn.Pos())
		if len(emits) > 0 {
			pos = p.ipos(emits[0].In)
		}
		c.check(okOpen, R, "compileTableExpr:open-ended-only-for-positional-last", pos, "SETLIST gets B = 0 only under the flag set by a positional call or '...' in last position", "compileTableExpr makes the final SETLIST open-ended although the last field has a key: {f(), x = g()} sweeps g's result (and whatever lies up to the stack top) into the array part")
		c.check(okReset, R, "compileTableExpr:pending-reset-by-flush", pos, "the number of items waiting in registers is set to 0 by every SETLIST", "compileTableExpr decides to flush from the total number of positional items: after a full batch every later keyed field satisfies the test again and the batch is stored a second time from registers the keyed field has overwritten ({1,…,50, x = g()} gives t[1] == 'G')")
	}
	if fn := c.need(R, "lua", "compileExpr"); fn != nil {
		var regParam ssa.Value = fn.Params[1]
		viaTemp := false
		emits := p.emitSites(fn)
		for _, e := range emits {
			if !e.emits(opVararg) || len(e.Args) < 3 {
				continue
			}
			a := resolve(e.Args[1])
			if a != regParam && !entryLoadOfParamAny(fn, a, regParam) {
				continue
			}
			if k, ok := constInt(e.Args[2]); !ok || k != 2 {
				continue
			}
			// followed by a MOVE from that temporary
			for _, m := range emits {
				if m.emits(opMove) && m.In.Block() == e.In.Block() && p.G(fn).Dominates(e.In, m.In) {
					viaTemp = true
				}
			}
		}
		c.check(viaTemp, R, "compileExpr:single-vararg-into-local-via-temporary", p.pos(fn.Pos()), "VARARG t 2; MOVE local t exists for a target below other live registers", "compileExpr emits VARARG straight into an existing local: VARARG moves the stack top to just above its result, so the locals declared after the target are wiped (x = (...) with y, z declared later: y and z become Go nil)")
	}
}

func isLoopHeaderPhi(g *PCFG, ph *ssa.Phi) bool {
	for _, li := range g.loops() {
		if li.Header == ph.Block() {
			return true
		}
	}
	return false
}

func zeroThroughPhis(v ssa.Value, d int) bool {
	if k, ok := constInt(v); ok && k == 0 {
		return true
	}
	return false
}

// entryLoadOfParamAny: v loads the spill cell of param anywhere, the cell never being stored again
// except with values derived from itself (reg += n).
func entryLoadOfParamAny(fn *ssa.Function, v, param ssa.Value) bool {
	u, ok := v.(*ssa.UnOp)
	if !ok || u.Op != token.MUL {
		return false
	}
	al, ok := u.X.(*ssa.Alloc)
	if !ok {
		return false
	}
	for _, r := range *al.Referrers() {
		if st, ok := r.(*ssa.Store); ok && st.Addr == ssa.Value(al) && st.Val == param {
			return true
		}
	}
	return false
}

// ruleForCoercion: the numeric for converts string control values (Lua 5.1 forprep applies tonumber):
// the FORPREP handler goes through the one numeral reader before it tests for numbers (F61).
func ruleForCoercion(c *Ctx) {
	const R = "R01-forprep"
	c.floor(R, 1)
	p := c.P
	t := p.vmTable()
	o := t.ByName["OP_FORPREP"]
	pn := p.Fn("lua", "parseNumber")
	if o == nil || o.Handler == nil || pn == nil {
		c.und(R, "anchors", "-", "FORPREP handler / parseNumber not found")
		return
	}
	c.check(len(callsTo(o.Handler, pn)) > 0, R, "OP_FORPREP:converts-string-control-values", p.pos(o.Handler.Pos()), "strings are converted with parseNumber before the number tests", "the FORPREP handler accepts numbers only: `for i = '1', 2 do` raises 'for statement init must be a number' although Lua 5.1 converts the string")
	// all three control values, whatever the others are: the conversion loop is left only by its own
	// count (i < 3) — no other condition ends it early or skips it (the limit is converted nowhere else,
	// FORLOOP only tests its type)
	g := p.G(o.Handler)
	var loop *loopInfo
	for _, cl := range callsTo(o.Handler, pn) {
		for _, li := range g.loops() {
			if li.Body[cl.Block()] && (loop == nil || len(li.Body) < len(loop.Body)) {
				loop = li
			}
		}
	}
	if loop == nil {
		c.bad(R, "OP_FORPREP:converts-all-three-control-values", p.pos(o.Handler.Pos()), "the conversion of the control values is not a loop over them")
		return
	}
	okc, why := true, ""
	for b := range loop.Body {
		for _, s := range g.Succs(b) {
			if loop.Body[s] {
				continue
			}
			// an exit edge: only the header's count test may leave
			iff, isIf := b.Instrs[len(b.Instrs)-1].(*ssa.If)
			if b != loop.Header || !isIf {
				okc, why = false, "the loop is left from a block other than its count test"
				continue
			}
			bo, isB := iff.Cond.(*ssa.BinOp)
			if !isB {
				okc, why = false, "the loop's exit test is not a comparison of its counter"
				continue
			}
			k, isK := constInt(bo.Y)
			if _, isPhi := bo.X.(*ssa.Phi); !isPhi || !isK || k < 3 || bo.Op != token.LSS {
				okc, why = false, "the loop's exit test is not `counter < 3`"
			}
		}
	}
	// …and the loop is entered unconditionally in the handler: its header's entering edge carries no condition
	for _, cd := range g.CondsAt(loop.Header) {
		_ = cd
		okc, why = false, "the conversion loop is entered only under a condition"
	}
	c.check(okc, R, "OP_FORPREP:converts-all-three-control-values", p.pos(loop.Header.Instrs[0].Pos()), "the conversion loop runs for i = 0, 1, 2 unconditionally", "the FORPREP handler does not convert all three control values unconditionally ("+why+"): a numeric-string limit next to a numeric init and step stays a string, and FORLOOP raises 'for statement limit must be a number' for `for i = 1, \"3\" do`")
}
