package main

// thorough.go — the thorough tier (DESIGN §1.6): the property's rules on three load configurations
// (native, linux/386 where int is 32 bits, windows/amd64 with the other OS-specific files), plus
// checker self-validation: every seeded variant registered for the property in
// /verif/mutants/<prop>.json is applied to a scratch copy of the CURRENT /repo tree (outside /repo and
// /verif), analysed in a separate process, must be reported with the expected obligation key, and is
// deleted at once.  A variant whose text no longer applies is skipped and counted; an applied but
// undetected variant makes the check undecided (exit 2): the rule lost its teeth.

import (
	"encoding/json"
	"fmt"
	"os"
	"os/exec"
	"path/filepath"
	"sort"
	"strings"
	"sync"
)

type mutant struct {
	ID     string    `json:"id"`
	Edits  []mutEdit `json:"edits"`
	Patch  string    `json:"patch,omitempty"` // path relative to /verif of a git patch (alternative to edits)
	Expect string    `json:"expect"`          // substring of the violation line that must be reported
	Note   string    `json:"note,omitempty"`
	Source string    `json:"source,omitempty"` // "hand" | "seeded/<dir>"
	res    mutantResult
}

type mutEdit struct {
	File string `json:"file"`
	Old  string `json:"old"`
	New  string `json:"new"`
}

type mutantResult struct {
	Status string `json:"status"` // detected | MISSED | skipped(no longer applies) | does-not-compile | error
	Lines  string `json:"lines,omitempty"`
}

func loadMutants(verifDir, prop string) ([]*mutant, error) {
	data, err := os.ReadFile(filepath.Join(verifDir, "mutants", prop+".json"))
	if err != nil {
		if os.IsNotExist(err) {
			return nil, nil
		}
		return nil, err
	}
	var ms []*mutant
	if err := json.Unmarshal(data, &ms); err != nil {
		return nil, fmt.Errorf("mutants/%s.json: %v", prop, err)
	}
	return ms, nil
}

func runMutant(m *mutant, repo, verifDir, prop, self string) {
	dir, err := os.MkdirTemp("", "verifmut-")
	if err != nil {
		m.res = mutantResult{Status: "error", Lines: err.Error()}
		return
	}
	defer os.RemoveAll(dir)
	if out, err := exec.Command("rsync", "-a", "--exclude", ".git", repo+"/", dir+"/").CombinedOutput(); err != nil {
		m.res = mutantResult{Status: "error", Lines: string(out)}
		return
	}
	if m.Patch != "" {
		// exact context only: a hunk that needs fuzz has lost the code it was written against and must be ported
		cmd := exec.Command("patch", "-p1", "-s", "-F0", "--no-backup-if-mismatch", "-i", filepath.Join(verifDir, m.Patch))
		cmd.Dir = dir
		if out, err := cmd.CombinedOutput(); err != nil {
			m.res = mutantResult{Status: "skipped(no longer applies)", Lines: strings.TrimSpace(string(out))}
			return
		}
	}
	for _, e := range m.Edits {
		path := filepath.Join(dir, e.File)
		src, err := os.ReadFile(path)
		if err != nil || strings.Count(string(src), e.Old) < 1 {
			m.res = mutantResult{Status: "skipped(no longer applies)"}
			return
		}
		if err := os.WriteFile(path, []byte(strings.Replace(string(src), e.Old, e.New, 1)), 0o644); err != nil {
			m.res = mutantResult{Status: "error", Lines: err.Error()}
			return
		}
	}
	env := append(os.Environ(), "GOFLAGS=-mod=mod", "GOPROXY=off", "GOSUMDB=off", "GOTOOLCHAIN=local", "GOWORK=off")
	build := exec.Command("go", "build", "./...")
	build.Dir = dir
	build.Env = env
	if out, err := build.CombinedOutput(); err != nil {
		m.res = mutantResult{Status: "does-not-compile", Lines: lastLines(string(out), 3)}
		return
	}
	cmd := exec.Command(self, "-prop", prop, "-repo", dir, "-verif", verifDir, "-no-evidence")
	cmd.Env = env
	out, _ := cmd.CombinedOutput()
	var hits []string
	for _, l := range strings.Split(string(out), "\n") {
		if strings.HasPrefix(l, "violation:") && strings.Contains(l, m.Expect) {
			hits = append(hits, strings.ReplaceAll(l, dir+"/", ""))
		}
	}
	if len(hits) > 0 {
		l := hits[0]
		if len(l) > 240 {
			l = l[:240] + "…"
		}
		m.res = mutantResult{Status: "detected", Lines: l}
	} else {
		m.res = mutantResult{Status: "MISSED", Lines: lastLines(string(out), 4)}
	}
}

func lastLines(s string, n int) string {
	ls := strings.Split(strings.TrimSpace(s), "\n")
	if len(ls) > n {
		ls = ls[len(ls)-n:]
	}
	return strings.Join(ls, " | ")
}

type configResult struct {
	Config      string `json:"config"`
	Obligations int    `json:"obligations"`
	Violated    int    `json:"violated"`
	Undecided   int    `json:"undecided"`
	Error       string `json:"error,omitempty"`
}

// runThorough runs the extra configurations and the mutants, folds their outcome into the native
// context c (as obligations of the pseudo-rules Tconfig / Tselfcheck) and returns extra evidence.
func runThorough(c *Ctx, repo, verifDir string) map[string]interface{} {
	extra := map[string]interface{}{}
	var cfgs []configResult
	for _, cfg := range [][2]string{{"linux", "386"}, {"windows", "amd64"}} {
		cr := configResult{Config: cfg[0] + "/" + cfg[1]}
		p2, err := loadProg(repo, cfg[0], cfg[1])
		if err != nil {
			cr.Error = err.Error()
			c.und("Tconfig", cr.Config, "-", "cannot load this configuration: "+err.Error())
			cfgs = append(cfgs, cr)
			continue
		}
		p2.vmTable()
		keyCounters = map[string]int{}
		c2 := newCtx(p2, c.Prop, c.Tier)
		for _, r := range props[c.Prop].Rules {
			r(c2)
		}
		for r, st := range c2.Stats {
			if st.Instances < st.Floor {
				c2.und(r, "floor", "-", fmt.Sprintf("rule matched %d instances, floor %d", st.Instances, st.Floor))
			}
		}
		cr.Obligations = len(c2.Obls)
		for _, o := range c2.Obls {
			switch o.Status {
			case "violated":
				cr.Violated++
				// same key ⇒ same finding: report it under the native key space so that KNOWN_FINDINGS applies
				c.add(o.Rule, strings.TrimPrefix(o.Key, o.Rule+":"), o.Pos, "violated", "["+cr.Config+"] "+o.Detail, true)
			case "undecided":
				cr.Undecided++
				c.add(o.Rule, strings.TrimPrefix(o.Key, o.Rule+":"), o.Pos, "undecided", "["+cr.Config+"] "+o.Detail, true)
			}
		}
		c.ok("Tconfig", cr.Config, "-", fmt.Sprintf("%d obligations re-decided under GOOS=%s GOARCH=%s: %d violated, %d undecided", cr.Obligations, cfg[0], cfg[1], cr.Violated, cr.Undecided))
		cfgs = append(cfgs, cr)
	}
	extra["configs"] = cfgs

	ms, err := loadMutants(verifDir, c.Prop)
	if err != nil {
		c.und("Tselfcheck", "mutants-file", "-", err.Error())
		return extra
	}
	self, _ := os.Executable()
	sem := make(chan struct{}, 8)
	var wg sync.WaitGroup
	for _, m := range ms {
		wg.Add(1)
		go func(m *mutant) {
			defer wg.Done()
			sem <- struct{}{}
			defer func() { <-sem }()
			runMutant(m, repo, verifDir, c.Prop, self)
		}(m)
	}
	wg.Wait()
	sort.Slice(ms, func(i, j int) bool { return ms[i].ID < ms[j].ID })
	type mrep struct {
		ID, Expect, Status, Lines, Source, Note string
	}
	var rep []mrep
	det, skip := 0, 0
	for _, m := range ms {
		rep = append(rep, mrep{m.ID, m.Expect, m.res.Status, m.res.Lines, m.Source, m.Note})
		switch m.res.Status {
		case "detected":
			det++
			c.ok("Tselfcheck", m.ID, "-", "seeded variant reported: "+m.res.Lines)
		case "MISSED":
			c.und("Tselfcheck", m.ID, "-", fmt.Sprintf("seeded variant applied and compiled but the expected obligation %q was not reported (%s): the rule no longer detects what it was built to detect", m.Expect, m.res.Lines))
		case "skipped(no longer applies)":
			skip++
			fmt.Printf("STALE-VARIANT: %s (%s) no longer applies to the tree: port it (tools/mutants_src.py or seeded/…/patch.diff)\n", m.ID, c.Prop)
			c.okT("Tselfcheck", m.ID, "-", "variant text no longer present in the tree: skipped")
		default:
			fmt.Printf("STALE-VARIANT: %s (%s) is not usable on this tree (%s: %s): port it\n", m.ID, c.Prop, m.res.Status, m.res.Lines)
			c.okT("Tselfcheck", m.ID, "-", "variant not usable on this tree ("+m.res.Status+"): skipped")
			skip++
		}
	}
	extra["selfcheck"] = map[string]interface{}{"variants": len(ms), "detected": det, "skipped": skip, "report": rep}
	return extra
}
