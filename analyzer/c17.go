package main

// C17 — line numbers and debug queries: every node positioned; newline counting; scopes paired.

import (
	"fmt"
	"go/ast"
	"go/token"
	"go/types"
	"strings"

	"golang.org/x/tools/go/packages"
	"golang.org/x/tools/go/ssa"
)

func init() {
	register(&propInfo{
		ID:    "C17",
		Title: "Errors and debug queries report the right source line and variables",
		Explanation: "Decided: R17-setline — every AST node (a type embedding ast.Node) constructed in a grammar action of parse/parser.go or synthesised in compile.go has SetLine called on that very node (same access path) before the action / function ends, and the node kinds that carry a block also get SetLastLine; exempt with reasons: the main chunk's synthetic FunctionExpr and the folded constant whose line is set by the two callers of constFold; " +
			"R17-rawread — 'line information is a function of token positions only': the input reader is read only inside Scanner.readNext/Peek/Newline, so every newline byte passes the line counter; Next counts a line for both '\\n' and '\\r' through Newline (which swallows the second half of CRLF/LFCR); a token's position is taken from the scanner before the token is scanned; " +
			"R17-blocks — EnterBlock/LeaveBlock are paired on every non-raising path of each compile function that opens a scope; LeaveBlock and compileFunctionExpr call EndScope (every DbgLocalInfo gets an EndPc) and RegisterLocalVar records StartPc; R17-lines — no instruction that can raise at run time is attributed to the closing line of its statement (eline is reserved for block-closing instructions); R17-where — error positions and currentline are read from DbgSourcePositions[Pc-1] of the frame's own prototype; R07-parallel shared (the line table is written in lock-step with the code). " +
			"R17-scope — the scope records debug.getlocal reads: the end of a scope is written through the block's own records (never through DbgLocals[register]), and the writer's convention for EndPc/StartPc (LastPC()+1, exclusive end) agrees with the reader's comparisons in LFunction.LocalName. NOT decided: which line each instruction receives, pc-range correctness after the peephole passes.",
		Trusted: []string{},
		Rules:   []func(*Ctx){ruleForprepRaisesAtItsOwnPc, ruleHiddenVariablesCoverTheIteratorCall, ruleUpvalueAccessThroughItsCell, ruleHiddenLoopVariablesScope, ruleWhereKeepsSkipping, ruleSetLine, ruleRawRead, ruleBlocks, ruleWhere, ruleRaisingLines, ruleParallel, ruleScopes, ruleShebangLine, ruleOneLineReader, ruleGetStackLevel, ruleParenKeepsFunctionLine, ruleLocalAccessorsAgree, ruleTemporaryNeedsPositiveIndex},
	})
}

// embedsNode: struct type (transitively) embedding ast.Node.
func embedsNode(t types.Type) bool {
	st, ok := t.Underlying().(*types.Struct)
	if !ok {
		return false
	}
	for i := 0; i < st.NumFields(); i++ {
		f := st.Field(i)
		if !f.Embedded() {
			continue
		}
		if nt, ok := f.Type().(*types.Named); ok {
			if nt.Obj().Name() == "Node" && nt.Obj().Pkg() != nil && nt.Obj().Pkg().Name() == "ast" {
				return true
			}
			if embedsNode(nt) {
				return true
			}
		}
	}
	return false
}

var lastLineKinds = map[string]bool{"DoBlockStmt": true, "WhileStmt": true, "RepeatStmt": true, "NumberForStmt": true, "GenericForStmt": true,
	"FuncDefStmt": true, "FunctionExpr": true}

type nodeLit struct {
	Kind string
	Path string
	Pos  token.Pos
	Stmt ast.Stmt // enclosing statement in the clause body
}

// nodeLiterals finds node composite literals in a statement list with the access path under which
// each can be addressed afterwards.
func nodeLiterals(pk *packages.Package, body []ast.Stmt) []nodeLit {
	var out []nodeLit
	nodeKind := func(cl *ast.CompositeLit) string {
		tv, ok := pk.TypesInfo.Types[cl]
		if !ok {
			return ""
		}
		nt, ok := tv.Type.(*types.Named)
		if !ok || !embedsNode(nt) {
			return ""
		}
		return nt.Obj().Name()
	}
	var visitLit func(e ast.Expr, path string, st ast.Stmt)
	visitLit = func(e ast.Expr, path string, st ast.Stmt) {
		if u, ok := e.(*ast.UnaryExpr); ok && u.Op == token.AND {
			e = u.X
		}
		cl, ok := e.(*ast.CompositeLit)
		if !ok {
			return
		}
		if k := nodeKind(cl); k != "" {
			out = append(out, nodeLit{Kind: k, Path: path, Pos: cl.Pos(), Stmt: st})
		}
		// nested literals in fields
		for _, el := range cl.Elts {
			kv, ok := el.(*ast.KeyValueExpr)
			if !ok {
				continue
			}
			id, ok := kv.Key.(*ast.Ident)
			if !ok {
				continue
			}
			visitLit(kv.Value, path+"."+id.Name, st)
			// slices of nodes: []ast.Expr{&ast.X{}} are not addressed by the actions today
		}
	}
	for _, st := range body {
		switch s := st.(type) {
		case *ast.AssignStmt:
			for i, rhs := range s.Rhs {
				if i >= len(s.Lhs) {
					continue
				}
				lhs := strings.ReplaceAll(types.ExprString(s.Lhs[i]), " ", "")
				// append(x, &T{}) → lhs[len(lhs)-1]
				if call, ok := rhs.(*ast.CallExpr); ok {
					if id, ok := call.Fun.(*ast.Ident); ok && id.Name == "append" && len(call.Args) >= 2 {
						for _, a := range call.Args[1:] {
							visitLit(a, lhs+"[len("+lhs+")-1]", st)
						}
						continue
					}
				}
				visitLit(rhs, lhs, st)
			}
		case *ast.IfStmt:
			out = append(out, nodeLiterals(pk, s.Body.List)...)
			if blk, ok := s.Else.(*ast.BlockStmt); ok {
				out = append(out, nodeLiterals(pk, blk.List)...)
			}
		case *ast.BlockStmt:
			out = append(out, nodeLiterals(pk, s.List)...)
		}
	}
	return out
}

// setCalls: paths on which method m is called within the statements (recursively).
func methodCallPaths(body []ast.Stmt, m string) map[string]bool {
	out := map[string]bool{}
	for _, st := range body {
		ast.Inspect(st, func(n ast.Node) bool {
			call, ok := n.(*ast.CallExpr)
			if !ok {
				return true
			}
			sel, ok := call.Fun.(*ast.SelectorExpr)
			if !ok || sel.Sel.Name != m {
				return true
			}
			out[strings.ReplaceAll(types.ExprString(sel.X), " ", "")] = true
			return true
		})
	}
	return out
}

func ruleSetLine(c *Ctx) {
	const R = "R17-setline"
	c.floor(R, 55)
	p := c.P
	// grammar actions: case clauses of the big switch in yyParse
	pk := p.Pkg("parse")
	nClauses := 0
	for _, f := range pk.Syntax {
		for _, d := range f.Decls {
			fd, ok := d.(*ast.FuncDecl)
			if !ok || fd.Body == nil || !strings.Contains(fd.Name.Name, "Parse") {
				continue
			}
			ast.Inspect(fd.Body, func(n ast.Node) bool {
				cc, ok := n.(*ast.CaseClause)
				if !ok {
					return true
				}
				lits := nodeLiterals(pk, cc.Body)
				if len(lits) == 0 {
					return true
				}
				nClauses++
				setLine := methodCallPaths(cc.Body, "SetLine")
				setLast := methodCallPaths(cc.Body, "SetLastLine")
				for _, l := range lits {
					c.Sites++
					pos := p.pos(l.Pos)
					key := fmt.Sprintf("grammar:%s@%s#%d", l.Kind, actionName(pk, cc), countKey(c, R, l.Kind+actionName(pk, cc)))
					if l.Kind == "FunctionExpr" && strings.HasSuffix(l.Path, "funcexpr") {
						// funcbody's FunctionExpr is a carrier: `function` copies ParList/Stmts into a new node
					}
					c.check(setLine[l.Path], R, key, pos, "SetLine is called on "+l.Path, fmt.Sprintf("the %s built in this grammar action (as %s) never gets SetLine: it reports line 0 when it is the construct that fails or is queried", l.Kind, l.Path))
					if lastLineKinds[l.Kind] {
						c.check(setLast[l.Path], R, key+":last", pos, "SetLastLine is called on "+l.Path, fmt.Sprintf("the %s built here never gets SetLastLine: lastlinedefined / the line of its closing instructions is 0", l.Kind))
					}
				}
				return true
			})
		}
	}
	if nClauses < 40 {
		c.und(R, "grammar:clauses", "-", fmt.Sprintf("only %d grammar actions with node constructions found", nClauses))
	}
	// compiler-synthesised nodes
	lk := p.Pkg("lua")
	exempt := map[string]string{
		"Compile:FunctionExpr":      "synthetic main chunk: linedefined of a main chunk is 0; SetLastLine is called",
		"constFold:constLValueExpr": "the two callers that compile a folded node (compileArithmeticOpExpr, compileUnaryOpExpr) set its line",
	}
	for _, f := range lk.Syntax {
		if !strings.HasSuffix(p.Fset.Position(f.Pos()).Filename, "compile.go") {
			continue
		}
		for _, d := range f.Decls {
			fd, ok := d.(*ast.FuncDecl)
			if !ok || fd.Body == nil {
				continue
			}
			var all []nodeLit
			var collect func(list []ast.Stmt)
			collect = func(list []ast.Stmt) {
				all = append(all, nodeLiterals(lk, list)...)
				for _, st := range list {
					switch s := st.(type) {
					case *ast.ForStmt:
						collect(s.Body.List)
					case *ast.RangeStmt:
						collect(s.Body.List)
					case *ast.SwitchStmt:
						for _, cc := range s.Body.List {
							collect(cc.(*ast.CaseClause).Body)
						}
					case *ast.TypeSwitchStmt:
						for _, cc := range s.Body.List {
							collect(cc.(*ast.CaseClause).Body)
						}
					case *ast.ReturnStmt:
						for _, r := range s.Results {
							if u, ok := r.(*ast.UnaryExpr); ok {
								if cl, ok := u.X.(*ast.CompositeLit); ok {
									if tv, ok := lk.TypesInfo.Types[cl]; ok {
										if nt, ok := tv.Type.(*types.Named); ok && embedsNode(nt) {
											all = append(all, nodeLit{Kind: nt.Obj().Name(), Path: "<returned>", Pos: cl.Pos()})
										}
									}
								}
							}
						}
					}
				}
			}
			collect(fd.Body.List)
			// de-duplicate by position
			seen := map[token.Pos]bool{}
			setLine := methodCallPaths(fd.Body.List, "SetLine")
			for _, l := range all {
				if seen[l.Pos] {
					continue
				}
				seen[l.Pos] = true
				key := fmt.Sprintf("compiler:%s:%s#%d", fd.Name.Name, l.Kind, countKey(c, R, fd.Name.Name+l.Kind))
				if why, ok := exempt[fd.Name.Name+":"+l.Kind]; ok {
					c.okT(R, key, p.pos(l.Pos), "exempt: "+why)
					continue
				}
				c.check(setLine[l.Path], R, key, p.pos(l.Pos), "SetLine is called on "+l.Path, fmt.Sprintf("the %s synthesised in %s (as %s) never gets SetLine", l.Kind, fd.Name.Name, l.Path))
			}
		}
	}
	// the callers of constFold set the folded node's line
	for _, name := range []string{"compileArithmeticOpExpr", "compileUnaryOpExpr"} {
		fn := c.need(R, "lua", name)
		if fn == nil {
			continue
		}
		g := p.G(fn)
		cf := p.Fn("lua", "constFold")
		ce := p.Fn("lua", "compileExpr")
		okc := false
		for _, fold := range callsTo(fn, cf) {
			allInstrs(fn, func(in ssa.Instruction) {
				call, ok := in.(*ssa.Call)
				if !ok || !call.Call.IsInvoke() || call.Call.Method.Name() != "SetLine" {
					return
				}
				if call.Call.Value == ssa.Value(fold) {
					for _, cmp := range callsTo(fn, ce) {
						if g.Dominates(call, cmp) {
							okc = true
						}
					}
				}
			})
		}
		c.check(okc, R, "constFold-caller:"+name, p.pos(fn.Pos()), "the folded constant's line is set before it is compiled", name+" compiles a folded constant without giving it a line")
	}
}

func actionName(pk *packages.Package, cc *ast.CaseClause) string {
	// the yacc rule number
	if len(cc.List) == 1 {
		if tv, ok := pk.TypesInfo.Types[cc.List[0]]; ok && tv.Value != nil {
			return "rule" + tv.Value.ExactString()
		}
	}
	return "rule?"
}

func ruleRawRead(c *Ctx) {
	const R = "R17-rawread"
	c.floor(R, 5)
	p := c.P
	readerF := p.Field("parse", "Scanner", "reader")
	if readerF == nil {
		c.und(R, "anchor:Scanner.reader", "-", "field not found")
		return
	}
	allowed := map[string]bool{"(*Scanner).readNext": true, "(*Scanner).Next": true, "(*Scanner).Peek": true, "(*Scanner).Newline": true, "NewScanner": true}
	for _, fn := range p.srcFuncs {
		if fn.Pkg != p.SPkg("parse") {
			continue
		}
		uses := 0
		allInstrs(fn, func(in ssa.Instruction) {
			if u, ok := in.(*ssa.UnOp); ok {
				if _, ok := loadsField(u, readerF); ok {
					uses++
				}
			}
		})
		if uses == 0 {
			continue
		}
		c.touch(fn)
		c.check(allowed[fname(fn)], R, "reader-user:"+fname(fn), p.pos(fn.Pos()), "the byte reader is used only by the character primitives", fname(fn)+" reads the input directly, bypassing Scanner.Next: newline bytes consumed here are not counted and every later line number is off")
	}
	// … nor through the raw primitive: readNext (the uncounted read) is called by Next and Peek only; a scan
	// loop that steps with readNext and settles the line count afterwards counts a line end twice when the
	// bytes it looked at were already counted (a `--[==` comment whose line end countSep consumed)
	if rn := p.Fn("parse", "(*Scanner).readNext"); rn != nil {
		who := ""
		for _, fn := range p.srcFuncs {
			if fn.Pkg != p.SPkg("parse") || fname(fn) == "(*Scanner).Next" || fname(fn) == "(*Scanner).Peek" {
				continue
			}
			if len(callsTo(fn, rn)) > 0 {
				who = fname(fn)
			}
		}
		c.check(who == "", R, "readNext:called-by-the-character-primitives-only", p.pos(rn.Pos()), "only Next and Peek read uncounted", who+" steps through the input with readNext, bypassing Scanner.Next: line ends consumed this way are counted separately (or not at all) and every later line number can be off by one")
	}
	// Next: '\n' and '\r' both go through Newline
	if fn := c.need(R, "parse", "(*Scanner).Next"); fn != nil {
		g := p.G(fn)
		nl := p.Fn("parse", "(*Scanner).Newline")
		okc := false
		for _, cl := range callsTo(fn, nl) {
			ks := caseValuesReaching(cl.Block(), nil)
			_ = ks
			// the block is reached from ch == '\n' and ch == '\r'
			seen := map[int64]bool{}
			for _, pr := range cl.Block().Preds {
				if iff, ok := pr.Instrs[len(pr.Instrs)-1].(*ssa.If); ok && pr.Succs[0] == cl.Block() {
					if b, ok := iff.Cond.(*ssa.BinOp); ok && b.Op == token.EQL {
						if k, ok := constInt(b.Y); ok {
							seen[k] = true
						}
					}
				}
			}
			for _, cd := range g.CondsAtInstr(cl) {
				if b, ok := cd.V.(*ssa.BinOp); ok && eqHolds(b, cd) {
					if k, ok := constInt(b.Y); ok {
						seen[k] = true
					}
				}
			}
			okc = seen['\n'] && seen['\r']
		}
		c.check(okc, R, "Next:counts-LF-and-CR", p.pos(fn.Pos()), "both '\\n' and '\\r' advance the line counter through Newline", "Next no longer counts a line for both LF and CR: CR-only or LF-only files report wrong lines")
	}
	if fn := c.need(R, "parse", "(*Scanner).Newline"); fn != nil {
		lineInc := false
		allInstrs(fn, func(in ssa.Instruction) {
			st, ok := in.(*ssa.Store)
			if !ok {
				return
			}
			if b, ok := st.Val.(*ssa.BinOp); ok && b.Op == token.ADD {
				if k, ok := constInt(b.Y); ok && k == 1 && strings.Contains(vkey(st.Addr), "Line") {
					lineInc = true
				}
			}
		})
		c.check(lineInc, R, "Newline:line+1", p.pos(fn.Pos()), "Newline increments the line by exactly one", "Newline does not increment the line counter by one")
		// CRLF / LFCR pairs are swallowed as one
		swallow := false
		allInstrs(fn, func(in ssa.Instruction) {
			if pk, n, ok := stdCall(in); ok && pk == "bufio" && n == "Reader.ReadByte" {
				swallow = true
			}
		})
		c.check(swallow, R, "Newline:swallows-pair", p.pos(fn.Pos()), "the second half of CRLF / LFCR is consumed without counting another line", "CRLF is counted as two lines")
	}
	// Scan: token position taken before scanning
	if fn := c.need(R, "parse", "(*Scanner).Scan"); fn != nil {
		g := p.G(fn)
		posF := p.Field("ast", "Token", "Pos")
		var posStore ssa.Instruction
		allInstrs(fn, func(in ssa.Instruction) {
			if st, ok := isFieldStore(in, posF); ok {
				if strings.Contains(vkey(st.Val), ").Pos") {
					posStore = in
				}
			}
		})
		okc := posStore != nil
		if okc {
			for _, name := range []string{"(*Scanner).scanIdent", "(*Scanner).scanNumber", "(*Scanner).scanString", "(*Scanner).scanMultilineString"} {
				for _, cl := range callsTo(fn, p.Fn("parse", name)) {
					if !g.Dominates(posStore, cl) {
						okc = false
					}
				}
			}
		}
		c.check(okc, R, "Scan:pos-before-token", p.pos(fn.Pos()), "tok.Pos = sc.Pos is stored before the token's characters are consumed", "a token's position is taken after (part of) the token was scanned: multi-line strings report their last line")
	}
}

func ruleBlocks(c *Ctx) {
	const R = "R17-blocks"
	c.floor(R, 9)
	p := c.P
	p.computeNoReturn()
	enter := p.Fn("lua", "(*funcContext).EnterBlock")
	leave := p.Fn("lua", "(*funcContext).LeaveBlock")
	endScope := p.Fn("lua", "(*funcContext).EndScope")
	if enter == nil || leave == nil || endScope == nil {
		c.und(R, "anchors", "-", "EnterBlock/LeaveBlock/EndScope not found")
		return
	}
	n := 0
	for _, fn := range p.srcFuncs {
		ents := callsTo(fn, enter)
		if len(ents) == 0 {
			continue
		}
		n++
		c.touch(fn)
		g := p.G(fn)
		isLeave := func(in ssa.Instruction) bool { return isCallTo(in, leave) }
		okc := len(ents) == len(callsTo(fn, leave))
		for _, e := range ents {
			b, i := after(e)
			r, _ := g.MustPassBefore(b, i, isLeave, isReturn)
			if !r {
				okc = false
			}
		}
		// balanced and properly nested on every path: the depth of open blocks is the same however a
		// block of the function is reached, never negative, and 0 at every return (a loop's own variables
		// may live in a block nested in the block of its hidden variables)
		depthAt := map[*ssa.BasicBlock]int{}
		var visit func(b *ssa.BasicBlock, d int)
		visit = func(b *ssa.BasicBlock, d int) {
			if old, seen := depthAt[b]; seen {
				if old != d {
					okc = false
				}
				return
			}
			depthAt[b] = d
			for _, in := range b.Instrs {
				if !g.Live(in) {
					return
				}
				if isCallTo(in, enter) {
					d++
				}
				if isCallTo(in, leave) {
					d--
					if d < 0 {
						okc = false
					}
				}
				if isReturn(in) && d != 0 {
					okc = false
				}
			}
			for _, s := range g.Succs(b) {
				visit(s, d)
			}
		}
		if len(fn.Blocks) > 0 {
			visit(fn.Blocks[0], 0)
		}
		c.check(okc, R, "paired:"+fname(fn), p.pos(fn.Pos()), "every EnterBlock is followed by exactly one LeaveBlock on every returning path", fname(fn)+" can return with a block still open (or opens two): later locals get registers/pc ranges of the wrong scope")
	}
	c.check(n >= 6, R, "scope-openers", "-", fmt.Sprintf("%d functions open a scope", n), "fewer scope-opening functions than expected")
	for _, name := range []string{"(*funcContext).LeaveBlock", "compileFunctionExpr"} {
		if fn := c.need(R, "lua", name); fn != nil {
			g := p.G(fn)
			okc, _ := g.MustPassBefore(fn.Blocks[0], 0, func(in ssa.Instruction) bool { return isCallTo(in, endScope) }, isReturn)
			c.check(okc, R, "EndScope:"+name, p.pos(fn.Pos()), "EndScope is called on every returning path (locals get their EndPc)", name+" can finish without EndScope: the scope's locals keep EndPc 0 and are invisible to debug.getlocal")
		}
	}
	if fn := c.need(R, "lua", "(*funcContext).EndScope"); fn != nil {
		endF := p.Field("lua", "DbgLocalInfo", "EndPc")
		okc := false
		allInstrs(fn, func(in ssa.Instruction) {
			if st, ok := isFieldStore(in, endF); ok && strings.Contains(vkey(st.Val), "LastPC(") {
				okc = true
			}
		})
		c.check(okc, R, "EndScope:EndPc=LastPC", p.pos(fn.Pos()), "EndPc is the last emitted pc", "EndScope does not record the last pc")
	}
	if fn := c.need(R, "lua", "(*funcContext).RegisterLocalVar"); fn != nil {
		startF := p.Field("lua", "DbgLocalInfo", "StartPc")
		okc := false
		allInstrs(fn, func(in ssa.Instruction) {
			if st, ok := isFieldStore(in, startF); ok && strings.Contains(vkey(st.Val), "LastPC(") {
				okc = true
			}
		})
		c.check(okc, R, "RegisterLocalVar:StartPc", p.pos(fn.Pos()), "StartPc is derived from the current pc", "RegisterLocalVar does not record where the local starts")
	}
}

// ruleRaisingLines: an instruction that can raise at run time is attributed to where its construct
// starts (sline / an operand's line), never to the closing line of the enclosing block (eline), which
// is reserved for the instructions that close a block (JMP back, CLOSE, final RETURN).
func ruleRaisingLines(c *Ctx) {
	const R = "R17-lines"
	c.floor(R, 30)
	p := c.P
	eline := p.Fn("lua", "eline")
	closing := map[string]bool{"OP_JMP": true, "OP_CLOSE": true, "OP_RETURN": true, "OP_NOP": true, "OP_LOADNIL": true, "OP_LOADBOOL": true, "OP_MOVE": true, "OP_LOADK": true}
	t := p.vmTable()
	for _, fn := range p.srcFuncs {
		if fn.Pkg == nil || fn.Pkg.Pkg.Path() != luaPath {
			continue
		}
		for _, e := range p.emitSites(fn) {
			if e.Kind == "Add" || len(e.Ops) == 0 {
				continue
			}
			raising := false
			names := []string{}
			for _, k := range e.Ops {
				if int(k) < len(t.Ops) && !closing[t.Ops[k].Name] {
					raising = true
					names = append(names, t.Ops[k].Name)
				}
			}
			if !raising {
				continue
			}
			line := e.Args[len(e.Args)-1]
			c.Sites++
			call, isCall := stripConv(line).(*ssa.Call)
			usesEline := isCall && call.Call.StaticCallee() == eline
			key := fmt.Sprintf("%s:%s#%d", fname(fn), strings.Join(names, "|"), countKey(c, R, fname(fn)+strings.Join(names, "|")))
			c.check(!usesEline, R, key, p.ipos(e.In), "line taken from the construct's start / operand", "an instruction that can raise ("+strings.Join(names, "|")+") is given the LAST line of its statement (eline): an error in a multi-line construct's header is reported at the line of its closing 'end'")
		}
	}
}

func ruleWhere(c *Ctx) {
	const R = "R17-where"
	c.floor(R, 5)
	p := c.P
	posF := p.Field("lua", "FunctionProto", "DbgSourcePositions")
	pcF := p.Field("lua", "callFrame", "Pc")
	for _, name := range []string{"(*LState).where", "(*LState).GetInfo"} {
		fn := c.need(R, "lua", name)
		if fn == nil {
			continue
		}
		okc := false
		allInstrs(fn, func(in ssa.Instruction) {
			ia, ok := in.(*ssa.IndexAddr)
			if !ok {
				return
			}
			if _, ok := loadsField(ia.X, posF); !ok {
				return
			}
			if b, ok := stripConv(ia.Index).(*ssa.BinOp); ok && b.Op == token.SUB {
				if k, ok := constInt(b.Y); ok && k == 1 {
					if _, ok := loadsField(b.X, pcF); ok {
						okc = true
					}
				}
			}
		})
		// the index Pc-1 is only formed when Pc > 0 (a frame that has not executed anything yet has Pc == 0)
		g := p.G(fn)
		guarded := false
		allInstrs(fn, func(in ssa.Instruction) {
			ia, ok := in.(*ssa.IndexAddr)
			if !ok {
				return
			}
			if _, ok := loadsField(ia.X, posF); !ok {
				return
			}
			for _, cd := range g.CondsAtInstr(in) {
				if b, ok := cd.V.(*ssa.BinOp); ok {
					if _, isPc := loadsField(b.X, pcF); isPc {
						op := b.Op
						if !cd.Sense {
							op = negate(op)
						}
						k, _ := constInt(b.Y)
						if (op == token.GTR && k == 0) || (op == token.GEQ && k == 1) {
							guarded = true
						}
					}
				}
			}
		})
		c.check(guarded, R, name+":pc-guard", p.pos(fn.Pos()), "DbgSourcePositions[Pc-1] is read only when Pc > 0", name+" indexes DbgSourcePositions[Pc-1] without testing Pc > 0: an error raised before a frame executed its first instruction (registry overflow during a tail call's frame set-up) indexes -1 and the Go panic escapes pcall/DoString")
		c.check(okc, R, name+":line=positions[Pc-1]", p.pos(fn.Pos()), "the current line is the line of the instruction being executed (Pc already advanced)", name+" does not read DbgSourcePositions[Pc-1]: reported lines are those of the next (or a different) instruction")
	}
	// the level an error is attributed to: a host function that raises is level 0 and level n is its n-th
	// caller; a VM-raised error has the Lua function itself at level 1. raiseError therefore asks where()
	// for 'level' when the current frame is a host function and 'level-1' otherwise.
	if fn := c.need(R, "lua", "(*LState).raiseError"); fn != nil {
		where := p.Fn("lua", "(*LState).where")
		isG := p.Field("lua", "LFunction", "IsG")
		g := p.G(fn)
		var lvl ssa.Value
		for _, pm := range fn.Params {
			if pm == fn.Params[1] { // (ls, level, format, args...)
				lvl = pm
			}
		}
		okc := false
		var site ssa.Instruction = fn.Blocks[0].Instrs[0]
		for _, cl := range callsTo(fn, where) {
			site = cl
			ph, ok := cl.Call.Args[1].(*ssa.Phi)
			if !ok {
				continue
			}
			var plain, minus bool
			for i, e := range ph.Edges {
				if e == lvl {
					for _, cd := range g.CondsOnEdge(ph.Block().Preds[i], ph.Block()) {
						if _, ok := loadsField(cd.V, isG); ok && cd.Sense {
							plain = true
						}
					}
				} else if b, ok := e.(*ssa.BinOp); ok && b.Op == token.SUB && b.X == lvl {
					if k, ok := constInt(b.Y); ok && k == 1 {
						minus = true
					}
				}
			}
			okc = plain && minus
		}
		c.check(okc, R, "raiseError:level-counts-from-host-function", p.ipos(site), "level n of an error raised by a host function is that function's n-th caller", "raiseError passes level-1 to where() whatever the current frame is: error(msg, 2), raised from the host function 'error', reports the position of level 1 (the function that called error), not of its caller")
	}
}

// ruleScopes: 'debug.getlocal enumerates exactly the named variables in scope'. The compiler writes
// [StartPc, EndPc) per declared variable and LFunction.LocalName reads it. Decided here: (a) the record
// whose EndPc is written is not found by using a register number as an index into Proto.DbgLocals (the
// two numberings differ as soon as sibling blocks reuse registers, F23); (b) writer and reader agree on
// whether EndPc is inclusive; (c) StartPc is the index of the next instruction.
func ruleScopes(c *Ctx) {
	const R = "R17-scope"
	c.floor(R, 4)
	p := c.P
	endF := p.Field("lua", "DbgLocalInfo", "EndPc")
	startF := p.Field("lua", "DbgLocalInfo", "StartPc")
	dbgLocalsF := p.Field("lua", "FunctionProto", "DbgLocals")
	regIdxF := p.Field("lua", "varNamePoolValue", "Index")
	lastPC := p.Fn("lua", "(*codeStore).LastPC")
	if endF == nil || startF == nil || dbgLocalsF == nil || lastPC == nil {
		c.und(R, "anchors", "-", "DbgLocalInfo fields / LastPC not found")
		return
	}
	plus := func(v ssa.Value) (int64, bool) { // v == LastPC() + k
		v = stripConv(v)
		if cl, ok := v.(*ssa.Call); ok && cl.Call.StaticCallee() == lastPC {
			return 0, true
		}
		if b, ok := v.(*ssa.BinOp); ok && b.Op == token.ADD {
			if cl, ok := stripConv(b.X).(*ssa.Call); ok && cl.Call.StaticCallee() == lastPC {
				if k, ok := constInt(b.Y); ok {
					return k, true
				}
			}
		}
		return 0, false
	}
	// reader
	readerStrictEnd, readerStrictStart, readerFound := false, false, 0
	if fn := c.need(R, "lua", "(*LFunction).LocalName"); fn != nil {
		allInstrs(fn, func(in ssa.Instruction) {
			b, ok := in.(*ssa.BinOp)
			if !ok {
				return
			}
			_, xEnd := loadsField(b.X, endF)
			_, yEnd := loadsField(b.Y, endF)
			_, xStart := loadsField(b.X, startF)
			_, yStart := loadsField(b.Y, startF)
			switch {
			case yEnd && (b.Op == token.LSS || b.Op == token.LEQ): // pc < EndPc
				readerStrictEnd = b.Op == token.LSS
				readerFound++
			case xEnd && (b.Op == token.GTR || b.Op == token.GEQ):
				readerStrictEnd = b.Op == token.GTR
				readerFound++
			case xStart && (b.Op == token.LSS || b.Op == token.LEQ): // StartPc < pc
				readerStrictStart = b.Op == token.LSS
				readerFound++
			case yStart && (b.Op == token.GTR || b.Op == token.GEQ):
				readerStrictStart = b.Op == token.GTR
				readerFound++
			// the same tests spelled as their negation (`if pc >= EndPc { continue }`, `if StartPc > pc { break }`):
			// in scope is what is left when the test fails
			case yEnd && (b.Op == token.GEQ || b.Op == token.GTR): // pc >= EndPc: out of scope
				readerStrictEnd = b.Op == token.GEQ
				readerFound++
			case xEnd && (b.Op == token.LEQ || b.Op == token.LSS): // EndPc <= pc: out of scope
				readerStrictEnd = b.Op == token.LEQ
				readerFound++
			case xStart && (b.Op == token.GTR || b.Op == token.GEQ): // StartPc > pc: not yet in scope
				readerStrictStart = b.Op == token.GEQ
				readerFound++
			case yStart && (b.Op == token.LSS || b.Op == token.LEQ): // pc < StartPc: not yet in scope
				readerStrictStart = b.Op == token.LEQ
				readerFound++
			}
		})
	}
	if readerFound < 2 {
		c.und(R, "LocalName:comparisons", "-", "the StartPc/EndPc comparisons of LFunction.LocalName were not recognised")
		return
	}
	_ = readerStrictStart
	nEnd := 0
	for _, fn := range p.srcFuncs {
		if fn.Pkg == nil || fn.Pkg.Pkg.Path() != luaPath {
			continue
		}
		allInstrs(fn, func(in ssa.Instruction) {
			if st, ok := isFieldStore(in, endF); ok {
				nEnd++
				c.Sites++
				k, isLast := plus(st.Val)
				agree := isLast && ((readerStrictEnd && k == 1) || (!readerStrictEnd && k == 0))
				c.check(agree, R, fname(fn)+":EndPc-convention", p.ipos(in), "EndPc is the index after the scope's last instruction and the reader tests pc < EndPc", fname(fn)+" writes an EndPc that disagrees with LocalName's comparison: a variable is invisible (or still visible) at the last instruction of its block (a call that is the last statement of a loop body sees none of the loop's variables)")
				// (a) which record
				fa := st.Addr.(*ssa.FieldAddr)
				byReg := false
				if ld, ok := fa.X.(*ssa.UnOp); ok {
					if ia, ok := ld.X.(*ssa.IndexAddr); ok {
						if _, ok := loadsField(ia.X, dbgLocalsF); ok && regIdxF != nil {
							if _, ok := loadsField(ia.Index, regIdxF); ok {
								byReg = true
							} else if f, ok := stripConv(ia.Index).(*ssa.Field); ok && fieldOfVal(f) == regIdxF {
								byReg = true
							}
						}
					}
				}
				c.check(!byReg, R, fname(fn)+":EndPc-record", p.ipos(in), "the record is not looked up by register number", fname(fn)+" finds the record whose scope ends by indexing Proto.DbgLocals with a register number: DbgLocals has one entry per declaration, so once sibling blocks reuse a register the wrong record is closed and the real one keeps EndPc 0 (debug.getlocal lists a dead variable and misses the live one)")
			}
			if st, ok := isFieldStore(in, startF); ok {
				c.Sites++
				k, isLast := plus(st.Val)
				c.check(isLast && k == 1, R, fname(fn)+":StartPc=next-instruction", p.ipos(in), "a variable's scope starts at the next instruction to be emitted", fname(fn)+" does not record LastPC()+1 as StartPc")
			}
		})
	}
	if nEnd == 0 {
		c.und(R, "EndPc:writer", "-", "no store to DbgLocalInfo.EndPc found")
	}
	// the query point: the instruction being executed is Pc-1 (Pc is advanced before dispatch), the same
	// convention where() uses for the line
	if fl := c.need(R, "lua", "(*LState).findLocal"); fl != nil {
		ln := p.Fn("lua", "(*LFunction).LocalName")
		pcF := p.Field("lua", "callFrame", "Pc")
		calls := callsTo(fl, ln)
		okc := len(calls) > 0
		var site ssa.Instruction
		for _, cl := range calls {
			site = cl
			b, ok := stripConv(cl.Call.Args[2]).(*ssa.BinOp)
			if !ok || b.Op != token.SUB {
				okc = false
				continue
			}
			k, isK := constInt(b.Y)
			if _, isPc := loadsField(b.X, pcF); !isPc || !isK || k != 1 {
				okc = false
			}
		}
		pos := p.pos(fl.Pos())
		if site != nil {
			pos = p.ipos(site)
		}
		c.check(okc, R, "findLocal:queries-at-Pc-1", pos, "variables are looked up at the instruction being executed (Pc-1)", "findLocal asks LocalName about a pc other than Pc-1 (the instruction being executed): every scope appears to end one instruction early (or start late) — a call that is the last instruction of a block no longer sees that block's locals")
	}
}
