package main

// C18 — table library (narrow): sort is exchange-only; delegation of insert/remove/concat/unpack.
// C20 — require: sentinel ordering, searcher order, host registration.

import (
	"fmt"
	"go/ast"
	"go/token"
	"go/types"
	"strings"

	"golang.org/x/tools/go/ssa"
)

func init() {
	register(&propInfo{
		ID:    "C18",
		Title: "table library keeps list semantics; sort gives an ordered permutation, no crash",
		Explanation: "Decided (narrow): R18-swap — 'sort leaves a permutation of the original elements and calls lt only with elements of t': table.sort sorts the table's own array part in place through package sort; lValueArraySorter.Swap is a pure exchange (two element loads, the two crossed stores, nothing else) and Len is the slice length; Less hands exactly Values[i], Values[j] (in that order) to the comparator or to the VM's lessThan and returns the truth value of the single result; " +
			"R18-delegate — table.insert/remove/getn/maxn/concat and unpack reach the list through the LTable list helpers (Append, Insert, Remove, Len, MaxN, RawGetInt) with the documented argument positions; R09-route shared (unpack/concat/ipairs read through RawGetInt, which now agrees with the setters). " +
			"R18-arrayowner — outside LTable's own methods the array part is read by nobody except table.sort, and there only as array[:Len()]: list functions take their length from the border (Len), never from the physical size of the array part, which may hold trailing nils. NOT decided: insert/remove shifting, concat ranges, ordering of the sorted result, behaviour under inconsistent comparators — list histories and comparator behaviour are run-time quantities.",
		Trusted: []string{"package sort only rearranges through Swap (stdlib contract)"},
		Rules:   []func(*Ctx){ruleListHelpersUseTheBorder, ruleArrayPresenceIsNotNil, ruleNoSentinelDefaults, ruleInsertShiftsWhateverTheValue, ruleSurplusArgs, ruleInsertBoundary, ruleSwap, ruleDelegate, ruleRoute, ruleArrayReaders, ruleTableLib, ruleTableArgs, ruleConcatSeparator},
	})
	register(&propInfo{
		ID:    "C20",
		Title: "require loads each module once, from preload first, and reports loops",
		Explanation: "Decided: R20-sentinel — in require: the cache lookup with its early return dominates every loader call; the loop sentinel is stored into package.loaded[name] before the module function is called and after the searcher loop; the sentinel test on a cached value raises; every returning path after the module function either stores a result into package.loaded[name] or has observed that the loader replaced the sentinel itself; a loader that returns nothing caches true; " +
			"R20-order — the searcher list has the preload searcher before the path searcher; OpenPackage publishes the same loaders/loaded tables under package.* and in the registry; RegisterModule stores the module both in _LOADED[name] and under its global name; PreloadModule writes package.preload[name]; the preload searcher reads package.preload. " +
			"NOT decided: at-most-once under arbitrary histories, error text contents.",
		Trusted: []string{},
		Rules:   []func(*Ctx){ruleMissingModuleListsEverything, rulePathExpansionSeesTheRawValue, ruleLibrariesThroughRegisterModule, ruleLoopMarkerPrivate, rulePackageTableInRegistry, ruleModuleNameDots, ruleSentinel, ruleOrder, ruleModulePublishes, ruleSearchersReadOnly, ruleRegisterModuleAdds, ruleFindTableRaw},
	})
}

func ruleSwap(c *Ctx) {
	const R = "R18-swap"
	c.floor(R, 5)
	p := c.P
	valuesF := p.Field("lua", "lValueArraySorter", "Values")
	isValuesElem := func(v ssa.Value) (string, bool) {
		// load of Values[idx] where idx is a parameter
		u, ok := v.(*ssa.UnOp)
		if !ok || u.Op != token.MUL {
			return "", false
		}
		ia, ok := u.X.(*ssa.IndexAddr)
		if !ok {
			return "", false
		}
		if f, ok := ia.X.(*ssa.Field); !ok || fieldOfVal(f) != valuesF {
			if _, ok := loadsField(ia.X, valuesF); !ok {
				return "", false
			}
		}
		pm, ok := ia.Index.(*ssa.Parameter)
		if !ok {
			return "", false
		}
		return pm.Name(), true
	}
	if fn := c.need(R, "lua", "(lValueArraySorter).Swap"); fn != nil {
		stores := map[string]string{} // dest index -> source index
		other := 0
		allInstrs(fn, func(in ssa.Instruction) {
			switch x := in.(type) {
			case *ssa.Store:
				if a, isAlloc := x.Addr.(*ssa.Alloc); isAlloc && !a.Heap {
					return // spilled value receiver
				}
				ia, ok := x.Addr.(*ssa.IndexAddr)
				if !ok {
					other++
					return
				}
				pm, ok := ia.Index.(*ssa.Parameter)
				if !ok {
					other++
					return
				}
				src, ok := isValuesElem(x.Val)
				if !ok {
					other++
					return
				}
				stores[pm.Name()] = src
			case *ssa.Call, *ssa.MapUpdate, *ssa.Send, *ssa.Go, *ssa.Defer:
				other++
			}
		})
		okc := other == 0 && len(stores) == 2 && len(fn.Params) == 3
		if okc {
			i, j := fn.Params[1].Name(), fn.Params[2].Name()
			okc = stores[i] == j && stores[j] == i
		}
		c.check(okc, R, "Swap:pure-exchange", p.pos(fn.Pos()), "Values[i], Values[j] = Values[j], Values[i] and nothing else", "Swap is not a pure exchange: sorting can duplicate or lose elements (the result is no longer a permutation)")
	}
	if fn := c.need(R, "lua", "(lValueArraySorter).Len"); fn != nil {
		okc := false
		allInstrs(fn, func(in ssa.Instruction) {
			if r, ok := in.(*ssa.Return); ok {
				k := vkey(r.Results[0])
				okc = strings.HasPrefix(k, "len(") && strings.Contains(k, "Values")
			}
		})
		c.check(okc, R, "Len:len(Values)", p.pos(fn.Pos()), "the sorter's length is the array's length", "Len is not len(Values): elements are left out of the sort or indexed out of range")
	}
	if fn := c.need(R, "lua", "(lValueArraySorter).Less"); fn != nil {
		lt := p.Fn("lua", "lessThan")
		push := p.Fn("lua", "(*LState).Push")
		lsCall := p.Fn("lua", "(*LState).Call")
		g := p.G(fn)
		i, j := fn.Params[1].Name(), fn.Params[2].Name()
		okDirect := false
		for _, cl := range callsTo(fn, lt) {
			a, oka := isValuesElem(stripMI(cl.Call.Args[1]))
			b, okb := isValuesElem(stripMI(cl.Call.Args[2]))
			okDirect = oka && okb && a == i && b == j
		}
		c.check(okDirect, R, "Less:default→lessThan(Values[i],Values[j])", p.pos(fn.Pos()), "without a comparator the VM's own lessThan is applied to (Values[i], Values[j])", "the default order of table.sort is not lessThan(Values[i], Values[j])")
		okCmp := false
		for _, cl := range callsTo(fn, lsCall) {
			var pushed []ssa.Value
			for _, in := range cl.Block().Instrs {
				if in == ssa.Instruction(cl) {
					break
				}
				if isCallTo(in, push) {
					pushed = append(pushed, stripMI(in.(*ssa.Call).Call.Args[1]))
				}
			}
			na, _ := constInt(cl.Call.Args[1])
			nr, _ := constInt(cl.Call.Args[2])
			if len(pushed) == 3 && na == 2 && nr == 1 {
				a, oka := isValuesElem(pushed[1])
				b, okb := isValuesElem(pushed[2])
				okCmp = oka && okb && a == i && b == j && strings.Contains(vkey(pushed[0]), ").Fn")
			}
			_ = g
		}
		// the comparator's answer is its truth value (any value other than nil/false means "less")
		asBool := p.Fn("lua", "LVAsBool")
		pop := p.Fn("lua", "(*registry).Pop")
		okTruth := false
		allInstrs(fn, func(in ssa.Instruction) {
			r, ok := in.(*ssa.Return)
			if !ok || len(r.Results) != 1 {
				return
			}
			if call, ok := r.Results[0].(*ssa.Call); ok && call.Call.StaticCallee() == asBool {
				if inner, ok := call.Call.Args[0].(*ssa.Call); ok && inner.Call.StaticCallee() == pop {
					okTruth = true
				}
			}
		})
		c.check(okTruth, R, "Less:truth-value-of-result", p.pos(fn.Pos()), "the comparator's single result is converted with LVAsBool", "Less does not take the Lua truth value of the comparator's result (a comparator returning a truthy non-boolean, e.g. 'a < b and a', is read as false): the list is not ordered by lt")
		c.check(okCmp, R, "Less:comparator(Values[i],Values[j])", p.pos(fn.Pos()), "the comparator is called with exactly (Values[i], Values[j]) for one result", "the comparator is not called with exactly the two elements being compared, in order")
	}
	if fn := c.need(R, "lua", "tableSort"); fn != nil {
		arrF := p.Field("lua", "LTable", "array")
		okArr, okSort := false, false
		allInstrs(fn, func(in ssa.Instruction) {
			if st, ok := isFieldStore(in, valuesF); ok {
				v := st.Val
				if sl, ok := v.(*ssa.Slice); ok { // array[:Len()] shares the backing store: still in place
					v = sl.X
				}
				if _, ok := loadsField(v, arrF); ok {
					okArr = true
				}
			}
			if pk, n, ok := stdCall(in); ok && pk == "sort" && (n == "Sort" || n == "Stable") {
				okSort = true
			}
		})
		c.check(okArr && okSort, R, "tableSort:in-place-on-array", p.pos(fn.Pos()), "sorts the table's own array slice through package sort", "table.sort does not sort the table's own array part in place")
	}
}

func ruleDelegate(c *Ctx) {
	const R = "R18-delegate"
	c.floor(R, 7)
	p := c.P
	type spec struct {
		fn, callee string
		args       []string // expected substrings of vkey per argument after the receiver
	}
	specs := []spec{
		{"tableInsert", "(*LTable).Append", []string{"Get(p:L,c:2)"}},
		{"tableInsert", "(*LTable).Insert", []string{"CheckInt(p:L,c:2)", "CheckAny(p:L,c:3)"}},
		{"tableRemove", "(*LTable).Remove", nil},
		{"tableGetN", "(*LTable).Len", nil},
		{"tableMaxN", "(*LTable).MaxN", nil},
		{"tableConcat", "(*LTable).RawGetInt", nil},
		{"baseUnpack", "(*LTable).RawGetInt", nil},
		{"ipairsaux", "(*LTable).RawGetInt", nil},
	}
	for _, s := range specs {
		fn := c.need(R, "lua", s.fn)
		callee := p.Fn("lua", s.callee)
		if fn == nil || callee == nil {
			continue
		}
		calls := callsTo(fn, callee)
		okc := len(calls) >= 1
		if okc && s.args != nil {
			okc = false
			for _, cl := range calls {
				match := len(cl.Call.Args)-1 == len(s.args)
				for i, want := range s.args {
					if match && !strings.Contains(vkey(cl.Call.Args[1+i]), want) {
						match = false
					}
				}
				if match {
					okc = true
				}
			}
		}
		// receiver is the checked table argument #1
		if okc {
			recvOK := false
			for _, cl := range calls {
				if strings.Contains(vkey(cl.Call.Args[0]), "CheckTable(p:L,c:1)") {
					recvOK = true
				}
			}
			okc = recvOK
		}
		c.check(okc, R, s.fn+"→"+s.callee, p.pos(fn.Pos()), "operates on argument #1 through "+s.callee+" with the documented argument positions", s.fn+" does not reach the list through "+s.callee+" with its arguments in the documented positions")
	}
	// (*LTable).Remove: every arm that takes an element out shrinks the array by exactly one
	if fn := c.need(R, "lua", "(*LTable).Remove"); fn != nil {
		g := p.G(fn)
		arrF := p.Field("lua", "LTable", "array")
		isShrink := func(in ssa.Instruction) bool {
			st, ok := isFieldStore(in, arrF)
			if !ok {
				return false
			}
			sl, ok := st.Val.(*ssa.Slice)
			if !ok || sl.High == nil {
				return false
			}
			b, ok := stripConv(sl.High).(*ssa.BinOp)
			if !ok || b.Op != token.SUB {
				return false
			}
			k, ok := constInt(b.Y)
			if !ok || k != 1 {
				return false
			}
			// len(array) - 1, or Len() - 1: the list length taken at the border
			if strings.HasPrefix(vkey(b.X), "len(") {
				return true
			}
			cl, isCall := stripConv(b.X).(*ssa.Call)
			return isCall && cl.Call.StaticCallee() == p.Fn("lua", "(*LTable).Len")
		}
		n, bad := 0, 0
		var first ssa.Instruction
		allInstrs(fn, func(in ssa.Instruction) {
			u, ok := in.(*ssa.UnOp)
			if !ok || u.Op != token.MUL || !g.Live(in) {
				return
			}
			ia, ok := u.X.(*ssa.IndexAddr)
			if !ok {
				return
			}
			if _, ok := loadsField(ia.X, arrF); !ok {
				return
			}
			n++
			blk, i := after(in)
			if okp, _ := g.MustPassBefore(blk, i, isShrink, isReturn); !okp {
				bad++
				if first == nil {
					first = in
				}
			}
		})
		pos := p.pos(fn.Pos())
		if first != nil {
			pos = p.ipos(first)
		}
		c.check(n >= 2 && bad == 0, R, "Remove:shrinks-by-one", pos, fmt.Sprintf("all %d arms that take an element out re-slice the array to len-1", n), "an arm of (*LTable).Remove takes an element out without shrinking the array by one: a trailing nil slot stays behind, so a later table.remove(t) returns nil and table.sort compares nil")
	}
	// table.remove without position removes the last element: Remove(-1)
	if fn := p.Fn("lua", "tableRemove"); fn != nil {
		okc := false
		for _, cl := range callsTo(fn, p.Fn("lua", "(*LTable).Remove")) {
			if k, ok := constInt(cl.Call.Args[1]); ok && k == -1 {
				okc = true
			}
			// or the reference form: pos = optint(2, #t)
			if oc, ok := stripConv(cl.Call.Args[1]).(*ssa.Call); ok && oc.Call.StaticCallee() == p.Fn("lua", "(*LState).OptInt") {
				if lc, ok := stripConv(oc.Call.Args[2]).(*ssa.Call); ok && lc.Call.StaticCallee() == p.Fn("lua", "(*LTable).Len") {
					okc = true
				}
			}
		}
		c.check(okc, R, "tableRemove:default-last", p.pos(fn.Pos()), "without a position the last element is removed", "table.remove(t) no longer removes the last element")
		// positions outside 1..#t remove nothing and yield no value: the Remove call is guarded on both sides
		g := p.G(fn)
		okRange := false
		for _, cl := range callsTo(fn, p.Fn("lua", "(*LTable).Remove")) {
			up, lo, hasUp, hasLo := boundsSym(g, cl, cl.Call.Args[1])
			_ = up
			_ = lo
			if hasUp && hasLo && lo >= 1 {
				okRange = true
			}
		}
		c.check(okRange, R, "tableRemove:position-in-1..n", p.pos(fn.Pos()), "Remove is reached only for 1 <= pos <= #t", "table.remove passes any position to LTable.Remove: position 0 removes the last element and a position on an empty list yields a nil result instead of none")
	}
}

// ---------------------------------------------------------------------------------------------

func ruleSentinel(c *Ctx) {
	const R = "R20-sentinel"
	c.floor(R, 6)
	p := c.P
	p.computeNoReturn()
	fn := c.need(R, "lua", "loRequire")
	if fn == nil {
		return
	}
	g := p.G(fn)
	getField := p.Fn("lua", "(*LState).GetField")
	setField := p.Fn("lua", "(*LState).SetField")
	lsCall := p.Fn("lua", "(*LState).Call")
	asBool := p.Fn("lua", "LVAsBool")
	// the sentinel: a package-level object (the pinned tree) or the per-state object kept in Global (F106);
	// as a value: a load from that global, or (a MakeInterface of) a load of that field
	sentinel := p.Global("lua", "loopdetection")
	sentF := p.Field("lua", "Global", "loopDetection")
	isSentinel := func(v ssa.Value) bool {
		v = stripMI(v)
		if _, ok := loadsField(v, sentF); ok && sentF != nil {
			return true
		}
		u, ok := v.(*ssa.UnOp)
		return ok && sentinel != nil && u.X == ssa.Value(sentinel)
	}
	// cache lookup: GetField(loaded, name) whose result feeds LVAsBool
	var cacheTest *ssa.Call
	for _, cl := range callsTo(fn, asBool) {
		if arg, ok := cl.Call.Args[0].(*ssa.Call); ok && arg.Call.StaticCallee() == getField {
			cacheTest = cl
		}
	}
	if cacheTest == nil {
		c.bad(R, "cache-lookup", p.pos(fn.Pos()), "require does not test package.loaded[name] first")
		return
	}
	calls := callsTo(fn, lsCall)
	okDom := len(calls) >= 2
	for _, cl := range calls {
		guard := false
		for _, cd := range g.CondsAtInstr(cl) {
			if cd.V == ssa.Value(cacheTest) && !cd.Sense {
				guard = true
			}
		}
		if !guard {
			okDom = false
		}
	}
	c.check(okDom, R, "cache-before-loaders", p.ipos(cacheTest), "every loader/searcher call is reached only when package.loaded[name] was false/nil", "a loader can run although the module is already cached (the early return no longer dominates the loader calls)")
	// sentinel test raises
	okRaise := false
	allInstrs(fn, func(in ssa.Instruction) {
		iff, ok := in.(*ssa.If)
		if !ok {
			return
		}
		b, ok := iff.Cond.(*ssa.BinOp)
		if !ok || b.Op != token.EQL {
			return
		}
		if (isSentinel(b.X) || isSentinel(b.Y)) && g.Cut[iff.Block().Succs[0]] >= 0 {
			for _, cd := range g.CondsAt(iff.Block()) {
				if cd.V == ssa.Value(cacheTest) && cd.Sense {
					okRaise = true
				}
			}
		}
	})
	c.check(okRaise, R, "loop-detected→raise", p.pos(fn.Pos()), "finding the sentinel in the cache raises the loop error", "a module that requires itself is not reported: the sentinel is returned as the module value")
	// sentinel store before the module call
	var sentStore *ssa.Call
	for _, cl := range callsTo(fn, setField) {
		if isSentinel(cl.Call.Args[3]) {
			sentStore = cl
		}
	}
	var modCall *ssa.Call
	if sentStore != nil {
		for _, cl := range calls {
			if g.Dominates(sentStore, cl) {
				modCall = cl
			}
		}
	}
	c.check(sentStore != nil && modCall != nil, R, "sentinel-before-module-call", p.pos(fn.Pos()), "package.loaded[name] = sentinel dominates the call of the module function", "the loop sentinel is not in place while the module function runs: a module requiring itself recurses until the stack overflows")
	if sentStore != nil {
		// searcher calls come before the sentinel (a failing search must not leave the sentinel behind)
		early := false
		for _, cl := range calls {
			if cl != modCall && g.Dominates(sentStore, cl) {
				early = true
			}
		}
		c.check(!early, R, "sentinel-after-search", p.ipos(sentStore), "the sentinel is stored only once a loader was found", "the sentinel is stored before the searchers ran: a missing module leaves the sentinel in package.loaded and later requires report a loop")
	}
	if modCall != nil {
		b, i := after(modCall)
		isCacheStore := func(in ssa.Instruction) bool {
			if isCallTo(in, setField) && !isSentinel(in.(*ssa.Call).Call.Args[3]) {
				return true
			}
			// the loader replaced the sentinel itself: block reached with (modv == sentinel) false
			if in == in.Block().Instrs[0] {
				conds := g.CondsAt(in.Block())
				for _, cd := range conds {
					if bb, ok := cd.V.(*ssa.BinOp); ok && neHolds(bb, cd) && (isSentinel(bb.X) || isSentinel(bb.Y)) {
						// and not the negation of the same test earlier on the chain
						return true
					}
				}
			}
			return false
		}
		okStore, hit := g.MustPassBefore(b, i, isCacheStore, isReturn)
		pos := p.ipos(modCall)
		if hit != nil {
			pos = p.ipos(hit)
		}
		c.check(okStore, R, "result-cached-on-every-path", pos, "after the module function returns, every path caches a value (or the loader stored one itself)", "require can return without replacing the sentinel: the next require of the module reports a loop / runs the loader again")
		// what require returns is what the cache holds
		push := p.Fn("lua", "(*LState).Push")
		np := 0
		for _, pu := range callsTo(fn, push) {
			if !g.Dominates(modCall, pu) {
				continue
			}
			np++
			v := stripMI(pu.Call.Args[1])
			same := false
			for _, st := range callsTo(fn, setField) {
				if (stripMI(st.Call.Args[3]) == v || vkey(st.Call.Args[3]) == vkey(v)) && g.Dominates(st, pu) {
					same = true
				}
			}
			if call, ok := v.(*ssa.Call); ok && call.Call.StaticCallee() == getField && g.Dominates(modCall, call) {
				same = true // re-read from package.loaded after the loader ran
			}
			c.check(same, R, fmt.Sprintf("returns-cached-value#%d", np), p.ipos(pu), "the value returned is the value just cached (or re-read from the cache)", "require returns a value that is not the one in package.loaded[name]: the first require and every later one return different values")
		}
		// nil result caches true
		okTrue := false
		for _, cl := range callsTo(fn, setField) {
			if strings.Contains(vkey(cl.Call.Args[3]), "g:LTrue") && g.Dominates(modCall, cl) {
				okTrue = true
			}
		}
		c.check(okTrue, R, "nil-result-caches-true", p.pos(fn.Pos()), "a loader that returns nothing caches true", "a loader returning nothing is not cached as true")
	}
}

func ruleOrder(c *Ctx) {
	const R = "R20-order"
	c.floor(R, 7)
	p := c.P
	pk := p.Pkg("lua")
	obj := p.Obj("lua", "loLoaders")
	var names []string
	for _, f := range pk.Syntax {
		ast.Inspect(f, func(n ast.Node) bool {
			vs, ok := n.(*ast.ValueSpec)
			if !ok {
				return true
			}
			for i, id := range vs.Names {
				if pk.TypesInfo.Defs[id] == obj && i < len(vs.Values) {
					if cl, ok := vs.Values[i].(*ast.CompositeLit); ok {
						for _, e := range cl.Elts {
							if id, ok := e.(*ast.Ident); ok {
								if _, isF := pk.TypesInfo.Uses[id].(*types.Func); isF {
									names = append(names, id.Name)
								}
							}
						}
					}
				}
			}
			return true
		})
	}
	okc := len(names) >= 2 && names[0] == "loLoaderPreload"
	c.check(okc, R, "loLoaders:preload-first", "-", fmt.Sprintf("searchers in order %v", names), fmt.Sprintf("the preload searcher is not first in loLoaders (%v): a file on package.path shadows a preloaded module", names))
	setField := p.Fn("lua", "(*LState).SetField")
	getField := p.Fn("lua", "(*LState).GetField")
	if fn := c.need(R, "lua", "OpenPackage"); fn != nil {
		byName := map[string]ssa.Value{}
		for _, cl := range callsTo(fn, setField) {
			if s, ok := constStr(cl.Call.Args[2]); ok {
				byName[s] = cl.Call.Args[3]
			}
		}
		same := func(a, b string) bool {
			return byName[a] != nil && byName[b] != nil && stripMI(byName[a]) == stripMI(byName[b])
		}
		// package.loaded IS the registry's _LOADED table: either one value is stored under both names, or
		// (the reference implementation's form) the value published as package.loaded is read from the
		// registry's _LOADED and _LOADED is not replaced — only then do modules registered before the package
		// library was opened stay reachable through require (F31)
		findT := p.Fn("lua", "(*LState).FindTable")
		fromRegistry := false
		if v := byName["loaded"]; v != nil && byName["_LOADED"] == nil {
			if cl, ok := stripMI(v).(*ssa.Call); ok && (cl.Call.StaticCallee() == findT || cl.Call.StaticCallee() == getField) {
				for _, a := range cl.Call.Args {
					if s, ok := constStr(a); ok && s == "_LOADED" {
						fromRegistry = true
					}
				}
			}
		}
		replaced := byName["_LOADED"] != nil
		c.check(fromRegistry || same("loaded", "_LOADED"), R, "OpenPackage:loaded=_LOADED", p.pos(fn.Pos()), "package.loaded and the registry's _LOADED are the same table", "package.loaded and _LOADED are different tables: modules cached by require are invisible to package.loaded (and vice versa)")
		c.check(!replaced, R, "OpenPackage:keeps-existing-_LOADED", p.pos(fn.Pos()), "the _LOADED table that already holds the host's modules is kept", "OpenPackage installs a fresh _LOADED table: every module registered before it (the package library itself, and the base library if it is opened first) disappears from package.loaded, so require(\"package\") reports 'module not found'")
		c.check(same("loaders", "_LOADERS"), R, "OpenPackage:loaders=_LOADERS", p.pos(fn.Pos()), "package.loaders and _LOADERS are the same table", "package.loaders and _LOADERS differ")
		c.check(byName["preload"] != nil, R, "OpenPackage:preload-table", p.pos(fn.Pos()), "package.preload exists", "package.preload is not created")
		// loaders filled in list order
		rsi := p.Fn("lua", "(*LState).RawSetInt")
		okIdx := false
		for _, cl := range callsTo(fn, rsi) {
			if b, ok := stripConv(cl.Call.Args[2]).(*ssa.BinOp); ok && b.Op == token.ADD {
				if k, ok := constInt(b.Y); ok && k == 1 {
					okIdx = true
				}
			}
		}
		c.check(okIdx, R, "OpenPackage:loaders-in-order", p.pos(fn.Pos()), "loaders[i+1] = loLoaders[i]", "the searcher table is not filled in list order")
	}
	if fn := c.need(R, "lua", "(*LState).RegisterModule"); fn != nil {
		find := p.Fn("lua", "(*LState).FindTable")
		inLoaded, inGlobals := false, false
		for _, cl := range callsTo(fn, setField) {
			if strings.Contains(vkey(cl.Call.Args[1]), "_LOADED") || strings.Contains(vkey(cl.Call.Args[1]), "FindTable") {
				inLoaded = true
			}
		}
		gi, _ := p.intConst("lua", "GlobalsIndex")
		for _, cl := range callsTo(fn, find) {
			if strings.Contains(vkey(cl.Call.Args[1]), fmt.Sprintf("c:%d", gi)) {
				inGlobals = true
			}
		}
		// the table is (re)created unless the cached entry already IS a table: a sentinel, true or any other
		// non-table left in package.loaded must not be handed out as the module
		g := p.G(fn)
		ltTable, _ := p.intConst("lua", "LTTable")
		okGuard := false
		for _, cl := range callsTo(fn, find) {
			if !strings.Contains(vkey(cl.Call.Args[1]), fmt.Sprintf("c:%d", gi)) {
				continue
			}
			for _, cd := range g.CondsAtInstr(cl) {
				if b, ok := cd.V.(*ssa.BinOp); ok {
					if k, isc := constInt(b.Y); isc && k == ltTable && strings.Contains(vkey(b.X), ".Type()") {
						if (b.Op == token.NEQ && cd.Sense) || (neHolds(b, cd)) {
							okGuard = true
						}
					}
				}
				if ex, ok := cd.V.(*ssa.Extract); ok && !cd.Sense {
					if ta, ok := ex.Tuple.(*ssa.TypeAssert); ok && strings.Contains(ta.AssertedType.String(), "LTable") {
						okGuard = true
					}
				}
			}
		}
		c.check(okGuard, R, "RegisterModule:creates-unless-table", p.pos(fn.Pos()), "the module table is created whenever the cached entry is not a table", "RegisterModule hands out whatever non-nil value sits in package.loaded[name] (the loop sentinel while a loader runs, or 'true' left by an earlier load) instead of creating the module table: the module is reachable neither through require nor through its global name")
		c.check(inLoaded && inGlobals, R, "RegisterModule:loaded-and-global", p.pos(fn.Pos()), "the module table is created under its global name and stored in _LOADED[name]", "a host-registered module is not reachable both through require and through its global name")
	}
	if fn := c.need(R, "lua", "(*LState).PreloadModule"); fn != nil {
		okp := false
		for _, cl := range callsTo(fn, setField) {
			k := vkey(cl.Call.Args[1])
			if strings.Contains(k, `c:"preload"`) {
				okp = true
			}
		}
		c.check(okp, R, "PreloadModule:writes-package.preload", p.pos(fn.Pos()), "the loader is stored in package.preload[name]", "PreloadModule does not store the loader in package.preload")
	}
	if fn := c.need(R, "lua", "loLoaderPreload"); fn != nil {
		okp := false
		for _, cl := range callsTo(fn, getField) {
			if s, ok := constStr(cl.Call.Args[2]); ok && s == "preload" {
				okp = true
			}
		}
		c.check(okp, R, "loLoaderPreload:reads-package.preload", p.pos(fn.Pos()), "the preload searcher reads package.preload", "the preload searcher does not read package.preload")
	}
}

// ruleArrayReaders: the array part of a table may be longer than the list it holds (t[#t] = nil leaves a
// trailing nil slot). Library code must therefore go through Len()/RawGetInt; the only function outside
// table.go that touches the slice is table.sort, which must sort array[:Len()].
func ruleArrayReaders(c *Ctx) {
	const R = "R18-arrayowner"
	c.floor(R, 1)
	p := c.P
	arr := p.Field("lua", "LTable", "array")
	lenM := p.Fn("lua", "(*LTable).Len")
	if arr == nil || lenM == nil {
		c.und(R, "anchors", "-", "LTable.array / (*LTable).Len not found")
		return
	}
	for _, fn := range p.srcFuncs {
		if fn.Pkg == nil || fn.Pkg.Pkg.Path() != luaPath || recvNamed(fn) == "LTable" || fn.Name() == "newLTable" {
			continue
		}
		allInstrs(fn, func(in ssa.Instruction) {
			fa, ok := in.(*ssa.FieldAddr)
			if !ok || fieldOf(fa) != arr {
				return
			}
			c.Sites++
			key := "reader:" + fname(fn)
			// every use of the loaded slice must be a slice expression bounded by Len() of the same table
			okc := true
			why := ""
			for _, r := range *fa.Referrers() {
				ld, isLoad := r.(*ssa.UnOp)
				if !isLoad {
					okc, why = false, "the array part is written"
					continue
				}
				for _, u := range *ld.Referrers() {
					sl, isSlice := u.(*ssa.Slice)
					if !isSlice || sl.High == nil {
						okc, why = false, "the whole array part is used"
						continue
					}
					hc, isCall := stripConv(sl.High).(*ssa.Call)
					if !isCall || hc.Call.StaticCallee() != lenM || hc.Call.Args[0] != fa.X {
						okc, why = false, "the array part is not cut at Len()"
					}
				}
			}
			c.check(okc, R, key, p.ipos(in), "uses array[:Len()] only", fmt.Sprintf("%s reads LTable.array directly (%s): the physical array part can be longer than the list (t[#t] = nil leaves a trailing nil slot), so lengths and elements taken from it disagree with #t — unpack(t) returns extra nils, sort compares nil", fname(fn), why))
		})
	}
}

// boundsSym: the path condition bounds v from below by a constant and from above by something (a
// constant or another value): lo <= v <= X.
func boundsSym(g *PCFG, at ssa.Instruction, v ssa.Value) (up ssa.Value, lo int64, hasUp, hasLo bool) {
	vk := vkey(stripConv(v))
	for _, cd := range g.CondsAtInstr(at) {
		b, ok := cd.V.(*ssa.BinOp)
		if !ok {
			continue
		}
		op := b.Op
		if !cd.Sense {
			op = negate(op)
		}
		x, y := stripConv(b.X), stripConv(b.Y)
		if vkey(y) == vk && vkey(x) != vk {
			x, y = y, x
			op = flip(op)
		}
		if vkey(x) != vk {
			continue
		}
		switch op {
		case token.GEQ, token.GTR:
			if k, ok := constInt(y); ok {
				if op == token.GTR {
					k++
				}
				if !hasLo || k > lo {
					lo, hasLo = k, true
				}
			}
		case token.LEQ, token.LSS:
			up, hasUp = y, true
		}
	}
	return
}

// ruleTableLib: F58/F59. table.concat takes its range as given (no clamping helper between the
// arguments and the loop) and does not push one value per element onto the limited value stack;
// table.maxn looks at every key (a traversal), not at the array part alone.
func ruleTableLib(c *Ctx) {
	const R = "R18-lib"
	c.floor(R, 3)
	p := c.P
	if fn := c.need(R, "lua", "tableConcat"); fn != nil {
		g := p.G(fn)
		clamp := ""
		allInstrs(fn, func(in ssa.Instruction) {
			if sc := staticCallee(in); sc != nil && (sc.Name() == "intMin" || sc.Name() == "intMax") {
				clamp = sc.Name()
			}
		})
		c.check(clamp == "", R, "tableConcat:range-as-given", p.pos(fn.Pos()), "i and j are used as given", "table.concat clamps its range with "+clamp+": concat({'a','b','c'}, ',', 4, 3) returns 'c' instead of the empty string and an index of 0 is silently moved to 1 instead of raising")
		pushInLoop := false
		push := p.Fn("lua", "(*LState).Push")
		for _, li := range g.loops() {
			for b := range li.Body {
				for _, in := range b.Instrs {
					if isCallTo(in, push) && g.Live(in) {
						pushInLoop = true
					}
				}
			}
		}
		c.check(!pushInLoop, R, "tableConcat:not-assembled-on-the-value-stack", p.pos(fn.Pos()), "no push per element", "table.concat pushes every element (and separator) onto the value stack before joining them: a list longer than about half the registry size raises 'registry overflow'")
	}
	if fn := c.need(R, "lua", "tableMaxN"); fn != nil {
		traverses := false
		fe, nx := p.Fn("lua", "(*LTable).ForEach"), p.Fn("lua", "(*LTable).Next")
		allInstrs(fn, func(in ssa.Instruction) {
			if isCallTo(in, fe, nx) {
				traverses = true
			}
		})
		c.check(traverses, R, "tableMaxN:all-keys", p.pos(fn.Pos()), "every key is visited", "table.maxn looks at the array part only: maxn({[1e9] = 1}) is 0")
	}
}
