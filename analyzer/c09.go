package main

// C09 — a table is a finite map with a valid border and complete traversal.

import (
	"fmt"
	"go/token"
	"go/types"
	"strings"

	"golang.org/x/tools/go/ssa"
)

func init() {
	register(&propInfo{
		ID:    "C09",
		Title: "A table is a finite map with a valid length border and complete traversal",
		Explanation: "Decided: R09-route — the four keyed accessors (RawSet, RawSetInt, RawGet, RawGetInt) route a key to the same part: every exit is reached either with the array predicate established (isArrayKey true, or for an int key both 1 <= k and k < MaxArrayIndex) or after the hash part was consulted, and all forms of the predicate denote the same half-open interval [1, MaxArrayIndex); " +
			"R09-owner — only RawSetString/RawSetH (and the constructor) write strdict/dict, each insertion is followed by the not-present test that appends to keys and k2i in the same arm, keys only ever grows by append and nothing deletes from k2i (traversal positions are stable under deletion); " +
			"R09-rawkey — every call of (*LTable).RawSet/RawSetH with a key that is not typed (int-converted number or string) goes through (*LState).RawSet, whose nil and NaN tests raise before the store; R09-next — Next consults keys/k2i only through RawGetH and returns LNil,LNil at exhaustion. " +
			"NOT decided: value-most-recently-stored, the border property of Len, exactly-once traversal — history properties.",
		Trusted: []string{"Go map semantics for dict/strdict"},
		Rules:   []func(*Ctx){ruleListHelpersUseTheBorder, ruleSetlistOffsetAfterBatchRead, ruleArrayPresenceIsNotNil, ruleSiblings, ruleInsertShiftsWhateverTheValue, ruleSetFieldStores, ruleInsertBoundary, ruleRoute, ruleOwner, ruleRawKey, ruleApiHoles, ruleDelegate, ruleFloatKeyToIndex},
	})
}

func (p *Prog) maxArrayIndexGlobal() *ssa.Global {
	g := p.Global("lua", "MaxArrayIndex")
	return g
}

// isLoadOfGlobal: v is (a conversion of) a load of global g.
func isLoadOfGlobal(v ssa.Value, g *ssa.Global) bool {
	v = stripConv(v)
	u, ok := v.(*ssa.UnOp)
	return ok && u.Op == token.MUL && u.X == ssa.Value(g)
}

// intArrayPred: conds establish 1 <= key < MaxArrayIndex for the int value key.
func intArrayPred(p *Prog, conds []Cond, key ssa.Value) (lower, upper bool, upperForm string) {
	_, lo, _, hasLo := boundsConds(conds, key)
	lower = hasLo && lo >= 1
	mg := p.maxArrayIndexGlobal()
	for _, cd := range conds {
		b, ok := cd.V.(*ssa.BinOp)
		if !ok {
			continue
		}
		if stripConv(b.X) == stripConv(key) && isLoadOfGlobal(b.Y, mg) {
			op := b.Op
			if !cd.Sense {
				op = negate(op)
			}
			upperForm = "key " + op.String() + " MaxArrayIndex"
			if op == token.LSS {
				upper = true
			}
		}
	}
	return
}

func ruleRoute(c *Ctx) {
	const R = "R09-route"
	c.floor(R, 14)
	p := c.P
	isArrayKey := c.need(R, "lua", "isArrayKey")
	if isArrayKey == nil {
		return
	}
	mg := p.maxArrayIndexGlobal()
	dictF, strdictF := p.Field("lua", "LTable", "dict"), p.Field("lua", "LTable", "strdict")
	hashCallee := map[string]bool{"(*LTable).RawSetH": true, "(*LTable).RawGetH": true, "(*LTable).RawSetString": true, "(*LTable).RawGetString": true,
		"(*LTable).RawSet": true, "(*LTable).RawGet": true}
	isHashAccess := func(in ssa.Instruction) bool {
		if sc := staticCallee(in); sc != nil && hashCallee[fname(sc)] {
			return true
		}
		if u, ok := in.(*ssa.UnOp); ok {
			if _, ok := loadsField(u, dictF); ok {
				return true
			}
			if _, ok := loadsField(u, strdictF); ok {
				return true
			}
		}
		return false
	}
	// isArrayKey's own interval
	{
		lowerOK, upperOK := false, false
		allInstrs(isArrayKey, func(in ssa.Instruction) {
			b, ok := in.(*ssa.BinOp)
			if !ok {
				return
			}
			if _, isP := stripConv(b.X).(*ssa.Parameter); !isP {
				return
			}
			if k, ok := constInt(b.Y); ok {
				if (b.Op == token.GTR && k == 0) || (b.Op == token.GEQ && k == 1) {
					lowerOK = true
				}
			}
			if isLoadOfGlobal(b.Y, mg) && b.Op == token.LSS {
				upperOK = true
			}
		})
		c.check(lowerOK && upperOK, R, "isArrayKey:interval", p.pos(isArrayKey.Pos()), "array keys are the integers in [1, MaxArrayIndex)", "isArrayKey no longer tests v > 0 and v < MaxArrayIndex: the generic accessors and the int accessors disagree about where a key lives")
		// result must be a conjunction including isInteger
		hasInt := len(callsTo(isArrayKey, p.Fn("lua", "isInteger"))) > 0
		c.check(hasInt, R, "isArrayKey:integral", p.pos(isArrayKey.Pos()), "array keys must be integral", "isArrayKey accepts non-integral numbers (1.5 would alias slot 1)")
	}
	for _, name := range []string{"(*LTable).RawSet", "(*LTable).RawSetInt", "(*LTable).RawGet", "(*LTable).RawGetInt"} {
		fn := c.need(R, "lua", name)
		if fn == nil {
			continue
		}
		g := p.G(fn)
		var keyParam *ssa.Parameter
		for _, pm := range fn.Params {
			if pm.Name() == "key" {
				keyParam = pm
			}
		}
		if keyParam == nil && len(fn.Params) > 1 {
			keyParam = fn.Params[1]
		}
		intKey := false
		if bt, ok := keyParam.Type().Underlying().(*types.Basic); ok && bt.Info()&types.IsInteger != 0 {
			intKey = true
		}
		n := 0
		allInstrs(fn, func(in ssa.Instruction) {
			if !isReturn(in) || !g.Live(in) {
				return
			}
			n++
			c.Sites++
			key := fmt.Sprintf("%s:exit#%d", name, n)
			conds := g.CondsAtInstr(in)
			// (a) array predicate established
			arr := false
			form := ""
			if intKey {
				lo, up, uf := intArrayPred(p, conds, keyParam)
				arr = lo && up
				form = uf
				if lo && uf != "" && !up {
					c.bad(R, key, p.ipos(in), "exit guarded by '"+uf+"' — the array part covers [1, MaxArrayIndex), so the boundary key MaxArrayIndex is routed differently from RawSet/RawGet")
					return
				}
			} else {
				for _, cd := range conds {
					if call, ok := cd.V.(*ssa.Call); ok && cd.Sense && call.Call.StaticCallee() == isArrayKey {
						arr = true
					}
				}
			}
			if arr {
				c.ok(R, key, p.ipos(in), "reached with the array predicate established "+form)
				return
			}
			// (b) a hash access dominates the exit
			hashed := false
			allInstrs(fn, func(h ssa.Instruction) {
				if isHashAccess(h) && g.Live(h) && (g.Dominates(h, in) || (h.Block() == in.Block())) {
					hashed = true
				}
			})
			c.check(hashed, R, key, p.ipos(in), "the hash part was consulted on the way to this exit",
				"this exit is reached without the key being known to be an array key and without consulting the hash part: keys outside [1, MaxArrayIndex) that the setters store in the hash part are invisible here")
		})
	}
}

func ruleOwner(c *Ctx) {
	const R = "R09-owner"
	c.floor(R, 8)
	p := c.P
	fields := map[string]*types.Var{}
	for _, n := range []string{"dict", "strdict", "keys", "k2i", "array"} {
		fields[n] = p.Field("lua", "LTable", n)
		if fields[n] == nil {
			c.und(R, "anchor:LTable."+n, "-", "field not found")
			return
		}
	}
	allowed := map[string]map[string]bool{
		"dict":    {"(*LTable).RawSetH": true},
		"strdict": {"(*LTable).RawSetString": true, "newLTable": true},
		"keys":    {"(*LTable).RawSetH": true, "(*LTable).RawSetString": true},
		"k2i":     {"(*LTable).RawSetH": true, "(*LTable).RawSetString": true},
	}
	for _, fn := range p.srcFuncs {
		if fn.Pkg == nil || fn.Pkg.Pkg.Path() != luaPath {
			continue
		}
		allInstrs(fn, func(in ssa.Instruction) {
			for name, f := range fields {
				if name == "array" {
					continue
				}
				wrote, how := false, ""
				switch x := in.(type) {
				case *ssa.Store:
					if _, ok := isFieldStore(in, f); ok {
						wrote, how = true, "assigns the field"
						if name == "keys" {
							// only append(load keys, x) or a fresh empty literal
							v := x.Val
							okv := false
							if call, ok := v.(*ssa.Call); ok {
								if bi, ok := call.Call.Value.(*ssa.Builtin); ok && bi.Name() == "append" {
									if _, ok := loadsField(call.Call.Args[0], f); ok {
										okv = true
									}
								}
							}
							if sl, ok := v.(*ssa.Slice); ok {
								if _, fresh := sl.X.(*ssa.Alloc); fresh {
									okv = true // []LValue{} literal
								}
							}
							if !okv {
								c.bad(R, fmt.Sprintf("keys-shape:%s#%d", fname(fn), countKey(c, R, "ks"+fname(fn))), p.ipos(in), "the insertion-ordered key list is assigned something other than append(keys, k) or a fresh empty list: positions recorded in k2i are invalidated and traversal skips or repeats keys")
							}
						}
					}
					if ia, ok := x.Addr.(*ssa.IndexAddr); ok && name == "keys" {
						if _, ok := loadsField(ia.X, f); ok {
							wrote, how = true, "overwrites an element"
							c.bad(R, fmt.Sprintf("keys-elem:%s#%d", fname(fn), countKey(c, R, "ke"+fname(fn))), p.ipos(in), "an element of the key list is overwritten in place: k2i no longer maps keys to their positions")
						}
					}
				case *ssa.MapUpdate:
					if _, ok := loadsField(x.Map, f); ok {
						wrote, how = true, "map update"
					}
				case *ssa.Call:
					if bi, ok := x.Call.Value.(*ssa.Builtin); ok && bi.Name() == "delete" {
						if _, ok := loadsField(x.Call.Args[0], f); ok {
							wrote, how = true, "delete"
							if name == "k2i" {
								c.bad(R, fmt.Sprintf("k2i-delete:%s#%d", fname(fn), countKey(c, R, "kd"+fname(fn))), p.ipos(in), "an entry is deleted from k2i: next(t, k) for a key cleared during traversal no longer finds its position (traversal restarts or fails)")
							}
						}
					}
				}
				if !wrote {
					continue
				}
				c.Sites++
				key := fmt.Sprintf("writer:%s:%s", name, fname(fn))
				c.check(allowed[name][fname(fn)], R, key, p.ipos(in), "written by its owner ("+how+")", fmt.Sprintf("LTable.%s is written (%s) outside its owning accessor: the five cooperating structures can get out of step", name, how))
			}
		})
	}
	// Next: an integer key above the array part is either a hash key (continue after it in the key list) or
	// an array slot that has been removed since it was handed out (the array part is exhausted: start the
	// hash part). The two are told apart by membership in k2i — a comma-ok lookup (F60).
	if nx := p.Fn("lua", "(*LTable).Next"); nx != nil {
		member := false
		allInstrs(nx, func(in ssa.Instruction) {
			if lk, ok := in.(*ssa.Lookup); ok && lk.CommaOk {
				if _, ok := loadsField(lk.X, fields["k2i"]); ok {
					member = true
				}
			}
		})
		c.check(member, R, "Next:vanished-array-key-starts-hash-part", p.pos(nx.Pos()), "membership in k2i decides whether a key above the array part is a hash key", "LTable.Next treats every integer key above the array part as a hash key: when the array part has been shortened during a traversal (table.remove, which only clears existing fields) the lookup k2i[key] yields 0 and the first hash key is skipped")
	}
	// who may shrink the array part: Next() recognises "array exhausted" by index == len(array), so a plain
	// store must never shorten it (clearing fields during a traversal is allowed); only the list helper
	// Remove re-slices
	for _, fn := range p.srcFuncs {
		if fn.Pkg == nil || fn.Pkg.Pkg.Path() != luaPath {
			continue
		}
		allInstrs(fn, func(in ssa.Instruction) {
			st, ok := isFieldStore(in, fields["array"])
			if !ok {
				return
			}
			sl, ok := st.Val.(*ssa.Slice)
			if !ok {
				return
			}
			if _, ok := loadsField(sl.X, fields["array"]); !ok {
				return
			}
			c.Sites++
			c.check(fname(fn) == "(*LTable).Remove", R, "array-shrinker:"+fname(fn), p.ipos(in), "the array part is re-sliced only by the list helper Remove", fname(fn)+" shortens the array part on a plain store: next(t, k) for the key just cleared no longer recognises the end of the array part and skips the first hash key (traversal with clearing misses keys)")
		})
	}
	// in each owner: the insertion is followed by the not-present test that updates k2i and keys together
	for _, spec := range []struct{ fn, m string }{{"(*LTable).RawSetString", "strdict"}, {"(*LTable).RawSetH", "dict"}} {
		fn := c.need(R, "lua", spec.fn)
		if fn == nil {
			continue
		}
		g := p.G(fn)
		var ins, k2iUp, keysApp ssa.Instruction
		allInstrs(fn, func(in ssa.Instruction) {
			switch x := in.(type) {
			case *ssa.MapUpdate:
				if _, ok := loadsField(x.Map, fields[spec.m]); ok {
					ins = in
				}
				if _, ok := loadsField(x.Map, fields["k2i"]); ok {
					k2iUp = in
				}
			case *ssa.Store:
				if _, ok := isFieldStore(in, fields["keys"]); ok {
					if call, ok := x.Val.(*ssa.Call); ok {
						if bi, ok := call.Call.Value.(*ssa.Builtin); ok && bi.Name() == "append" {
							keysApp = in
						}
					}
				}
			}
		})
		okc := ins != nil && k2iUp != nil && keysApp != nil && k2iUp.Block() == keysApp.Block() && g.Dominates(ins, k2iUp)
		// the arm is under "not present in k2i"
		if okc {
			under := false
			for _, cd := range g.CondsAtInstr(k2iUp) {
				if ex, ok := cd.V.(*ssa.Extract); ok && !cd.Sense && ex.Index == 1 {
					if lk, ok := ex.Tuple.(*ssa.Lookup); ok && lk.CommaOk {
						if _, ok := loadsField(lk.X, fields["k2i"]); ok {
							under = true
						}
					}
				}
			}
			okc = under
			// position recorded = len(keys) before the append
			if okc {
				mu := k2iUp.(*ssa.MapUpdate)
				okc = strings.HasPrefix(vkey(mu.Value), "len(") && g.Dominates(k2iUp, keysApp) || idxIn(k2iUp.Block(), k2iUp) < idxIn(keysApp.Block(), keysApp) && strings.HasPrefix(vkey(mu.Value), "len(")
			}
		}
		c.check(okc, R, spec.fn+":insert-records-position", p.pos(fn.Pos()), "a new key gets k2i[key] = len(keys) and is appended to keys in the same not-present arm, after the value was stored", "an inserted key is not recorded in keys/k2i together under the not-present test: traversal misses it or visits it twice")
	}
}

func ruleRawKey(c *Ctx) {
	const R = "R09-rawkey"
	c.floor(R, 6)
	p := c.P
	p.computeNoReturn()
	tbRawSet := p.Fn("lua", "(*LTable).RawSet")
	tbRawSetH := p.Fn("lua", "(*LTable).RawSetH")
	lsRawSet := c.need(R, "lua", "(*LState).RawSet")
	if tbRawSet == nil || tbRawSetH == nil || lsRawSet == nil {
		return
	}
	typedKey := func(v ssa.Value) string {
		if mi, ok := v.(*ssa.MakeInterface); ok {
			x := mi.X
			if nt, ok := x.Type().(*types.Named); ok {
				switch nt.Obj().Name() {
				case "LString":
					return "LString"
				case "LNumber":
					if cv, ok := x.(*ssa.Convert); ok {
						if bt, ok := cv.X.Type().Underlying().(*types.Basic); ok && bt.Info()&types.IsInteger != 0 {
							return "LNumber(int)"
						}
					}
					if _, ok := x.(*ssa.Const); ok {
						return "LNumber(const)"
					}
				case "LBool":
					return "LBool"
				}
			}
		}
		return ""
	}
	for _, fn := range p.srcFuncs {
		if fn.Pkg == nil || fn.Pkg.Pkg.Path() != luaPath {
			continue
		}
		for _, target := range []*ssa.Function{tbRawSet, tbRawSetH} {
			for _, cl := range callsTo(fn, target) {
				c.touch(fn)
				c.Sites++
				key := fmt.Sprintf("%s→%s#%d", fname(fn), target.Name(), countKey(c, R, fname(fn)+target.Name()))
				k := cl.Call.Args[1]
				if t := typedKey(k); t != "" {
					c.ok(R, key, p.ipos(cl), "key is a typed "+t+" (cannot be nil or NaN)")
					continue
				}
				if fn == lsRawSet {
					continue // checked below
				}
				if recvNamed(fn) == "LTable" {
					// internal delegation: RawSet→RawSetH, Insert→RawSet… key comes from the accessor's own parameter
					if pm, ok := k.(*ssa.Parameter); ok && len(fn.Params) > 1 && pm == fn.Params[1] {
						c.okT(R, key, p.ipos(cl), "internal delegation of the accessor's own key parameter")
						continue
					}
				}
				c.bad(R, key, p.ipos(cl), "an arbitrary LValue key reaches the raw table store without passing (*LState).RawSet's nil/NaN checks: t[nil] / t[0/0] are stored instead of raising")
			}
		}
	}
	// LState.RawSet: nil and NaN raise before the store
	g := p.G(lsRawSet)
	stores := callsTo(lsRawSet, tbRawSet)
	if len(stores) != 1 {
		c.und(R, "LState.RawSet:store", p.pos(lsRawSet.Pos()), "expected exactly one call of (*LTable).RawSet")
		return
	}
	store := stores[0]
	nanOK, nilOK := false, false
	allInstrs(lsRawSet, func(in ssa.Instruction) {
		iff, ok := in.(*ssa.If)
		if !ok {
			return
		}
		tb := iff.Block().Succs[0]
		raises := g.Cut[tb] >= 0
		switch cv := iff.Cond.(type) {
		case *ssa.Call:
			if pk, n, ok := stdCall(cv); ok && pk == "math" && n == "IsNaN" && raises {
				// the test sits on the ok-edge of the LNumber assertion whose block dominates the store
				for _, cd := range g.CondsAt(iff.Block()) {
					if ex, ok := cd.V.(*ssa.Extract); ok && cd.Sense {
						if ta, ok := ex.Tuple.(*ssa.TypeAssert); ok && ta.X == ssa.Value(lsRawSet.Params[2]) && g.BlockDom(cd.At, store.Block()) {
							nanOK = true
						}
					}
				}
			}
		case *ssa.BinOp:
			if cv.Op == token.EQL && raises && g.BlockDom(iff.Block(), store.Block()) {
				if cv.X == ssa.Value(lsRawSet.Params[2]) || cv.Y == ssa.Value(lsRawSet.Params[2]) {
					if strings.Contains(vkey(cv.X)+vkey(cv.Y), "g:LNil") {
						nilOK = true
					}
				}
			}
		}
	})
	c.check(nanOK, R, "LState.RawSet:NaN-raises", p.pos(lsRawSet.Pos()), "a NaN key raises before the store", "a NaN key is no longer rejected before the store")
	c.check(nilOK, R, "LState.RawSet:nil-raises", p.pos(lsRawSet.Pos()), "a nil key raises before the store", "a nil key is no longer rejected before the store")
	// setField / baseRawSet go through LState.RawSet
	for _, name := range []string{"(*LState).setField", "baseRawSet", "(*LState).SetTable"} {
		fn := c.need(R, "lua", name)
		if fn == nil {
			continue
		}
		reach := len(callsTo(fn, lsRawSet)) > 0 || len(callsTo(fn, p.Fn("lua", "(*LState).setField"))) > 0
		c.check(reach && len(callsTo(fn, tbRawSet)) == 0, R, name+":via-LState.RawSet", p.pos(fn.Pos()), "stores through the validating RawSet", "stores with an arbitrary key bypass the validating RawSet")
	}
}
