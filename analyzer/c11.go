package main

// C11 — cancelling the context stops any running script.

import (
	"fmt"
	"go/token"
	"go/types"
	"strings"

	"golang.org/x/tools/go/ssa"
)

func init() {
	register(&propInfo{
		ID:    "C11",
		Title: "Cancelling the context stops any running script promptly with an error",
		Explanation: "Decided: R11-poll — in the loop installed by SetContext the handler dispatch is dominated, on every iteration, by the default arm of a non-blocking select whose only other case receives from L.ctx.Done(), and the Done arm raises; nothing but the two main loops indexes jumpTable; " +
			"R11-loopsel — byte-code is entered only through the LState.mainLoop field (no direct call of either loop), every function that stores a context into LState.ctx stores the context-aware loop into the same state's mainLoop (and the plain loop with a nil context), NewThread derives the child's context from the parent's with WithCancel and keeps the cancel function, kill() cancels it; " +
			"R11-block — on every path on which L.ctx is known non-nil, each potentially blocking channel operation (reflect Send/Recv/Select, native channel ops) is a select that includes a receive from L.ctx.Done(); R12-loops shared. " +
			"R11-threadctx — a new thread's context is derived from the state's context (the main thread's), not from the context of the coroutine that creates it, which is cancelled when that coroutine finishes: a context that is never done cannot change what nested coroutines do. NOT decided: promptness inside long-running host functions (string.rep, pattern matching, table.sort), the 'bounded by call depth' count.",
		Trusted: []string{"context.Context.Done() is closed when the context is done (stdlib contract)"},
		Rules:   []func(*Ctx){ruleCoroutineFromItsCreator, ruleChainLoopsCounted, ruleResumeConsultsContext, ruleSelectDispatchesFiredCase, ruleProtectedCallConsultsContext, rulePoll, ruleLoopSel, ruleBlock, ruleLoops, ruleThreadCtx, ruleHandlerLoopsBounded},
	})
}

// isDoneRecvChan: v is (reflect.ValueOf of) invoke Done() on a load of LState.ctx.
func (p *Prog) isCtxDone(v ssa.Value) bool {
	v = stripConv(v)
	if mi, ok := v.(*ssa.MakeInterface); ok {
		v = mi.X
	}
	call, ok := v.(*ssa.Call)
	if !ok {
		return false
	}
	if pk, n, ok := stdCall(call); ok && pk == "reflect" && n == "ValueOf" {
		return p.isCtxDone(call.Call.Args[0])
	}
	if !call.Call.IsInvoke() || call.Call.Method.Name() != "Done" {
		return false
	}
	_, ok = loadsField(call.Call.Value, p.Field("lua", "LState", "ctx"))
	return ok
}

func rulePoll(c *Ctx) {
	const R = "R11-poll"
	c.floor(R, 5)
	p := c.P
	p.computeNoReturn()
	setCtx := c.need(R, "lua", "(*LState).SetContext")
	if setCtx == nil {
		return
	}
	mlF := p.Field("lua", "LState", "mainLoop")
	var loop *ssa.Function
	allInstrs(setCtx, func(in ssa.Instruction) {
		if st, ok := isFieldStore(in, mlF); ok {
			if f, ok := st.Val.(*ssa.Function); ok {
				loop = f
			}
		}
	})
	if loop == nil {
		c.bad(R, "SetContext:installs-loop", p.pos(setCtx.Pos()), "SetContext does not install a main loop function")
		return
	}
	c.touch(loop)
	jt := p.Global("lua", "jumpTable")
	isDispatch := func(in ssa.Instruction) bool {
		call, ok := in.(*ssa.Call)
		if !ok || call.Call.IsInvoke() || call.Call.StaticCallee() != nil {
			return false
		}
		u, ok := call.Call.Value.(*ssa.UnOp)
		if !ok {
			return false
		}
		ia, ok := u.X.(*ssa.IndexAddr)
		return ok && ia.X == ssa.Value(jt)
	}
	g := p.G(loop)
	var dispatch []ssa.Instruction
	var selects []*ssa.Select
	allInstrs(loop, func(in ssa.Instruction) {
		if isDispatch(in) {
			dispatch = append(dispatch, in)
		}
		if s, ok := in.(*ssa.Select); ok {
			selects = append(selects, s)
		}
	})
	if len(dispatch) == 0 {
		c.bad(R, fname(loop)+":dispatch", p.pos(loop.Pos()), "the context-aware loop does not dispatch through jumpTable")
		return
	}
	okSel := len(selects) == 1 && !selects[0].Blocking && len(selects[0].States) == 1 &&
		selects[0].States[0].Dir == types.RecvOnly && p.isCtxDone(selects[0].States[0].Chan)
	pos := p.pos(loop.Pos())
	if len(selects) > 0 {
		pos = p.ipos(selects[0])
	}
	c.check(okSel, R, fname(loop)+":select-shape", pos, "one non-blocking select whose only case receives from L.ctx.Done()", "the poll is not a non-blocking select on L.ctx.Done() (a blocking select would stall the interpreter, a different channel would ignore cancellation)")
	if !okSel {
		return
	}
	sel := selects[0]
	for i, d := range dispatch {
		key := fmt.Sprintf("%s:dispatch#%d", fname(loop), i+1)
		// dominated by the select and on its default arm (index != 0)
		onDefault := false
		for _, cd := range g.CondsAtInstr(d) {
			b, ok := cd.V.(*ssa.BinOp)
			if !ok || b.Op != token.EQL {
				continue
			}
			ex, ok := b.X.(*ssa.Extract)
			if !ok || ex.Tuple != ssa.Value(sel) || ex.Index != 0 {
				continue
			}
			k, _ := constInt(b.Y)
			if (k == 0 && !cd.Sense) || (k == -1 && cd.Sense) {
				onDefault = true
			}
		}
		c.check(g.Dominates(sel, d) && onDefault, R, key+":after-poll", p.ipos(d), "dispatch happens only on the select's default arm", "an instruction can be dispatched without the context having been polled first (dispatch is not on the select's default arm)")
		// every cycle passes the select
		b, i2 := after(d)
		again := g.walk(b, i2, func(x ssa.Instruction) bool { return x == ssa.Instruction(sel) }, func(x ssa.Instruction) bool { return x == d })
		c.check(!again, R, key+":poll-every-iteration", p.ipos(d), "every path from one dispatch to the next passes the poll", "the loop can dispatch again without polling the context (poll hoisted out of the loop)")
	}
	// Done arm raises: from the index==0 successor, no dispatch reachable without passing the select
	for _, r := range *sel.Referrers() {
		ex, ok := r.(*ssa.Extract)
		if !ok || ex.Index != 0 {
			continue
		}
		for _, r2 := range *ex.Referrers() {
			b, ok := r2.(*ssa.BinOp)
			if !ok || b.Op != token.EQL {
				continue
			}
			k, _ := constInt(b.Y)
			for _, r3 := range *b.Referrers() {
				iff, ok := r3.(*ssa.If)
				if !ok || k != 0 {
					continue
				}
				doneArm := iff.Block().Succs[0]
				reaches := g.walk(doneArm, 0, func(x ssa.Instruction) bool { return x == ssa.Instruction(sel) }, func(x ssa.Instruction) bool { return isDispatch(x) })
				raises := g.Cut[doneArm] >= 0
				c.check(!reaches && raises, R, fname(loop)+":done-arm-raises", p.pos(doneArm.Instrs[0].Pos()), "the Done arm raises the context's error and never dispatches", "the Done arm does not raise (execution continues after cancellation)")
				// the raised message is ctx.Err()
				errUsed := false
				for _, x := range doneArm.Instrs {
					if call, ok := x.(*ssa.Call); ok && call.Call.IsInvoke() && call.Call.Method.Name() == "Err" {
						errUsed = true
					}
				}
				c.check(errUsed, R, fname(loop)+":done-arm-reason", p.pos(doneArm.Instrs[0].Pos()), "the error carries ctx.Err()", "the raised error does not carry the context's reason")
			}
		}
	}
	// who indexes jumpTable
	for _, fn := range p.srcFuncs {
		allInstrs(fn, func(in ssa.Instruction) {
			ia, ok := in.(*ssa.IndexAddr)
			if !ok || ia.X != ssa.Value(jt) {
				return
			}
			n := fname(fn)
			okw := n == "mainLoop" || fn == loop || strings.HasPrefix(fn.Name(), "init")
			c.check(okw, R, "jumpTable-user:"+n, p.ipos(in), "jumpTable is indexed only by the two main loops (and filled by init)", "a function other than the main loops dispatches through jumpTable: instructions run without the context poll")
		})
	}
}

func ruleLoopSel(c *Ctx) {
	const R = "R11-loopsel"
	c.floor(R, 8)
	p := c.P
	mlF := p.Field("lua", "LState", "mainLoop")
	ctxF := p.Field("lua", "LState", "ctx")
	plain := p.Fn("lua", "mainLoop")
	withCtx := p.Fn("lua", "mainLoopWithContext")
	if plain == nil || withCtx == nil || mlF == nil || ctxF == nil {
		c.und(R, "anchors", "-", "mainLoop/mainLoopWithContext/fields not found")
		return
	}
	// (a) no direct calls
	for _, fn := range p.srcFuncs {
		for _, target := range []*ssa.Function{plain, withCtx} {
			for _, cl := range callsTo(fn, target) {
				c.bad(R, "direct-call:"+fname(fn)+"→"+fname(target), p.ipos(cl), "a main loop is called directly instead of through LState.mainLoop: the state's context setting is bypassed")
			}
		}
	}
	// entries through the field
	n := 0
	for _, fn := range p.srcFuncs {
		allInstrs(fn, func(in ssa.Instruction) {
			call, ok := in.(*ssa.Call)
			if !ok {
				return
			}
			if base, ok := loadsField(call.Call.Value, mlF); ok {
				n++
				// the state passed as first argument must be the state whose field was loaded
				same := len(call.Call.Args) > 0 && vkey(call.Call.Args[0]) == vkey(base)
				c.check(same, R, fmt.Sprintf("entry:%s#%d", fname(fn), countKey(c, R, fname(fn))), p.ipos(in), "enters byte-code through the state's own mainLoop field", "mainLoop of one state is invoked on another state")
			}
		})
	}
	// (b) ctx stores paired with mainLoop stores
	for _, fn := range p.srcFuncs {
		var g *PCFG
		allInstrs(fn, func(in ssa.Instruction) {
			st, ok := isFieldStore(in, ctxF)
			if !ok {
				return
			}
			if g == nil {
				g = p.G(fn)
			}
			c.touch(fn)
			base := st.Addr.(*ssa.FieldAddr).X
			isNil := false
			if cst, ok := st.Val.(*ssa.Const); ok && cst.Value == nil {
				isNil = true
			}
			want := withCtx
			if isNil {
				want = plain
			}
			found := false
			allInstrs(fn, func(x ssa.Instruction) {
				s2, ok := isFieldStore(x, mlF)
				if !ok || s2.Addr.(*ssa.FieldAddr).X != base {
					return
				}
				if f, ok := s2.Val.(*ssa.Function); ok && f == want {
					if x.Block() == in.Block() || g.Dominates(x, in) {
						found = true
					}
				}
			})
			if !found && !isNil {
				// inductively: every store of a non-nil context installs the polling loop and only the nil
				// store removes it, so a state whose context is already non-nil runs the polling loop —
				// a store may skip the installation on exactly the paths that have found ctx non-nil
				var loopStores []ssa.Instruction
				allInstrs(fn, func(x ssa.Instruction) {
					if s2, ok := isFieldStore(x, mlF); ok && s2.Addr.(*ssa.FieldAddr).X == base {
						if f, ok := s2.Val.(*ssa.Function); ok && f == want {
							loopStores = append(loopStores, x)
						}
					}
				})
				if len(loopStores) > 0 {
					okAll := true
					for _, pr := range g.Preds(in.Block()) {
						_ = pr
					}
					// every path to the store either passes a loop store or carries "ctx != nil"
					okAll = g.holdsOnAllPathsOr(in.Block(), func(cd Cond) bool {
						b, ok := cd.V.(*ssa.BinOp)
						if !ok {
							return false
						}
						isNilC := func(v ssa.Value) bool { k, ok := v.(*ssa.Const); return ok && k.IsNil() }
						bx, lx := loadsField(b.X, ctxF)
						by, ly := loadsField(b.Y, ctxF)
						if !((lx && bx == base && isNilC(b.Y)) || (ly && by == base && isNilC(b.X))) {
							return false
						}
						return (b.Op == token.NEQ && cd.Sense) || (neHolds(b, cd))
					}, func(blk *ssa.BasicBlock) bool {
						for _, ls := range loopStores {
							if ls.Block() == blk {
								return true
							}
						}
						return false
					}, 0)
					if okAll {
						found = true
					}
				}
			}
			what := "context"
			if isNil {
				what = "nil context"
			}
			c.check(found, R, fmt.Sprintf("%s:ctx-store#%d", fname(fn), countKey(c, R, fname(fn)+"ctx")), p.ipos(in),
				"storing a "+what+" is paired with installing "+fname(want)+" on the same state",
				"LState.ctx is assigned a "+what+" without "+fname(want)+" being installed on the same state on that path: the context is never polled (or a nil context is dereferenced)")
		})
	}
	// NewThread: child context derived from the parent's, cancel kept
	if fn := c.need(R, "lua", "(*LState).NewThread"); fn != nil {
		okDerive, okCancel := false, false
		cancelF := p.Field("lua", "LState", "ctxCancelFn")
		allInstrs(fn, func(in ssa.Instruction) {
			if pk, n, ok := stdCall(in); ok && pk == "context" && n == "WithCancel" {
				// the parent is the creating thread's context or the main thread's (which the creating thread's
				// is derived from): cancelling the state's context reaches the coroutine either way
				mainF := p.Field("lua", "Global", "MainThread")
				var okv func(v ssa.Value, d int) bool
				okv = func(v ssa.Value, d int) bool {
					if d > 4 {
						return false
					}
					if base, ok := loadsField(v, p.Field("lua", "LState", "ctxParent")); ok {
						if _, isRecv := base.(*ssa.Parameter); isRecv {
							return true
						}
					}
					if base, ok := loadsField(v, ctxF); ok {
						if _, isRecv := base.(*ssa.Parameter); isRecv {
							return true
						}
						if _, ok := loadsField(base, mainF); ok {
							return true
						}
						if ph, ok := base.(*ssa.Phi); ok {
							_ = ph
						}
						return false
					}
					if ph, ok := v.(*ssa.Phi); ok {
						for _, e := range ph.Edges {
							if !okv(e, d+1) {
								return false
							}
						}
						return len(ph.Edges) > 0
					}
					return false
				}
				if okv(in.(*ssa.Call).Call.Args[0], 0) {
					okDerive = true
				}
			}
			if st, ok := isFieldStore(in, cancelF); ok {
				if ex, ok := st.Val.(*ssa.Extract); ok && ex.Index == 1 {
					okCancel = true
				}
			}
		})
		c.check(okDerive, R, "NewThread:child-of-parent-ctx", p.pos(fn.Pos()), "the coroutine's context is derived from the creating thread's or the main thread's context", "a coroutine's context is derived neither from its creator's nor from the main thread's context: cancelling the state's context does not stop the coroutine")
		c.check(okCancel, R, "NewThread:keeps-cancel", p.pos(fn.Pos()), "the cancel function is stored for kill()", "the child's cancel function is dropped")
	}
	if fn := c.need(R, "lua", "(*LState).kill"); fn != nil {
		cancelF := p.Field("lua", "LState", "ctxCancelFn")
		okc := false
		allInstrs(fn, func(in ssa.Instruction) {
			if call, ok := in.(*ssa.Call); ok {
				if _, ok := loadsField(call.Call.Value, cancelF); ok {
					okc = true
				}
			}
		})
		c.check(okc, R, "kill:cancels-child-ctx", p.pos(fn.Pos()), "kill() releases the child context", "kill() no longer cancels the coroutine's context")
	}
}

func ruleBlock(c *Ctx) {
	const R = "R11-block"
	c.floor(R, 4)
	p := c.P
	ctxF := p.Field("lua", "LState", "ctx")
	for _, fn := range p.srcFuncs {
		if fn.Pkg == nil || fn.Pkg.Pkg.Path() != luaPath {
			continue
		}
		var blocking []ssa.Instruction
		kind := map[ssa.Instruction]string{}
		allInstrs(fn, func(in ssa.Instruction) {
			switch x := in.(type) {
			case *ssa.Send:
				blocking = append(blocking, in)
				kind[in] = "native send"
			case *ssa.UnOp:
				if x.Op == token.ARROW {
					blocking = append(blocking, in)
					kind[in] = "native receive"
				}
			case *ssa.Select:
				if x.Blocking {
					blocking = append(blocking, in)
					kind[in] = "native select"
				}
			case *ssa.Call:
				if pk, n, ok := stdCall(in); ok && pk == "reflect" {
					switch n {
					case "Value.Send", "Value.Recv", "Select":
						blocking = append(blocking, in)
						kind[in] = "reflect." + n
					}
				}
			}
		})
		if len(blocking) == 0 {
			continue
		}
		if !strings.HasPrefix(fname(fn), "channel") {
			// blocking primitives outside the channel library (none today) are reported as-is
		}
		c.touch(fn)
		g := p.G(fn)
		// Done-case constructions: stores of a ctx.Done()-derived value (into a SelectCase.Chan field)
		isDoneBuild := func(in ssa.Instruction) bool {
			if st, ok := in.(*ssa.Store); ok {
				return p.isCtxDone(st.Val)
			}
			return false
		}
		// does the blocking op itself carry Done? (native select with a Done state)
		for _, b := range blocking {
			key := fmt.Sprintf("%s:%s#%d", fname(fn), kind[b], countKey(c, R, fname(fn)+kind[b]))
			c.Sites++
			if s, ok := b.(*ssa.Select); ok {
				has := false
				for _, st := range s.States {
					if p.isCtxDone(st.Chan) {
						has = true
					}
				}
				if has {
					c.ok(R, key, p.ipos(b), "select includes a receive from L.ctx.Done()")
					continue
				}
			}
			// walk from entry following only the TRUE edge of every `L.ctx != nil` test
			reached := walkCtxNonNil(g, ctxF, fn, isDoneBuild, b)
			isSel := strings.HasSuffix(kind[b], "Select") || kind[b] == "native select"
			if !reached {
				if isSel {
					c.ok(R, key, p.ipos(b), "whenever L.ctx is non-nil a Done case is added before the select")
				} else {
					c.ok(R, key, p.ipos(b), "only reachable when L.ctx is nil (the context-aware arm uses a select)")
				}
				continue
			}
			c.bad(R, key, p.ipos(b), kind[b]+" can block with a non-nil L.ctx and no receive from L.ctx.Done() among its cases: a script blocked here ignores cancellation")
		}
	}
}

// walkCtxNonNil explores paths from entry on which every test of `L.ctx != nil` succeeded; returns
// true if target is reachable without passing a barrier instruction.
func walkCtxNonNil(g *PCFG, ctxF *types.Var, fn *ssa.Function, barrier func(ssa.Instruction) bool, target ssa.Instruction) bool {
	seen := map[*ssa.BasicBlock]bool{}
	var rec func(b *ssa.BasicBlock) bool
	rec = func(b *ssa.BasicBlock) bool {
		if seen[b] {
			return false
		}
		seen[b] = true
		cut := g.Cut[b]
		for i, in := range b.Instrs {
			if barrier(in) {
				return false
			}
			if in == target {
				return true
			}
			if cut >= 0 && i >= cut {
				return false
			}
		}
		succs := b.Succs
		if iff, ok := b.Instrs[len(b.Instrs)-1].(*ssa.If); ok && len(succs) == 2 {
			if bin, ok := iff.Cond.(*ssa.BinOp); ok {
				isNil := func(x ssa.Value) bool { c, ok := x.(*ssa.Const); return ok && c.Value == nil }
				_, lx := loadsField(bin.X, ctxF)
				_, ly := loadsField(bin.Y, ctxF)
				if (lx && isNil(bin.Y)) || (ly && isNil(bin.X)) {
					if bin.Op == token.NEQ {
						succs = succs[:1]
					} else if bin.Op == token.EQL {
						succs = succs[1:]
					}
				}
			}
		}
		for _, s := range succs {
			if rec(s) {
				return true
			}
		}
		return false
	}
	return rec(fn.Blocks[0])
}

// ruleThreadCtx: kill() cancels a finished thread's own derived context (to release it). NewThread must
// therefore not hang a new thread's context under the creating coroutine's derived context: it derives
// from what the creator's context was derived from (ctxParent) — for a thread whose context was attached
// with SetContext that is the attached context itself (SetContext clears ctxParent) — and records it
// for the next generation (F48, F72).
func ruleThreadCtx(c *Ctx) {
	const R = "R11-threadctx"
	c.floor(R, 4)
	p := c.P
	fn := c.need(R, "lua", "(*LState).NewThread")
	if fn == nil {
		return
	}
	ctxF := p.Field("lua", "LState", "ctx")
	ownerF := p.Field("lua", "LState", "ctxOwner")
	childF := p.Field("lua", "LState", "ctxChildren")
	cancelF := p.Field("lua", "LState", "ctxCancelFn")
	if ctxF == nil || ownerF == nil || childF == nil || cancelF == nil {
		c.und(R, "fields", "-", "LState.ctx / ctxOwner / ctxChildren / ctxCancelFn not found")
		return
	}
	recv := fn.Params[0]
	// (1) lineage: the new context is derived from the creating thread's own context — "no further
	// instruction of that state or of any coroutine created from it completes" once that context is done,
	// whichever of the two kinds it is (attached with SetContext, or handed out with a cancel function)
	n, okc := 0, true
	var site ssa.Instruction = fn.Blocks[0].Instrs[0]
	allInstrs(fn, func(in ssa.Instruction) {
		pk, name, ok := stdCall(in)
		if !ok || pk != "context" || name != "WithCancel" {
			return
		}
		n++
		site = in
		base, isLoad := loadsField(in.(*ssa.Call).Call.Args[0], ctxF)
		if !isLoad || base != ssa.Value(recv) {
			okc = false
		}
	})
	c.check(n > 0 && okc, R, "NewThread:context-derived-from-the-creators-own", p.ipos(site), "the parent of the new thread's context is the creating thread's context", "NewThread derives the new thread's context from something other than the creating thread's own context (the main thread's, or what the creator's was derived from): cancelling the creator's context — the cancel function NewThread returned for it, or a context attached to it with SetContext — does not stop the coroutines it created")
	// (2) the creator is recorded and its count of derived threads goes up on that path
	rec, cnt := false, false
	allInstrs(fn, func(in ssa.Instruction) {
		if st, ok := isFieldStore(in, ownerF); ok && st.Val == ssa.Value(recv) {
			rec = true
		}
		if st, ok := isFieldStore(in, childF); ok && st.Addr.(*ssa.FieldAddr).X == ssa.Value(recv) {
			if b, ok := st.Val.(*ssa.BinOp); ok && b.Op == token.ADD {
				if k, ok := constInt(b.Y); ok && k == 1 {
					cnt = true
				}
			}
		}
	})
	c.check(rec && cnt, R, "NewThread:creator-recorded-and-counted", p.ipos(site), "ctxOwner is the creator and the creator's ctxChildren is incremented", "NewThread does not record the creating thread as the owner of the new thread's context, or does not count the new thread among the creator's derived threads: the creator's context is released when the creator finishes, and a coroutine that outlives its creator fails with 'context canceled' although the attached context is live")
	// (3) kill releases a derived context only when no live thread was derived from it, and hands the
	// release on to the owner
	if kf := c.need(R, "lua", "(*LState).kill"); kf != nil {
		g := p.G(kf)
		guarded, found, passesOn := true, false, false
		deadGuard := true
		deadF := p.Field("lua", "LState", "Dead")
		allInstrs(kf, func(in ssa.Instruction) {
			cl, ok := in.(*ssa.Call)
			if ok && cl.Call.StaticCallee() == nil && !cl.Call.IsInvoke() {
				// a call through a function value: the cancel function
				if owner, isLoad := loadsField(cl.Call.Value, cancelF); isLoad {
					found = true
					zero := false
					for _, cd := range g.expandAnd(g.CondsAtInstr(cl)) {
						if b, ok := cd.V.(*ssa.BinOp); ok {
							// the count that is tested is the count of the thread whose context is released
							o1, l1 := loadsField(b.X, childF)
							o2, l2 := loadsField(b.Y, childF)
							l1 = l1 && o1 == owner
							l2 = l2 && o2 == owner
							k1, c1 := constInt(b.X)
							k2, c2 := constInt(b.Y)
							if (l1 && c2 && k2 == 0 || l2 && c1 && k1 == 0) && ((eqHolds(b, cd)) || (b.Op == token.NEQ && !cd.Sense) || (b.Op == token.LEQ && cd.Sense && l1) || (b.Op == token.GTR && !cd.Sense && l1)) {
								zero = true
							}
						}
					}
					if !zero {
						guarded = false
					}
					// …and that thread is dead itself (the loop moves on to the owners: a live owner whose last
					// derived thread has just ended keeps its context)
					dead := false
					for _, cd := range g.expandAnd(g.CondsAtInstr(cl)) {
						if o, isLoad := loadsField(cd.V, deadF); isLoad && o == owner && cd.Sense {
							dead = true
						}
					}
					if !dead {
						deadGuard = false
					}
				}
			}
			if st, ok := isFieldStore(in, childF); ok {
				if b, ok := st.Val.(*ssa.BinOp); ok && b.Op == token.SUB {
					if k, ok := constInt(b.Y); ok && k == 1 {
						passesOn = true
					}
				}
			}
		})
		c.check(found && deadGuard, R, "kill:releases-only-the-context-of-a-dead-thread", p.pos(kf.Pos()), "the cancel function is called under Dead of the same thread", "kill cancels the derived context of a thread it has not found dead: walking up the owners after a coroutine ended, it cancels the context of the still running coroutine that created it as soon as that one has no other derived thread — the creator fails with 'context canceled' on its next instruction although the attached context is live")
		c.check(found && guarded, R, "kill:releases-only-a-context-without-live-descendants", p.pos(kf.Pos()), "the cancel function is called under ctxChildren == 0", "kill cancels a thread's derived context although threads derived from it may still be alive: a coroutine created inside another coroutine fails with 'context canceled' as soon as its creator has finished")
		c.check(passesOn, R, "kill:release-is-handed-to-the-owner", p.pos(kf.Pos()), "the owner's ctxChildren is decremented when a derived context is released", "kill never takes a released thread off its owner's count: the owner's derived context is never released (one registered child context per finished coroutine stays in the attached context for ever)")
	}
}
