package main

// C06 — coroutines: resume guards, error arms agree, kill flags.

import (
	"fmt"
	"go/token"
	"sort"

	"golang.org/x/tools/go/ssa"
)

func init() {
	register(&propInfo{
		ID:    "C06",
		Title: "Coroutines transfer values and control exactly as Lua 5.1 coroutines",
		Explanation: "Decided: R06-guard — every call of threadRun(th) (coroutine.resume, LState.Resume) is dominated by the running-thread and dead-thread tests on that same thread with non-continuing arms ('a dead or running coroutine is never resumed'), and the resumer is recorded (Parent, CurrentThread) before the switch; " +
			"R06-release — in threadRun's deferred closure every arm taken when a panic was recovered and a resumer exists kills the thread and hands control back (switchToParentThread(…, kill=true) or the equivalent stores) before it re-raises or returns: the wrapped and plain arms must agree ('an error inside a coroutine kills only that coroutine … leaving the resumer's own state untouched'); " +
			"R06-killarg — constant arguments of every switchToParentThread call: kill=false only at the yield site (dominated by a negative host-function result), true at body termination and on error; haserror=true only in threadRun; switchToParentThread restores CurrentThread and clears Parent on every path; Status derives its four answers from Dead / CurrentThread / Parent in that priority. " +
			"R06-resumeapi — the Go-side Resume removes what the coroutine handed over from the resumer's stack on every return path (SetTop(top) with the top taken before the switch), so a failed or yielding coroutine leaves the resumer's own stack untouched. NOT decided: payload transfer counts/order, register offsets in switchToParentThread, per-thread state isolation.",
		Trusted: []string{},
		Rules:   []func(*Ctx){ruleCanHoldAgreesWithResize, rulePadCountIsCMinusOne, ruleYieldHandsOverExactlyItsValues, ruleXMoveAbsolute, ruleThreadCtx, ruleResumeRefusesBeforeItPushes, ruleParenthesisedReturnCount, ruleYieldRoomCoversPushes, ruleResumeGuard, ruleRelease, ruleKillArg, ruleResumeApi, ruleDeadThreadPush, ruleResumePadField, ruleRaiseOnOwnState, ruleResumeConvention, ruleBaseFramePassedOn, ruleYieldHandOver, ruleResumeFinishDecision, ruleInlineCopies, ruleYieldRoomForOwnConvention, ruleResumeRoomChecked},
	})
}

func ruleResumeGuard(c *Ctx) {
	const R = "R06-guard"
	c.floor(R, 13)
	p := c.P
	trun := p.Fn("lua", "threadRun")
	deadF := p.Field("lua", "LState", "Dead")
	curF := p.Field("lua", "Global", "CurrentThread")
	parentF := p.Field("lua", "LState", "Parent")
	if trun == nil {
		c.und(R, "anchor:threadRun", "-", "not found")
		return
	}
	n := 0
	for _, fn := range p.srcFuncs {
		for _, cl := range callsTo(fn, trun) {
			n++
			c.touch(fn)
			g := p.G(fn)
			th := cl.Call.Args[0]
			dead, running := false, false
			for _, cd := range g.CondsAtInstr(cl) {
				if base, ok := loadsField(cd.V, deadF); ok && !cd.Sense && vkey(base) == vkey(th) {
					dead = true
				}
				if b, ok := cd.V.(*ssa.BinOp); ok && ((neHolds(b, cd)) || (b.Op == token.NEQ && cd.Sense)) {
					_, lx := loadsField(b.X, curF)
					_, ly := loadsField(b.Y, curF)
					if (lx && vkey(b.Y) == vkey(th)) || (ly && vkey(b.X) == vkey(th)) {
						running = true
					}
				}
			}
			c.check(dead, R, fname(fn)+":not-dead", p.ipos(cl), "resume is reached only when th.Dead is false", "a dead coroutine can be resumed (threadRun is not guarded by the Dead test on that thread)")
			c.check(running, R, fname(fn)+":not-running", p.ipos(cl), "resume is reached only when th is not the running thread", "the running coroutine can be resumed (threadRun is not guarded by the CurrentThread test)")
			// …and only when it is not 'normal' (waiting for a coroutine it resumed): the guard compares the
			// result of Status(th) with "normal" (F46: unguarded, two coroutines resumed each other until the
			// Go stack overflowed)
			normal := false
			statusFn := p.Fn("lua", "(*LState).Status")
			for _, cd := range g.CondsAtInstr(cl) {
				if b, ok := cd.V.(*ssa.BinOp); ok && ((neHolds(b, cd)) || (b.Op == token.NEQ && cd.Sense)) {
					for _, pair := range [][2]ssa.Value{{b.X, b.Y}, {b.Y, b.X}} {
						sc, isCall := pair[0].(*ssa.Call)
						str, isStr := constStr(pair[1])
						if isCall && isStr && str == "normal" && sc.Call.StaticCallee() == statusFn && vkey(sc.Call.Args[1]) == vkey(th) {
							normal = true
						}
					}
				}
			}
			// …and only below a nesting bound: every nested resume runs on the Go stack of its resumer, which
			// the call-stack limit does not cover (F47)
			bounded := false
			if lim, ok := p.intConst("lua", "maxResumeDepth"); ok {
				for _, cd := range g.CondsAtInstr(cl) {
					if b, ok := cd.V.(*ssa.BinOp); ok {
						op := b.Op
						if !cd.Sense {
							op = negate(op)
						}
						if k, ok := constInt(b.Y); ok && k == lim && (op == token.LSS || op == token.LEQ) {
							if _, isPhi := stripConv(b.X).(*ssa.Phi); isPhi {
								bounded = true
							}
						}
					}
				}
			}
			c.check(bounded, R, fname(fn)+":nesting-bounded", p.ipos(cl), "resume is reached only below maxResumeDepth nested resumes", "the nesting of resumes is not bounded: a function that creates and resumes a coroutine running itself recurses on the Go stack until the runtime kills the process (the call-stack limit is per coroutine)")
			c.check(normal, R, fname(fn)+":not-normal", p.ipos(cl), "resume is reached only when th is not waiting for a coroutine it resumed", "a 'normal' coroutine (one that resumed the running coroutine, directly or not) can be resumed: A resumes B, B resumes A, … recurses on the Go stack until the process dies")
			// resumer recorded before the switch
			okP, okC := false, false
			allInstrs(fn, func(in ssa.Instruction) {
				if st, ok := isFieldStore(in, parentF); ok && g.Dominates(in, cl) && vkey(st.Addr.(*ssa.FieldAddr).X) == vkey(th) {
					okP = true
				}
				if st, ok := isFieldStore(in, curF); ok && g.Dominates(in, cl) && vkey(st.Val) == vkey(th) {
					okC = true
				}
			})
			// …and only once nothing can fail any more: between the store that makes th the running thread and
			// the switch no call can raise (handing the arguments over, setting the first frame up and padding
			// can overflow the registry; a raise after the store leaves th 'running' for ever, F74)
			var lateRaise ssa.Instruction
			var via string
			allInstrs(fn, func(in ssa.Instruction) {
				if _, ok := isFieldStore(in, curF); !ok || !g.Dominates(in, cl) {
					return
				}
				b, i := after(in)
				g.walk(b, i, func(x ssa.Instruction) bool { return x == ssa.Instruction(cl) }, func(x ssa.Instruction) bool {
					if may, v := p.siteMayRaise(x); may && lateRaise == nil {
						lateRaise, via = x, v
					}
					return false
				})
			})
			rpos := p.ipos(cl)
			if lateRaise != nil {
				rpos = p.ipos(lateRaise)
			}
			c.check(lateRaise == nil, R, fname(fn)+":becomes-current-after-the-last-raising-step", rpos, "no raising call lies between CurrentThread = th and the switch", fname(fn)+" makes th the current thread and then calls "+via+", which can raise (registry overflow while the arguments are handed over): the error unwinds to the resumer's pcall but G.CurrentThread and th.Parent stay set — coroutine.status(th) answers 'running' although nothing runs it")
			c.check(okP && okC, R, fname(fn)+":records-resumer", p.ipos(cl), "th.Parent and G.CurrentThread are set before the switch", "the resumer is not recorded (Parent / CurrentThread) before control is transferred: yield cannot find its way back")
		}
	}
	if n < 2 {
		c.und(R, "threadRun-callers", "-", fmt.Sprintf("expected 2 resume sites, found %d", n))
	}
	// Status: 'normal' is decided by walking the resumer chain of the running thread, not by looking at the
	// direct resumer only
	if st := c.need(R, "lua", "(*LState).Status"); st != nil {
		sg := p.G(st)
		walks := false
		for _, li := range sg.loops() {
			if li.Class == "chain" {
				walks = true
			}
		}
		c.check(walks, R, "Status:normal-walks-resumer-chain", p.pos(st.Pos()), "the resumer chain (Parent links) is followed to the end", "Status looks only at the direct resumer: with A resuming B resuming C, status(A) seen from C is 'suspended' instead of 'normal' (and such a thread passes the resume guard)")
	}
}

func ruleRelease(c *Ctx) {
	const R = "R06-release"
	c.floor(R, 2)
	p := c.P
	p.computeNoReturn()
	trun := c.need(R, "lua", "threadRun")
	if trun == nil {
		return
	}
	sw := p.Fn("lua", "switchToParentThread")
	curF := p.Field("lua", "Global", "CurrentThread")
	parentF := p.Field("lua", "LState", "Parent")
	withClosures(trun, func(fn *ssa.Function) {
		if fn == trun || len(recoverCalls(fn)) == 0 {
			return
		}
		c.touch(fn)
		g := p.G(fn)
		// arms with a resumer: blocks whose single effective predecessor tests Parent != nil (true edge)
		var armEntry *ssa.BasicBlock
		for _, b := range fn.Blocks {
			if !g.Reach[b] || len(b.Instrs) == 0 {
				continue
			}
			iff, ok := b.Instrs[len(b.Instrs)-1].(*ssa.If)
			if !ok {
				continue
			}
			bin, ok := iff.Cond.(*ssa.BinOp)
			if !ok {
				continue
			}
			if _, isP := loadsField(bin.X, parentF); isP {
				if bin.Op == token.NEQ {
					armEntry = b.Succs[0]
				} else if bin.Op == token.EQL {
					armEntry = b.Succs[1]
				}
			}
		}
		if armEntry == nil {
			c.und(R, fname(fn)+":resumer-arm", p.pos(fn.Pos()), "cannot find the 'Parent != nil' arm")
			return
		}
		isRelease := func(in ssa.Instruction) bool {
			if isCallTo(in, sw) {
				if k, ok := constBool(in.(*ssa.Call).Call.Args[3]); ok && k {
					return true
				}
			}
			if _, ok := isFieldStore(in, curF); ok {
				return true
			}
			return false
		}
		isExit := func(in ssa.Instruction) bool { return isReturn(in) || p.isAxiomCall(in) }
		okc, hit := g.MustPassBefore(armEntry, 0, isRelease, isExit)
		pos := p.pos(fn.Pos())
		if hit != nil {
			pos = p.ipos(hit)
		}
		c.check(okc, R, fname(fn)+":every-error-arm-releases", pos, "every arm with a resumer kills the thread and restores CurrentThread before leaving",
			"an error arm of threadRun leaves (re-raises in the resumer) without killing the coroutine and without restoring G.CurrentThread/Parent: afterwards coroutine.status reports the dead coroutine as 'running' and coroutine.running() in the resumer returns it")
		// kill on every such arm
		killFn := p.Fn("lua", "(*LState).kill")
		isKill := func(in ssa.Instruction) bool {
			if isCallTo(in, killFn) {
				return true
			}
			if isCallTo(in, sw) {
				if k, ok := constBool(in.(*ssa.Call).Call.Args[3]); ok && k {
					return true
				}
			}
			return false
		}
		okk, hit2 := g.MustPassBefore(armEntry, 0, isKill, isExit)
		pos = p.pos(fn.Pos())
		if hit2 != nil {
			pos = p.ipos(hit2)
		}
		c.check(okk, R, fname(fn)+":every-error-arm-kills", pos, "the failed coroutine is marked dead on every arm", "an error arm leaves the failed coroutine alive (not Dead): it can be resumed again")
	})
}

func ruleKillArg(c *Ctx) {
	const R = "R06-killarg"
	c.floor(R, 7)
	p := c.P
	sw := c.need(R, "lua", "switchToParentThread")
	if sw == nil {
		return
	}
	n := 0
	for _, fn := range p.srcFuncs {
		for _, cl := range callsTo(fn, sw) {
			n++
			c.touch(fn)
			g := p.G(fn)
			hasErr, ok1 := constBool(cl.Call.Args[2])
			kill, ok2 := constBool(cl.Call.Args[3])
			key := fmt.Sprintf("%s:switch#%d", fname(fn), countKey(c, R, fname(fn)))
			if !ok1 || !ok2 {
				c.und(R, key, p.ipos(cl), "non-constant haserror/kill argument")
				continue
			}
			inThreadRun := false
			for f := fn; f != nil; f = f.Parent() {
				if f.Name() == "threadRun" {
					inThreadRun = true
				}
			}
			// yield site: dominated by gfnret < 0
			yield := false
			for _, cd := range g.CondsAtInstr(cl) {
				if b, ok := cd.V.(*ssa.BinOp); ok && b.Op == token.LSS && cd.Sense {
					if k, ok := constInt(b.Y); ok && k == 0 {
						yield = true
					}
				}
			}
			if yield {
				// only the coroutine's base loop (baseframe == nil, entered by threadRun) may suspend: a loop
				// entered through callR sits above Go frames of a host function or a metamethod dispatch
				// that cannot be suspended, and returning from it as if the call had finished corrupts both threads
				baseOnly := false
				for _, cd := range g.CondsAtInstr(cl) {
					if b, ok := cd.V.(*ssa.BinOp); ok {
						pm, isP := b.X.(*ssa.Parameter)
						k, isC := b.Y.(*ssa.Const)
						if isP && isC && k.IsNil() && len(paramsOfType(fn, "*callFrame")) == 1 && pm == paramsOfType(fn, "*callFrame")[0] {
							if (b.Op == token.NEQ && !cd.Sense) || (eqHolds(b, cd)) {
								baseOnly = true
							}
						}
					}
				}
				c.check(baseOnly, R, key+":yield-only-from-base-loop", p.ipos(cl), "a yield switches threads only in the loop threadRun entered (baseframe == nil)", "the yield site switches to the parent thread whatever loop it runs in: a yield inside pcall or a metamethod returns from the nested loop as if the call had finished, and the next resume dereferences a nil frame (F28)")
				gt := p.Fn("lua", "(*LState).GetTop")
				cnt, isCall := cl.Call.Args[1].(*ssa.Call)
				c.check(isCall && cnt.Call.StaticCallee() == gt && vkey(cnt.Call.Args[0]) == vkey(cl.Call.Args[0]), R, key+":yield-transfers-whole-stack", p.ipos(cl),
					"a yield hands over everything the host function left on its stack (GetTop())", "the yield site does not transfer GetTop() values: a host function that yields more (or fewer) values than it received loses payload and leaves stale values in the coroutine's registers")
			}
			if fname(fn) == "callGFunction" && kill && !yield {
				// the host function that was a coroutine's last frame ends the coroutine — whether its body tail
				// called it or it is the body itself (F62): the site does not depend on the tail-call flag
				dependsOnFlag := false
				for _, cd := range g.CondsAtInstr(cl) {
					if pm, ok := cd.V.(*ssa.Parameter); ok && len(paramsOfType(fn, "bool")) > 0 && pm == paramsOfType(fn, "bool")[0] {
						dependsOnFlag = true
					}
					if ph, ok := cd.V.(*ssa.Phi); ok {
						for _, e := range ph.Edges {
							if pm, ok := e.(*ssa.Parameter); ok && len(paramsOfType(fn, "bool")) > 0 && pm == paramsOfType(fn, "bool")[0] {
								dependsOnFlag = true
							}
						}
					}
				}
				c.check(!dependsOnFlag, R, key+":ends-coroutine-for-any-last-host-frame", p.ipos(cl), "reached for every host function that is the coroutine's only frame", "callGFunction ends the coroutine only when the host function was tail called: a coroutine whose body is itself a host function (coroutine.create(print)) never hands its results back and stays 'running'")
			}
			okc := true
			why := ""
			if hasErr != inThreadRun {
				okc, why = false, "haserror must be true exactly in threadRun's error arm"
			}
			if yield && kill {
				okc, why = false, "the yield site must not kill the coroutine"
			}
			if !yield && !kill {
				okc, why = false, "only the yield site (negative host-function result) may keep the coroutine alive"
			}
			c.check(okc, R, key, p.ipos(cl), fmt.Sprintf("haserror=%v kill=%v (yield site: %v)", hasErr, kill, yield), why+fmt.Sprintf(" (haserror=%v kill=%v yield-site=%v)", hasErr, kill, yield))
		}
	}
	c.check(n >= 4, R, "switch-sites", "-", fmt.Sprintf("%d call sites", n), "expected at least 4 switchToParentThread call sites")
	// switchToParentThread restores CurrentThread, clears Parent, kills when asked
	g := p.G(sw)
	curF := p.Field("lua", "Global", "CurrentThread")
	parentF := p.Field("lua", "LState", "Parent")
	okCur, _ := g.MustPassBefore(sw.Blocks[0], 0, func(in ssa.Instruction) bool {
		st, ok := isFieldStore(in, curF)
		if !ok {
			return false
		}
		_, isParent := loadsField(st.Val, parentF)
		return isParent
	}, isReturn)
	c.check(okCur, R, "switchToParentThread:restores-CurrentThread", p.pos(sw.Pos()), "G.CurrentThread = L.Parent on every returning path", "switchToParentThread does not make the resumer the current thread")
	okPar, _ := g.MustPassBefore(sw.Blocks[0], 0, func(in ssa.Instruction) bool {
		st, ok := isFieldStore(in, parentF)
		if !ok {
			return false
		}
		cst, isC := st.Val.(*ssa.Const)
		return isC && cst.Value == nil
	}, isReturn)
	c.check(okPar, R, "switchToParentThread:clears-Parent", p.pos(sw.Pos()), "L.Parent = nil on every returning path", "switchToParentThread leaves Parent set: status reports 'normal' for a suspended coroutine")
	killFn := p.Fn("lua", "(*LState).kill")
	okKill := false
	for _, cl := range callsTo(sw, killFn) {
		for _, cd := range g.CondsAtInstr(cl) {
			if pm, ok := cd.V.(*ssa.Parameter); ok && cd.Sense && len(paramsOfType(sw, "bool")) == 2 && pm == paramsOfType(sw, "bool")[1] { // (L, nargs, haserror, kill)
				okKill = true
			}
		}
	}
	c.check(okKill, R, "switchToParentThread:kill-when-asked", p.pos(sw.Pos()), "kill() exactly under the kill flag", "switchToParentThread ignores (or inverts) its kill flag")
	// kill sets Dead
	if killFn != nil {
		deadF := p.Field("lua", "LState", "Dead")
		okD := false
		allInstrs(killFn, func(in ssa.Instruction) {
			if st, ok := isFieldStore(in, deadF); ok {
				if b, isc := constBool(st.Val); isc && b && in.Block() == killFn.Blocks[0] {
					okD = true
				}
			}
		})
		c.check(okD, R, "kill:sets-Dead", p.pos(killFn.Pos()), "kill() marks the thread dead unconditionally", "kill() does not mark the thread dead")
	}
	// Status priorities
	if fn := c.need(R, "lua", "(*LState).Status"); fn != nil {
		gs := p.G(fn)
		deadF := p.Field("lua", "LState", "Dead")
		got := map[string]string{}
		describe := func(conds []Cond) string {
			desc := ""
			for _, cd := range conds {
				if !cd.Sense {
					continue
				}
				if _, ok := loadsField(cd.V, deadF); ok {
					desc = "Dead"
				}
				if b, ok := cd.V.(*ssa.BinOp); ok && b.Op == token.EQL {
					if _, ok := loadsField(b.X, curF); ok && desc == "" {
						desc = "CurrentThread==th"
					}
					if _, ok := loadsField(b.X, parentF); ok && desc == "" {
						desc = "Parent==th"
					}
				}
			}
			if desc == "" {
				desc = "otherwise"
			}
			return desc
		}
		allInstrs(fn, func(in ssa.Instruction) {
			// the early-return spelling: `return "dead"` under the same tests
			if r, isRet := in.(*ssa.Return); isRet && len(r.Results) == 1 {
				if s, isK := constStr(r.Results[0]); isK {
					got[s] = describe(gs.CondsAt(in.Block()))
				}
				return
			}
			ph, ok := in.(*ssa.Phi)
			if !ok {
				return
			}
			for i, e := range ph.Edges {
				s, ok := constStr(e)
				if !ok {
					continue
				}
				conds := gs.CondsOnEdge(ph.Block().Preds[i], ph.Block())
				desc := ""
				for _, cd := range conds {
					if !cd.Sense {
						continue
					}
					if _, ok := loadsField(cd.V, deadF); ok {
						desc = "Dead"
					}
					if b, ok := cd.V.(*ssa.BinOp); ok && b.Op == token.EQL {
						if _, ok := loadsField(b.X, curF); ok && desc == "" {
							desc = "CurrentThread==th"
						}
						if _, ok := loadsField(b.X, parentF); ok && desc == "" {
							desc = "Parent==th"
						}
					}
				}
				if desc == "" {
					desc = "otherwise"
				}
				got[s] = desc
			}
		})
		want := map[string]string{"dead": "Dead", "running": "CurrentThread==th", "normal": "Parent==th", "suspended": "otherwise"}
		okS := true
		for s, w := range want {
			if got[s] != w {
				okS = false
			}
		}
		c.check(okS, R, "Status:table", p.pos(fn.Pos()), "dead ← Dead, running ← CurrentThread, normal ← Parent, suspended otherwise", fmt.Sprintf("coroutine.status derives its answers differently: %v", got))
	}
}

// ruleResumeApi: LState.Resume receives (ok, values…) on the resumer's stack from switchToParentThread,
// copies them out and must drop them again: every return after threadRun passes SetTop(top), top being
// the stack height read before the switch.
func ruleResumeApi(c *Ctx) {
	const R = "R06-resumeapi"
	c.floor(R, 3)
	p := c.P
	fn := c.need(R, "lua", "(*LState).Resume")
	if fn == nil {
		return
	}
	g := p.G(fn)
	run := p.Fn("lua", "threadRun")
	setTop := p.Fn("lua", "(*LState).SetTop")
	getTop := p.Fn("lua", "(*LState).GetTop")
	runs := callsTo(fn, run)
	if len(runs) != 1 {
		c.und(R, "Resume:threadRun", p.pos(fn.Pos()), "expected exactly one threadRun call in Resume")
		return
	}
	isRestore := func(in ssa.Instruction) bool {
		if !isCallTo(in, setTop) {
			return false
		}
		cl := in.(*ssa.Call)
		if cl.Call.Args[0] != fn.Params[0] {
			return false
		}
		tv, ok := stripConv(cl.Call.Args[1]).(*ssa.Call)
		return ok && tv.Call.StaticCallee() == getTop && tv.Call.Args[0] == fn.Params[0] && g.Dominates(tv, runs[0])
	}
	b, i := after(runs[0])
	okc, witness := g.MustPassBefore(b, i, isRestore, isReturn)
	pos := p.ipos(runs[0])
	if witness != nil {
		pos = p.ipos(witness)
	}
	// F44: the values of a resume are the results of the pending yield; both resume paths pad them with nil
	// up to the count the yielding call expects (registers above the stack top hold Go nil, not LNil)
	pad := p.Fn("lua", "(*LState).padResumeValues")
	// the resume entry points: every function of the package that runs a thread
	var resumers []*ssa.Function
	for _, f := range p.srcFuncs {
		if f.Pkg != nil && f.Pkg.Pkg.Path() == luaPath && len(callsTo(f, run)) > 0 {
			resumers = append(resumers, f)
		}
	}
	sort.Slice(resumers, func(i, j int) bool { return fname(resumers[i]) < fname(resumers[j]) })
	if len(resumers) < 2 || pad == nil {
		c.und(R, "pads-resume-values", "-", "fewer than two callers of threadRun, or padResumeValues not found")
	}
	for _, rf := range resumers {
		name := fname(rf)
		if pad == nil {
			continue
		}
		rg := p.G(rf)
		okPad := false
		var site ssa.Instruction
		for _, pc := range callsTo(rf, pad) {
			site = pc
			for _, tr := range callsTo(rf, run) {
				b, i := after(pc)
				if rg.walk(b, i, nil, func(in ssa.Instruction) bool { return in == ssa.Instruction(tr) }) {
					okPad = true
				}
			}
		}
		ppos := p.pos(rf.Pos())
		if site != nil {
			ppos = p.ipos(site)
		}
		c.Sites++
		c.check(okPad, R, name+":pads-resume-values", ppos, "the resume values are padded to the expected result count before the thread runs", name+" hands the resume values to a suspended coroutine without padding them to the number of results the pending yield expects: 'local a, b = coroutine.yield()' resumed with one value leaves b a Go nil (nil-pointer panic on first use)")
	}
	c.check(okc, R, "Resume:restores-resumer-stack", pos, "every return after the switch passes SetTop(top)", "LState.Resume can return without dropping the values the coroutine handed over (SetTop(top) is skipped on a path): after a failed resume the resumer's stack keeps (false, error) — GetTop() and positive indices of the calling host function are off by two, repeated failures overflow the registry")
}
